#!/usr/bin/env python3
"""Regenerate /verif/MANIFEST.json from tools/propconf.py (claimed checks) and properties.jsonl."""
import json, os, sys
HERE = os.path.dirname(os.path.abspath(__file__))
sys.path.insert(0, HERE)
import propconf
V = os.path.dirname(HERE)
props = [json.loads(l) for l in open(os.path.join(V, "properties.jsonl"))]
claimed = [p for p in propconf.PROPS if propconf.PROPS[p].get("claimed")]
m = {
    "version": 1,
    "setup_cmd": "./check --setup",
    "hooks": {"guard": "CLIPPER2_VERIF",
              "enable": "harnesses are compiled by ./check from /repo's working tree with -DCLIPPER2_VERIF (g++ -std=c++17 -O1 -fsanitize=address,undefined); the library's own build never defines it",
              "baseline_off_cmd": "/verif/tools/baseline_off.sh",
              "source_commits": propconf.HOOK_COMMITS, "add_only": True},
    "engines": [{"name": "lean-proof+correspondence", "path": "/verif/check", "serves_properties": sorted(claimed),
                 "kind_free_text": "Lean 4 theorems over models that are regenerated from /repo (tools/cpp2lean.py) or validated against it by differential correspondence on every run; exact-arithmetic Lean Spec as oracle"}],
    "checks": [],
    "not_applicable": [],
    "notes": "See DESIGN.md. Every check: ./check <id> [--tier quick|thorough]; replay: ./check <id> --replay <file>.",
}
for p in props:
    pid = p["id"]
    if pid in claimed:
        c = propconf.PROPS[pid]
        m["checks"].append({
            "property_id": pid, "quick_cmd": "./check %s --tier quick" % pid, "thorough_cmd": "./check %s --tier thorough" % pid,
            "evidence_file": "/verif/evidence/%s.json" % pid, "replay_cmd_template": "./check %s --replay {path}" % pid,
            "engine": "lean-proof+correspondence",
            "level_claimed": {"category": c["level"], "text": c["level_text"], "design_ref": "DESIGN.md §5 " + pid},
            "level_note": c["level_note"], "technique": c["technique"]})
    else:
        m["not_applicable"].append({"property_id": pid, "reason": propconf.NOT_CLAIMED.get(pid, "check under construction in this round; not claimed until its model, theorems and correspondence exist")})
json.dump(m, open(os.path.join(V, "MANIFEST.json"), "w"), indent=1)
print("claimed:", sorted(claimed))
