"""Per-property configuration of ./check (harnesses, Lean targets, evidence texts)."""

LEAN_TB = "Lean 4.33 kernel; axioms propext, Classical.choice, Quot.sound only (audited by #print axioms on every run); no sorry/native_decide/bv_decide"
AEL_TB = ["Model/Ael.lean is a hand model of the bookkeeping of SetWindCountFor...PathEdge / InsertLocalMinimaIntoAEL / IntersectEdges / DoMaxima, tied by replaying hook-H1 traces of the real engine (AELVERIFY: every op accepted, invariant after every op, every snapshot equal field by field); only IsContributingClosed/IsContributingOpen are generated from source",
          "geometry is an input of the model: that the sweep presents events in an order keeping the AEL sorted (IsValidAelOrder, intersect list, TopX), intersection rounding and ring assembly are NOT covered by the theorems; they are covered by the spec-level correspondence against exact winding numbers",
          "hot = outrec != nullptr || join_with != NoJoin (joins/Split abstracted); wind counts are mathematical Int"]
T_TB = "tools/cpp2lean.py: clang-14 JSON AST -> Lean translation of the listed functions (signed C++ integers as Int, uint64_t as UInt64); validated on every run by executing generated definitions against the compiled code"
C_TB = "correspondence harness (sampling): a divergence on inputs never generated is not seen"

import extract_calls
EXTRA_GENERATORS = [extract_calls.generate]
HOOK_COMMITS = ["eb1b8d2 verif hook H1: guarded (CLIPPER2_VERIF) active-edge-list bookkeeping events in clipper.engine.cpp"]
NOT_CLAIMED = {}


PROPS = {
    "C18": dict(
        claimed=True,
        level_text="Theorems: Multiply exact for all 2^128 inputs; ProductsAreEqual/CrossProductSign/IsCollinear exact on both code paths (definitions regenerated from the source on every run); PointInPolygon model total and equal to the even-odd Spec for every polygon not contained in the point's horizontal line; Area loop = shoelace for every length; idealised GetSegmentIntersectPt exact on parallelism, on segment 1 and within one unit. The double computations are tied to these by bit-exact and spec-level correspondence",
        level_note="Lean kernel; cpp2lean translator; correspondence harness; std::abs(INT64_MIN) precondition on the portable branch; IEEE exactness below 2^53; GetSegmentIntersectPt accuracy beyond 2^25 is judged by correspondence on well-conditioned pairs only (see known findings)",
        technique="Lean 4 theorems over source-regenerated definitions and hand models + differential correspondence",
        audits=["C18", "C18Geom"],
        level="proof",
        harnesses=[dict(src="C18.cpp", portable=True),
                   dict(src="C18.cpp", portable=True, name="C18-hi", flags=["-DCLIPPER2_HI_PRECISION=1"])],
        lean_targets=["ClipperVerif.Props.C18", "ClipperVerif.Props.C18Geom"],
        trusted_base=[LEAN_TB, T_TB, C_TB,
                      "IEEE-754 double arithmetic on integers below 2^53 is exact: PointInPolygon's CrossProduct is modelled over Int (theorem crossProduct_fits_double shows every intermediate is <= 2^53 for |coord| <= 2^25; the harness runs the Float instantiation PIPF next to the Int model PIP on every case)",
                      "PointInPolygon / Area / GetSegmentIntersectPt are hand-written models (Model/Geom.lean) tied to the compiled code by output-level correspondence only (bit-exact Float models AREAF, GSIP, GSIPH; Int models PIP, AREA2)",
                      "GetSegmentIntersectPt theorems are about the idealisation gsipIdeal (exact rational t, exact truncation); the double computation is related to it by the spec-level check SPEC_GSIP (within 1+2^-20 per axis for |coord| <= 2^25, within 1+2^-4 for well-conditioned pairs up to 2^40), not by proof",
                      "Area over doubles: theorem is about the exact integer sum; rounding is judged per run by SPEC_AREA with the forward error bound (n+3)*2^-53*sum|terms|",
                      "std::abs(INT64_MIN) is undefined: the portable-branch theorems carry that precondition"],
        rule="predicates: boundary lattice {0,±1,±2,±2^31,±2^32,±2^61,2^62-1,INT64 extremes} (exhaustive 4-tuples in thorough) plus random magnitudes 2^4..2^61 and forced equal products / collinear triples. PointInPolygon: every triangle (thorough: every quadrilateral) on the 3x3 lattice against every point of the 5x5 lattice, random 3-12-gons on small lattices with many vertices on the query line, horizontal runs through the point, points on vertices/edges, leading on-line vertices, one-horizontal-line polygons, repeated vertices, star polygons, each also scaled/offset to |coord| = 2^25, random magnitudes to 2^25 (Int model + Spec) and to 2^52 (double model only). Area: lengths 0-13 of both parities, magnitudes 5..2^61, stars, collinear, duplicates, spikes, range extremes. GetSegmentIntersectPt: random, exactly parallel/collinear, nearly parallel, zero length, shared end points, lattice crossings, axis-parallel, magnitudes 8..2^61; the spec-level accuracy check runs for |coord| <= 2^25 (all pairs) and for |coord| <= 2^40 only on well-conditioned (|det| >= 2^-10 |d1||d2|) or exactly parallel pairs (nearly parallel pairs at large magnitude are known finding 8 and run at model level only); both CLIPPER2_HI_PRECISION settings are built. A case is distinct by its request line.",
        explanation="Theorems: Multiply exact for all 2^128 inputs; ProductsAreEqual/CrossProductSign/IsCollinear exact on both code paths (generated from source each run); PointInPolygon model terminates without fault on every input and equals Spec.pipEvenOdd for every polygon with >= 3 vertices and a vertex off the horizontal line through the point (pointInPolygon_exact), IsOutside on the excluded inputs; Area's two-at-a-time loop equals shoelace2 for every length; idealised GetSegmentIntersectPt reports parallelism exactly, its point lies on both lines, the result is within one unit per axis and inside the bounding box of segment 1. Correspondence: generated definitions, the hand models and the exact integer/rational Spec against the compiled functions (128-bit and portable branches; HI_PRECISION on and off).",
    ),
    "C01": dict(
        claimed=True,
        level_text="Theorems (all inputs, all histories): the fill-rule x clip-type decision table equals 'the filled state differs across the edge' (over the definition regenerated from source), wind counts stored at insertion are the prefix-sum encodings, the invariant (counts + hot iff contributing) holds after every op sequence, and in every such state hot edges delimit exactly the gaps where inR holds (coverage_1d). Partial for the whole property: event ordering, intersection rounding and ring assembly are decided by spec-level correspondence of real outputs against exact winding numbers in Lean",
        level_note="Lean kernel; cpp2lean for the decision functions; hand bookkeeping model tied by H1 trace replay; geometry as model input; sampling for the spec-level part",
        technique="Lean 4 invariant proof over op sequences + source-regenerated decision table + trace refinement check + exact winding-number oracle",
        level="proof",
        lean_targets=["ClipperVerif.Props.C01"],
        harnesses=[dict(src="C01.cpp", name="C01"), dict(src="C01.cpp", name="C01hp", flags=["-DCLIPPER2_HI_PRECISION=1"])],
        trusted_base=[LEAN_TB, T_TB, C_TB] + AEL_TB,
        rule="general-position inputs (premise re-verified exactly in Lean, margin 3 units) x 16 (ct,fr) x random PreserveCollinear/ReverseSolution x paths/polytree; probes along edges, around vertices and crossings and random; a record is non-trivial when the Lean side judged it (not `notgp`)",
        explanation="",
    ),
    "C13": dict(
        claimed=True,
        level_text="Theorems: set algebra of inR (symmetry, negation/Positive-Negative exchange, Xor = Union minus Intersection, Difference/Intersection partition), invariance of the Spec winding number under translation, scaling, mirroring, path order, start rotation, duplicate and closing vertices, reversal; and on the bookkeeping model, exchanging path types / negating all directions commutes with every operation including hot flags. Exact path-set equality of real outputs and the affine/algebraic identities are additionally checked by correspondence (general position verified in Lean)",
        level_note="Lean kernel; hand bookkeeping model tied by trace replay (C01); exact equality of real outputs relies on unmodelled geometry and is sampled; transposition invariance of the Spec winding number is not proved",
        technique="Lean 4 theorems on Spec and bookkeeping model + metamorphic correspondence judged in Lean",
        level="proof",
        lean_targets=["ClipperVerif.Props.C13", "ClipperVerif.Props.C13Spec"],
        audits=["C13", "C13Spec"],
        harnesses=[dict(src="C13.cpp", name="C13")],
        trusted_base=[LEAN_TB, T_TB, C_TB] + AEL_TB,
        rule="general-position inputs up to 2^40 (premise verified exactly in Lean); exact equality of canonicalised solutions under permutation / start rotation / duplicate+closing vertices / subject-clip swap / global reversal; region equality (exact winding numbers outside the band) for Xor=Union-Intersection, Difference+Intersection=subject, translation, transposition, mirroring, integer scaling",
        explanation="",
    ),
    "C02": dict(
        claimed=True,
        level_text="Every real engine output on rectilinear input is judged by an executable checker whose soundness for all points of the plane (rectCheck_sound), cell-constancy of winding numbers and the discrete Green theorem are Lean theorems; the all-inputs quantifier is covered by exhaustive enumeration of the 4x4 rectangle-pair scope and sampling beyond it (partial)",
        level_note="Lean kernel; Spec.wind as the definition of winding number; the sweep engine itself is not modelled here (see C01 for its bookkeeping model); sampling for inputs beyond the enumerated scope",
        technique="verified checker in Lean 4 (proved sound for all points) applied to real outputs; exhaustive small scope",
        level="proof",
        harnesses=[dict(src="C02.cpp")],
        trusted_base=[LEAN_TB, C_TB,
                      "Spec.wind (half-open ray rule) is the definition of winding number; the checker's verdict is lifted to all rational points of the plane by rectCheck_sound",
                      "the engine itself is not modelled in this slice: exactness for all inputs rests on enumeration (rectangle pairs) and sampling (random walks)"],
        rule="every Clipper64::Execute on rectilinear input is one record; distinct by request line; small scope = ordered pairs of the 100 lattice rectangles on {0..4}^2 x 4 clip types x 4 fill rules x scales {1,7,2^30} (thorough: all 10000 pairs x PreserveCollinear on/off, quick: seeded 1/8 of the pairs); random closed rectilinear walks 4-16 vertices on a 6x6 lattice with collinear vertices, spikes, overlapping edges, 1-3 paths per side, scales {1,7,2^30,2^58}; long walks 17-40 vertices on a 12x12 lattice; sets of up to 5 lattice rectangles with coincident copies",
        explanation="Theorems: winding numbers of rectilinear closed paths are constant on grid cells (windR_cell_const); a true verdict of the executable checker implies rectilinearity, coordinate provenance and wind sol p = [p in R] for every rational point p (rectCheck_sound); discrete Green theorem: shoelace area = sum over cells of winding number x area (shoelace_cells), so the area clause follows from the cell clause (area_of_cells). Correspondence: the proved checker judges every real engine output.",
    ),
    "C05": dict(
        claimed=True,
        level_text="Theorems: IsContributingOpen (regenerated from source) equals the Spec keepOpen for all windings; open-edge wind counts at insertion are the closed-subject/clip prefix sums; along every op sequence an open edge is hot exactly when keepOpen holds at its position (open_toggle_inv); open edges never change the bookkeeping of closed edges (closed_unaffected_run). Partial for the whole property: cut-point placement, stitching and lengths are decided by spec-level correspondence (sample points on every open segment judged by exact winding numbers)",
        level_note="Lean kernel; cpp2lean; hand bookkeeping model tied by H1 trace replay (AELVERIFYOPEN); open paths are subject paths; total-length clause covered only through the sampled coverage test",
        technique="Lean 4 invariant proof + source-regenerated decision function + trace refinement check + exact oracle",
        level="proof",
        lean_targets=["ClipperVerif.Props.C05"],
        harnesses=[dict(src="C05.cpp", name="C05")],
        trusted_base=[LEAN_TB, T_TB, C_TB] + AEL_TB + ["open paths are subject paths; cut-point placement and stitching not modelled"],
        rule="general-position closed subject/clip sets plus 1-3 random open polylines (premise incl. open paths verified exactly in Lean); all ct x fr sampled, paths and polytree execution; sample points at odd sixteenths of every open subject segment judged by keepOpen on exact winding numbers",
        explanation="",
    ),
    "C11": dict(
        claimed=True,
        level="proof",
        level_text="Theorems: CheckPrecisionRange (regenerated from source) accepts exactly [-8,8], throws precision_error with exceptions and sets the error bit and clamps without; every modelled PathsD entry point that checks precision/range reports a violation (exception, or empty result); proved negations with witnesses for the entry points that do not (known findings). 'Execute returns true / NoClip is empty' is decided by correspondence over degenerate and general inputs in both exception configurations; export-layer rejection codes are C17's generated validation table",
        level_note="Lean kernel; cpp2lean for CheckPrecisionRange; hand models of the wrappers' control frames tied by output-level correspondence in the exceptions-on and -fno-exceptions builds; Execute-never-fails is sampled, not proved",
        technique="Lean 4 theorems over source-regenerated CheckPrecisionRange and control-frame models + two-configuration correspondence",
        harnesses=[dict(src="C11.cpp", name="C11"), dict(src="C11.cpp", name="C11noexc", flags=["-fno-exceptions"])],
        trusted_base=[LEAN_TB, T_TB, C_TB, "out-of-range is an input flag of the control-frame models (the harness uses magnitudes far from the boundary MAX_COORD/scale)", "the 64-bit operation inside each wrapper is abstract (outcome `ran`)"],
        rule="all listed precisions (-1000..1000, INT extremes) x in/out-of-range coordinates x delta zero/non-zero x empty rect/paths for every PathsD entry point, in both exception configurations; success part: general-position, tiny-lattice degenerate (empty, 1-2 point, duplicate, closing vertex) and 2^35-magnitude inputs x 5 clip types x 4 fill rules x paths/polytree",
        explanation="",
    ),
    "C17": dict(
        claimed=True,
        level_text="Theorems: CPaths/CPathsD/CPolyTree writers produce exactly the documented flat layout, convert(create ps) = non-empty paths of ps, header cell = number of cells written, writers and readers never touch a cell outside the computed length (all path sets, all trees, both vertex dimensions); the argument-forwarding table of all 14 exported functions is regenerated from the source with clang on every run and the forwarding judgement is proved over it by decide; validation prefixes return exactly the documented negative codes for all integer arguments",
        level_note="Lean kernel; tools/extract_calls.py (clang AST -> call table; forwarding is judged on parameter names with an explicit synonym table); marshalling models tied by cell-by-cell correspondence; the callee C++ API is not modelled: equality with the direct C++ call is sampled over all argument dimensions",
        technique="Lean 4 theorems on marshalling models + decide over a source-regenerated call table + differential correspondence against the C++ API",
        level="proof",
        lean_targets=["ClipperVerif.Props.C17", "ClipperVerif.Props.C11Export"],
        harnesses=[dict(src="C17.cpp", name="C17"),
                   dict(src="C17.cpp", name="C17z", flags=["-DUSINGZ"])],
        trusted_base=[LEAN_TB, C_TB,
                      "tools/extract_calls.py: clang-14 JSON AST of clipper.export.h -> Generated/ExportCalls.lean (callee parameter names resolved from the callee declarations of the same AST; locals inlined; anything not understood becomes kind `other`/atom `unknown`, which the theorems reject); validated on every run by executing the generated validation prefixes against the compiled functions",
                      "the `forwards` judgement compares parameter *names* (callee slot vs exported parameter, explicit synonym table in Model/ExportCalls.lean); that a callee uses its parameter as its name says is not proved here (it is what the spec-level comparison with the direct C++ call samples)",
                      "marshalling model over unbounded Int cells: the double arrays (CPathsD/CPolyTreeD) share the layout, their counters travel as doubles (exact below 2^53); `new T[n]` never fails; a negative counter cast to size_t is modelled as a fault",
                      "the engine / offset / rectclip / Minkowski callees are not modelled: 'returns what the C++ call returns' is established per argument slot (forwarding theorem) plus bit-identical comparison with the direct call on generated inputs"],
        rule="per exported function: all 5 clip types x 4 fill rules x preserve_collinear x reverse_solution (Boolean, 64-bit), precisions {-8,-3,-1,0,1,2,3,5,8} (double), 4 join types x 5 end types x deltas {+-10,2.5,-3,0,0.3,60,1} x miter limits {2,1,3.5,10,0.5} x arc tolerances {0,.25,2,5} (Inflate*), random/empty rectangles (RectClip*), open/closed (Minkowski*); inputs: 0-4 paths of rectangles with collinear vertices, stars, random polygons, and 0/1/2-point paths, null arrays and [0,0] entries; marshalling: 0-6 paths of 0..12 vertices up to |coord| 2^62, trees of depth <= 4 with empty polygons; invalid arguments: clip type 0..255, fill rule {0,3,4,5,128,255,random}, precision {+-9,+-10,+-100,1000,INT_MIN/MAX}. Both with and without USINGZ. A case is distinct by its request line; non-trivial = result not empty (counted under nonempty.*)",
        explanation="Theorems: round trip / header / no-out-of-bounds for the CPaths and CPolyTree writers and readers (all path sets, all trees, any vertex dimension); forwarding as a decidable judgement over the call table regenerated from the source on every run (holds for 10 exported functions; its negation is proved for the four Inflate* exports on the unchanged tree); validation prefix returns the documented codes for all argument values. Correspondence: model vs library cell by cell; every exported function vs the direct C++ call; Lean layout grammar judges every returned array.",
    ),
    "C20": dict(
        claimed=False,  # model being updated to the repaired RDP
        level_text="Theorems on faithful models of TrimCollinear, RamerDouglasPeucker, SimplifyPath, StripDuplicates, StripNearEqual, TranslatePath, GetBounds (all paths, all epsilon): subsequence, end points kept, shoelace area preserved, no collinear triple / fixed point / idempotence for forward-only input, RDP epsilon bound, SimplifyPath totality and fixpoint, defining equations; every model is compared bit-exactly with the real function and every clause is re-judged on real outputs in exact arithmetic",
        level_note="Lean kernel; hand models tied by bit-exact output correspondence; doubles that are only compared are an abstract ordered parameter (instantiated with Float in the driver); IsCollinear is the source-regenerated definition",
        technique="Lean 4 theorems on hand models + bit-exact differential correspondence + exact-arithmetic judgement of real outputs",
        level="proof",
        harnesses=[dict(src="C20.cpp")],
        lean_targets=["ClipperVerif.Props.C20"],
        trusted_base=[LEAN_TB, T_TB, C_TB,
                      "hand-written models in Model/PathUtil.lean (TrimCollinear, RDP/RamerDouglasPeucker, SimplifyPath+GetNext/GetPrior, StripDuplicates, StripNearEqual, TranslatePath, GetBounds, Ellipse's loop skeleton) tied to the code by bit-exact output comparison only; IsCollinear inside them is the generated definition (exact by Props.C18.isCollinear_int128_exact)",
                      "int64 coordinate differences do not overflow (|coordinate| <= 2^62): the models use unbounded Int; GetBounds' min/max theorem assumes int64-range coordinates",
                      "PerpendicDistFromLineSqrd, Sqr(epsilon), MAX_DBL, 0.0 and NearEqual are abstract parameters (DistOps / eqv) of the models; theorems assume only: `le` is a total preorder (DistLaws), dist2(p,a,b) <= 0 when p is a or b (RDP), epsSqr >= 0 (RDP), epsSqr < MAX_DBL (SimplifyPath end points), dist2(q,a,b) = dist2(q,b,a) (SimplifyPath fixpoint, closed paths: exact in real arithmetic, last-bit differences possible in doubles); a > b is modelled as not (a <= b), exact in the absence of NaN (none arises for int64 inputs and epsilon >= 0); the driver instantiates the parameters with Float (IEEE binary64, same expression trees, -ffp-contract=off)",
                      "SimplifyPath's inner do-while (iterated GetNext from an unflagged start) is modelled as a search through the cyclic index range start+1..high,0..start-1",
                      "Ellipse and Length have Float models compared bit-exactly (glibc sin/cos shared with the harness) and spec-level judgements only; the only theorem about them is Ellipse's vertex count",
                      "spec-level distance judgements (RDP_EPS, SIMPLIFY_FIXPOINT) are exact rationals with a relative slack of 2^-40 and are only emitted for |coordinate| <= 2^24, where the C++ double arithmetic is exact up to the final roundings; larger coordinates are covered by the bit-exact model comparison"],
        rule="G-PATH: empty, all 1-point and sampled 2-point paths on a 3x3 lattice (all in thorough), 3/4-point lattice paths (exhaustive 3-point in thorough), then random / all-collinear / repeated points / spikes / subdivided polygons (forward-only) / staircases / front==back in coordinate classes 2, 6, 40, 10^6, 2^40; epsilon in {0, denormal, 1e-9, 1, 2.5, 1e100, two scale-relative values}; Ellipse radii {<=0, 0.3 .. 1e6} x steps {0,1,2,3,4,7,16,100}; a case is distinct by its request line; non-trivial counts (something removed / unchanged, forward-only inputs) are in input_distribution. RDP spec records are not emitted for front()==back() paths (known finding kf.rdp-closed-front-back, fixed witness emitted under that label); SimplifyPath's generic 'huge' epsilon is 1e100 (known finding kf.simplify-open-huge-eps for epsilon >= 1.35e154, fixed witness under that label)",
        explanation="Theorems on the models (all inputs): subsequence for TrimCollinear/RDP/SimplifyPath; end points kept (TrimCollinear open; RDP when front != back; SimplifyPath open when epsSqr < MAX_DBL) with proved counterexamples for the excluded cases on the faithful model; TrimCollinear preserves shoelace area exactly, and for forward-only input leaves no three (cyclically) consecutive collinear vertices, is the identity on such output and idempotent; RDP leaves every removed vertex within epsilon of the line through its surviving neighbours when front != back; SimplifyPath never faults or runs out of fuel and on exit no remaining vertex is removable; StripDuplicates equals run-collapsing; StripNearEqual/StripDuplicates contract; TranslatePath, GetBounds (min/max, invalid rect for empty), Ellipse vertex count. Correspondence: every model bit-exact against the real function; every clause judged on the real output by exact arithmetic in Lean.",
    ),

}

OFFSET_TB = [
    "ClipperVerif/Model/OffsetFrame.lean is a hand model of Group ctor / ExecuteInternal / DoGroupOffset / BuildNormals / OffsetPolygon / OffsetOpenJoined / OffsetOpenPath and of the branch skeleton of OffsetPoint; it is tied to the code by output-level correspondence only (harness/OffsetFrame.cpp: Group fields, BuildNormals bit patterns, loop index sequences and both normal-reversal blocks observed through a DeltaCallback64, OffsetPoint branch via the private method, members after Execute)",
    "abstract parameters of the frame theorems (hold for every value): GetUnitNormal, sine/cosine of two normals, the vertices produced by DoRound/DoMiter/DoSquare/DoBevel/Ellipse, the clean-up union (Clipper64) — none of these is modelled",
    "numbers in the frame model are rationals; the doubles 0.999, 1e-12, 0.002 and temp_lim_ are represented by the decimal fractions written in the source; deltaCallback64_ is null; Area(path)<0 is the sign of the exact shoelace sum (exact below 2^53)",
    "the headline clause (result = delta-envelope within arc tolerance + 2 + 0.1%|delta|; stroke width and caps) is NOT a theorem: it is decided by the executable Lean Spec (ClipperVerif/Spec/Offset.lean, exact integer/rational arithmetic) judging real results at sampled probe points and at the result's own vertices",
    "reading of the statement used by the Spec: 'arc tolerance' = the requested value, or |delta|/500 when left at 0 (documented default); sqrt(2) is bounded above by 1.41422 on outer bounds; rectangles swept by edges are kept one tolerance away from their end lines",
]

PROPS["C06"] = dict(
    claimed=True,
    level_text="Theorems on the control-frame model of ClipperOffset (sign of group delta, orientation flag, fill rule of the clean-up union, |delta|<0.5 pass-through, concave/miter/round/square/bevel branch selection, miter test = miter length within limit). The headline clause (result = delta-envelope within tolerance; sandwich bounds; orientation; over-shrink) is decided by an executable Lean Spec in exact rational arithmetic judging real results at probe points",
    level_note="Lean kernel; hand frame model tied by output-level correspondence through private-state access; geometry primitives and the clean-up union are abstract parameters; envelope claim sampled, not proved",
    technique="Lean 4 theorems on a control-frame model + exact-arithmetic Lean Spec as oracle for real outputs",
    audits=["C06"],
    level="other",
    harnesses=[dict(src="C06.cpp"), dict(src="OffsetFrame.cpp")],
    trusted_base=[LEAN_TB, C_TB] + OFFSET_TB,
    rule="G-SIMPLE: star-shaped / rectilinear / few-vertex outer polygons (sizes 50..1e6 log-uniform, optional anisotropic stretch, collinear midpoints), 0-3 star-shaped holes, occasional island in a hole and second polygon at gap 1..size; simplicity, containment and the 10-degree turning margin are verified with exact integer tests and the input rejected otherwise; both orientation conventions, shuffled path order and start vertices; delta = k/8 log-uniform 1..size/3 of either sign, over-shrink (size..2 size), |delta|<0.5 (incl. 0); 4 join types, miter limits 2..5, arc tolerances 0(default)..5; 6 API variants (InflatePaths, ClipperOffset Paths64/PolyTree64, ReverseSolution, preserve_collinear, two groups, object used before). ~120 probes per case (uniform in the enlarged box, at delta+-tol+-eps along edge normals / around vertices, around the result's own edges); a case is distinct by its request line; every case is non-trivial (>=1 decisive probe; measured ratio of decisive probes ~80%)",
    explanation="Theorems (frame model): sign of group_delta_ for polygon groups, is_reversed = lowest path negatively oriented, fill rule / ReverseSolution of the clean-up union, |delta|<0.5 passes the input through, concave-join condition, join selection table, miter test = miter length within the limit (algebra over Q). Spec-level (OFFSETCHECK): envelope within tolerance for round joins, sandwich bounds for miter/square/bevel, orientation, over-shrink, small delta; model-level: 9k records per quick run agree between the model and the compiled code.",
)

PROPS["C07"] = dict(
    claimed=True,
    level_text="Theorems on the control-frame model (index safety of the open/joined/polygon passes, normal reversal = normals of the reversed path, +delta/-delta symmetry of the whole frame for open groups, frame locality with proved counter-witnesses for the state leaks). Stroke shape and caps are decided by the exact-arithmetic Lean Spec judging real results; +-delta equality, direction independence and independence of distant paths by metamorphic correspondence",
    level_note="Lean kernel; hand frame model tied by output-level correspondence; geometry primitives abstract; stroke shape sampled, not proved",
    technique="Lean 4 theorems on a control-frame model + exact-arithmetic Lean Spec as oracle + metamorphic correspondence",
    audits=["C07"],
    level="other",
    harnesses=[dict(src="C07.cpp"), dict(src="OffsetFrame.cpp")],
    trusted_base=[LEAN_TB, C_TB] + OFFSET_TB + [
        "2-point path under EndType::Joined: the Spec expects the documented behaviour (round cap for round joins, square cap otherwise)",
        "kf-empty-path modes of harness/C07.cpp (UB on an empty path in a non-Polygon group) abort the process and are therefore not part of the normal run: run `<binary> 1 quick kf-empty-path` / `kf-empty-path-joined`",
    ],
    rule="G-OPEN: 1-4 polylines per call (45% single), each a single point (10%), 2 points (20%) or 3-8 points built as a random walk with segment lengths size/64..size and turns up to +-165 degrees (8% straight-on), self-crossing allowed, optional consecutive duplicate points / closing duplicate; turning margin (incl. closure for Joined) verified exactly; sizes 50..1e6; |delta| = k/8 log-uniform 1..size/2 (3%: 0.5..0.875), sign random; 4 join x 4 end types, miter limits 2..5, arc tolerances 0..5; 4 API variants (InflatePaths, one group, one group per path, PolyTree64). Per case: STROKECHECK (~130 probes), +delta/-delta canonical equality, reversed paths (region, tolerance band), added distant path on any side (region equality; canonical equality counted). With the known defects present the generator keeps 2-point paths last in Joined groups, emits no empty paths and keeps |delta|>=0.5; the specific defect inputs are emitted under kf.* labels.",
    explanation="Theorems (frame model): index safety of OffsetPolygon/OffsetOpenJoined/OffsetOpenPath for non-empty paths and the out-of-range read on an empty path; the reversal loop gives the backward pass the normals of the reversed path; the frame is identical for +delta and -delta in non-Polygon groups; frame locality is false on the current tree (two proved witnesses) and holds when no Joined group has a 2-point path and every Polygon group has a point. Spec-level (STROKECHECK/SAMEPATHS/SAMEREGION): stroke region with caps within tolerance; model-level: 9k records per quick run.",
)
