"""Per-property configuration of ./check (harnesses, Lean targets, evidence texts)."""

LEAN_TB = "Lean 4.33 kernel; axioms propext, Classical.choice, Quot.sound only (audited by #print axioms on every run); no sorry/native_decide/bv_decide"
T_TB = "tools/cpp2lean.py: clang-14 JSON AST -> Lean translation of the listed functions (signed C++ integers as Int, uint64_t as UInt64); validated on every run by executing generated definitions against the compiled code"
C_TB = "correspondence harness (sampling): a divergence on inputs never generated is not seen"

EXTRA_GENERATORS = []

PROPS = {
    "C18": dict(
        level="proof",
        harnesses=[dict(src="C18.cpp", portable=True)],
        trusted_base=[LEAN_TB, T_TB, C_TB,
                      "IEEE-754 double arithmetic on integers below 2^53 is exact (PointInPolygon/Area/GetSegmentIntersectPt models are stated over Int/Rat)",
                      "std::abs(INT64_MIN) is undefined: the portable-branch theorems carry that precondition"],
        rule="boundary lattice {0,±1,±2,±2^31,±2^32,±2^61,2^62-1,INT64 extremes} (exhaustive 4-tuples in thorough) plus random magnitudes 2^4..2^61 and forced equal products / collinear triples; a case is distinct by its request line, non-trivial = every record (each exercises a predicate on a fresh argument tuple)",
        explanation="Theorems: Multiply exact for all 2^128 inputs; ProductsAreEqual/CrossProductSign/IsCollinear exact on both code paths (generated from source each run). Correspondence: generated definitions and the exact integer Spec against the compiled functions (128-bit and portable branches).",
    ),
    "C01": dict(
        level="proof",
        lean_targets=["ClipperVerif.Driver.Region"],
        harnesses=[dict(src="C01.cpp", name="C01"), dict(src="C01.cpp", name="C01hp", flags=["-DCLIPPER2_HI_PRECISION=1"])],
        trusted_base=[LEAN_TB, T_TB, C_TB],
        rule="general-position inputs (premise re-verified exactly in Lean, margin 3 units) x 16 (ct,fr) x random PreserveCollinear/ReverseSolution x paths/polytree; probes along edges, around vertices and crossings and random; a record is non-trivial when the Lean side judged it (not `notgp`)",
        explanation="",
    ),
    "C13": dict(
        level="proof",
        lean_targets=["ClipperVerif.Driver.Region"],
        harnesses=[dict(src="C13.cpp", name="C13")],
        trusted_base=[LEAN_TB, T_TB, C_TB],
        rule="general-position inputs up to 2^40 (premise verified exactly in Lean); exact equality of canonicalised solutions under permutation / start rotation / duplicate+closing vertices / subject-clip swap / global reversal; region equality (exact winding numbers outside the band) for Xor=Union-Intersection, Difference+Intersection=subject, translation, transposition, mirroring, integer scaling",
        explanation="",
    ),
}
