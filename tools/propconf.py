"""Per-property configuration of ./check (harnesses, Lean targets, evidence texts)."""

LEAN_TB = "Lean 4.33 kernel; axioms propext, Classical.choice, Quot.sound only (audited by #print axioms on every run); no sorry/native_decide/bv_decide"
AEL_TB = ["Model/Ael.lean is a hand model of the bookkeeping of SetWindCountFor...PathEdge / InsertLocalMinimaIntoAEL / IntersectEdges / DoMaxima, tied by replaying hook-H1 traces of the real engine (AELVERIFY: every op accepted, invariant after every op, every snapshot equal field by field); only IsContributingClosed/IsContributingOpen are generated from source",
          "geometry is an input of the model: that the sweep presents events in an order keeping the AEL sorted (IsValidAelOrder, intersect list, TopX), intersection rounding and ring assembly are NOT covered by the theorems; they are covered by the spec-level correspondence against exact winding numbers",
          "hot = outrec != nullptr || join_with != NoJoin (joins/Split abstracted); wind counts are mathematical Int"]
T_TB = "tools/cpp2lean.py: clang-14 JSON AST -> Lean translation of the listed functions (signed C++ integers as Int, uint64_t as UInt64); validated on every run by executing generated definitions against the compiled code"
C_TB = "correspondence harness (sampling): a divergence on inputs never generated is not seen"

EXTRA_GENERATORS = []
HOOK_COMMITS = ["eb1b8d2 verif hook H1: guarded (CLIPPER2_VERIF) active-edge-list bookkeeping events in clipper.engine.cpp"]
NOT_CLAIMED = {}


PROPS = {
    "C18": dict(
        claimed=True,
        level_text="Theorems: Multiply exact for all 2^128 inputs; ProductsAreEqual/CrossProductSign/IsCollinear exact on both code paths (definitions regenerated from the source on every run); PointInPolygon model total and equal to the even-odd Spec for every polygon not contained in the point's horizontal line; Area loop = shoelace for every length; idealised GetSegmentIntersectPt exact on parallelism, on segment 1 and within one unit. The double computations are tied to these by bit-exact and spec-level correspondence",
        level_note="Lean kernel; cpp2lean translator; correspondence harness; std::abs(INT64_MIN) precondition on the portable branch; IEEE exactness below 2^53; GetSegmentIntersectPt accuracy beyond 2^25 is judged by correspondence on well-conditioned pairs only (see known findings)",
        technique="Lean 4 theorems over source-regenerated definitions and hand models + differential correspondence",
        audits=["C18", "C18Geom"],
        level="proof",
        harnesses=[dict(src="C18.cpp", portable=True),
                   dict(src="C18.cpp", portable=True, name="C18-hi", flags=["-DCLIPPER2_HI_PRECISION=1"])],
        lean_targets=["ClipperVerif.Props.C18", "ClipperVerif.Props.C18Geom"],
        trusted_base=[LEAN_TB, T_TB, C_TB,
                      "IEEE-754 double arithmetic on integers below 2^53 is exact: PointInPolygon's CrossProduct is modelled over Int (theorem crossProduct_fits_double shows every intermediate is <= 2^53 for |coord| <= 2^25; the harness runs the Float instantiation PIPF next to the Int model PIP on every case)",
                      "PointInPolygon / Area / GetSegmentIntersectPt are hand-written models (Model/Geom.lean) tied to the compiled code by output-level correspondence only (bit-exact Float models AREAF, GSIP, GSIPH; Int models PIP, AREA2)",
                      "GetSegmentIntersectPt theorems are about the idealisation gsipIdeal (exact rational t, exact truncation); the double computation is related to it by the spec-level check SPEC_GSIP (within 1+2^-20 per axis for |coord| <= 2^25, within 1+2^-4 for well-conditioned pairs up to 2^40), not by proof",
                      "Area over doubles: theorem is about the exact integer sum; rounding is judged per run by SPEC_AREA with the forward error bound (n+3)*2^-53*sum|terms|",
                      "std::abs(INT64_MIN) is undefined: the portable-branch theorems carry that precondition"],
        rule="predicates: boundary lattice {0,±1,±2,±2^31,±2^32,±2^61,2^62-1,INT64 extremes} (exhaustive 4-tuples in thorough) plus random magnitudes 2^4..2^61 and forced equal products / collinear triples. PointInPolygon: every triangle (thorough: every quadrilateral) on the 3x3 lattice against every point of the 5x5 lattice, random 3-12-gons on small lattices with many vertices on the query line, horizontal runs through the point, points on vertices/edges, leading on-line vertices, one-horizontal-line polygons, repeated vertices, star polygons, each also scaled/offset to |coord| = 2^25, random magnitudes to 2^25 (Int model + Spec) and to 2^52 (double model only). Area: lengths 0-13 of both parities, magnitudes 5..2^61, stars, collinear, duplicates, spikes, range extremes. GetSegmentIntersectPt: random, exactly parallel/collinear, nearly parallel, zero length, shared end points, lattice crossings, axis-parallel, magnitudes 8..2^61; the spec-level accuracy check runs for |coord| <= 2^25 (all pairs) and for |coord| <= 2^40 only on well-conditioned (|det| >= 2^-10 |d1||d2|) or exactly parallel pairs (nearly parallel pairs at large magnitude are known finding 8 and run at model level only); both CLIPPER2_HI_PRECISION settings are built. A case is distinct by its request line.",
        explanation="Theorems: Multiply exact for all 2^128 inputs; ProductsAreEqual/CrossProductSign/IsCollinear exact on both code paths (generated from source each run); PointInPolygon model terminates without fault on every input and equals Spec.pipEvenOdd for every polygon with >= 3 vertices and a vertex off the horizontal line through the point (pointInPolygon_exact), IsOutside on the excluded inputs; Area's two-at-a-time loop equals shoelace2 for every length; idealised GetSegmentIntersectPt reports parallelism exactly, its point lies on both lines, the result is within one unit per axis and inside the bounding box of segment 1. Correspondence: generated definitions, the hand models and the exact integer/rational Spec against the compiled functions (128-bit and portable branches; HI_PRECISION on and off).",
    ),
    "C01": dict(
        claimed=True,
        level_text="Theorems (all inputs, all histories): the fill-rule x clip-type decision table equals 'the filled state differs across the edge' (over the definition regenerated from source), wind counts stored at insertion are the prefix-sum encodings, the invariant (counts + hot iff contributing) holds after every op sequence, and in every such state hot edges delimit exactly the gaps where inR holds (coverage_1d). Partial for the whole property: event ordering, intersection rounding and ring assembly are decided by spec-level correspondence of real outputs against exact winding numbers in Lean",
        level_note="Lean kernel; cpp2lean for the decision functions; hand bookkeeping model tied by H1 trace replay; geometry as model input; sampling for the spec-level part",
        technique="Lean 4 invariant proof over op sequences + source-regenerated decision table + trace refinement check + exact winding-number oracle",
        level="proof",
        lean_targets=["ClipperVerif.Props.C01"],
        harnesses=[dict(src="C01.cpp", name="C01"), dict(src="C01.cpp", name="C01hp", flags=["-DCLIPPER2_HI_PRECISION=1"])],
        trusted_base=[LEAN_TB, T_TB, C_TB] + AEL_TB,
        rule="general-position inputs (premise re-verified exactly in Lean, margin 3 units) x 16 (ct,fr) x random PreserveCollinear/ReverseSolution x paths/polytree; probes along edges, around vertices and crossings and random; a record is non-trivial when the Lean side judged it (not `notgp`)",
        explanation="",
    ),
    "C13": dict(
        claimed=True,
        level_text="Theorems: set algebra of inR (symmetry, negation/Positive-Negative exchange, Xor = Union minus Intersection, Difference/Intersection partition), invariance of the Spec winding number under translation, scaling, mirroring, path order, start rotation, duplicate and closing vertices, reversal; and on the bookkeeping model, exchanging path types / negating all directions commutes with every operation including hot flags. Exact path-set equality of real outputs and the affine/algebraic identities are additionally checked by correspondence (general position verified in Lean)",
        level_note="Lean kernel; hand bookkeeping model tied by trace replay (C01); exact equality of real outputs relies on unmodelled geometry and is sampled; transposition invariance of the Spec winding number is not proved",
        technique="Lean 4 theorems on Spec and bookkeeping model + metamorphic correspondence judged in Lean",
        level="proof",
        lean_targets=["ClipperVerif.Props.C13", "ClipperVerif.Props.C13Spec"],
        audits=["C13", "C13Spec"],
        harnesses=[dict(src="C13.cpp", name="C13")],
        trusted_base=[LEAN_TB, T_TB, C_TB] + AEL_TB,
        rule="general-position inputs up to 2^40 (premise verified exactly in Lean); exact equality of canonicalised solutions under permutation / start rotation / duplicate+closing vertices / subject-clip swap / global reversal; region equality (exact winding numbers outside the band) for Xor=Union-Intersection, Difference+Intersection=subject, translation, transposition, mirroring, integer scaling",
        explanation="",
    ),
    "C02": dict(
        claimed=True,
        level_text="Every real engine output on rectilinear input is judged by an executable checker whose soundness for all points of the plane (rectCheck_sound), cell-constancy of winding numbers and the discrete Green theorem are Lean theorems; the all-inputs quantifier is covered by exhaustive enumeration of the 4x4 rectangle-pair scope and sampling beyond it (partial)",
        level_note="Lean kernel; Spec.wind as the definition of winding number; the sweep engine itself is not modelled here (see C01 for its bookkeeping model); sampling for inputs beyond the enumerated scope",
        technique="verified checker in Lean 4 (proved sound for all points) applied to real outputs; exhaustive small scope",
        level="proof",
        harnesses=[dict(src="C02.cpp")],
        trusted_base=[LEAN_TB, C_TB,
                      "Spec.wind (half-open ray rule) is the definition of winding number; the checker's verdict is lifted to all rational points of the plane by rectCheck_sound",
                      "the engine itself is not modelled in this slice: exactness for all inputs rests on enumeration (rectangle pairs) and sampling (random walks)"],
        rule="every Clipper64::Execute on rectilinear input is one record; distinct by request line; small scope = ordered pairs of the 100 lattice rectangles on {0..4}^2 x 4 clip types x 4 fill rules x scales {1,7,2^30} (thorough: all 10000 pairs x PreserveCollinear on/off, quick: seeded 1/8 of the pairs); random closed rectilinear walks 4-16 vertices on a 6x6 lattice with collinear vertices, spikes, overlapping edges, 1-3 paths per side, scales {1,7,2^30,2^58}; long walks 17-40 vertices on a 12x12 lattice; sets of up to 5 lattice rectangles with coincident copies",
        explanation="Theorems: winding numbers of rectilinear closed paths are constant on grid cells (windR_cell_const); a true verdict of the executable checker implies rectilinearity, coordinate provenance and wind sol p = [p in R] for every rational point p (rectCheck_sound); discrete Green theorem: shoelace area = sum over cells of winding number x area (shoelace_cells), so the area clause follows from the cell clause (area_of_cells). Correspondence: the proved checker judges every real engine output.",
    ),
    "C05": dict(
        claimed=True,
        level_text="Theorems: IsContributingOpen (regenerated from source) equals the Spec keepOpen for all windings; open-edge wind counts at insertion are the closed-subject/clip prefix sums; along every op sequence an open edge is hot exactly when keepOpen holds at its position (open_toggle_inv); open edges never change the bookkeeping of closed edges (closed_unaffected_run). Partial for the whole property: cut-point placement, stitching and lengths are decided by spec-level correspondence (sample points on every open segment judged by exact winding numbers)",
        level_note="Lean kernel; cpp2lean; hand bookkeeping model tied by H1 trace replay (AELVERIFYOPEN); open paths are subject paths; total-length clause covered only through the sampled coverage test",
        technique="Lean 4 invariant proof + source-regenerated decision function + trace refinement check + exact oracle",
        level="proof",
        lean_targets=["ClipperVerif.Props.C05"],
        harnesses=[dict(src="C05.cpp", name="C05")],
        trusted_base=[LEAN_TB, T_TB, C_TB] + AEL_TB + ["open paths are subject paths; cut-point placement and stitching not modelled"],
        rule="general-position closed subject/clip sets plus 1-3 random open polylines (premise incl. open paths verified exactly in Lean); all ct x fr sampled, paths and polytree execution; sample points at odd sixteenths of every open subject segment judged by keepOpen on exact winding numbers",
        explanation="",
    ),
    "C11": dict(
        claimed=True,
        level="proof",
        level_text="Theorems: CheckPrecisionRange (regenerated from source) accepts exactly [-8,8], throws precision_error with exceptions and sets the error bit and clamps without; every modelled PathsD entry point that checks precision/range reports a violation (exception, or empty result); proved negations with witnesses for the entry points that do not (known findings). 'Execute returns true / NoClip is empty' is decided by correspondence over degenerate and general inputs in both exception configurations; export-layer rejection codes are C17's generated validation table",
        level_note="Lean kernel; cpp2lean for CheckPrecisionRange; hand models of the wrappers' control frames tied by output-level correspondence in the exceptions-on and -fno-exceptions builds; Execute-never-fails is sampled, not proved",
        technique="Lean 4 theorems over source-regenerated CheckPrecisionRange and control-frame models + two-configuration correspondence",
        harnesses=[dict(src="C11.cpp", name="C11"), dict(src="C11.cpp", name="C11noexc", flags=["-fno-exceptions"])],
        trusted_base=[LEAN_TB, T_TB, C_TB, "out-of-range is an input flag of the control-frame models (the harness uses magnitudes far from the boundary MAX_COORD/scale)", "the 64-bit operation inside each wrapper is abstract (outcome `ran`)"],
        rule="all listed precisions (-1000..1000, INT extremes) x in/out-of-range coordinates x delta zero/non-zero x empty rect/paths for every PathsD entry point, in both exception configurations; success part: general-position, tiny-lattice degenerate (empty, 1-2 point, duplicate, closing vertex) and 2^35-magnitude inputs x 5 clip types x 4 fill rules x paths/polytree",
        explanation="",
    ),
}
