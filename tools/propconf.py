"""Per-property configuration of ./check (harnesses, Lean targets, evidence texts)."""

LEAN_TB = "Lean 4.33 kernel; axioms propext, Classical.choice, Quot.sound only (audited by #print axioms on every run); no sorry/native_decide/bv_decide"
T_TB = "tools/cpp2lean.py: clang-14 JSON AST -> Lean translation of the listed functions (signed C++ integers as Int, uint64_t as UInt64); validated on every run by executing generated definitions against the compiled code"
C_TB = "correspondence harness (sampling): a divergence on inputs never generated is not seen"

EXTRA_GENERATORS = []
HOOK_COMMITS = []
NOT_CLAIMED = {}


PROPS = {
    "C18": dict(
        claimed=True,
        level_text="Exactness of Multiply/ProductsAreEqual/CrossProductSign/IsCollinear on both code paths is a Lean theorem about definitions regenerated from the source on every run; PointInPolygon/Area/GetSegmentIntersectPt by hand models tied by bit-exact correspondence",
        level_note="Lean kernel; cpp2lean translator; correspondence harness; std::abs(INT64_MIN) precondition on the portable branch; IEEE exactness below 2^53",
        technique="Lean 4 theorems over source-regenerated definitions + differential correspondence",
        level="proof",
        harnesses=[dict(src="C18.cpp", portable=True)],
        trusted_base=[LEAN_TB, T_TB, C_TB,
                      "IEEE-754 double arithmetic on integers below 2^53 is exact (PointInPolygon/Area/GetSegmentIntersectPt models are stated over Int/Rat)",
                      "std::abs(INT64_MIN) is undefined: the portable-branch theorems carry that precondition"],
        rule="boundary lattice {0,±1,±2,±2^31,±2^32,±2^61,2^62-1,INT64 extremes} (exhaustive 4-tuples in thorough) plus random magnitudes 2^4..2^61 and forced equal products / collinear triples; a case is distinct by its request line, non-trivial = every record (each exercises a predicate on a fresh argument tuple)",
        explanation="Theorems: Multiply exact for all 2^128 inputs; ProductsAreEqual/CrossProductSign/IsCollinear exact on both code paths (generated from source each run). Correspondence: generated definitions and the exact integer Spec against the compiled functions (128-bit and portable branches).",
    ),
    "C01": dict(
        level="proof",
        lean_targets=["ClipperVerif.Driver.Region"],
        harnesses=[dict(src="C01.cpp", name="C01"), dict(src="C01.cpp", name="C01hp", flags=["-DCLIPPER2_HI_PRECISION=1"])],
        trusted_base=[LEAN_TB, T_TB, C_TB],
        rule="general-position inputs (premise re-verified exactly in Lean, margin 3 units) x 16 (ct,fr) x random PreserveCollinear/ReverseSolution x paths/polytree; probes along edges, around vertices and crossings and random; a record is non-trivial when the Lean side judged it (not `notgp`)",
        explanation="",
    ),
    "C13": dict(
        level="proof",
        lean_targets=["ClipperVerif.Driver.Region"],
        harnesses=[dict(src="C13.cpp", name="C13")],
        trusted_base=[LEAN_TB, T_TB, C_TB],
        rule="general-position inputs up to 2^40 (premise verified exactly in Lean); exact equality of canonicalised solutions under permutation / start rotation / duplicate+closing vertices / subject-clip swap / global reversal; region equality (exact winding numbers outside the band) for Xor=Union-Intersection, Difference+Intersection=subject, translation, transposition, mirroring, integer scaling",
        explanation="",
    ),
    "C02": dict(
        claimed=True,
        level_text="Every real engine output on rectilinear input is judged by an executable checker whose soundness for all points of the plane (rectCheck_sound), cell-constancy of winding numbers and the discrete Green theorem are Lean theorems; the all-inputs quantifier is covered by exhaustive enumeration of the 4x4 rectangle-pair scope and sampling beyond it (partial)",
        level_note="Lean kernel; Spec.wind as the definition of winding number; the sweep engine itself is not modelled here (see C01 for its bookkeeping model); sampling for inputs beyond the enumerated scope",
        technique="verified checker in Lean 4 (proved sound for all points) applied to real outputs; exhaustive small scope",
        level="proof",
        harnesses=[dict(src="C02.cpp")],
        trusted_base=[LEAN_TB, C_TB,
                      "Spec.wind (half-open ray rule) is the definition of winding number; the checker's verdict is lifted to all rational points of the plane by rectCheck_sound",
                      "the engine itself is not modelled in this slice: exactness for all inputs rests on enumeration (rectangle pairs) and sampling (random walks)"],
        rule="every Clipper64::Execute on rectilinear input is one record; distinct by request line; small scope = ordered pairs of the 100 lattice rectangles on {0..4}^2 x 4 clip types x 4 fill rules x scales {1,7,2^30} (thorough: all 10000 pairs x PreserveCollinear on/off, quick: seeded 1/8 of the pairs); random closed rectilinear walks 4-16 vertices on a 6x6 lattice with collinear vertices, spikes, overlapping edges, 1-3 paths per side, scales {1,7,2^30,2^58}; long walks 17-40 vertices on a 12x12 lattice; sets of up to 5 lattice rectangles with coincident copies",
        explanation="Theorems: winding numbers of rectilinear closed paths are constant on grid cells (windR_cell_const); a true verdict of the executable checker implies rectilinearity, coordinate provenance and wind sol p = [p in R] for every rational point p (rectCheck_sound); discrete Green theorem: shoelace area = sum over cells of winding number x area (shoelace_cells), so the area clause follows from the cell clause (area_of_cells). Correspondence: the proved checker judges every real engine output.",
    ),
}
