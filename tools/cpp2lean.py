#!/usr/bin/env python3
"""cpp2lean: translate small, loop-free C++ decision functions of Clipper2 into Lean 4.

Tie T of DESIGN.md: on every run the typed JSON AST of a fixed list of functions is taken from
/repo's *current* sources with clang-14 and re-emitted as Lean definitions
(`ClipperVerif/Generated/*.lean`).  The theorems in `ClipperVerif/Props` mention these
definitions, so `lake build` re-checks them against what the code says now.

Supported subset (anything else raises TranslationError naming the AST node):
  statements : CompoundStmt, DeclStmt/VarDecl, assignment & compound assignment to locals and
               reference parameters, IfStmt, SwitchStmt over enums (fall-through, break, default),
               ReturnStmt, BreakStmt, NullStmt, calls to DoError (modelled as an early error exit)
  expressions: integer/bool literals, DeclRefExpr (locals, params, enum constants, global integer
               constants), MemberExpr chains rooted at a parameter or `this`, unary/binary/conditional
               operators, casts, calls to other translated functions, abs/min/max, lambdas without
               captures, brace-initialised UInt128Struct; calls `f(p)` of a configured *accessor* on a record
               parameter (IsMaxima(e), NextVertex(e)->pt.x: pointer chasing the model does not follow) become
               pseudo-members `p_f…`, i.e. further scalar parameters; calls with record arguments (Point64)
               to a function translated in another unit (*extern*) pass the record's fields one by one
Statement lists are translated continuation-style; a local assignment becomes a shadowing `let`.
Type mapping: signed integer types -> Int (overflow freedom is a separate, proved side condition),
unsigned 64-bit -> UInt64 (wrapping, as in C++), bool -> Bool, scoped enums -> Lean inductives.
"""
import json, os, re, subprocess, sys, hashlib, tempfile

REPO = os.environ.get("VERIF_REPO", "/repo")
INC = os.path.join(REPO, "CPP/Clipper2Lib/include")
SRC = os.path.join(REPO, "CPP/Clipper2Lib/src")


class TranslationError(Exception):
    pass


# ---------------------------------------------------------------------------------------------
# clang front end

def clang_ast(tu_text, filt, extra_inc=None, defines=()):
    """Return list of top-level JSON decl objects matching the filter."""
    with tempfile.TemporaryDirectory(prefix="cpp2lean") as td:
        tu = os.path.join(td, "tu.cpp")
        with open(tu, "w") as f:
            f.write(tu_text)
        cmd = ["clang++-14", "-std=gnu++17", "-fsyntax-only", "-w"]
        if extra_inc:
            cmd += ["-I", extra_inc]
        cmd += ["-I", INC, "-I", SRC]
        for d in defines:
            cmd.append("-D" + d)
        cmd += ["-Xclang", "-ast-dump=json", "-Xclang", "-ast-dump-filter=" + filt, tu]
        r = subprocess.run(cmd, capture_output=True, text=True)
        if r.returncode != 0:
            raise TranslationError("clang failed for filter %s: %s" % (filt, r.stderr[:2000]))
        s = r.stdout
    dec = json.JSONDecoder()
    i = 0
    objs = []
    n = len(s)
    while i < n:
        while i < n and s[i].isspace():
            i += 1
        if i >= n:
            break
        o, j = dec.raw_decode(s, i)
        objs.append(o)
        i = j
    return objs


def inner(n):
    return [c for c in n.get("inner", []) if c]


def qual(n):
    t = n.get("type", {})
    return t.get("desugaredQualType") or t.get("qualType") or ""


def find_bodies(objs, name, want_types=None):
    """All FunctionDecl/CXXMethodDecl nodes called `name` that have a body."""
    out = []

    def walk(n):
        if not isinstance(n, dict):
            return
        k = n.get("kind")
        if k in ("FunctionDecl", "CXXMethodDecl") and n.get("name") == name:
            if any(c.get("kind") == "CompoundStmt" for c in inner(n)):
                out.append(n)
        for c in inner(n):
            walk(c)

    for o in objs:
        walk(o)
    if want_types is not None:
        out = [n for n in out if want_types in n.get("type", {}).get("qualType", "")]
    return out


# ---------------------------------------------------------------------------------------------
# type mapping

ENUMS = {
    "FillRule": "Clipper.FillRule",
    "ClipType": "Clipper.ClipType",
    "PathType": "Clipper.PathType",
    "Location": "Clipper.Location",
    "JoinType": "Clipper.JoinType",
    "EndType": "Clipper.EndType",
    "JoinWith": "Clipper.JoinWith",
    "PointInPolygonResult": "Clipper.PipResult",
}


ENUM_CTORS = {
    "Clipper.FillRule": ["EvenOdd", "NonZero", "Positive", "Negative"],
    "Clipper.ClipType": ["NoClip", "Intersection", "Union", "Difference", "Xor"],
    "Clipper.PathType": ["Subject", "Clip"],
    "Clipper.Location": ["Left", "Top", "Right", "Bottom", "Inside"],
    "Clipper.JoinType": ["Square", "Bevel", "Round", "Miter"],
    "Clipper.EndType": ["Polygon", "Joined", "Butt", "Square", "Round"],
    "Clipper.JoinWith": ["NoJoin", "Left", "Right"],
    "Clipper.PipResult": ["IsOn", "IsInside", "IsOutside"],
}


def strip_type(t):
    t = t.replace("const ", "").replace("volatile ", "").replace("&", "").replace("struct ", "")
    t = t.replace("enum ", "").replace("class ", "").strip()
    return t


def lean_type(t):
    t0 = strip_type(t)
    t1 = t0.split("::")[-1].strip()
    if t0 in ("bool", "_Bool"):
        return "Bool"
    if t0 in ("int", "long", "long long", "__int128", "short", "int64_t", "__int128_t", "int32_t", "signed char"):
        return "Int"
    if t0 in ("unsigned long", "unsigned long long", "uint64_t", "size_t", "unsigned int", "uint32_t"):
        return "UInt64"
    if t1 in ENUMS:
        return ENUMS[t1]
    if t1 == "UInt128Struct":
        return "(UInt64 × UInt64)"
    if t0 == "double":
        return "Float"
    raise TranslationError("unsupported type '%s'" % t)


def is_unsigned(t):
    return lean_type(t) == "UInt64"


RECORD_FIELDS = {"UInt128Struct": ["lo", "hi"]}


def lc(s):
    return s[0].lower() + s[1:]


# ---------------------------------------------------------------------------------------------
# translator for one function

class Fn:
    def __init__(self, node, lean_name, known_fns, consts, inline_fns, throws=False, accessors=(), externs=None):
        self.node = node
        self.lean_name = lean_name
        self.known = known_fns          # C name -> lean name for calls with scalar arguments
        self.consts = consts            # global integer constants: name -> int
        self.inline_fns = inline_fns    # C name -> FunctionDecl node (inlined when args are records)
        self.throws = throws
        self.accessors = set(accessors)  # C names of one-argument functions read as pseudo-members of their argument
        self.externs = externs or {}     # C name -> (qualified lean name, [(param name, type)]) of another unit
        self.params = []                # (lean name, lean type) in declared order (scalars)
        self.members = {}               # lean name -> lean type, for member paths
        self.outs = []                  # names of mutated reference params
        self.subst = [{}]               # param-name substitution stack for inlining (name -> base path)
        self.ret_type = None

    # ---- helpers
    def err(self, n, msg=""):
        loc = n.get("range", {}).get("begin", {})
        raise TranslationError("%s: unsupported %s %s (line %s)" % (self.lean_name, n.get("kind"), msg, loc.get("line", "?")))

    def member_path(self, n):
        """MemberExpr chain rooted at a param / this -> flattened lean parameter name, or None."""
        parts = []
        cur = n
        while True:
            k = cur.get("kind")
            if k == "MemberExpr":
                parts.append(cur["name"])
                cur = inner(cur)[0]
            elif k in ("ImplicitCastExpr", "ParenExpr"):
                cur = inner(cur)[0]
            elif k == "UnaryOperator" and cur.get("opcode") == "*":
                cur = inner(cur)[0]
            elif k == "CXXOperatorCallExpr" and self.callee_name(inner(cur)[0]) in ("operator->", "operator*"):
                cur = inner(cur)[1]
            elif k == "CallExpr" and self.is_accessor_call(cur):
                parts.append(self.callee_name(inner(cur)[0]))
                cur = inner(cur)[1]
            elif k == "CXXThisExpr":
                root = None
                break
            elif k == "DeclRefExpr":
                rd = cur["referencedDecl"]
                if rd["kind"] != "ParmVarDecl":
                    return None
                root = rd["name"]
                break
            else:
                return None
        parts.reverse()
        if root is not None:
            base = self.subst[-1].get(root, root)
            name = "_".join([base] + parts)
        else:
            name = "_".join(parts)
        return name

    # ---- expressions
    def expr(self, n):
        k = n.get("kind")
        if k in ("ParenExpr",):
            return "(" + self.expr(inner(n)[0]) + ")"
        if k in ("ExprWithCleanups", "MaterializeTemporaryExpr", "CXXBindTemporaryExpr", "ConstantExpr",
                 "CXXConstructExpr") and len(inner(n)) == 1:
            return self.expr(inner(n)[0])
        if k == "IntegerLiteral":
            v = n["value"]
            if is_unsigned(qual(n)):
                return "(%s : UInt64)" % v
            return "(%s : Int)" % v
        if k == "CXXBoolLiteralExpr":
            return "true" if n["value"] else "false"
        if k == "DeclRefExpr":
            rd = n["referencedDecl"]
            if rd["kind"] == "EnumConstantDecl":
                return "." + lc(rd["name"])
            if rd["kind"] == "ParmVarDecl":
                nm = rd["name"]
                if nm in self.subst[-1]:
                    return self.subst[-1][nm]
                return nm
            if rd["kind"] == "VarDecl":
                nm = rd["name"]
                if nm in self.locals_:
                    return nm
                if nm in self.consts:
                    v = self.consts[nm]
                    return "(%d : %s)" % (v, lean_type(qual(n)))
                self.err(n, "reference to unknown variable " + nm)
            self.err(n, "DeclRef to " + rd["kind"])
        if k == "MemberExpr":
            base = inner(n)[0]
            # field of a local record (UInt128Struct)
            bt = strip_type(qual(base)).split("::")[-1]
            if bt in RECORD_FIELDS and self.member_path(n) is None:
                idx = RECORD_FIELDS[bt].index(n["name"])
                return "(%s).%d" % (self.expr(base), idx + 1)
            mp = self.member_path(n)
            if mp is None:
                self.err(n, "member expression not rooted at a parameter")
            lt = lean_type(qual(n))
            if mp in self.members and self.members[mp] != lt:
                self.err(n, "member type clash " + mp)
            self.members[mp] = lt
            return mp
        if k in ("ImplicitCastExpr", "CStyleCastExpr", "CXXStaticCastExpr", "CXXFunctionalCastExpr"):
            sub = inner(n)[0]
            ck = n.get("castKind")
            if ck in ("LValueToRValue", "NoOp", "FunctionToPointerDecay", "ConstructorConversion", "UserDefinedConversion"):
                return self.expr(sub)
            if ck == "IntegralCast":
                src, dst = lean_type(qual(sub)), lean_type(qual(n))
                return self.convert(self.expr(sub), src, dst, sub)
            if ck == "PointerToBoolean":
                # a pointer used as a truth value: the model only needs to know whether it is null
                cur = sub
                while cur.get("kind") in ("ImplicitCastExpr", "ParenExpr"):
                    cur = inner(cur)[0]
                mp = self.member_path_noreg(cur) if cur.get("kind") == "MemberExpr" else None
                if mp is None:
                    self.err(n, "pointer truth value not rooted at a parameter")
                nm = mp + "_nonnull"
                self.members[nm] = "Bool"
                return nm
            if ck == "IntegralToBoolean":
                src = lean_type(qual(sub))
                if src == "Bool":
                    return self.expr(sub)
                return "(decide (%s ≠ 0))" % self.expr(sub)
            self.err(n, "cast kind %s" % ck)
        if k == "UnaryOperator":
            op = n["opcode"]
            sub = inner(n)[0]
            t = lean_type(qual(n))
            if op == "-":
                return "(-%s)" % self.expr(sub)
            if op == "+":
                return self.expr(sub)
            if op == "!":
                return "(!%s)" % self.expr(sub)
            if op == "~" and t == "UInt64":
                return "(~~~%s)" % self.expr(sub)
            self.err(n, "unary " + op)
        if k == "BinaryOperator":
            op = n["opcode"]
            a, b = inner(n)
            ta = lean_type(qual(a))
            tr = lean_type(qual(n))
            ea, eb = self.expr(a), self.expr(b)
            if op in ("<", ">", "<=", ">="):
                lop = {"<": "<", ">": ">", "<=": "≤", ">=": "≥"}[op]
                if ta == "Bool":
                    self.err(n, "ordering on Bool")
                return "(decide (%s %s %s))" % (ea, lop, eb)
            if op == "==":
                return "(decide (%s = %s))" % (ea, eb)
            if op == "!=":
                return "(decide (%s ≠ %s))" % (ea, eb)
            if op == "&&":
                return "(%s && %s)" % (ea, eb)
            if op == "||":
                return "(%s || %s)" % (ea, eb)
            if op in ("+", "-", "*"):
                if tr == "Bool":
                    self.err(n, "arithmetic on Bool")
                return "(%s %s %s)" % (ea, op, eb)
            if op == "/":
                return "(Int.tdiv %s %s)" % (ea, eb) if tr == "Int" else "(%s / %s)" % (ea, eb)
            if op == "%":
                return "(Int.tmod %s %s)" % (ea, eb) if tr == "Int" else "(%s %% %s)" % (ea, eb)
            if op == "&" and tr == "Int":
                return "(Clipper.Gen.intAnd %s %s)" % (ea, eb)
            if op in ("&", "|", "^") and tr == "UInt64":
                lop = {"&": "&&&", "|": "|||", "^": "^^^"}[op]
                return "(%s %s %s)" % (ea, lop, eb)
            if op in ("<<", ">>") and tr == "UInt64":
                lop = {"<<": "<<<", ">>": ">>>"}[op]
                tb = lean_type(qual(b))
                eb2 = self.convert(eb, tb, "UInt64", b)
                return "(%s %s %s)" % (ea, lop, eb2)
            self.err(n, "binary " + op + " at type " + tr)
        if k == "ConditionalOperator":
            c, a, b = inner(n)
            return "(if %s then %s else %s)" % (self.expr(c), self.expr(a), self.expr(b))
        if k == "InitListExpr":
            t = strip_type(qual(n)).split("::")[-1]
            if t in RECORD_FIELDS:
                return "(" + ", ".join(self.expr(c) for c in inner(n)) + ")"
            self.err(n, "init list of " + t)
        if k == "CXXOperatorCallExpr":
            kids = inner(n)
            callee = kids[0]
            nm = self.callee_name(callee)
            if nm == "operator()":
                # lambda call: kids[1] is the lambda object, rest are args
                f = self.expr(kids[1])
                return "(%s %s)" % (f, " ".join(self.expr(a) for a in kids[2:]))
            if nm == "operator==":
                return "(decide (%s = %s))" % (self.expr(kids[1]), self.expr(kids[2]))
            if nm == "operator!=":
                return "(decide (%s ≠ %s))" % (self.expr(kids[1]), self.expr(kids[2]))
            self.err(n, "operator call " + str(nm))
        if k == "CallExpr":
            kids = inner(n)
            nm = self.callee_name(kids[0])
            args = kids[1:]
            if nm in ("abs", "llabs", "labs"):
                return "(Clipper.Gen.iabs %s)" % self.expr(args[0])
            if nm in ("max", "min"):
                return "(%s %s %s)" % (nm, self.expr(args[0]), self.expr(args[1]))
            if nm in self.inline_fns and any(self.is_record(a) for a in args):
                return self.inline_call(self.inline_fns[nm], args, n)
            if self.is_accessor_call(n):
                mp = self.member_path_noreg(n)
                if mp is None:
                    self.err(n, "accessor call not rooted at a parameter")
                lt = lean_type(qual(n))
                if mp in self.members and self.members[mp] != lt:
                    self.err(n, "member type clash " + mp)
                self.members[mp] = lt
                return mp
            if nm in self.externs and nm not in self.known and any(self.is_record(a) for a in args):
                return self.extern_call(nm, args, n)
            if nm in self.known:
                return "(%s %s)" % (self.known[nm], " ".join(self.expr(a) for a in args))
            self.err(n, "call to " + str(nm))
        if k == "LambdaExpr":
            return self.lambda_(n)
        self.err(n)

    def is_record(self, a):
        try:
            lean_type(qual(a))
            return False
        except TranslationError:
            return True

    def callee_name(self, c):
        while c.get("kind") in ("ImplicitCastExpr", "ParenExpr"):
            c = inner(c)[0]
        if c.get("kind") == "DeclRefExpr":
            return c["referencedDecl"]["name"]
        if c.get("kind") == "UnresolvedLookupExpr":
            return c.get("name")
        return None

    def convert(self, e, src, dst, node):
        if src == dst:
            return e
        if src == "Bool" and dst == "Int":
            return "(if %s then (1 : Int) else 0)" % e
        if src == "Bool" and dst == "UInt64":
            return "(if %s then (1 : UInt64) else 0)" % e
        if src == "Int" and dst == "UInt64":
            m = re.fullmatch(r"\((\d+) : Int\)", e)
            if m:
                return "(%s : UInt64)" % m.group(1)
            return "(Clipper.Gen.toU64 %s)" % e
        if src == "UInt64" and dst == "Int":
            return "(Clipper.Gen.ofU64 %s)" % e
        if dst == "Int" and src.startswith("Clipper."):
            return "(Clipper.Gen.enumToInt %s)" % e
        if src == "Int" and dst.startswith("Clipper."):
            return "(Clipper.Gen.enumOfInt %s : %s)" % (e, dst)
        self.err(node, "conversion %s -> %s" % (src, dst))

    def lambda_(self, n):
        # LambdaExpr: inner has CXXRecordDecl (with the call operator) and CompoundStmt body
        meth = None
        for c in inner(n):
            if c.get("kind") == "CXXRecordDecl":
                for m in inner(c):
                    if m.get("kind") == "CXXMethodDecl" and m.get("name") == "operator()":
                        meth = m
        if meth is None:
            self.err(n, "lambda without call operator")
        ps = [c for c in inner(meth) if c.get("kind") == "ParmVarDecl"]
        body = [c for c in inner(meth) if c.get("kind") == "CompoundStmt"][0]
        saved = self.locals_
        self.locals_ = set(saved)
        binder = " ".join("(%s : %s)" % (p["name"], lean_type(qual(p))) for p in ps)
        for p in ps:
            self.locals_.add(p["name"])
        self.subst.append({})
        saved_outs, self.outs = self.outs, []
        saved_throws, self.throws = self.throws, False
        b = self.stmts(inner(body), None, None)
        self.outs, self.throws = saved_outs, saved_throws
        self.subst.pop()
        self.locals_ = saved
        return "(fun %s => %s)" % (binder, b)

    def inline_call(self, fnode, args, callnode):
        ps = [c for c in inner(fnode) if c.get("kind") == "ParmVarDecl"]
        body = [c for c in inner(fnode) if c.get("kind") == "CompoundStmt"][0]
        sub = {}
        lets = []
        for p, a in zip(ps, args):
            if self.is_record(a):
                # must be a parameter reference (possibly through casts / deref)
                cur = a
                while cur.get("kind") in ("ImplicitCastExpr", "ParenExpr") or (cur.get("kind") == "UnaryOperator" and cur.get("opcode") == "*"):
                    cur = inner(cur)[0]
                if cur.get("kind") == "DeclRefExpr" and cur["referencedDecl"]["kind"] == "ParmVarDecl":
                    nm = cur["referencedDecl"]["name"]
                    sub[p["name"]] = self.subst[-1].get(nm, nm)
                elif cur.get("kind") == "MemberExpr":
                    mp = self.member_path_noreg(cur)
                    if mp is None:
                        self.err(callnode, "record argument not rooted at parameter")
                    sub[p["name"]] = mp
                else:
                    self.err(callnode, "record argument of kind " + cur.get("kind"))
            else:
                lets.append((p["name"], lean_type(qual(p)), self.expr(a)))
                sub[p["name"]] = p["name"] + "'"
        self.subst.append(sub)
        saved_outs, self.outs = self.outs, []
        saved_throws, self.throws = self.throws, False
        saved_locals = self.locals_
        self.locals_ = set(saved_locals)
        b = self.stmts(inner(body), None, None)
        self.locals_ = saved_locals
        self.outs, self.throws = saved_outs, saved_throws
        self.subst.pop()
        pre = "".join("let %s' : %s := %s; " % (nm, ty, e) for nm, ty, e in lets)
        return "(%s%s)" % (pre, b)

    def member_path_noreg(self, n):
        parts = []
        cur = n
        while True:
            k = cur.get("kind")
            if k == "MemberExpr":
                parts.append(cur["name"])
                cur = inner(cur)[0]
            elif k in ("ImplicitCastExpr", "ParenExpr") or (k == "UnaryOperator" and cur.get("opcode") == "*"):
                cur = inner(cur)[0]
            elif k == "CallExpr" and self.is_accessor_call(cur):
                parts.append(self.callee_name(inner(cur)[0]))
                cur = inner(cur)[1]
            elif k == "DeclRefExpr" and cur["referencedDecl"]["kind"] == "ParmVarDecl":
                root = cur["referencedDecl"]["name"]
                break
            else:
                return None
        parts.reverse()
        return "_".join([self.subst[-1].get(root, root)] + parts)

    def is_accessor_call(self, n):
        kids = inner(n)
        return len(kids) == 2 and self.callee_name(kids[0]) in self.accessors and self.is_record(kids[1])

    def extern_call(self, nm, args, n):
        """call of a function translated in another unit.  `self.externs[nm]` = (lean name, generated signature, declared
        C parameter names).  The generated signature lists scalar parameters by name and record parameters field by field
        (`pt1_x pt1_y …`, alphabetically); each argument is matched to its parameter through the *declared* position."""
        lean_name, sig, decl = self.externs[nm]
        if len(args) != len(decl):
            self.err(n, "extern %s: %d arguments for %d parameters" % (nm, len(args), len(decl)))
        val = {}
        for pn, a in zip(decl, args):
            if not self.is_record(a):
                ty = dict(sig).get(pn)
                if ty is None:
                    self.err(n, "extern %s: parameter %s not in the generated signature" % (nm, pn))
                val[pn] = self.convert(self.expr(a), lean_type(qual(a)), ty, a)
                continue
            mp = self.member_path_noreg(self.strip(a))
            if mp is None:
                self.err(n, "record argument of extern %s not rooted at a parameter" % nm)
            flds = [(s_, t_) for s_, t_ in sig if s_.startswith(pn + "_")]
            if not flds:
                self.err(n, "extern %s: record parameter %s has no fields in the generated signature" % (nm, pn))
            for s_, t_ in flds:
                full = mp + s_[len(pn):]
                if full in self.members and self.members[full] != t_:
                    self.err(n, "member type clash " + full)
                self.members[full] = t_
                val[s_] = full
        missing = [s_ for s_, _ in sig if s_ not in val]
        if missing:
            self.err(n, "extern %s: parameters %s not supplied" % (nm, missing))
        return "(%s %s)" % (lean_name, " ".join(val[s_] for s_, _ in sig))

    # ---- statements (continuation style)
    def ret(self, e):
        if self.outs:
            e = "(" + ", ".join(([e] if e is not None else []) + self.outs) + ")"
        if self.throws:
            return "(.ok %s)" % e
        return e

    def flatten(self, stmts):
        out = []
        for s in stmts:
            if s.get("kind") == "CompoundStmt":
                out.extend(self.flatten(inner(s)))
            elif s.get("kind") == "NullStmt":
                pass
            else:
                out.append(s)
        return out

    def stmts(self, lst, k_norm, k_break):
        """Translate a statement list; k_norm() yields the code that follows the list (None: falling off
        the end of a non-void function is an error, of a void function returns the out-params)."""
        lst = self.flatten(lst)
        if not lst:
            if k_norm is not None:
                return k_norm()
            if self.ret_type == "Unit":
                return self.ret(None) if self.outs else self.ret("()")
            raise TranslationError("%s: control reaches end of non-void function" % self.lean_name)
        s, rest = lst[0], lst[1:]
        k = s.get("kind")
        cont = lambda: self.stmts(rest, k_norm, k_break)
        if k == "ReturnStmt":
            kids = inner(s)
            if not kids:
                return self.ret(None) if self.outs else self.ret("()")
            return self.ret(self.expr(kids[0]))
        if k == "BreakStmt":
            if k_break is None:
                self.err(s, "break outside switch")
            return k_break()
        if k == "DeclStmt":
            code = ""
            for v in inner(s):
                if v.get("kind") != "VarDecl":
                    self.err(v)
                nm = v["name"]
                init = [c for c in inner(v)]
                is_lambda = bool(init) and self.strip(init[0]).get("kind") == "LambdaExpr"
                if is_lambda:
                    self.locals_.add(nm)
                    code += "let %s := %s\n" % (nm, self.expr(self.strip(init[0])))
                    continue
                ty = lean_type(qual(v))
                if init:
                    code += "let %s : %s := %s\n" % (nm, ty, self.expr(init[0]))
                else:
                    code += "let %s : %s := default\n" % (nm, ty)
                self.locals_.add(nm)
            return code + cont()
        if k in ("BinaryOperator", "CompoundAssignOperator"):
            op = s["opcode"]
            lhs, rhs = inner(s)
            tgt = self.lvalue(lhs)
            if op == "=":
                return "let %s := %s\n" % (tgt, self.expr(rhs)) + cont()
            m = {"|=": "|||", "&=": "&&&", "+=": "+", "-=": "-", "*=": "*"}
            if op in m:
                lop = m[op]
                ty = lean_type(qual(lhs))
                if lop in ("|||", "&&&") and ty == "Int":
                    fn = "Clipper.Gen.intOr" if lop == "|||" else "Clipper.Gen.intAnd"
                    return "let %s := %s %s %s\n" % (tgt, fn, tgt, self.expr(rhs)) + cont()
                return "let %s := %s %s %s\n" % (tgt, tgt, lop, self.expr(rhs)) + cont()
            self.err(s, "statement operator " + op)
        if k == "UnaryOperator" and s.get("opcode") in ("++", "--"):
            tgt = self.lvalue(inner(s)[0])
            return "let %s := %s %s 1\n" % (tgt, tgt, "+" if s["opcode"] == "++" else "-") + cont()
        if k == "IfStmt":
            kids = inner(s)
            c = self.expr(kids[0])
            saved = set(self.locals_)
            a = self.stmts([kids[1]], cont, k_break)
            self.locals_ = set(saved)
            b = self.stmts([kids[2]], cont, k_break) if len(kids) > 2 else cont()
            return "if %s then\n%s\nelse\n%s" % (c, indent(a), indent(b))
        if k == "SwitchStmt":
            return self.switch(s, cont, k_break)
        if k == "CallExpr":
            nm = self.callee_name(inner(s)[0])
            if nm == "DoError":
                code = self.expr(inner(s)[1])
                if not self.throws:
                    self.err(s, "DoError in a function not declared as throwing")
                return "if exc then .error %s else\n%s" % (code, cont())
            self.err(s, "call statement " + str(nm))
        if k in ("ExprWithCleanups",):
            return self.stmts(inner(s) + rest, k_norm, k_break)
        self.err(s)

    def strip(self, n):
        while n.get("kind") in ("ExprWithCleanups", "MaterializeTemporaryExpr", "ImplicitCastExpr", "CXXConstructExpr", "CXXBindTemporaryExpr") and len(inner(n)) == 1:
            n = inner(n)[0]
        return n

    def lvalue(self, n):
        while n.get("kind") in ("ParenExpr",):
            n = inner(n)[0]
        if n.get("kind") == "DeclRefExpr":
            rd = n["referencedDecl"]
            nm = rd["name"]
            if rd["kind"] == "ParmVarDecl":
                nm = self.subst[-1].get(nm, nm)
                if len(self.subst) == 1 and nm not in self.outs and nm in self.ref_params:
                    self.err(n, "assignment to reference parameter not registered as out: " + nm)
            return nm
        self.err(n, "assignment target")

    def switch(self, s, cont, k_break_outer):
        kids = inner(s)
        scrut = kids[0]
        body = kids[1]
        sty = lean_type(qual(scrut))
        is_int = sty == "Int"
        if not sty.startswith("Clipper.") and not is_int:
            self.err(s, "switch over non-enum type " + sty)
        # linearise: list of ('label', name|None-for-default) and ('stmt', node)
        seq = []

        def lin(n):
            k = n.get("kind")
            if k == "CompoundStmt":
                for c in inner(n):
                    lin(c)
            elif k == "CaseStmt":
                kk = inner(n)
                lab = kk[0]
                while lab.get("kind") in ("ConstantExpr", "ImplicitCastExpr"):
                    lab = inner(lab)[0]
                if lab.get("kind") == "IntegerLiteral" and is_int:
                    seq.append(("label", int(lab["value"])))
                elif lab.get("kind") != "DeclRefExpr" or lab["referencedDecl"]["kind"] != "EnumConstantDecl":
                    self.err(n, "case label")
                else:
                    seq.append(("label", lab["referencedDecl"]["name"]))
                if len(kk) > 1:
                    lin(kk[1])
            elif k == "DefaultStmt":
                seq.append(("label", None))
                kk = inner(n)
                if kk:
                    lin(kk[0])
            else:
                seq.append(("stmt", n))

        lin(body)
        labels = [(i, x[1]) for i, x in enumerate(seq) if x[0] == "label"]
        named = [nm for _, nm in labels if nm is not None]
        has_default = any(nm is None for _, nm in labels)
        arms = []
        saved = set(self.locals_)
        scr = self.expr(scrut)

        def from_index(i):
            self.locals_ = set(saved)
            tail = [x[1] for x in seq[i + 1:] if x[0] == "stmt"]
            return self.stmts(tail, cont, cont)

        if is_int:
            if has_default:
                i = [i for i, nm in labels if nm is None][0]
                code = from_index(i)
            else:
                self.locals_ = set(saved)
                code = cont()
            for i, nm in reversed(labels):
                if nm is None:
                    continue
                code = "if (decide (%s = (%d : Int))) then\n%s\nelse\n%s" % (scr, nm, indent(from_index(i)), indent(code))
            self.locals_ = set(saved)
            return code
        for i, nm in labels:
            if nm is None:
                continue
            arms.append("| .%s =>\n%s" % (lc(nm), indent(from_index(i))))
        exhaustive = set(named) >= set(ENUM_CTORS.get(sty, ["?"]))
        if exhaustive:
            pass  # every constructor has its own arm: a wildcard arm would be unreachable
        elif has_default:
            i = [i for i, nm in labels if nm is None][0]
            arms.append("| _ =>\n%s" % indent(from_index(i)))
        else:
            self.locals_ = set(saved)
            arms.append("| _ =>\n%s" % indent(cont()))
        self.locals_ = set(saved)
        return "match %s with\n%s" % (scr, "\n".join(arms))

    # ---- whole function
    def translate(self):
        n = self.node
        ps = [c for c in inner(n) if c.get("kind") == "ParmVarDecl"]
        body = [c for c in inner(n) if c.get("kind") == "CompoundStmt"][0]
        self.locals_ = set()
        self.ref_params = set()
        rt = n["type"]["qualType"].split("(")[0].strip()
        self.ret_type = "Unit" if rt == "void" else lean_type(rt)
        # which reference params are assigned?  (pre-scan)
        assigned = set()

        def scan(x):
            if not isinstance(x, dict):
                return
            if x.get("kind") in ("BinaryOperator", "CompoundAssignOperator") and x.get("opcode", "").endswith("=") and x.get("opcode") not in ("==", "!=", "<=", ">="):
                l = inner(x)[0]
                while l.get("kind") == "ParenExpr":
                    l = inner(l)[0]
                if l.get("kind") == "DeclRefExpr" and l["referencedDecl"]["kind"] == "ParmVarDecl":
                    assigned.add(l["referencedDecl"]["name"])
            for c in inner(x):
                scan(c)

        scan(body)
        for p in ps:
            t = p["type"]["qualType"]
            try:
                lt = lean_type(t)
            except TranslationError:
                continue  # record parameter: reached through member paths
            self.params.append((p["name"], lt))
            if "&" in t and "const" not in t:
                self.ref_params.add(p["name"])
                if p["name"] in assigned:
                    self.outs.append(p["name"])
            elif p["name"] in assigned:
                pass  # by-value parameter used as a local
        code = self.stmts(inner(body), None, None)
        allp = list(self.params) + sorted(self.members.items())
        rty = self.ret_type
        if self.outs:
            outs_t = [dict(self.params)[o] for o in self.outs]
            parts = ([rty] if rty != "Unit" else []) + outs_t
            rty = "(" + " × ".join(parts) + ")" if len(parts) > 1 else parts[0]
        if self.throws:
            rty = "Except Int %s" % rty
            allp = [("exc", "Bool")] + allp
        binders = " ".join("(%s : %s)" % (a, b) for a, b in allp)
        return "def %s %s : %s :=\n%s\n" % (self.lean_name, binders, rty, indent(code)), allp


def indent(s, n=2):
    return "\n".join((" " * n + l) if l else l for l in s.split("\n"))


# ---------------------------------------------------------------------------------------------
# configuration: what is translated from where

PRELUDE = '''/- GENERATED by tools/cpp2lean.py from /repo's current sources: do not edit. -/
import ClipperVerif.Spec.Enums
set_option linter.unusedVariables false
namespace Clipper.Gen
'''


def int_consts(objs_by_name):
    out = {}
    for name, objs in objs_by_name.items():
        for o in objs:
            if o.get("kind") == "VarDecl" and o.get("name") == name:
                def lit(n):
                    if n.get("kind") == "IntegerLiteral":
                        return int(n["value"])
                    if n.get("kind") == "UnaryOperator" and n.get("opcode") == "-":
                        v = lit(inner(n)[0])
                        return None if v is None else -v
                    for c in inner(n):
                        v = lit(c)
                        if v is not None:
                            return v
                    return None
                v = lit(o)
                if v is not None:
                    out[name] = v
    return out


def translate_unit(tu_text, specs, consts_names=(), extra_inc=None, inline_names=(), defines=(), externs=None, want_decls=False):
    """specs: list of dicts {c: C name, lean: lean name, types: substring of qualType or None, throws: bool}"""
    consts = {}
    if consts_names:
        objs = {nm: clang_ast(tu_text, nm, extra_inc, defines) for nm in consts_names}
        consts = int_consts(objs)
        for nm in consts_names:
            if nm not in consts:
                raise TranslationError("cannot evaluate constant " + nm)
    inline_fns = {}
    for nm in inline_names:
        b = find_bodies(clang_ast(tu_text, nm, extra_inc, defines), nm)
        if not b:
            raise TranslationError("no body for inline function " + nm)
        inline_fns[nm] = b[-1]
    known = {}
    out = []
    sigs = {}
    decls = {}
    for sp in specs:
        objs = clang_ast(tu_text, sp.get("filt", sp["c"]), extra_inc, defines)
        bodies = find_bodies(objs, sp["c"], sp.get("types"))
        if not bodies:
            raise TranslationError("function %s (%s) not found in current sources" % (sp["c"], sp.get("types")))
        node = bodies[-1]
        fn = Fn(node, sp["lean"], dict(known), consts, inline_fns, throws=sp.get("throws", False),
                accessors=sp.get("accessors", ()), externs=externs)
        code, params = fn.translate()
        loc = node.get("loc", {})
        out.append("/-- C++ `%s` : `%s` -/\n%s" % (sp["c"], node["type"]["qualType"], code))
        known[sp["c"]] = sp["lean"]
        sigs[sp["lean"]] = params
        decls[sp["lean"]] = [c["name"] for c in inner(node) if c.get("kind") == "ParmVarDecl"]
    if want_decls:
        return "\n".join(out), sigs, decls
    return "\n".join(out), sigs


CORE_TU = '''#include "clipper2/clipper.h"
namespace Clipper2Lib {
template int CrossProductSign<int64_t>(const Point<int64_t>&, const Point<int64_t>&, const Point<int64_t>&);
template bool IsCollinear<int64_t>(const Point<int64_t>&, const Point<int64_t>&, const Point<int64_t>&);
template int GetSign<int64_t>(const int64_t&);
}
'''

CORE_SPECS = [
    dict(c="TriSign", lean="TriSign"),
    dict(c="Multiply", lean="Multiply"),
    dict(c="ProductsAreEqual", lean="ProductsAreEqual"),
    dict(c="CrossProductSign", lean="CrossProductSign", types="Point<long>"),
    dict(c="IsCollinear", lean="IsCollinear", types="Point<long>"),
    dict(c="GetSign", lean="GetSign", types="const long &"),
    dict(c="CheckPrecisionRange", lean="CheckPrecisionRange", types="int &, int &", throws=True),
]

ENGINE_TU = '''#include "clipper.engine.cpp"
'''
ENGINE_SPECS = [
    dict(c="IsOdd", lean="IsOdd"),
    dict(c="IsContributingClosed", lean="IsContributingClosed"),
    dict(c="IsContributingOpen", lean="IsContributingOpen"),
    dict(c="PtsReallyClose", lean="PtsReallyClose"),
    dict(c="operator()", lean="LocMinSorter", filt="LocMinSorter"),
    dict(c="operator()", lean="HorzSegSorter", filt="HorzSegSorter"),
    dict(c="IntersectListSort", lean="IntersectListSort"),
    # pointer chasing (vertex ring, local minimum) is not followed: IsMaxima(e), NextVertex(e)->pt, PrevPrevVertex(e)->pt and
    # e.local_min->vertex->pt.y become parameters; CrossProductSign / IsCollinear are the definitions of unit Core
    dict(c="IsValidAelOrder", lean="IsValidAelOrder", accessors=("IsMaxima", "NextVertex", "PrevPrevVertex")),
]
# functions of unit Core that unit Engine calls with Point64 arguments
ENGINE_EXTERNS = ("CrossProductSign", "IsCollinear")

RECT_TU = '''#include "clipper.rectclip.cpp"
'''
RECT_SPECS = [
    dict(c="GetLocation", lean="GetLocation"),
    dict(c="GetAdjacentLocation", lean="GetAdjacentLocation"),
    dict(c="HeadingClockwise", lean="HeadingClockwise"),
    dict(c="AreOpposites", lean="AreOpposites"),
    dict(c="GetEdgesForPt", lean="GetEdgesForPt"),
    dict(c="IsHeadingClockwise", lean="IsHeadingClockwise"),
    dict(c="HasHorzOverlap", lean="HasHorzOverlap"),
    dict(c="HasVertOverlap", lean="HasVertOverlap"),
]

PORTABLE_COND = "#if (defined(__clang__) || defined(__GNUC__)) && UINTPTR_MAX >= UINT64_MAX"


def make_portable_include(dst_dir):
    """Copy of clipper.core.h in which the compiler-specific branches are switched off, so that the
    portable 64x64 code (never compiled on this platform) can be parsed, translated and executed."""
    src = open(os.path.join(INC, "clipper2/clipper.core.h")).read()
    cnt = src.count(PORTABLE_COND)
    if cnt < 2:
        raise TranslationError("portable-branch condition not found twice in clipper.core.h (found %d)" % cnt)
    src = src.replace(PORTABLE_COND, "#if 0 /* cpp2lean: portable branch selected */")
    os.makedirs(os.path.join(dst_dir, "clipper2"), exist_ok=True)
    with open(os.path.join(dst_dir, "clipper2/clipper.core.h"), "w") as f:
        f.write(src)
    for h in ("clipper.version.h",):
        with open(os.path.join(dst_dir, "clipper2", h), "w") as f:
            f.write(open(os.path.join(INC, "clipper2", h)).read())
    return cnt


PORTABLE_TU = '''#include "clipper2/clipper.core.h"
namespace Clipper2Lib {
template int CrossProductSign<int64_t>(const Point<int64_t>&, const Point<int64_t>&, const Point<int64_t>&);
template bool IsCollinear<int64_t>(const Point<int64_t>&, const Point<int64_t>&, const Point<int64_t>&);
}
'''
PORTABLE_SPECS = [
    dict(c="TriSign", lean="TriSign"),
    dict(c="Multiply", lean="Multiply"),
    dict(c="ProductsAreEqual", lean="ProductsAreEqual"),
    dict(c="CrossProductSign", lean="CrossProductSign", types="Point<long>"),
    dict(c="IsCollinear", lean="IsCollinear", types="Point<long>"),
]


def write_if_changed(path, text):
    old = None
    if os.path.exists(path):
        old = open(path).read()
    if old != text:
        os.makedirs(os.path.dirname(path), exist_ok=True)
        with open(path, "w") as f:
            f.write(text)
        return True
    return False


def generate(outdir):
    """Regenerate all generated Lean files.  Returns (report dict).  On a translation error the
    affected file is replaced by one that fails to compile with the message, so that the proof
    obligations depending on it are visibly broken."""
    report = {"files": {}, "errors": []}
    units = [
        ("Core", CORE_TU, CORE_SPECS, ("CLIPPER2_MAX_DEC_PRECISION", "precision_error_i"), None, ()),
        ("Engine", ENGINE_TU, ENGINE_SPECS, (), None, ("GetPolyType",)),
        ("RectClip", RECT_TU, RECT_SPECS, (), None, ()),
    ]
    with tempfile.TemporaryDirectory(prefix="cpp2lean_port") as pd:
        try:
            make_portable_include(pd)
            units.append(("Portable", PORTABLE_TU, PORTABLE_SPECS, (), pd, ()))
        except TranslationError as e:
            units.append(("Portable", None, str(e), (), None, ()))
        core_sigs, core_decls = {}, {}
        for name, tu, specs, consts, extra, inl in units:
            path = os.path.join(outdir, name + ".lean")
            ns = "Clipper.Gen" if name != "Portable" else "Clipper.Gen.Portable"
            try:
                if tu is None:
                    raise TranslationError(specs)
                externs = None
                if name == "Engine":
                    # unit Engine refers to the Core definitions by their qualified names (and imports that file)
                    externs = {c: ("Clipper.Gen." + c, core_sigs[c], core_decls[c]) for c in ENGINE_EXTERNS if c in core_sigs}
                body, sigs, decls = translate_unit(tu, specs, consts, extra, inl, externs=externs, want_decls=True)
                if name == "Core":
                    core_sigs, core_decls = sigs, decls
                text = PRELUDE.replace("namespace Clipper.Gen", "namespace " + ns) + "\n" + body + "\nend " + ns + "\n"
                if name == "Engine":
                    text = text.replace("import ClipperVerif.Spec.Enums", "import ClipperVerif.Spec.Enums\nimport ClipperVerif.Generated.Core", 1)
                report["files"][name] = {"functions": list(sigs.keys()), "sha256": hashlib.sha256(text.encode()).hexdigest()}
            except TranslationError as e:
                msg = str(e).replace('"', "'")
                text = PRELUDE + '\n#eval (throwError "cpp2lean: %s" : Lean.Elab.Command.CommandElabM Unit)\nend Clipper.Gen\n' % msg
                text = text.replace("import ClipperVerif.Spec.Enums", "import ClipperVerif.Spec.Enums\nimport Lean")
                report["errors"].append({"unit": name, "error": str(e)})
            report["files"].setdefault(name, {})["changed"] = write_if_changed(path, text)
    return report


if __name__ == "__main__":
    out = sys.argv[1] if len(sys.argv) > 1 else os.path.join(os.path.dirname(os.path.abspath(__file__)), "../lean/ClipperVerif/Generated")
    rep = generate(out)
    print(json.dumps(rep, indent=1))
    sys.exit(1 if rep["errors"] else 0)
