#!/usr/bin/env python3
"""cpp2lean: translate small, loop-free C++ decision functions of Clipper2 into Lean 4.

Tie T of DESIGN.md: on every run the typed JSON AST of a fixed list of functions is taken from
/repo's *current* sources with clang-14 and re-emitted as Lean definitions
(`ClipperVerif/Generated/*.lean`).  The theorems in `ClipperVerif/Props` mention these
definitions, so `lake build` re-checks them against what the code says now.

Supported subset (anything else raises TranslationError naming the AST node):
  statements : CompoundStmt, DeclStmt/VarDecl, assignment & compound assignment to locals and
               reference parameters, IfStmt, SwitchStmt over enums (fall-through, break, default),
               ReturnStmt, BreakStmt, NullStmt, calls to DoError (modelled as an early error exit)
  expressions: integer/bool literals, DeclRefExpr (locals, params, enum constants, global integer
               constants), MemberExpr chains rooted at a parameter or `this`, unary/binary/conditional
               operators, casts, calls to other translated functions, abs/min/max, lambdas without
               captures, brace-initialised UInt128Struct; calls `f(p)` of a configured *accessor* on a record
               parameter (IsMaxima(e), NextVertex(e)->pt.x: pointer chasing the model does not follow) become
               pseudo-members `p_f…`, i.e. further scalar parameters; calls with record arguments (Point64)
               to a function translated in another unit (*extern*) pass the record's fields one by one
Statement lists are translated continuation-style; a local assignment becomes a shadowing `let`.
Type mapping: signed integer types -> Int (overflow freedom is a separate, proved side condition),
unsigned 64-bit -> UInt64 (wrapping, as in C++), bool -> Bool, scoped enums -> Lean inductives, `VertexFlags` (a bit mask
with overloaded `&` / `|`) -> UInt64.

Pointers are not values of the model.  A pointer used as a truth value / compared with nullptr is the Boolean pseudo-member
`<path>_nonnull`; pointers compared with each other (or returned) are `Nat` identities: `e_addr` = which record the parameter
`e` is, a pointer member `e.outrec->front_edge` = the flattened path `e_outrec_front_edge`.  A pointer (or record
reference) *local* names a record flow-sensitively (`Active* e2 = e.prev_in_ael; … e2 = e2->next_in_ael;`).
Methods of a class template specialisation (`Rect64::Contains`) are looked up with `scope=(class, template argument)`; a
`Point64` returned by value / held in a local becomes a tuple / one local per field; calls of functions of the same unit with
record arguments pass the fields one by one (overloads are told apart by clang's declaration id).

Skeletons (`skel=True`): functions that also call untranslated code and write through pointers (IntersectEdges,
AddLocalMinPoly, Split, …).  The generated definition returns the final value of every *scalar* member the function assigns
(alphabetically by flattened name), assigned reference parameters, and the log `acts : List (String × List Int)` of
  * every call of an untranslated callee, `name(record arguments by path)` with its scalar arguments as integers,
  * every pointer assignment `location := record` (later reads through that location follow the new target).
After an untranslated call, a member that the callee may assign — computed from the same AST dump: `mod_analysis`, transitive,
by field declaration — is unknown: reading it yields a separate argument `<path>_after<k>` (k = number of the call site).
A loop is not unrolled: whatever it may assign is a fresh argument `…_after<k>` afterwards.  Distinct paths are assumed to
denote distinct records unless the code compares them.  An `if` / `switch` that always falls through is translated as an
expression producing the values it assigns and emitted as an auxiliary definition `<function>.m<k>` (numbered in source
order) so that theorems can be stated block by block; one that also contains `return`s yields (returned?, value, values…)
and the rest of the function follows once.  (Decision functions without `skel` keep the older scheme: the rest of the
function is copied into every branch.)

Fragments (`frag=[…]`): one statement or condition of a function selected by a path of (`Kind`, k-th in source order) steps
and `body` / `cond` / `then` / `else` / `init` — the condition or one iteration of a loop over the AEL, the code between two
loops.  Locals declared outside the fragment are arguments (and results, if assigned).  (`Call:F`, k) selects the k-th call of `F`
(a call statement of an untranslated / skeleton callee is logged with its record arguments by path and its scalar arguments as
integers, an omitted argument as `default`: this is how the call sites of CheckJoinLeft/Right are put under the tie); `lhs` / `rhs`
select an operand of a binary operator.

Doubles (`dbl=True`, `opaque=(callee,…)`): double arithmetic is not translated.  The listed callees (`CrossProduct`,
`DotProduct`, `GetSegmentIntersectPt`) become function parameters of the generated definition, doubles are values of an
abstract type `D` with `<`, `=` and the literal 0; a `Point64&` the function fills in is a pair of result fields.
An `opaque` callee applied to records and compared with a floating literal other than 0 (`PerpendicDistFromLineSqrd(pt, prev->bot,
prev->top) > 0.25` in CheckJoinLeft; no `dbl` needed) is ONE Boolean argument of the generated definition named after the call site:
`<callee>_<record arguments by path>_<gt|lt|ge|le|eq|ne>_<literal>` (`opaque_compare`).  Theorems bind it by that name.

A definition of `UNIT_LEVEL_FAILURE` that cannot be translated turns its whole unit into a file that does not compile; any
other one is just missing from the generated file (reported under `contained_errors`), so that exactly the theorems that
mention it stop compiling.
"""
import json, os, re, subprocess, sys, hashlib, tempfile

REPO = os.environ.get("VERIF_REPO", "/repo")
INC = os.path.join(REPO, "CPP/Clipper2Lib/include")
SRC = os.path.join(REPO, "CPP/Clipper2Lib/src")


class TranslationError(Exception):
    pass


class Part(str):
    """a member name inside a flattened path, remembering which field declaration it refers to (clang id)"""
    fid = None


def part(name, fid):
    p_ = Part(name)
    p_.fid = fid
    return p_


NULLPATH = "<nullptr>"   # what `resolve` returns for a pointer member the function itself has set to nullptr


# ---------------------------------------------------------------------------------------------
# clang front end

def clang_ast(tu_text, filt, extra_inc=None, defines=()):
    """Return list of top-level JSON decl objects matching the filter."""
    with tempfile.TemporaryDirectory(prefix="cpp2lean") as td:
        tu = os.path.join(td, "tu.cpp")
        with open(tu, "w") as f:
            f.write(tu_text)
        cmd = ["clang++-14", "-std=gnu++17", "-fsyntax-only", "-w"]
        if extra_inc:
            cmd += ["-I", extra_inc]
        cmd += ["-I", INC, "-I", SRC]
        for d in defines:
            cmd.append("-D" + d)
        cmd += ["-Xclang", "-ast-dump=json", "-Xclang", "-ast-dump-filter=" + filt, tu]
        r = subprocess.run(cmd, capture_output=True, text=True)
        if r.returncode != 0:
            raise TranslationError("clang failed for filter %s: %s" % (filt, r.stderr[:2000]))
        s = r.stdout
    dec = json.JSONDecoder()
    i = 0
    objs = []
    n = len(s)
    while i < n:
        while i < n and s[i].isspace():
            i += 1
        if i >= n:
            break
        o, j = dec.raw_decode(s, i)
        objs.append(o)
        i = j
    return objs


_AST_CACHE = {}


def unit_ast(tu_text, extra_inc=None, defines=()):
    """The JSON AST of every declaration inside `namespace Clipper2Lib` of the translation unit (one clang run per unit;
    every function, constant and enum is then looked up in this dump)."""
    key = (tu_text, extra_inc, tuple(defines), REPO)
    if key not in _AST_CACHE:
        _AST_CACHE[key] = clang_ast(tu_text, "Clipper2Lib", extra_inc, defines)
    return _AST_CACHE[key]


def named_subtrees(objs, name):
    """all declarations called `name` (any kind) in the dump"""
    out = []

    def walk(n):
        if not isinstance(n, dict):
            return
        if n.get("name") == name and n.get("kind", "").endswith("Decl"):
            out.append(n)
            return
        for c in inner(n):
            walk(c)

    for o in objs:
        walk(o)
    return out


def inner(n):
    return [c for c in n.get("inner", []) if c]


def qual(n):
    t = n.get("type", {})
    return t.get("desugaredQualType") or t.get("qualType") or ""


def find_bodies(objs, name, want_types=None):
    """All FunctionDecl/CXXMethodDecl nodes called `name` that have a body."""
    out = []

    def walk(n):
        if not isinstance(n, dict):
            return
        k = n.get("kind")
        if k in ("FunctionDecl", "CXXMethodDecl", "CXXConstructorDecl") and n.get("name") == name:
            if any(c.get("kind") == "CompoundStmt" for c in inner(n)):
                out.append(n)
        for c in inner(n):
            walk(c)

    for o in objs:
        walk(o)
    if want_types is not None:
        out = [n for n in out if want_types in n.get("type", {}).get("qualType", "")]
    return out


# ---------------------------------------------------------------------------------------------
# type mapping

ENUMS = {
    "FillRule": "Clipper.FillRule",
    "ClipType": "Clipper.ClipType",
    "PathType": "Clipper.PathType",
    "Location": "Clipper.Location",
    "JoinType": "Clipper.JoinType",
    "EndType": "Clipper.EndType",
    "JoinWith": "Clipper.JoinWith",
    "PointInPolygonResult": "Clipper.PipResult",
}


ENUM_CTORS = {
    "Clipper.FillRule": ["EvenOdd", "NonZero", "Positive", "Negative"],
    "Clipper.ClipType": ["NoClip", "Intersection", "Union", "Difference", "Xor"],
    "Clipper.PathType": ["Subject", "Clip"],
    "Clipper.Location": ["Left", "Top", "Right", "Bottom", "Inside"],
    "Clipper.JoinType": ["Square", "Bevel", "Round", "Miter"],
    "Clipper.EndType": ["Polygon", "Joined", "Butt", "Square", "Round"],
    "Clipper.JoinWith": ["NoJoin", "Left", "Right"],
    "Clipper.PipResult": ["IsOn", "IsInside", "IsOutside"],
}


def strip_type(t):
    t = t.replace("const ", "").replace("volatile ", "").replace("&", "").replace("struct ", "")
    t = t.replace("enum ", "").replace("class ", "").strip()
    return t


def lean_type(t):
    t0 = strip_type(t)
    t1 = t0.split("::")[-1].strip()
    if t0 in ("bool", "_Bool"):
        return "Bool"
    if t0 in ("int", "long", "long long", "__int128", "short", "int64_t", "__int128_t", "int32_t", "signed char"):
        return "Int"
    if t0 in ("unsigned long", "unsigned long long", "uint64_t", "size_t", "unsigned int", "uint32_t"):
        return "UInt64"
    if t1 in ENUMS:
        return ENUMS[t1]
    if t1 in BITMASK_ENUMS:
        return "UInt64"
    if t1 == "UInt128Struct":
        return "(UInt64 × UInt64)"
    if t0 == "double":
        return "D" if _DBL[0] else "Float"
    raise TranslationError("unsupported type '%s'" % t)


# `double` values: normally unsupported in arithmetic; for a spec with `dbl=True` they are values of an abstract type `D` that the
# generated definition is polymorphic in (only `<`, `>`, `==`, `!=` and the literal 0 are translated), produced by *opaque* callees
# (`CrossProduct`, `DotProduct`, …) that become function parameters of the generated definition
_DBL = [False]
DBL_BINDERS = "{D : Type} [LT D] [DecidableLT D] [DecidableEq D] [OfNat D 0]"


def is_unsigned(t):
    return lean_type(t) == "UInt64"


def is_pointer(t):
    """a raw pointer type (`Active *`, `const OutPt *const`)"""
    return strip_type(t).rstrip().endswith("*") or strip_type(t).rstrip().endswith("*const")


# `enum class X : uint32_t` used as a bit mask through overloaded `operator&` / `operator|`: translated as UInt64 masks
BITMASK_ENUMS = ("VertexFlags",)
# records a function may return by value / hold in a local: their fields become a tuple / one scalar local per field
VALUE_RECORDS = {"Point<long>": [("x", "Int"), ("y", "Int")]}


def value_record(t):
    t1 = strip_type(t).split("::")[-1].strip()
    if t1 == "Point64":
        t1 = "Point<long>"
    return VALUE_RECORDS.get(t1)


RECORD_FIELDS = {"UInt128Struct": ["lo", "hi"]}


def lc(s):
    return s[0].lower() + s[1:]


# ---------------------------------------------------------------------------------------------
# translator for one function

class Fn:
    def __init__(self, node, lean_name, known_fns, consts, inline_fns, throws=False, accessors=(), externs=None,
                 enum_values=None, known_sigs=None, known_ids=None):
        self.enum_values = enum_values or {}   # bit-mask enum name -> {constant name: value}
        self.known_sigs = known_sigs or {}     # lean name -> (generated signature, declared C parameter names) of this unit
        self.known_ids = known_ids or {}       # clang id of a translated FunctionDecl -> lean name (resolves overloads)
        self.overloads = {}                    # C name -> how many functions of that name this unit translates
        self.roots = set()                     # names of the record / pointer parameters of the function
        self.frag_is_loop_body = False
        self.used_params = set()
        self.result_names = None
        self.inline_ops = {}
        self.inline_depth = 0
        self.assigned = set()                  # locals assigned since the enclosing `phi` started
        self.acts_dirty = False
        self.local_types = {}
        self.phis = {}
        self.in_phi = set()
        self.exit_hook = None
        self.frag_exits, self.frag_ret = False, None
        self.opaque = set()                    # callees kept as function parameters (`dbl` specs)
        self.opaque_sigs = {}
        self.rec_outs = {}
        self.dry = 0
        self.aux, self.aux_keys = [], {}       # auxiliary definitions (merged blocks) to emit in front of the function
        self.cname = lean_name
        self.local_ver = {}                    # reassigned local / parameter -> tag of its current value (names of `vec[i]`)
        self.asg_sites = {}
        self.frag = None                       # statement selector when only part of the function is translated
        self.skel = False                      # skeleton mode: member writes are results, untranslated calls are logged
        self.modsets = {}                      # C function name -> member names it (transitively) may assign
        self.pure = set()                      # untranslated callees without side effects (not logged)
        self.member_parts = {}                 # generated parameter name -> (root, [member names]) it was flattened from
        self.path_alias = {}                   # pointer location -> (record now stored there | None, clock of the write)
        self.wrote = {}                        # scalar location -> clock of this function's last write to it
        self.ver = {}                          # member name -> (clock, site) of the last opaque call that may assign it
        self.clock = 0
        self.sites = {}
        self.aliases = {}
        self.locals_ = set()
        self.local_records = {}
        self.ref_roots = set()                 # record parameters passed by reference (never null)
        self.written_all = {}                  # scalar member locations the function assigns -> lean type
        self.free_locals = {}                  # fragment mode: scalar locals declared outside the fragment -> lean type
        self.free_assigned = {}                # ... those the fragment assigns (they are results)
        self.uses_acts = False
        self.bodies_by_id = {}
        self.node = node
        self.lean_name = lean_name
        self.known = known_fns          # C name -> lean name for calls with scalar arguments
        self.consts = consts            # global integer constants: name -> int
        self.inline_fns = inline_fns    # C name -> FunctionDecl node (inlined when args are records)
        self.throws = throws
        self.accessors = set(accessors)  # C names of one-argument functions read as pseudo-members of their argument
        self.externs = externs or {}     # C name -> (qualified lean name, [(param name, type)]) of another unit
        self.params = []                # (lean name, lean type) in declared order (scalars)
        self.members = {}               # lean name -> lean type, for member paths
        self.outs = []                  # names of mutated reference params
        self.subst = [{}]               # param-name substitution stack for inlining (name -> base path)
        self.ret_type = None

    # ---- helpers
    def err(self, n, msg=""):
        loc = n.get("range", {}).get("begin", {})
        raise TranslationError("%s: unsupported %s %s (line %s)" % (self.lean_name, n.get("kind"), msg, loc.get("line", "?")))

    def chain(self, n):
        """MemberExpr chain -> (root, parts): root = None for `this`, otherwise the name of the record the chain starts at
        (a parameter after inlining substitution, or whatever a pointer local currently denotes); None if not such a chain."""
        parts = []
        cur = n
        while True:
            k = cur.get("kind")
            if k == "MemberExpr":
                parts.append(part(cur["name"], cur.get("referencedMemberDecl")))
                cur = inner(cur)[0]
            elif k in ("ImplicitCastExpr", "ParenExpr"):
                cur = inner(cur)[0]
            elif k == "UnaryOperator" and cur.get("opcode") == "*":
                cur = inner(cur)[0]
            elif k == "CXXOperatorCallExpr" and self.callee_name(inner(cur)[0]) in ("operator->", "operator*"):
                cur = inner(cur)[1]
            elif k == "CXXOperatorCallExpr" and self.callee_name(inner(cur)[0]) == "operator[]" and len(inner(cur)) == 3:
                ix = self.index_name(inner(cur)[2])
                if ix is None:
                    return None
                parts.append(part("at_" + ix, None))      # `vec[i]`: the element is a pseudo-member named after the index
                cur = inner(cur)[1]
            elif k == "CallExpr" and self.is_accessor_call(cur):
                parts.append(part(self.callee_name(inner(cur)[0]), None))
                cur = inner(cur)[1]
            elif k == "CXXThisExpr":
                root = None
                break
            elif k == "DeclRefExpr":
                rd = cur["referencedDecl"]
                if rd["kind"] == "VarDecl" and rd["name"] in self.aliases:
                    root = self.aliases[rd["name"]]
                    if root == NULLPATH:
                        raise TranslationError("%s: use of the pointer local %s while it is nullptr" % (self.lean_name, rd["name"]))
                    break
                if rd["kind"] == "VarDecl" and self.frag is not None and rd["name"] not in self.locals_ and \
                        rd["name"] not in self.consts and (is_pointer(qual(cur)) or self.is_record(cur)):
                    root = rd["name"]           # a pointer / record local declared outside the translated fragment
                    self.roots.add(root)
                    break
                if rd["kind"] != "ParmVarDecl":
                    return None
                root = self.subst[-1].get(rd["name"], rd["name"])
                break
            else:
                return None
        parts.reverse()
        return root, parts

    def index_name(self, n):
        """identifier for a container index: a local / parameter (with a version suffix once it has been reassigned), such a
        name plus or minus a literal, a literal"""
        while n.get("kind") in ("ImplicitCastExpr", "ParenExpr", "CStyleCastExpr", "CXXStaticCastExpr", "CXXFunctionalCastExpr"):
            n = inner(n)[0]
        k = n.get("kind")
        if k == "IntegerLiteral":
            return str(n["value"])
        if k == "DeclRefExpr" and n["referencedDecl"]["kind"] in ("VarDecl", "ParmVarDecl"):
            nm = n["referencedDecl"]["name"]
            try:
                lean_type(qual(n))
            except TranslationError:
                return None
            self.expr(n)        # registers a free local / used parameter
            return self.local_ver.get(nm, nm)
        if k == "BinaryOperator" and n.get("opcode") in ("+", "-"):
            a, b = inner(n)
            na, nb = self.index_name(a), self.index_name(b)
            if na is None or nb is None:
                return None
            return "%s_%s_%s" % (na, "add" if n["opcode"] == "+" else "sub", nb)
        return None

    def resolve(self, root, parts, location=False):
        """flattened name of what `root.p1.p2…` denotes *now*.  Without writes or opaque calls before this point it is
        `root_p1_p2…` (the value the function received).  Step by step: a pointer member this function has overwritten
        leads to the record written there; a member an opaque callee may have overwritten since (see `havoc`) is a fresh
        unknown `…_after<k>`.  `location=True`: the name of the last member's storage location itself (for a write)."""
        cur = root or ""
        for i, p_ in enumerate(parts):
            loc = (cur + "_" + p_) if cur else p_
            last = i == len(parts) - 1
            if location and last:
                return loc
            v = self.ver.get(getattr(p_, "fid", None) or p_, (0, 0))
            w = self.path_alias.get(loc)
            if w is not None and w[1] >= v[0]:
                if w[0] is None:
                    if not last:
                        raise TranslationError("%s: dereference of a pointer the function has just set to nullptr (%s)" % (self.lean_name, loc))
                    return NULLPATH
                cur = w[0]
            elif loc in self.wrote and self.wrote[loc] >= v[0]:
                cur = loc
            elif v[0] > 0:
                cur = "%s_after%d" % (loc, v[1])
            else:
                cur = loc
        return cur

    def member_path(self, n):
        """MemberExpr chain rooted at a param / this -> flattened lean parameter name, or None."""
        c = self.chain(n)
        if c is None:
            return None
        name = self.resolve(c[0], c[1])
        self.member_parts.setdefault(name, (c[0], list(c[1]), None))
        return name

    # ---- expressions
    def expr(self, n):
        k = n.get("kind")
        if k in ("ParenExpr",):
            return "(" + self.expr(inner(n)[0]) + ")"
        if k in ("ExprWithCleanups", "MaterializeTemporaryExpr", "CXXBindTemporaryExpr", "ConstantExpr",
                 "CXXConstructExpr") and len(inner(n)) == 1:
            return self.expr(inner(n)[0])
        if k == "IntegerLiteral":
            v = n["value"]
            if is_unsigned(qual(n)):
                return "(%s : UInt64)" % v
            return "(%s : Int)" % v
        if k == "CXXBoolLiteralExpr":
            return "true" if n["value"] else "false"
        if k == "FloatingLiteral" and _DBL[0]:
            if float(n.get("value", "1")) == 0:
                return "(0 : D)"
            self.err(n, "floating literal other than 0")
        if k == "DeclRefExpr":
            rd = n["referencedDecl"]
            if rd["kind"] == "EnumConstantDecl":
                en = strip_type(rd.get("type", {}).get("qualType", "")).split("::")[-1]
                if en in BITMASK_ENUMS:
                    if rd["name"] not in self.enum_values.get(en, {}):
                        self.err(n, "value of %s::%s unknown" % (en, rd["name"]))
                    return "(%d : UInt64)" % self.enum_values[en][rd["name"]]
                return "." + lc(rd["name"])
            if rd["kind"] == "ParmVarDecl":
                nm = rd["name"]
                if nm in self.subst[-1]:
                    return self.subst[-1][nm]
                self.used_params.add(nm)
                return nm
            if rd["kind"] == "VarDecl":
                nm = rd["name"]
                if nm in self.locals_:
                    return nm
                if nm in self.consts:
                    v = self.consts[nm]
                    return "(%d : %s)" % (v, lean_type(qual(n)))
                if self.frag is not None:
                    # a scalar local declared outside the translated fragment: an input (and, if assigned, a result)
                    self.free_locals[nm] = lean_type(qual(n))
                    return nm
                self.err(n, "reference to unknown variable " + nm)
            self.err(n, "DeclRef to " + rd["kind"])
        if k == "MemberExpr":
            base = inner(n)[0]
            lr = self.local_record_field(n)
            if lr is not None:
                return lr
            # field of a local record (UInt128Struct)
            bt = strip_type(qual(base)).split("::")[-1]
            if bt in RECORD_FIELDS and self.member_path(n) is None:
                idx = RECORD_FIELDS[bt].index(n["name"])
                return "(%s).%d" % (self.expr(base), idx + 1)
            mp = self.member_path(n)
            if mp is None:
                self.err(n, "member expression not rooted at a parameter")
            lt = lean_type(qual(n))
            if mp in self.members and self.members[mp] != lt:
                self.err(n, "member type clash " + mp)
            self.members[mp] = lt
            return mp
        if k in ("ImplicitCastExpr", "CStyleCastExpr", "CXXStaticCastExpr", "CXXFunctionalCastExpr"):
            sub = inner(n)[0]
            ck = n.get("castKind")
            if ck in ("LValueToRValue", "NoOp", "FunctionToPointerDecay", "ConstructorConversion", "UserDefinedConversion"):
                return self.expr(sub)
            if ck == "IntegralCast":
                src, dst = lean_type(qual(sub)), lean_type(qual(n))
                return self.convert(self.expr(sub), src, dst, sub)
            if ck == "PointerToBoolean":
                # a pointer used as a truth value: the model only needs to know whether it is null
                cur = sub
                while cur.get("kind") in ("ImplicitCastExpr", "ParenExpr"):
                    cur = inner(cur)[0]
                return self.nonnull(cur, n)
            if ck in ("IntegralToFloating", "FloatingCast") and _DBL[0]:
                lit = self.strip(sub)
                if lit.get("kind") in ("IntegerLiteral", "FloatingLiteral") and float(lit.get("value", "1")) == 0:
                    return "(0 : D)"
                if ck == "FloatingCast":
                    return self.expr(sub)
                self.err(n, "conversion of an integer to double (only the literal 0 is translated)")
            if ck == "FloatingToBoolean" and _DBL[0]:
                return "(decide (%s ≠ (0 : D)))" % self.expr(sub)
            if ck == "IntegralToBoolean":
                src = lean_type(qual(sub))
                if src == "Bool":
                    return self.expr(sub)
                return "(decide (%s ≠ 0))" % self.expr(sub)
            self.err(n, "cast kind %s" % ck)
        if k == "UnaryOperator":
            op = n["opcode"]
            sub = inner(n)[0]
            t = lean_type(qual(n))
            if op == "-":
                return "(-%s)" % self.expr(sub)
            if op == "+":
                return self.expr(sub)
            if op == "!":
                return "(!%s)" % self.expr(sub)
            if op == "~" and t == "UInt64":
                return "(~~~%s)" % self.expr(sub)
            self.err(n, "unary " + op)
        if k == "BinaryOperator":
            op = n["opcode"]
            a, b = inner(n)
            if op in ("==", "!=") and (is_pointer(qual(a)) or is_pointer(qual(b))):
                return self.ptr_compare(op, a, b, n)
            oc = self.opaque_compare(op, a, b, n)
            if oc is not None:
                return oc
            ta = lean_type(qual(a))
            tr = lean_type(qual(n))
            ea = self.expr(a)
            if self.skel and ((op == "&&" and ea == "false") or (op == "||" and ea == "true")):
                return ea      # short circuit on a pointer the function itself has just set to nullptr
            eb = self.expr(b)
            if op in ("<", ">", "<=", ">="):
                lop = {"<": "<", ">": ">", "<=": "≤", ">=": "≥"}[op]
                if ta == "Bool":
                    self.err(n, "ordering on Bool")
                if ta == "D" and op in ("<=", ">="):
                    self.err(n, "non-strict comparison of doubles")
                return "(decide (%s %s %s))" % (ea, lop, eb)
            if op == "==":
                return "(decide (%s = %s))" % (ea, eb)
            if op == "!=":
                return "(decide (%s ≠ %s))" % (ea, eb)
            if op == "&&":
                return "(%s && %s)" % (ea, eb)
            if op == "||":
                return "(%s || %s)" % (ea, eb)
            if op in ("+", "-", "*", "/") and tr == "D":
                self.err(n, "double arithmetic")
            if op in ("+", "-", "*"):
                if tr == "Bool":
                    self.err(n, "arithmetic on Bool")
                return "(%s %s %s)" % (ea, op, eb)
            if op == "/":
                return "(Int.tdiv %s %s)" % (ea, eb) if tr == "Int" else "(%s / %s)" % (ea, eb)
            if op == "%":
                return "(Int.tmod %s %s)" % (ea, eb) if tr == "Int" else "(%s %% %s)" % (ea, eb)
            if op == "&" and tr == "Int":
                return "(Clipper.Gen.intAnd %s %s)" % (ea, eb)
            if op in ("&", "|", "^") and tr == "UInt64":
                lop = {"&": "&&&", "|": "|||", "^": "^^^"}[op]
                return "(%s %s %s)" % (ea, lop, eb)
            if op in ("<<", ">>") and tr == "UInt64":
                lop = {"<<": "<<<", ">>": ">>>"}[op]
                tb = lean_type(qual(b))
                eb2 = self.convert(eb, tb, "UInt64", b)
                return "(%s %s %s)" % (ea, lop, eb2)
            self.err(n, "binary " + op + " at type " + tr)
        if k == "ConditionalOperator":
            c, a, b = inner(n)
            return "(if %s then %s else %s)" % (self.expr(c), self.expr(a), self.expr(b))
        if k == "InitListExpr":
            t = strip_type(qual(n)).split("::")[-1]
            if t in RECORD_FIELDS:
                return "(" + ", ".join(self.expr(c) for c in inner(n)) + ")"
            self.err(n, "init list of " + t)
        if k == "CXXOperatorCallExpr":
            kids = inner(n)
            callee = kids[0]
            nm = self.callee_name(callee)
            if nm == "operator()":
                # lambda call: kids[1] is the lambda object, rest are args
                f = self.expr(kids[1])
                return "(%s %s)" % (f, " ".join(self.expr(a) for a in kids[2:]))
            if nm in ("operator==", "operator!=") and len(kids) == 3 and self.is_record(kids[1]):
                c0 = callee
                while c0.get("kind") in ("ImplicitCastExpr", "ParenExpr"):
                    c0 = inner(c0)[0]
                fnode = self.inline_ops.get(c0.get("referencedDecl", {}).get("id")) if c0.get("kind") == "DeclRefExpr" else None
                if fnode is None:
                    self.err(n, "%s on records without an inlinable body" % nm)
                return self.inline_call(fnode, kids[1:], n)
            if nm == "operator==":
                return "(decide (%s = %s))" % (self.expr(kids[1]), self.expr(kids[2]))
            if nm == "operator!=":
                return "(decide (%s ≠ %s))" % (self.expr(kids[1]), self.expr(kids[2]))
            if nm == "operator[]" and len(kids) == 3 and not self.is_record(n):
                mp = self.member_path(n)
                if mp is None:
                    self.err(n, "container element not rooted at a parameter / indexed by something else than a local")
                lt = lean_type(qual(n))
                if mp in self.members and self.members[mp] != lt:
                    self.err(n, "member type clash " + mp)
                self.members[mp] = lt
                return mp
            if nm in ("operator&", "operator|") and len(kids) == 3 and \
                    strip_type(qual(n)).split("::")[-1] in BITMASK_ENUMS:
                return "(%s %s %s)" % (self.expr(kids[1]), "&&&" if nm == "operator&" else "|||", self.expr(kids[2]))
            self.err(n, "operator call " + str(nm))
        if k == "CallExpr":
            kids = inner(n)
            nm = self.callee_name(kids[0])
            args = kids[1:]
            if nm in ("abs", "llabs", "labs"):
                return "(Clipper.Gen.iabs %s)" % self.expr(args[0])
            if nm in ("max", "min"):
                return "(%s %s %s)" % (nm, self.expr(args[0]), self.expr(args[1]))
            if nm in self.opaque:
                call, outs_, _ = self.opaque_call(n)
                if outs_:
                    self.err(n, "opaque callee %s with out-parameters inside an expression" % nm)
                return call
            if nm in self.inline_fns and any(self.is_record(a) for a in args):
                return self.inline_call(self.inline_fns[nm], args, n)
            if self.is_accessor_call(n):
                mp = self.member_path_noreg(n)
                if mp is None:
                    self.err(n, "accessor call not rooted at a parameter")
                lt = lean_type(qual(n))
                if mp in self.members and self.members[mp] != lt:
                    self.err(n, "member type clash " + mp)
                self.members[mp] = lt
                return mp
            if nm in self.externs and nm not in self.known and any(self.is_record(a) for a in args):
                return self.extern_call(nm, args, n)
            tgt = self.known_target(kids[0], nm)
            if tgt is not None and any(self.is_record(a) for a in args):
                return self.extern_call(nm, args, n, (tgt,) + tuple(self.known_sigs[tgt]))
            if tgt is not None:
                return "(%s %s)" % (tgt, " ".join(self.expr(a) for a in args))
            if nm in self.known and self.overloads.get(nm, 0) <= 1:
                return "(%s %s)" % (self.known[nm], " ".join(self.expr(a) for a in args))
            self.err(n, "call to " + str(nm))
        if k == "LambdaExpr":
            return self.lambda_(n)
        self.err(n)

    def known_target(self, callee, nm):
        """lean name of the translated function of this unit a call refers to (overloads are told apart by clang's id;
        a name translated once may also be reached through another template instantiation of the same function)"""
        c = callee
        while c.get("kind") in ("ImplicitCastExpr", "ParenExpr"):
            c = inner(c)[0]
        if c.get("kind") == "DeclRefExpr":
            t = self.known_ids.get(c["referencedDecl"].get("id"))
            if t is not None:
                return t
        if self.overloads.get(nm, 0) == 1:
            return self.known.get(nm)
        return None

    def addr_of(self, path):
        """the identity of the record a path denotes: a record parameter `e` is `e_addr`; anything reached through a
        pointer member (`e_outrec`, `op_next`) is identified by that pointer's value, i.e. by the path itself"""
        return path + "_addr" if path in self.roots else path

    def strip_ptr(self, n):
        while n.get("kind") in ("ImplicitCastExpr", "ParenExpr", "CStyleCastExpr", "CXXStaticCastExpr") and \
                n.get("castKind") in (None, "LValueToRValue", "NoOp", "NullToPointer", "BitCast"):
            if n.get("castKind") == "NullToPointer":
                return {"kind": "CXXNullPtrLiteralExpr"}
            n = inner(n)[0]
        return n

    def record_chain(self, n, ctx):
        """(root, parts) of the record a pointer-valued expression points to / a record lvalue denotes; NULLPATH for nullptr"""
        cur = self.strip_ptr(n)
        while cur.get("kind") in ("CXXConstructExpr", "MaterializeTemporaryExpr", "ExprWithCleanups", "CXXBindTemporaryExpr") \
                and len(inner(cur)) == 1:
            cur = self.strip_ptr(inner(cur)[0])      # a record passed / copied by value
        k = cur.get("kind")
        if k == "CXXNullPtrLiteralExpr":
            return NULLPATH
        if k == "UnaryOperator" and cur.get("opcode") == "&":
            cur = self.strip_ptr(inner(cur)[0])
            k = cur.get("kind")
        c = self.chain(cur) if k in ("MemberExpr", "DeclRefExpr", "CallExpr", "UnaryOperator", "CXXOperatorCallExpr", "CXXThisExpr") else None
        if c is None:
            self.err(ctx, "pointer value of kind %s not rooted at a parameter" % k)
        return c

    def record_name(self, n, ctx):
        """flattened name (see `resolve`) of the record a pointer-valued expression points to; NULLPATH for nullptr"""
        c = self.record_chain(n, ctx)
        if c == NULLPATH:
            return NULLPATH
        if c[0] is None and not c[1]:
            return "this"
        return self.resolve(c[0], c[1])

    def id_of(self, c, ctx):
        """Nat-valued identity of the record with chain `c`"""
        if c == NULLPATH:
            return "(0 : Nat)"
        r = "this" if (c[0] is None and not c[1]) else self.resolve(c[0], c[1])
        if r == NULLPATH:
            return "(0 : Nat)"
        nm = self.addr_of(r)
        if nm in self.members and self.members[nm] != "Nat":
            self.err(ctx, "member type clash " + nm)
        self.members[nm] = "Nat"
        self.member_parts.setdefault(nm, (c[0], list(c[1]), "id"))
        return nm

    def nonnull_of(self, c, ctx):
        """Boolean: is the pointer that leads to the record with chain `c` non-null"""
        if c == NULLPATH:
            return "false"
        r = "this" if (c[0] is None and not c[1]) else self.resolve(c[0], c[1])
        if r == NULLPATH:
            return "false"
        if r in self.ref_roots or r == "this":
            return "true"
        nm = r + "_nonnull"
        self.members[nm] = "Bool"
        self.member_parts.setdefault(nm, (c[0], list(c[1]), "nonnull"))
        return nm

    def ptr_path(self, n, ctx):
        """the model's name for a pointer value: `&e` / a pointer parameter `op` -> `e_addr` / `op_addr` (who the record is),
        a pointer member `e.outrec->front_edge` -> the flattened member path"""
        return self.id_of(self.record_chain(n, ctx), ctx)

    def nonnull(self, cur, ctx):
        """`p` used as a truth value / compared with nullptr: a Boolean pseudo-member `<path>_nonnull`"""
        return self.nonnull_of(self.record_chain(cur, ctx), ctx)

    def ptr_compare(self, op, a, b, n):
        """`p == q` on raw pointers: identity of the records pointed to (Nat-valued pseudo-members); against `nullptr`
        the same Boolean as the truth value of the pointer"""
        sa, sb = self.strip_ptr(a), self.strip_ptr(b)
        if sb.get("kind") == "CXXNullPtrLiteralExpr" or sa.get("kind") == "CXXNullPtrLiteralExpr":
            other = sa if sb.get("kind") == "CXXNullPtrLiteralExpr" else sb
            e = self.nonnull(other, n)
            return e if op == "!=" else "(!%s)" % e
        pa, pb = self.ptr_path(a, n), self.ptr_path(b, n)
        return "(decide (%s %s %s))" % (pa, "=" if op == "==" else "≠", pb)

    def local_record_field(self, n):
        """`result.x` for a local `Point64 result` -> the scalar local `result_x`"""
        base = inner(n)[0]
        while base.get("kind") in ("ImplicitCastExpr", "ParenExpr"):
            base = inner(base)[0]
        if base.get("kind") == "DeclRefExpr" and base["referencedDecl"]["kind"] == "VarDecl" and \
                base["referencedDecl"]["name"] in self.local_records:
            nm = base["referencedDecl"]["name"]
            if n["name"] not in [f_ for f_, _ in self.local_records[nm]]:
                self.err(n, "unknown field %s of local record %s" % (n["name"], nm))
            return "%s_%s" % (nm, n["name"])
        return None

    def record_fields(self, n, ctx):
        """the field values of a record-valued expression (`Point64(a, b)`, a local record, a copy of either)"""
        flds = value_record(qual(n))
        cur = n
        while True:
            k = cur.get("kind")
            kids = inner(cur)
            if k in ("ExprWithCleanups", "MaterializeTemporaryExpr", "CXXBindTemporaryExpr", "ImplicitCastExpr",
                     "CXXFunctionalCastExpr", "ParenExpr") and len(kids) == 1:
                cur = kids[0]
            elif k == "CXXConstructExpr" and len(kids) == 1 and value_record(qual(kids[0])):
                cur = kids[0]      # copy / move construction
            else:
                break
        k = cur.get("kind")
        if k == "DeclRefExpr" and cur["referencedDecl"]["kind"] == "VarDecl" and cur["referencedDecl"]["name"] in self.local_records:
            nm = cur["referencedDecl"]["name"]
            return ["%s_%s" % (nm, f_) for f_, _ in flds]
        if k in ("CXXTemporaryObjectExpr", "CXXConstructExpr") and len(inner(cur)) == len(flds):
            out = []
            for a, (f_, t_) in zip(inner(cur), flds):
                if lean_type(qual(a)) != t_:
                    self.err(ctx, "record field %s built from a %s" % (f_, qual(a)))
                out.append(self.expr(a))
            return out
        if k in ("MemberExpr", "DeclRefExpr", "UnaryOperator", "CallExpr", "CXXOperatorCallExpr"):
            mp = self.member_path_noreg(cur)
            if mp is not None:
                out = []
                for f_, t_ in flds:
                    full = "%s_%s" % (mp, f_)
                    if full in self.members and self.members[full] != t_:
                        self.err(ctx, "member type clash " + full)
                    self.members[full] = t_
                    out.append(full)
                return out
        self.err(ctx, "record value of kind %s" % k)

    def record_value(self, n, ctx):
        return "(" + ", ".join(self.record_fields(n, ctx)) + ")"

    def opaque_call(self, n):
        """call of a configured *opaque* callee (double arithmetic the translation does not enter): the callee becomes a function
        parameter of the generated definition.  Record arguments are passed field by field; a non-const record reference is an
        out-parameter: the call then returns (C++ result, new field values…).  -> (lean term, names assigned, result type)"""
        kids = inner(n)
        nm = self.callee_name(kids[0])
        c0 = kids[0]
        while c0.get("kind") in ("ImplicitCastExpr", "ParenExpr"):
            c0 = inner(c0)[0]
        fty = c0.get("type", {}).get("qualType", "")
        ptypes = [x.strip() for x in fty[fty.index("(") + 1:fty.rindex(")")].split(",")] if "(" in fty else []
        args, atys, outs_, otys = [], [], [], []
        for i_, a in enumerate(kids[1:]):
            flds = value_record(qual(a))
            if flds:
                vals = self.record_fields(a, n)
                args += vals
                atys += [t_ for _, t_ in flds]
                pt_ = ptypes[i_] if i_ < len(ptypes) else ""
                if "&" in pt_ and "const" not in pt_:
                    outs_ += vals
                    otys += [t_ for _, t_ in flds]
            elif self.is_record(a):
                self.err(n, "record argument of opaque callee %s" % nm)
            else:
                args.append(self.expr(a))
                atys.append(lean_type(qual(a)))
        rty = lean_type(qual(n))
        full = rty if not outs_ else "(" + " × ".join([rty] + otys) + ")"
        sig = " → ".join(atys + [full])
        if self.opaque_sigs.setdefault(nm, sig) != sig:
            self.err(n, "opaque callee %s used at two different types" % nm)
        return "(%s %s)" % (nm, " ".join(args)), outs_, rty

    def opaque_compare(self, op, a, b, n):
        """`Callee(records…) > 0.25` for a configured *opaque* callee (double arithmetic that is not entered) compared with a
        floating literal other than 0: ONE Boolean argument of the generated definition, named after the call site
        (`<callee>_<record arguments by path>_<gt|lt|ge|le|eq|ne>_<literal>`), so that the callee, what it is applied to, the
        comparison and the threshold are all part of the name a theorem binds the argument by"""
        if op not in ("<", ">", "<=", ">=", "==", "!=") or not self.opaque:
            return None

        def bare(x):
            while x.get("kind") in ("ImplicitCastExpr", "ParenExpr", "ExprWithCleanups", "MaterializeTemporaryExpr"):
                x = inner(x)[0]
            return x

        ca, cb = bare(a), bare(b)
        if cb.get("kind") == "CallExpr" and ca.get("kind") == "FloatingLiteral":
            ca, cb = cb, ca
            op = {"<": ">", ">": "<", "<=": ">=", ">=": "<="}.get(op, op)
        if not (ca.get("kind") == "CallExpr" and cb.get("kind") == "FloatingLiteral"):
            return None
        nm = self.callee_name(inner(ca)[0])
        if nm not in self.opaque:
            return None
        if float(cb.get("value", "1")) == 0 and _DBL[0]:
            return None      # `dbl` specs: comparison of an abstract double with 0 (translated as before)
        names = []
        for arg in inner(ca)[1:]:
            if not self.is_record(arg):
                self.err(n, "scalar argument of opaque callee %s in a comparison with a literal" % nm)
            r = self.record_name(arg, n)
            if r == NULLPATH:
                self.err(n, "nullptr passed to opaque callee %s" % nm)
            names.append(r)
        lit = re.sub(r"[^0-9A-Za-z]", "_", str(cb.get("value")).replace("-", "m"))
        word = {"<": "lt", ">": "gt", "<=": "le", ">=": "ge", "==": "eq", "!=": "ne"}[op]
        full = "_".join([nm] + names + [word, lit])
        self.members[full] = "Bool"
        return full

    def is_record(self, a):
        try:
            lean_type(qual(a))
            return False
        except TranslationError:
            return True

    def callee_name(self, c):
        while c.get("kind") in ("ImplicitCastExpr", "ParenExpr"):
            c = inner(c)[0]
        if c.get("kind") == "DeclRefExpr":
            return c["referencedDecl"]["name"]
        if c.get("kind") == "UnresolvedLookupExpr":
            return c.get("name")
        if c.get("kind") == "MemberExpr" and inner(c) and inner(c)[0].get("kind") == "CXXThisExpr":
            return c.get("name")     # a method of the same object, called as `Split(e, pt)`
        return None

    def convert(self, e, src, dst, node):
        if src == dst:
            return e
        if src == "Bool" and dst == "Int":
            return "(if %s then (1 : Int) else 0)" % e
        if src == "Bool" and dst == "UInt64":
            return "(if %s then (1 : UInt64) else 0)" % e
        if src == "Int" and dst == "UInt64":
            m = re.fullmatch(r"\((\d+) : Int\)", e)
            if m:
                return "(%s : UInt64)" % m.group(1)
            return "(Clipper.Gen.toU64 %s)" % e
        if src == "UInt64" and dst == "Int":
            return "(Clipper.Gen.ofU64 %s)" % e
        if dst == "Int" and src.startswith("Clipper."):
            return "(Clipper.Gen.enumToInt %s)" % e
        if dst == "UInt64" and src.startswith("Clipper."):
            return "(Clipper.Gen.toU64 (Clipper.Gen.enumToInt %s))" % e
        if src == "Int" and dst.startswith("Clipper."):
            return "(Clipper.Gen.enumOfInt %s : %s)" % (e, dst)
        self.err(node, "conversion %s -> %s" % (src, dst))

    def lambda_(self, n):
        # LambdaExpr: inner has CXXRecordDecl (with the call operator) and CompoundStmt body
        meth = None
        for c in inner(n):
            if c.get("kind") == "CXXRecordDecl":
                for m in inner(c):
                    if m.get("kind") == "CXXMethodDecl" and m.get("name") == "operator()":
                        meth = m
        if meth is None:
            self.err(n, "lambda without call operator")
        ps = [c for c in inner(meth) if c.get("kind") == "ParmVarDecl"]
        body = [c for c in inner(meth) if c.get("kind") == "CompoundStmt"][0]
        saved = self.locals_
        self.locals_ = set(saved)
        binder = " ".join("(%s : %s)" % (p["name"], lean_type(qual(p))) for p in ps)
        for p in ps:
            self.locals_.add(p["name"])
        self.subst.append({})
        saved_outs, self.outs = self.outs, []
        saved_throws, self.throws = self.throws, False
        self.inline_depth += 1
        b = self.stmts(inner(body), None, None)
        self.inline_depth -= 1
        self.outs, self.throws = saved_outs, saved_throws
        self.subst.pop()
        self.locals_ = saved
        return "(fun %s => %s)" % (binder, b)

    def inline_call(self, fnode, args, callnode):
        ps = [c for c in inner(fnode) if c.get("kind") == "ParmVarDecl"]
        body = [c for c in inner(fnode) if c.get("kind") == "CompoundStmt"][0]
        sub = {}
        lets = []
        for p, a in zip(ps, args):
            if self.is_record(a):
                # must be a parameter reference (possibly through casts / deref)
                cur = a
                while cur.get("kind") in ("ImplicitCastExpr", "ParenExpr") or (cur.get("kind") == "UnaryOperator" and cur.get("opcode") == "*"):
                    cur = inner(cur)[0]
                if cur.get("kind") == "DeclRefExpr" and cur["referencedDecl"]["kind"] == "ParmVarDecl":
                    nm = cur["referencedDecl"]["name"]
                    sub[p["name"]] = self.subst[-1].get(nm, nm)
                elif cur.get("kind") == "MemberExpr":
                    mp = self.member_path_noreg(cur)
                    if mp is None:
                        self.err(callnode, "record argument not rooted at parameter")
                    sub[p["name"]] = mp
                elif cur.get("kind") == "DeclRefExpr" and self.member_path_noreg(cur) is not None:
                    sub[p["name"]] = self.member_path_noreg(cur)     # a pointer local naming a record
                else:
                    self.err(callnode, "record argument of kind " + cur.get("kind"))
            else:
                lets.append((p["name"], lean_type(qual(p)), self.expr(a)))
                sub[p["name"]] = p["name"] + "'"
        self.subst.append(sub)
        saved_outs, self.outs = self.outs, []
        saved_throws, self.throws = self.throws, False
        saved_locals = self.locals_
        self.locals_ = set(saved_locals)
        self.inline_depth += 1
        b = self.stmts(inner(body), None, None)
        self.inline_depth -= 1
        self.locals_ = saved_locals
        self.outs, self.throws = saved_outs, saved_throws
        self.subst.pop()
        pre = "".join("let %s' : %s := %s; " % (nm, ty, e) for nm, ty, e in lets)
        return "(%s%s)" % (pre, b)

    def member_path_noreg(self, n):
        return self.member_path(n)

    def is_accessor_call(self, n):
        kids = inner(n)
        return len(kids) == 2 and self.callee_name(kids[0]) in self.accessors and self.is_record(kids[1])

    def extern_call(self, nm, args, n, target=None):
        """call of a function translated in another unit (or, with `target`, earlier in this unit) that takes records.
        `self.externs[nm]` / `target` = (lean name, generated signature, declared C parameter names, for every generated
        parameter the member chain it was flattened from).  The generated signature lists scalar parameters by name and
        record parameters field by field (`pt1_x pt1_y …`, alphabetically); each argument is matched to its parameter through
        the *declared* position and the callee's chain is appended to the argument's own."""
        lean_name, sig, decl, cparts = target or self.externs[nm]
        if len(args) != len(decl):
            self.err(n, "extern %s: %d arguments for %d parameters" % (nm, len(args), len(decl)))
        val = {}
        recs = {}
        for pn, a in zip(decl, args):
            if not self.is_record(a):
                ty = dict(sig).get(pn)
                if ty is None:
                    self.err(n, "extern %s: parameter %s not in the generated signature" % (nm, pn))
                val[pn] = self.convert(self.expr(a), lean_type(qual(a)), ty, a)
                continue
            c = self.record_chain(self.strip(a), n)
            if c == NULLPATH:
                self.err(n, "nullptr passed as a record to %s" % nm)
            recs[pn] = c
        for s_, t_ in sig:
            if s_ in val:
                continue
            cp = cparts.get(s_)
            if cp is None or cp[0] not in recs:
                continue
            c = (recs[cp[0]][0], list(recs[cp[0]][1]) + list(cp[1]))
            if cp[2] == "id":
                val[s_] = self.id_of(c, n)
            elif cp[2] == "nonnull":
                val[s_] = self.nonnull_of(c, n)
            else:
                full = self.resolve(c[0], c[1])
                if full in self.members and self.members[full] != t_:
                    self.err(n, "member type clash " + full)
                self.members[full] = t_
                self.member_parts.setdefault(full, (c[0], c[1], None))
                val[s_] = full
        for pn in recs:
            if not any(cparts.get(s_, (None,))[0] == pn for s_, _ in sig):
                self.err(n, "extern %s: record parameter %s has no fields in the generated signature" % (nm, pn))
        missing = [s_ for s_, _ in sig if s_ not in val]
        if missing:
            self.err(n, "extern %s: parameters %s not supplied" % (nm, missing))
        return "(%s %s)" % (lean_name, " ".join(val[s_] for s_, _ in sig))

    # ---- flow-sensitive translator state (copied when the continuation is duplicated into two branches)
    def snapshot(self):
        return (set(self.locals_), dict(self.aliases), dict(self.path_alias), dict(self.wrote), dict(self.ver), self.clock,
                dict(self.local_ver))

    def restore(self, snap):
        self.locals_, self.aliases = set(snap[0]), dict(snap[1])
        self.path_alias, self.wrote, self.ver, self.clock = dict(snap[2]), dict(snap[3]), dict(snap[4]), snap[5]
        self.local_ver = dict(snap[6])

    def alias_target(self, n, ctx):
        """which record a pointer-valued expression points to, as a path: `&e1` -> `e1`, `e.outrec` -> `e_outrec`,
        a pointer local -> what it currently aliases; None for nullptr"""
        r = self.record_name(n, ctx)
        return None if r == NULLPATH else r

    # ---- statements (continuation style)
    def scalar_now(self, loc):
        """current value of a scalar member location this function assigns somewhere"""
        root, parts = self.member_parts[loc][:2]
        nm = self.resolve(root, parts)
        if nm != loc or loc not in self.wrote:
            self.members[nm] = self.written_all[loc]
        return nm

    def ret(self, e, fell=False):
        if self.skel and self.inline_depth == 0:
            parts = ([e] if e is not None and e != "()" else [])
            if self.frag_exits:
                parts = ["false" if fell else "true"] + ([] if self.frag_ret is None else ["default" if fell else e])
            parts += [self.scalar_now(loc) for loc in sorted(self.written_all)]
            parts += list(self.outs) + sorted(self.free_assigned)
            if self.uses_acts:
                parts.append("acts")
            if not parts:
                return "()"
            return "(" + ", ".join(parts) + ")" if len(parts) > 1 else parts[0]
        if self.outs:
            e = "(" + ", ".join(([e] if e is not None else []) + self.outs) + ")"
        if self.throws:
            return "(.ok %s)" % e
        return e

    def flatten(self, stmts):
        out = []
        for s in stmts:
            if s.get("kind") == "CompoundStmt":
                out.extend(self.flatten(inner(s)))
            elif s.get("kind") == "NullStmt":
                pass
            else:
                out.append(s)
        return out

    def stmts(self, lst, k_norm, k_break):
        """Translate a statement list; k_norm() yields the code that follows the list (None: falling off
        the end of a non-void function is an error, of a void function returns the out-params)."""
        lst = self.flatten(lst)
        if not lst:
            if k_norm is not None:
                return k_norm()
            if self.frag_exits and self.exit_hook is None:
                return self.ret(None, fell=True)
            if self.ret_type == "Unit":
                return self.ret(None) if self.outs else self.ret("()")
            raise TranslationError("%s: control reaches end of non-void function" % self.lean_name)
        s, rest = lst[0], lst[1:]
        k = s.get("kind")
        cont = lambda: self.stmts(rest, k_norm, k_break)
        if k == "ReturnStmt" and self.exit_hook is not None and self.inline_depth == 0:
            kids = inner(s)
            if not kids:
                return self.exit_hook(None)
            if self.ret_type == "Nat" and is_pointer(qual(kids[0])):
                return self.exit_hook(self.ptr_path(kids[0], s))
            if value_record(qual(kids[0])):
                return self.exit_hook(self.record_value(kids[0], s))
            return self.exit_hook(self.expr(kids[0]))
        if k == "ReturnStmt" and inner(s) and self.strip(inner(s)[0]).get("kind") == "CallExpr" and \
                self.callee_name(inner(self.strip(inner(s)[0]))[0]) in self.opaque:
            call, outs_, _ = self.opaque_call(self.strip(inner(s)[0]))
            if outs_:
                code = "let r__ := %s\n" % call
                for i_, o_ in enumerate(outs_):
                    code += "let %s := r__%s\n" % (o_, ".2" * (i_ + 1) + (".1" if i_ < len(outs_) - 1 else ""))
                return code + self.ret("r__.1")
            return self.ret(call)
        if k == "ReturnStmt":
            kids = inner(s)
            if not kids:
                return self.ret(None) if self.outs else self.ret("()")
            if self.ret_type == "Nat" and is_pointer(qual(kids[0])):
                return self.ret(self.ptr_path(kids[0], s))
            if value_record(qual(kids[0])) and len(self.subst) == 1:
                return self.ret(self.record_value(kids[0], s))
            return self.ret(self.expr(kids[0]))
        if k == "BreakStmt":
            if k_break is None:
                self.err(s, "break outside switch")
            return k_break()
        if k == "DoStmt" and not self.flatten([inner(s)[0]]) and self.strip(inner(s)[1]).get("kind") == "IntegerLiteral" \
                and self.strip(inner(s)[1]).get("value") == "0":
            return cont()       # `do {} while (0)`: an empty statement macro
        if k == "ContinueStmt" and self.frag_is_loop_body:
            return self.ret(None)
        if k in ("WhileStmt", "ForStmt", "DoStmt", "CXXForRangeStmt") and self.skel:
            return self.loop_havoc(s) + cont()
        if k in ("CallExpr", "CXXMemberCallExpr") and self.skel and self.callee_name(inner(s)[0]) != "DoError":
            return self.action(s, s) + cont()
        if k == "DeclStmt":
            code = ""
            for v in inner(s):
                if v.get("kind") != "VarDecl":
                    self.err(v)
                nm = v["name"]
                init = [c for c in inner(v)]
                is_lambda = bool(init) and self.strip(init[0]).get("kind") == "LambdaExpr"
                if is_lambda:
                    self.locals_.add(nm)
                    code += "let %s := %s\n" % (nm, self.expr(self.strip(init[0])))
                    continue
                if "&" in v.get("type", {}).get("qualType", "") and init and not is_pointer(qual(v)) and self.is_record(init[0]):
                    self.aliases[nm] = self.alias_target(init[0], v)      # `OutRec& outrec = *e1.outrec;`
                    continue
                if is_pointer(qual(v)):
                    # a pointer local is not a value of the model: it *names* a record (flow-sensitively)
                    self.aliases.pop(nm, None)
                    i0 = self.strip_ptr(init[0]) if init else None
                    if self.skel and i0 is not None and (i0.get("kind") == "CXXNewExpr" or (
                            i0.get("kind") in ("CallExpr", "CXXMemberCallExpr") and not self.is_accessor_call(i0))):
                        # the result of an untranslated callee / of `new`: a record the function did not receive
                        code += self.action(i0, v, result=nm)
                        self.aliases[nm] = nm
                        self.roots.add(nm)
                        continue
                    if init:
                        tgt = self.alias_target(init[0], v)
                        if tgt is None:
                            if not self.skel:
                                self.err(v, "pointer local initialised with nullptr")
                            tgt = NULLPATH      # names no record until it is assigned (`chain` refuses to follow it)
                        self.aliases[nm] = tgt
                    continue
                if value_record(qual(v)):
                    # a record held by value in a local: one scalar local per field
                    flds = value_record(qual(v))
                    vals = None
                    if init:
                        c0 = self.strip(init[0]) if init[0].get("kind") != "CXXConstructExpr" else init[0]
                        if not (c0.get("kind") == "CXXConstructExpr" and not inner(c0)):
                            vals = self.record_fields(init[0], v)
                    self.local_records[nm] = flds
                    for i_, (f_, t_) in enumerate(flds):
                        code += "let %s_%s : %s := %s\n" % (nm, f_, t_, vals[i_] if vals else "default")
                        self.locals_.add("%s_%s" % (nm, f_))
                    continue
                ty = lean_type(qual(v))
                if init:
                    code += "let %s : %s := %s\n" % (nm, ty, self.expr(init[0]))
                else:
                    code += "let %s : %s := default\n" % (nm, ty)
                self.locals_.add(nm)
                self.local_types[nm] = ty
            return code + cont()
        if k in ("BinaryOperator", "CompoundAssignOperator"):
            op = s["opcode"]
            lhs, rhs = inner(s)
            if op == "=" and is_pointer(qual(lhs)) and self.strip_ptr(lhs).get("kind") == "DeclRefExpr" and \
                    self.strip_ptr(lhs)["referencedDecl"]["kind"] == "VarDecl":
                r0 = self.strip_ptr(rhs)
                if self.skel and (r0.get("kind") == "CXXNewExpr" or (
                        r0.get("kind") in ("CallExpr", "CXXMemberCallExpr") and not self.is_accessor_call(r0))):
                    # the result of `new` / of an untranslated callee: a record the function did not receive
                    nm = self.strip_ptr(lhs)["referencedDecl"]["name"]
                    code = self.action(r0, s, result=nm)
                    self.aliases[nm] = nm
                    self.roots.add(nm)
                    return code + cont()
                tgt = self.alias_target(rhs, s)
                if tgt is None:
                    self.err(s, "pointer local set to nullptr")
                self.aliases[self.strip_ptr(lhs)["referencedDecl"]["name"]] = tgt
                return cont()
            l0 = lhs
            while l0.get("kind") == "ParenExpr":
                l0 = inner(l0)[0]
            if self.skel and l0.get("kind") == "MemberExpr" and self.local_record_field(l0) is None:
                return self.member_write(s, op, l0, rhs) + cont()
            tgt = self.lvalue(lhs)
            if op == "=":
                return "let %s := %s\n" % (tgt, self.expr(rhs)) + cont()
            m = {"|=": "|||", "&=": "&&&", "+=": "+", "-=": "-", "*=": "*"}
            if op in m:
                lop = m[op]
                ty = lean_type(qual(lhs))
                if lop in ("|||", "&&&") and ty == "Int":
                    fn = "Clipper.Gen.intOr" if lop == "|||" else "Clipper.Gen.intAnd"
                    return "let %s := %s %s %s\n" % (tgt, fn, tgt, self.expr(rhs)) + cont()
                return "let %s := %s %s %s\n" % (tgt, tgt, lop, self.expr(rhs)) + cont()
            self.err(s, "statement operator " + op)
        if k == "UnaryOperator" and s.get("opcode") in ("++", "--") and self.skel and \
                self.strip_ptr(inner(s)[0]).get("kind") == "MemberExpr":
            one = {"kind": "IntegerLiteral", "value": "1", "type": {"qualType": "int"}}
            return self.member_write(s, "+=" if s["opcode"] == "++" else "-=", self.strip_ptr(inner(s)[0]), one) + cont()
        if k == "UnaryOperator" and s.get("opcode") in ("++", "--"):
            tgt = self.lvalue(inner(s)[0])
            return "let %s := %s %s 1\n" % (tgt, tgt, "+" if s["opcode"] == "++" else "-") + cont()
        if k in ("IfStmt", "SwitchStmt") and self.skel and self.inline_depth == 0 and id(s) not in self.in_phi and \
                (rest or k_norm is not None):
            if not self.probing_exit(s):
                merged = self.phi(s)
                if merged is not None:
                    return merged + cont()
            elif not self.probing_exit(s, returns=False):
                merged = self.phi(s, cont)      # several paths fall through, others `return`
                if merged is not None:
                    return merged
        if k == "IfStmt":
            kids = inner(s)
            c = self.expr(kids[0])
            saved = self.snapshot()
            a = self.stmts([kids[1]], cont, k_break)
            self.restore(saved)
            b = self.stmts([kids[2]], cont, k_break) if len(kids) > 2 else cont()
            return "if %s then\n%s\nelse\n%s" % (c, indent(a), indent(b))
        if k == "SwitchStmt":
            return self.switch(s, cont, k_break)
        if k == "CallExpr":
            nm = self.callee_name(inner(s)[0])
            if nm == "DoError":
                code = self.expr(inner(s)[1])
                if not self.throws:
                    self.err(s, "DoError in a function not declared as throwing")
                return "if exc then .error %s else\n%s" % (code, cont())
            self.err(s, "call statement " + str(nm))
        if k == "CXXOperatorCallExpr" and self.callee_name(inner(s)[0]) == "operator=" and len(inner(s)) == 3 and \
                self.strip_ptr(inner(s)[1]).get("kind") == "DeclRefExpr" and \
                self.strip_ptr(inner(s)[1])["referencedDecl"]["name"] in self.rec_outs:
            nm = self.strip_ptr(inner(s)[1])["referencedDecl"]["name"]
            vals = self.record_fields(inner(s)[2], s)
            return "".join("let %s_%s := %s\n" % (nm, f_, v_) for (f_, _), v_ in zip(self.rec_outs[nm], vals)) + cont()
        if k == "CXXOperatorCallExpr" and self.skel and self.callee_name(inner(s)[0]) == "operator=" and len(inner(s)) == 3 and \
                self.strip_ptr(inner(s)[1]).get("kind") == "MemberExpr" and value_record(qual(inner(s)[1])):
            return self.member_write(s, "=", self.strip_ptr(inner(s)[1]), inner(s)[2]) + cont()      # `e->bot = e->top;`
        if k in ("ExprWithCleanups",):
            return self.stmts(inner(s) + rest, k_norm, k_break)
        self.err(s)

    def probing_exit(self, s, returns=True):
        """can control leave the statement other than by falling off its end (`returns=False`: … or by `return`)?"""
        def walk(x, in_switch, in_loop):
            k = x.get("kind")
            if k == "ReturnStmt":
                return returns
            if k == "BreakStmt" and not (in_switch or in_loop):
                return True
            if k == "ContinueStmt" and not in_loop:
                return True
            if k in ("LambdaExpr",):
                return False
            sw = in_switch or k == "SwitchStmt"
            lp = in_loop or k in ("WhileStmt", "ForStmt", "DoStmt", "CXXForRangeStmt")
            return any(walk(c, sw, lp) for c in inner(x))
        return walk(s, False, False)

    def phi(self, s, cont=None):
        """skeleton mode: an `if` / `switch` that always falls through is translated as an expression producing the values it
        assigns (locals, scalar members, the log), instead of copying the rest of the function into every branch.
        None if the branches re-point pointer locals / pointer members differently (then the continuation is copied)."""
        self.in_phi.add(id(s))
        hook = self.exit_hook
        try:
            return self.phi_(s, cont)
        finally:
            self.exit_hook = hook
            self.in_phi.discard(id(s))

    def phi_(self, s, cont=None):
        """`cont` given: the statement also contains `return`s.  Its value then starts with a flag "returned" (and the returned
        value, for a non-void function), and the rest of the function follows once, under `if ¬ returned`."""
        snap = self.snapshot()
        seen = {"locals": set(), "members": set(), "acts": False, "ok": True, "clock": snap[5], "ver": dict(snap[4]),
                "falls": 0}
        base_assigned = set(self.assigned)
        outer_hook = self.exit_hook
        vty = self.frag_ret if self.frag_exits else (self.ret_type if self.ret_type != "Unit" else None)
        with_ret = cont is not None and vty is not None

        def probe(fell=True):
            if fell:
                seen["falls"] += 1
            if self.aliases != snap[1] or self.path_alias != snap[2]:
                seen["ok"] = False
            seen["locals"].update(x for x in self.assigned if x in snap[0] or x in self.free_locals or x in self.outs)
            seen["members"].update(l for l in self.wrote if self.wrote[l] != snap[3].get(l))
            seen["acts"] = seen["acts"] or self.acts_dirty
            seen["clock"] = max(seen["clock"], self.clock)
            for m_, v_ in self.ver.items():
                if v_[0] > seen["ver"].get(m_, (0, 0))[0]:
                    seen["ver"][m_] = v_
            return ""

        self.assigned, self.acts_dirty = set(), False
        self.dry += 1
        if cont is not None:
            self.exit_hook = lambda e: probe(False)
        try:
            self.stmts([s], probe, None)
        finally:
            self.dry -= 1
            self.exit_hook = outer_hook
            self.restore(snap)
        if not seen["ok"] or (cont is not None and seen["falls"] < 2):
            self.assigned = base_assigned
            return None
        vs = [(x, self.local_types[x]) for x in sorted(seen["locals"])] + \
             [(l, self.written_all[l]) for l in sorted(seen["members"])] + \
             ([("acts", "List (String × List Int)")] if seen["acts"] else [])
        pre = ([("returned", "Bool")] + ([("retval", vty)] if with_ret else [])) if cont is not None else []

        def value(exited=None, e=None):
            out = []
            if cont is not None:
                out.append("true" if exited else "false")
                if with_ret:
                    out.append(e if exited else "default")
            for x, _ in vs:
                out.append(self.scalar_now(x) if x in seen["members"] else x)
            return "(" + ", ".join(out) + ")" if len(out) != 1 else out[0]

        self.assigned, self.acts_dirty = set(), False
        if cont is not None:
            self.exit_hook = lambda e: value(True, e)
        body = self.stmts([s], value, None) if (vs or pre) else ""
        self.exit_hook = outer_hook
        vs = pre + vs
        self.restore(snap)
        self.assigned = base_assigned | seen["locals"]
        self.acts_dirty = self.acts_dirty or seen["acts"]
        self.clock = seen["clock"] + 1
        self.ver = dict(seen["ver"])
        for l in seen["members"]:
            self.wrote[l] = self.clock
        if not vs:
            return ""
        idx = self.phis.setdefault(s.get("id", id(s)), len(self.phis) + 1)
        for x in seen["locals"]:
            self.local_ver[x] = "%s_m%d" % (x, idx)
        ty = vs[0][1] if len(vs) == 1 else "(%s)" % " × ".join(t for _, t in vs)
        body = self.aux_def(body, ty, s, exits=cont is not None)
        if len(vs) == 1 and cont is None:
            return "let %s : %s := %s\n" % (vs[0][0], vs[0][1], body)
        code = "let phi%d : %s := %s\n" % (idx, ty, body)
        for i, (x, t) in enumerate(vs):
            proj = ".2" * i + (".1" if i < len(vs) - 1 else "")
            if x not in ("returned", "retval") or cont is None:
                code += "let %s : %s := phi%d%s\n" % (x, t, idx, proj)
        if cont is None:
            return code
        if len(vs) == 1:
            flag, rv = "phi%d" % idx, None
        else:
            flag, rv = "phi%d.1" % idx, ("phi%d.2.1" % idx if len(vs) > 2 else "phi%d.2" % idx)
        if outer_hook is not None:
            exit_code = outer_hook(rv if with_ret else None)     # inside another merged statement: its way of returning
        else:
            exit_code = self.ret(rv if with_ret else None)
        snap2 = self.snapshot()
        rest_code = cont()
        self.restore(snap2)
        return code + "if %s then\n%s\nelse\n%s" % (flag, indent(exit_code), indent(rest_code))

    def aux_def(self, body, ty, s, exits=False):
        """the value computed by a merged `if` / `switch` becomes an auxiliary definition `<function>.m<k>` of its own (its
        parameters: what the block reads from its surroundings), so that theorems can be stated about one block at a time"""
        if self.dry > 0:
            return "(" + body.replace("\n", " ") + ")"
        env = dict(self.params)
        env.update(self.members)
        env.update(self.free_locals)
        env.update(self.local_types)
        env.update(self.written_all)
        env.update(self.opaque_sigs)
        env["acts"] = "List (String × List Int)"
        free = free_idents(body, env)
        key = (body, tuple(free), ty)
        if key not in self.aux_keys:
            name = "%s.m%d" % (self.lean_name, len(self.aux) + 1)
            self.aux_keys[key] = name
            binders = (DBL_BINDERS + " " if _DBL[0] else "") + " ".join("(%s : %s)" % (x, env[x]) for x in free)
            what = "switch" if s.get("kind") == "SwitchStmt" else "if"
            how = "a fall-through `%s` of C++ `%s`: the values it assigns" % (what, self.cname)
            if exits:
                how = "a `%s` of C++ `%s` with `return`s: (returned?, %sthe values it assigns)" % (
                    what, self.cname, "the value returned, " if self.ret_type != "Unit" else "")
            self.aux.append("/-- %s -/\ndef %s %s : %s :=\n%s\n" % (how, name, binders, ty, indent(body)))
        return "(%s %s)" % (self.aux_keys[key], " ".join(free)) if free else self.aux_keys[key]

    def log_act(self, tag, dyn=()):
        self.uses_acts = True
        self.acts_dirty = True
        return 'let acts := acts ++ [("%s", [%s])]\n' % (tag, ", ".join(dyn))

    def as_int(self, e, ty, ctx):
        if ty == "Int":
            return e
        if ty == "Bool":
            return "(if %s then (1 : Int) else 0)" % e
        if ty == "UInt64":
            return "(Clipper.Gen.ofU64 %s)" % e
        if ty.startswith("Clipper."):
            return "(Clipper.Gen.enumToInt %s)" % e
        self.err(ctx, "argument of type %s in a logged call" % ty)

    def havoc(self, site, names):
        """an opaque step (untranslated callee, loop) may assign the members `names` of any record"""
        self.clock += 1
        idx = self.sites.setdefault(site.get("id", id(site)), len(self.sites) + 1)
        for m_ in names:
            self.ver[m_] = (self.clock, idx)
        return idx

    def action(self, call, ctx, result=None):
        """skeleton mode: a call of a function that is not translated.  It is appended to the log `acts` as
        (`name(record arguments…)`, [scalar arguments…]) and every member it may assign (transitively, by name: see
        `mod_analysis`) is unknown afterwards."""
        if call.get("kind") == "CXXNewExpr":
            t = strip_type(qual(call)).rstrip("*").strip().split("::")[-1]
            return self.log_act("%snew %s" % ((result + " := ") if result else "", t))
        kids = inner(call)
        nm = self.callee_name(kids[0])
        if nm is None:
            self.err(ctx, "call through an expression")
        tags, dyn = [], []
        for a in kids[1:]:
            if a.get("kind") == "CXXDefaultArgExpr":
                tags.append("default")
            elif self.is_record(a) and self.elem_arg(a) is not None:
                base, ix = self.elem_arg(a)
                tags.append(base + "[·]")
                dyn.append(self.as_int(self.expr(ix), lean_type(qual(ix)), ctx))
            elif self.is_record(a):
                t = self.alias_target(a, ctx)
                tags.append(t if t is not None else "nullptr")
            else:
                tags.append("·")
                dyn.append(self.as_int(self.expr(a), lean_type(qual(a)), ctx))
        code = ""
        if nm not in self.pure:
            code = self.log_act("%s%s(%s)" % ((result + " := ") if result else "", nm, ",".join(tags)), dyn)
        if nm not in self.modsets and nm not in self.pure:
            self.err(ctx, "call of %s: no body in the translation unit to derive its effects from" % nm)
        self.havoc(call, self.modsets.get(nm, ()))
        return code

    def elem_arg(self, a):
        """`vec[i]` passed as a record: (name of the container, index expression)"""
        cur = self.strip_ptr(a)
        while cur.get("kind") in ("CXXConstructExpr", "MaterializeTemporaryExpr", "ExprWithCleanups") and len(inner(cur)) == 1:
            cur = self.strip_ptr(inner(cur)[0])
        if cur.get("kind") == "CXXOperatorCallExpr" and self.callee_name(inner(cur)[0]) == "operator[]" and len(inner(cur)) == 3:
            base = self.member_path_noreg(inner(cur)[1])
            if base is not None:
                return base, inner(cur)[2]
        return None

    def member_write(self, s, op, lhs, rhs):
        """skeleton mode: assignment through a member path.  A scalar member becomes a shadowing `let` of the location's name
        and a result of the generated function; a pointer member is logged (`location := record`) and later reads through
        that location follow the new target."""
        c = self.chain(lhs)
        if c is None:
            self.err(s, "assignment target not rooted at a parameter")
        loc = self.resolve(c[0], c[1], location=True)
        if is_pointer(qual(lhs)):
            if op != "=":
                self.err(s, "pointer arithmetic")
            r0 = self.strip_ptr(rhs)
            code = ""
            if r0.get("kind") == "CXXNewExpr" or (r0.get("kind") in ("CallExpr", "CXXMemberCallExpr") and not self.is_accessor_call(r0)):
                # the result of an untranslated callee: a record this function did not receive
                idx = self.sites.setdefault(r0.get("id", id(r0)), len(self.sites) + 1)
                tgt = "%s_ret%d" % (self.callee_name(inner(r0)[0]) if r0.get("kind") != "CXXNewExpr" else "new", idx)
                code = self.action(r0, s, result=tgt)
                self.roots.add(tgt)
            else:
                tgt = self.alias_target(rhs, s)
            code += self.log_act("%s := %s" % (loc, tgt if tgt is not None else "nullptr"))
            self.path_alias[loc] = (tgt, self.clock)
            return code
        if value_record(qual(lhs)):
            if op != "=":
                self.err(s, "compound assignment to a record")
            vals = self.record_fields(rhs, s)
            code = ""
            for (f_, t_), v_ in zip(value_record(qual(lhs)), vals):
                lf = "%s_%s" % (loc, f_)
                code += "let %s : %s := %s\n" % (lf, t_, v_)
                self.written_all[lf] = t_
                self.member_parts.setdefault(lf, (c[0], c[1] + [part(f_, None)], None))
            for (f_, t_) in value_record(qual(lhs)):
                self.wrote["%s_%s" % (loc, f_)] = self.clock
            return code
        ty = lean_type(qual(lhs))
        e = self.expr(rhs)
        if op != "=":
            m = {"|=": "|||", "&=": "&&&", "+=": "+", "-=": "-", "*=": "*"}
            if op not in m or (m[op] in ("|||", "&&&") and ty == "Int"):
                self.err(s, "statement operator " + op)
            cur = self.resolve(c[0], c[1])
            if cur != loc or loc not in self.wrote:
                self.members[cur] = ty
            e = "%s %s %s" % (cur, m[op], e)
        self.wrote[loc] = self.clock
        self.written_all[loc] = ty
        self.member_parts.setdefault(loc, (c[0], list(c[1]), None))
        return "let %s : %s := %s\n" % (loc, ty, e)

    def loop_havoc(self, s):
        """skeleton mode: a loop is not unrolled.  Whatever it may assign (locals, members, through callees) is a fresh
        unknown `…_after<k>` afterwards; nothing is assumed about the exit condition."""
        names, scalars, ptrs, calls = set(), {}, set(), set()

        def scan(x):
            k = x.get("kind")
            if (k in ("BinaryOperator", "CompoundAssignOperator") and x.get("opcode", "").endswith("=") and
                    x.get("opcode") not in ("==", "!=", "<=", ">=")) or (k == "UnaryOperator" and x.get("opcode") in ("++", "--")):
                l = self.strip_ptr(inner(x)[0])
                if l.get("kind") == "MemberExpr":
                    names.add(l.get("referencedMemberDecl") or l["name"])
                elif l.get("kind") == "DeclRefExpr" and l["referencedDecl"]["kind"] in ("VarDecl", "ParmVarDecl"):
                    if is_pointer(qual(l)):
                        ptrs.add(l["referencedDecl"]["name"])
                    else:
                        scalars[l["referencedDecl"]["name"]] = qual(l)
                else:
                    names.update(member_names(l))
            if k in ("CallExpr", "CXXMemberCallExpr"):
                nm = self.callee_name(inner(x)[0])
                if nm is not None:
                    calls.add(nm)
            for c in inner(x):
                scan(c)

        body = inner(s)
        if s.get("kind") == "ForStmt" and body and body[0].get("kind") == "DeclStmt":
            self.err(s, "for loop with a declaration in skeleton mode")
        scan(s)
        for c_ in calls:
            names.update(self.modsets.get(c_, ()))
        idx = self.havoc(s, names)
        code = ""
        opaque = sorted(c_ for c_ in calls if c_ in self.modsets and c_ not in self.pure and c_ not in self.known and
                        c_ not in self.accessors)
        if opaque:
            code += self.log_act("loop%d{%s}" % (idx, ",".join(opaque)))      # calls made an unknown number of times
        for nm, t in sorted(scalars.items()):
            if nm in self.locals_ or nm in self.free_locals or nm in [p_ for p_, _ in self.params]:
                fresh = "%s_after%d" % (nm, idx)
                self.members[fresh] = lean_type(t)
                code += "let %s : %s := %s\n" % (nm, lean_type(t), fresh)
                self.assigned.add(nm)
                self.local_ver[nm] = fresh
                self.local_types[nm] = lean_type(t)
                if nm in self.free_locals:
                    self.free_assigned[nm] = self.free_locals[nm]
        for nm in sorted(ptrs):
            fresh = "%s_after%d" % (nm, idx)
            self.aliases[nm] = fresh
            self.roots.add(fresh)
        return code

    def strip(self, n):
        while n.get("kind") in ("ExprWithCleanups", "MaterializeTemporaryExpr", "ImplicitCastExpr", "CXXConstructExpr", "CXXBindTemporaryExpr") and len(inner(n)) == 1:
            n = inner(n)[0]
        return n

    def lvalue(self, n):
        while n.get("kind") in ("ParenExpr",):
            n = inner(n)[0]
        if n.get("kind") == "DeclRefExpr":
            rd = n["referencedDecl"]
            nm = rd["name"]
            if rd["kind"] == "ParmVarDecl":
                nm = self.subst[-1].get(nm, nm)
                if len(self.subst) == 1 and nm not in self.outs and nm in self.ref_params:
                    self.err(n, "assignment to reference parameter not registered as out: " + nm)
                self.used_params.add(nm)
                self.local_types[nm] = lean_type(qual(n))
            elif rd["kind"] == "VarDecl" and self.frag is not None and nm not in self.locals_:
                self.free_locals[nm] = lean_type(qual(n))
                self.free_assigned[nm] = self.free_locals[nm]
                self.local_types[nm] = self.free_locals[nm]
            self.assigned.add(nm)
            self.local_ver[nm] = "%s_v%d" % (nm, self.asg_sites.setdefault(n.get("id", id(n)), len(self.asg_sites) + 1))
            return nm
        if n.get("kind") == "MemberExpr":
            lr = self.local_record_field(n)
            if lr is not None:
                return lr
        self.err(n, "assignment target")

    def switch(self, s, cont, k_break_outer):
        kids = inner(s)
        scrut = kids[0]
        body = kids[1]
        sty = lean_type(qual(scrut))
        is_int = sty == "Int"
        if not sty.startswith("Clipper.") and not is_int:
            self.err(s, "switch over non-enum type " + sty)
        # linearise: list of ('label', name|None-for-default) and ('stmt', node)
        seq = []

        def lin(n):
            k = n.get("kind")
            if k == "CompoundStmt":
                for c in inner(n):
                    lin(c)
            elif k == "CaseStmt":
                kk = inner(n)
                lab = kk[0]
                cval = lab.get("value") if lab.get("kind") == "ConstantExpr" else None
                while lab.get("kind") in ("ConstantExpr", "ImplicitCastExpr"):
                    lab = inner(lab)[0]
                if is_int and cval is not None and re.fullmatch(r"-?\d+", str(cval)):
                    seq.append(("label", int(cval)))
                elif lab.get("kind") == "IntegerLiteral" and is_int:
                    seq.append(("label", int(lab["value"])))
                elif lab.get("kind") != "DeclRefExpr" or lab["referencedDecl"]["kind"] != "EnumConstantDecl":
                    self.err(n, "case label")
                else:
                    seq.append(("label", lab["referencedDecl"]["name"]))
                if len(kk) > 1:
                    lin(kk[1])
            elif k == "DefaultStmt":
                seq.append(("label", None))
                kk = inner(n)
                if kk:
                    lin(kk[0])
            else:
                seq.append(("stmt", n))

        lin(body)
        labels = [(i, x[1]) for i, x in enumerate(seq) if x[0] == "label"]
        named = [nm for _, nm in labels if nm is not None]
        has_default = any(nm is None for _, nm in labels)
        arms = []
        saved = self.snapshot()
        scr = self.expr(scrut)

        def from_index(i):
            self.restore(saved)
            tail = [x[1] for x in seq[i + 1:] if x[0] == "stmt"]
            return self.stmts(tail, cont, cont)

        if is_int:
            if has_default:
                i = [i for i, nm in labels if nm is None][0]
                code = from_index(i)
            else:
                self.restore(saved)
                code = cont()
            for i, nm in reversed(labels):
                if nm is None:
                    continue
                code = "if (decide (%s = (%d : Int))) then\n%s\nelse\n%s" % (scr, nm, indent(from_index(i)), indent(code))
            self.restore(saved)
            return code
        for i, nm in labels:
            if nm is None:
                continue
            arms.append("| .%s =>\n%s" % (lc(nm), indent(from_index(i))))
        exhaustive = set(named) >= set(ENUM_CTORS.get(sty, ["?"]))
        if exhaustive:
            pass  # every constructor has its own arm: a wildcard arm would be unreachable
        elif has_default:
            i = [i for i, nm in labels if nm is None][0]
            arms.append("| _ =>\n%s" % indent(from_index(i)))
        else:
            self.restore(saved)
            arms.append("| _ =>\n%s" % indent(cont()))
        self.restore(saved)
        return "match %s with\n%s" % (scr, "\n".join(arms))

    def extra_binders(self):
        """`dbl` mode: the abstract type of doubles with its order, and the opaque callees as function parameters"""
        if not _DBL[0]:
            return ""
        out = DBL_BINDERS + " "
        for nm in sorted(self.opaque_sigs):
            out += "(%s : %s) " % (nm, self.opaque_sigs[nm])
        return out

    def translate_skeleton(self, body):
        """skeleton / fragment mode.  Result of the generated function, in this order: the C++ return value (if any), the final
        value of every scalar member the code assigns (alphabetically by flattened name), assigned reference parameters,
        assigned locals declared outside a fragment, and the log `acts` of untranslated calls and pointer assignments."""
        self.skel = True
        is_expr = False
        if self.frag is not None:
            sel = select_fragment(body, self.frag, self.lean_name)
            self.frag_is_loop_body = self.frag[-1] == "body"
            if sel.get("kind", "").endswith("Stmt") or (sel.get("kind") in ("CallExpr", "CXXMemberCallExpr") and
                                                        sel.get("type", {}).get("qualType") == "void"):
                stmts = [sel]
                self.ret_type = "Unit"
                if self.probing_exit(sel) and not self.probing_exit(sel, returns=False):
                    # the fragment may `return` from the function: its result starts with (returned?, value returned)
                    self.frag_exits = True
                    rt = self.node["type"]["qualType"].split("(")[0].strip()
                    self.frag_ret = None if rt == "void" else lean_type(rt)
            else:
                is_expr = True
                stmts = [{"kind": "ReturnStmt", "inner": [sel]}]
                self.ret_type = lean_type(qual(sel))
        else:
            stmts = inner(body)
        keep = (list(self.params), set(self.roots), list(self.outs))

        def run():
            self.params, self.roots, self.outs = list(keep[0]), set(keep[1]), list(keep[2])
            self.members, self.member_parts = {}, dict((k_, v_) for k_, v_ in self.member_parts.items() if k_ in self.written_all)
            self.locals_, self.aliases, self.local_records = set(), {}, {}
            self.path_alias, self.wrote, self.ver, self.clock, self.sites = {}, {}, {}, 0, {}
            self.local_ver, self.asg_sites = {}, {}
            self.used_params = set()
            return self.stmts(stmts, None, None)

        self.dry = 1
        run()            # first pass: which members / outer locals are assigned, is anything logged
        self.dry = 0
        self.aux, self.aux_keys = [], {}
        code = run()
        if self.uses_acts:
            code = "let acts : List (String × List Int) := []\n" + code
        params = list(self.params)
        if self.frag is not None:
            params = [(a, b) for a, b in params if a in self.used_params or a in self.outs]
        allp = params + sorted(list(self.members.items()) + list(self.free_locals.items()))
        parts = ([self.ret_type] if self.ret_type != "Unit" else [])
        if self.frag_exits:
            parts = ["Bool"] + ([] if self.frag_ret is None else [self.frag_ret])
        parts += [self.written_all[loc] for loc in sorted(self.written_all)]
        parts += [dict(self.params)[o] for o in self.outs] + [self.free_assigned[x] for x in sorted(self.free_assigned)]
        if self.uses_acts:
            parts.append("List (String × List Int)")
        rty = "Unit" if not parts else ("(" + " × ".join(parts) + ")" if len(parts) > 1 else parts[0])
        names = ((["returned"] + ([] if self.frag_ret is None else ["value returned"])) if self.frag_exits else
                 (["result"] if self.ret_type != "Unit" else [])) + sorted(self.written_all) + list(self.outs) + \
            sorted(self.free_assigned) + (["acts"] if self.uses_acts else [])
        self.result_names = names
        binders = "".join(" (%s : %s)" % (a, b) for a, b in allp)
        xb = self.extra_binders()
        return "def %s%s%s : %s :=\n%s\n" % (self.lean_name, (" " + xb.strip()) if xb else "", binders, rty, indent(code)), allp

    # ---- whole function
    def translate(self):
        n = self.node
        ps = [c for c in inner(n) if c.get("kind") == "ParmVarDecl"]
        body = [c for c in inner(n) if c.get("kind") == "CompoundStmt"][0]
        self.locals_ = set()
        self.aliases = {}               # pointer / record-reference local -> path of the record it currently denotes
        self.local_records = {}
        self.ref_params = set()
        rt = n["type"]["qualType"].split("(")[0].strip()
        if rt == "void":
            self.ret_type = "Unit"
        elif is_pointer(rt):
            self.ret_type = "Nat"       # a pointer result: which record (see `ptr_path`)
        elif value_record(rt):
            self.ret_type = "(" + " × ".join(t_ for _, t_ in value_record(rt)) + ")"
        elif self.frag is not None:
            self.ret_type = "Unit"      # the result of a fragment is what it assigns (or the selected expression)
        else:
            self.ret_type = lean_type(rt)
        # which reference params are assigned?  (pre-scan)
        assigned = set()

        def scan(x):
            if not isinstance(x, dict):
                return
            if x.get("kind") in ("BinaryOperator", "CompoundAssignOperator") and x.get("opcode", "").endswith("=") and x.get("opcode") not in ("==", "!=", "<=", ">="):
                l = inner(x)[0]
                while l.get("kind") == "ParenExpr":
                    l = inner(l)[0]
                if l.get("kind") == "DeclRefExpr" and l["referencedDecl"]["kind"] == "ParmVarDecl":
                    assigned.add(l["referencedDecl"]["name"])
            if x.get("kind") == "UnaryOperator" and x.get("opcode") in ("++", "--"):
                l = inner(x)[0]
                while l.get("kind") == "ParenExpr":
                    l = inner(l)[0]
                if l.get("kind") == "DeclRefExpr" and l["referencedDecl"]["kind"] == "ParmVarDecl":
                    assigned.add(l["referencedDecl"]["name"])
            for c in inner(x):
                scan(c)

        scan(body)
        for p in ps:
            t = p["type"]["qualType"]
            try:
                lt = lean_type(t)
            except TranslationError:
                if _DBL[0] and value_record(t) and "&" in t and "const" not in t:
                    # a record the function fills in (`Point64& ip`): its fields are parameters and results
                    self.rec_outs[p["name"]] = value_record(t)
                    for f_, t_ in value_record(t):
                        self.params.append(("%s_%s" % (p["name"], f_), t_))
                        self.outs.append("%s_%s" % (p["name"], f_))
                self.roots.add(p["name"])
                continue  # record parameter: reached through member paths
            self.params.append((p["name"], lt))
            if "&" in t and "const" not in t:
                self.ref_params.add(p["name"])
                if p["name"] in assigned:
                    self.outs.append(p["name"])
            elif p["name"] in assigned:
                pass  # by-value parameter used as a local
        for p in ps:
            if p["name"] in self.roots and "&" in p["type"]["qualType"]:
                self.ref_roots.add(p["name"])
        if self.skel or self.frag is not None:
            return self.translate_skeleton(body)
        code = self.stmts(inner(body), None, None)
        allp = list(self.params) + sorted((a, b) for a, b in self.members.items() if a not in dict(self.params))
        rty = self.ret_type
        if self.outs:
            outs_t = [dict(self.params)[o] for o in self.outs]
            parts = ([rty] if rty != "Unit" else []) + outs_t
            rty = "(" + " × ".join(parts) + ")" if len(parts) > 1 else parts[0]
        if self.throws:
            rty = "Except Int %s" % rty
            allp = [("exc", "Bool")] + allp
        binders = " ".join("(%s : %s)" % (a, b) for a, b in allp)
        return "def %s %s%s : %s :=\n%s\n" % (self.lean_name, self.extra_binders(), binders, rty, indent(code)), allp


def select_fragment(body, frag, lean_name):
    """the statement / condition of a function body that a `frag` selector names: a list of steps, each either
    (`Kind`, k) = the k-th node of that kind in source order below the current one, or one of `body`, `cond`, `then`, `else`"""
    cur = body
    for step in frag:
        if isinstance(step, tuple):
            kind, ordinal = step
            found = []

            def call_name(x):
                c = inner(x)[0] if inner(x) else {}
                while c.get("kind") in ("ImplicitCastExpr", "ParenExpr"):
                    c = inner(c)[0]
                if c.get("kind") == "DeclRefExpr":
                    return c["referencedDecl"].get("name")
                return c.get("name") if c.get("kind") == "MemberExpr" else None

            def walk(x, top=False):
                if not top and x.get("kind") == kind:
                    found.append(x)
                elif not top and kind.startswith("Call:") and x.get("kind") in ("CallExpr", "CXXMemberCallExpr") and \
                        call_name(x) == kind[5:]:
                    found.append(x)      # (`Call:F`, k): the k-th call of `F` in source order
                for c in inner(x):
                    walk(c)

            walk(cur, True)
            if ordinal >= len(found):
                raise TranslationError("%s: fragment selector %s: only %d %s in the function" % (lean_name, frag, len(found), kind))
            cur = found[ordinal]
            continue
        k = cur.get("kind")
        kids = inner(cur)
        if step == "body" and k in ("WhileStmt", "ForStmt", "CXXForRangeStmt"):
            cur = kids[-1]
        elif step == "body" and k == "DoStmt":
            cur = kids[0]
        elif step == "cond" and k in ("WhileStmt", "IfStmt"):
            cur = kids[0]
        elif step == "cond" and k == "DoStmt":
            cur = kids[1]
        elif step == "init" and k == "VarDecl" and kids:
            cur = kids[-1]
        elif step in ("lhs", "rhs"):
            while cur.get("kind") in ("ImplicitCastExpr", "ParenExpr", "ExprWithCleanups", "MaterializeTemporaryExpr") and inner(cur):
                cur = inner(cur)[0]
            if cur.get("kind") != "BinaryOperator":
                raise TranslationError("%s: fragment selector %s: `%s` of a %s" % (lean_name, frag, step, cur.get("kind")))
            cur = inner(cur)[0 if step == "lhs" else 1]
        elif step == "then" and k == "IfStmt":
            cur = kids[1]
        elif step == "else" and k == "IfStmt" and len(kids) > 2:
            cur = kids[2]
        else:
            raise TranslationError("%s: fragment selector %s: no `%s` in a %s" % (lean_name, frag, step, k))
    return cur


def free_idents(code, env):
    """names of `env` that occur free in a block of generated Lean (a sequence of `let x [: T] := e` lines, `if`/`match`
    lines and nested, more indented blocks): in order of first occurrence"""
    free = []
    stack = [[-1, set(), []]]
    for line in code.split("\n"):
        if not line.strip():
            continue
        n = len(line) - len(line.lstrip())
        while stack[-1][0] > n:
            stack.pop()
        if stack[-1][0] < n:
            stack.append([n, set(stack[-1][1]), []])
        top = stack[-1]
        top[1].update(top[2])
        top[2] = []
        text = re.sub(r'"[^"]*"', '""', line.strip())
        m = re.match(r"let ([A-Za-z_][\w']*)\s*(?::[^=]*?)?:=(.*)$", text)
        bind = None
        if m:
            bind, text = m.group(1), m.group(2)
        for m_ in re.finditer(r"(?<![\w.'])([A-Za-z_][\w']*)", text):
            x = m_.group(1)
            if x in env and x not in top[1] and x not in free:
                free.append(x)
        if bind is not None:
            if text.strip():
                top[1].add(bind)
            else:
                top[2].append(bind)     # the value is the following, more indented block: bound only after it
    return free


def member_names(n):
    out = set()

    def walk(x):
        if x.get("kind") == "MemberExpr" and x.get("name"):
            out.add(x.get("referencedMemberDecl") or x["name"])
        for c in inner(x):
            walk(c)

    walk(n)
    return out


def indent(s, n=2):
    return "\n".join((" " * n + l) if l else l for l in s.split("\n"))


# ---------------------------------------------------------------------------------------------
# configuration: what is translated from where

PRELUDE = '''/- GENERATED by tools/cpp2lean.py from /repo's current sources: do not edit. -/
import ClipperVerif.Spec.Enums
set_option linter.unusedVariables false
namespace Clipper.Gen
'''


def int_consts(objs_by_name):
    out = {}
    for name, objs in objs_by_name.items():
        for o in objs:
            if o.get("kind") == "VarDecl" and o.get("name") == name:
                def lit(n):
                    if n.get("kind") == "IntegerLiteral":
                        return int(n["value"])
                    if n.get("kind") == "UnaryOperator" and n.get("opcode") == "-":
                        v = lit(inner(n)[0])
                        return None if v is None else -v
                    for c in inner(n):
                        v = lit(c)
                        if v is not None:
                            return v
                    return None
                v = lit(o)
                if v is not None:
                    out[name] = v
    return out


_MOD_CACHE = {}


def mod_analysis(objs):
    """{function name: set of fields (clang ids of the FieldDecls) it may assign, directly or through callees with a body in
    this dump}.  Functions by *name* (overloads are merged), fields by declaration (whichever record of that type);
    an assignment `a->b.c = …` counts as a write of `c`, a non-const-looking use the
    analysis cannot see through (a method of a member object without a body here, e.g. `vec_.push_back`) counts as a write
    of that member object.  Used to decide which values read after an untranslated call are unknown."""
    key = id(objs)
    if key in _MOD_CACHE:
        return _MOD_CACHE[key]
    direct, calls, pend = {}, {}, {}

    def strip(x):
        while x.get("kind") in ("ParenExpr", "ImplicitCastExpr", "CStyleCastExpr") and inner(x):
            x = inner(x)[0]
        return x

    def body_scan(fname, x):
        k = x.get("kind")
        if (k in ("BinaryOperator", "CompoundAssignOperator") and x.get("opcode", "").endswith("=") and
                x.get("opcode") not in ("==", "!=", "<=", ">=")) or (k == "UnaryOperator" and x.get("opcode") in ("++", "--")):
            l = strip(inner(x)[0])
            if l.get("kind") == "MemberExpr":
                direct[fname].add(l.get("referencedMemberDecl") or l["name"])
            else:
                direct[fname].update(member_names(l))
        if k in ("CallExpr", "CXXMemberCallExpr", "CXXOperatorCallExpr"):
            c = strip(inner(x)[0])
            nm = None
            if c.get("kind") == "DeclRefExpr":
                nm = c["referencedDecl"].get("name")
            elif c.get("kind") == "MemberExpr":
                nm = c.get("name")
                base = inner(c)[0] if inner(c) else {}
                if strip(base).get("kind") != "CXXThisExpr":
                    pend[fname].append((nm, member_names(base)))
            if nm:
                calls[fname].add(nm)
        for c in inner(x):
            body_scan(fname, c)

    def walk(n):
        if not isinstance(n, dict):
            return
        if n.get("kind") in ("FunctionDecl", "CXXMethodDecl", "CXXConstructorDecl") and n.get("name"):
            bodies = [c for c in inner(n) if c.get("kind") == "CompoundStmt"]
            if bodies:
                nm = n["name"]
                direct.setdefault(nm, set())
                calls.setdefault(nm, set())
                pend.setdefault(nm, [])
                body_scan(nm, bodies[0])
        for c in inner(n):
            walk(c)

    for o in objs:
        walk(o)
    for f, lst in pend.items():
        for callee, names in lst:
            if callee not in direct:
                direct[f].update(names)
    changed = True
    while changed:
        changed = False
        for f in direct:
            for c in calls[f]:
                if c in direct and not direct[c] <= direct[f]:
                    direct[f] |= direct[c]
                    changed = True
    _MOD_CACHE[key] = direct
    return direct


def operator_bodies(objs):
    """clang id -> FunctionDecl of every `operator==` / `operator!=` with a body (inlined when applied to records)"""
    out = {}

    def walk(n):
        if not isinstance(n, dict):
            return
        if n.get("kind") in ("FunctionDecl", "CXXMethodDecl") and n.get("name") in ("operator==", "operator!=") and \
                any(c.get("kind") == "CompoundStmt" for c in inner(n)):
            out[n.get("id")] = n
        for c in inner(n):
            walk(c)

    for o in objs:
        walk(o)
    return out


def bitmask_enum_values(objs):
    """{enum name: {constant: value}} for the enums of BITMASK_ENUMS, read from the EnumDecl in the dump"""
    out = {}

    def const_value(n):
        if n.get("kind") in ("ConstantExpr", "IntegerLiteral") and "value" in n:
            return int(n["value"])
        for c in inner(n):
            v = const_value(c)
            if v is not None:
                return v
        return None

    def walk(n):
        if not isinstance(n, dict):
            return
        if n.get("kind") == "EnumDecl" and n.get("name") in BITMASK_ENUMS:
            vals, nxt = {}, 0
            for c in inner(n):
                if c.get("kind") == "EnumConstantDecl":
                    v = const_value(c)
                    v = nxt if v is None else v
                    vals[c["name"]] = v
                    nxt = v + 1
            if vals:
                out[n["name"]] = vals
        for c in inner(n):
            walk(c)

    for o in objs:
        walk(o)
    return out


def class_specialisations(objs, cls, arg):
    """the ClassTemplateSpecializationDecl nodes `cls<arg>` (methods of a class template are looked up inside them)"""
    out = []

    def walk(n):
        if not isinstance(n, dict):
            return
        if n.get("kind") == "ClassTemplateSpecializationDecl" and n.get("name") == cls:
            targs = [c for c in inner(n) if c.get("kind") == "TemplateArgument"]
            if targs and targs[0].get("type", {}).get("qualType") == arg:
                out.append(n)
            return
        for c in inner(n):
            walk(c)

    for o in objs:
        walk(o)
    return out


# definitions whose translation failure makes the whole unit fail (as before the bridge extension); every other definition
# fails on its own
UNIT_LEVEL_FAILURE = {"TriSign", "Multiply", "ProductsAreEqual", "CrossProductSign", "IsCollinear", "GetSign", "CheckPrecisionRange",
                      "IsOdd", "IsContributingClosed", "IsContributingOpen", "PtsReallyClose", "LocMinSorter", "HorzSegSorter",
                      "IntersectListSort", "IsValidAelOrder", "GetLocation", "GetAdjacentLocation", "HeadingClockwise", "AreOpposites",
                      "GetEdgesForPt", "IsHeadingClockwise", "HasHorzOverlap", "HasVertOverlap"}
CONTAINED_ERRORS = []


def translate_unit(tu_text, specs, consts_names=(), extra_inc=None, inline_names=(), defines=(), externs=None, want_decls=False):
    """specs: list of dicts {c: C name, lean: lean name, types: substring of qualType or None, throws: bool}"""
    consts = {}
    if consts_names:
        objs = {nm: named_subtrees(unit_ast(tu_text, extra_inc, defines), nm) for nm in consts_names}
        consts = int_consts(objs)
        for nm in consts_names:
            if nm not in consts:
                raise TranslationError("cannot evaluate constant " + nm)
    inline_fns = {}
    for nm in inline_names:
        b = find_bodies(unit_ast(tu_text, extra_inc, defines), nm)
        if not b:
            raise TranslationError("no body for inline function " + nm)
        inline_fns[nm] = b[-1]
    known = {}
    out = []
    sigs = {}
    decls = {}
    known_ids = {}
    overloads = {}
    parts = {}
    enum_values = bitmask_enum_values(unit_ast(tu_text, extra_inc, defines))
    def translate_one(sp):
        objs = unit_ast(tu_text, extra_inc, defines)
        if "filt" in sp:
            objs = named_subtrees(objs, sp["filt"])
        if "scope" in sp:
            objs = class_specialisations(objs, *sp["scope"])
        bodies = find_bodies(objs, sp["c"], sp.get("types"))
        if not bodies:
            raise TranslationError("function %s (%s) not found in current sources" % (sp["c"], sp.get("types")))
        node = bodies[-1]
        fn = Fn(node, sp["lean"], dict(known), consts, inline_fns, throws=sp.get("throws", False),
                accessors=sp.get("accessors", ()), externs=externs, enum_values=enum_values,
                known_sigs={k: (sigs[k], decls[k], parts[k]) for k in sigs}, known_ids=dict(known_ids))
        fn.overloads = dict(overloads)
        fn.cname = sp.get("cname", sp["c"])
        if sp.get("skel") or sp.get("frag") is not None:
            fn.skel, fn.frag, fn.pure = True, sp.get("frag"), set(sp.get("pure", ()))
            fn.modsets = mod_analysis(unit_ast(tu_text, extra_inc, defines))
            fn.inline_ops = operator_bodies(unit_ast(tu_text, extra_inc, defines))
        fn.opaque = set(sp.get("opaque", ()))
        if sp.get("dbl") and not fn.inline_ops:
            fn.inline_ops = operator_bodies(unit_ast(tu_text, extra_inc, defines))
        _DBL[0] = bool(sp.get("dbl"))
        try:
            code, params = fn.translate()
        finally:
            _DBL[0] = False
        doc = "C++ `%s` : `%s`" % (sp.get("cname", sp["c"]), node["type"]["qualType"])
        if fn.result_names is not None:
            doc += "%s; result = (%s)" % ((", part %s" % (sp["frag"],)) if sp.get("frag") is not None else " (skeleton)",
                                          ", ".join(fn.result_names))
        out.append("".join(a_ + "\n" for a_ in fn.aux) + "/-- %s -/\n%s" % (doc, code))
        known[sp["c"]] = sp["lean"]
        overloads[sp["c"]] = overloads.get(sp["c"], 0) + 1
        for b_ in bodies:
            if b_.get("id"):
                known_ids[b_["id"]] = sp["lean"]
        sigs[sp["lean"]] = params
        parts[sp["lean"]] = dict(fn.member_parts)
        decls[sp["lean"]] = [c["name"] for c in inner(node) if c.get("kind") == "ParmVarDecl"]

    for sp in specs:
        try:
            translate_one(sp)
        except TranslationError as e:
            if sp["lean"] in UNIT_LEVEL_FAILURE:
                raise       # the long-standing decision functions: the whole unit becomes a file that does not compile
            # a definition added for the bridge theorems: only this definition is missing from the generated file, so exactly
            # the theorems that mention it stop compiling (the obligations of the properties built on that function)
            CONTAINED_ERRORS.append({"function": sp["lean"], "error": str(e)})
            out.append("/- cpp2lean: `%s` could NOT be translated from the current sources: %s -/\n" %
                       (sp["lean"], str(e).replace("-/", "- /")))
    if want_decls:
        return "\n".join(out), sigs, decls, parts
    return "\n".join(out), sigs


CORE_TU = '''#include "clipper2/clipper.h"
namespace Clipper2Lib {
template int CrossProductSign<int64_t>(const Point<int64_t>&, const Point<int64_t>&, const Point<int64_t>&);
template bool IsCollinear<int64_t>(const Point<int64_t>&, const Point<int64_t>&, const Point<int64_t>&);
template int GetSign<int64_t>(const int64_t&);
template Point<int64_t> MidPoint<int64_t>(const Point<int64_t>&, const Point<int64_t>&);
template struct Rect<int64_t>;
template PointInPolygonResult PointInPolygon<int64_t>(const Point<int64_t>&, const Path<int64_t>&);
}
'''

CORE_SPECS = [
    dict(c="TriSign", lean="TriSign"),
    dict(c="Multiply", lean="Multiply"),
    dict(c="ProductsAreEqual", lean="ProductsAreEqual"),
    dict(c="CrossProductSign", lean="CrossProductSign", types="Point<long>"),
    dict(c="IsCollinear", lean="IsCollinear", types="Point<long>"),
    dict(c="GetSign", lean="GetSign", types="const long &"),
    dict(c="CheckPrecisionRange", lean="CheckPrecisionRange", types="int &, int &", throws=True),
    dict(c="MidPoint", lean="MidPoint", types="(const Point<long> &, const Point<long> &)"),
    # methods of Rect64: the members of `*this` are the parameters `left top right bottom`
    dict(c="IsEmpty", lean="RectIsEmpty", scope=("Rect", "long"), cname="Rect64::IsEmpty"),
    dict(c="Contains", lean="RectContainsPt", scope=("Rect", "long"), types="const Point<long> &", cname="Rect64::Contains"),
    dict(c="Contains", lean="RectContainsRect", scope=("Rect", "long"), types="const Rect<long> &", cname="Rect64::Contains"),
    dict(c="Intersects", lean="RectIntersects", scope=("Rect", "long"), cname="Rect64::Intersects"),
    dict(c="MidPoint", lean="RectMidPoint", scope=("Rect", "long"), cname="Rect64::MidPoint"),
    dict(c="Width", lean="RectWidth", scope=("Rect", "long"), types="long () const", cname="Rect64::Width"),
    dict(c="Height", lean="RectHeight", scope=("Rect", "long"), types="long () const", cname="Rect64::Height"),
    # one vertex of PointInPolygon's main loop (`curr`, `prev` are the iterators): the on-the-line test and the crossing step;
    # `CrossProduct` (double arithmetic) stays a function parameter
    dict(c="PointInPolygon", lean="PointInPolygon_onLine", types="Point<long>", frag=[("IfStmt", 9), "cond"]),
    dict(c="PointInPolygon", lean="PointInPolygon_cross", types="Point<long>", frag=[("IfStmt", 11)], dbl=True, opaque=("CrossProduct",)),
]

ENGINE_TU = '''#include "clipper.engine.cpp"
'''
ENGINE_SPECS = [
    dict(c="IsOdd", lean="IsOdd"),
    dict(c="IsContributingClosed", lean="IsContributingClosed"),
    dict(c="IsContributingOpen", lean="IsContributingOpen"),
    dict(c="PtsReallyClose", lean="PtsReallyClose"),
    dict(c="operator()", lean="LocMinSorter", filt="LocMinSorter"),
    dict(c="operator()", lean="HorzSegSorter", filt="HorzSegSorter"),
    dict(c="IntersectListSort", lean="IntersectListSort"),
    # pointer chasing (vertex ring, local minimum) is not followed: IsMaxima(e), NextVertex(e)->pt, PrevPrevVertex(e)->pt and
    # e.local_min->vertex->pt.y become parameters; CrossProductSign / IsCollinear are the definitions of unit Core
    dict(c="IsValidAelOrder", lean="IsValidAelOrder", accessors=("IsMaxima", "NextVertex", "PrevPrevVertex")),
    # --- leaf predicates on Active / OutRec / OutPt / Vertex.  Pointers are not followed: a pointer used as a truth value is
    # the Boolean `<path>_nonnull`, pointers compared with each other are `Nat` identities (`e_addr` = which record `e` is)
    dict(c="IsHotEdge", lean="IsHotEdge"),
    dict(c="IsOpen", lean="IsOpen"),
    dict(c="IsOpenEnd", lean="IsOpenEndV", types="Vertex &"),
    dict(c="IsOpenEnd", lean="IsOpenEnd", types="Active &"),
    dict(c="IsFront", lean="IsFront"),
    dict(c="IsInvalidPath", lean="IsInvalidPath"),
    dict(c="IsHorizontal", lean="IsHorizontal"),
    dict(c="GetPolyType", lean="GetPolyType"),
    dict(c="IsSamePolyType", lean="IsSamePolyType"),
    dict(c="NextVertex", lean="NextVertex"),
    dict(c="PrevPrevVertex", lean="PrevPrevVertex"),
    dict(c="IsMaxima", lean="IsMaximaV", types="Vertex &"),
    dict(c="IsMaxima", lean="IsMaxima", types="Active &"),
    dict(c="IsVerySmallTriangle", lean="IsVerySmallTriangle"),
    dict(c="IsValidClosedPath", lean="IsValidClosedPath"),
    dict(c="OutrecIsAscending", lean="OutrecIsAscending"),
    dict(c="EdgesAdjacentInAEL", lean="EdgesAdjacentInAEL"),
    dict(c="IsJoined", lean="IsJoined"),
    dict(c="GetLastOp", lean="GetLastOp"),
    # --- skeletons (see `translate_skeleton`): the decisions and the bookkeeping writes of functions that also call
    # untranslated code; those calls and pointer assignments are logged in `acts`
    dict(c="IntersectEdges", lean="IntersectEdges", skel=True, pure=("FindEdgeWithMatchingLocMin",)),
    dict(c="SwapOutrecs", lean="SwapOutrecs", skel=True),
    dict(c="SetSides", lean="SetSides", skel=True),
    dict(c="AddLocalMinPoly", lean="AddLocalMinPoly", skel=True, pure=("GetPrevHotEdge",)),
    dict(c="AddLocalMaxPoly", lean="AddLocalMaxPoly", skel=True, pure=("GetPrevHotEdge", "GetRealOutRec")),
    dict(c="Split", lean="Split", skel=True),
    dict(c="StartOpenPath", lean="StartOpenPath", skel=True),
    dict(c="ResetHorzDirection", lean="ResetHorzDirection", skel=True),
    dict(c="SetHorzSegHeadingForward", lean="SetHorzSegHeadingForward", skel=True),
    # --- parts of functions built around a loop over the AEL: the loop condition, one iteration, the code between the loops
    dict(c="SetWindCountForClosedPathEdge", lean="SetWindClosed_findCond", frag=[("WhileStmt", 0), "cond"]),
    dict(c="SetWindCountForClosedPathEdge", lean="SetWindClosed_windCnt", frag=[("IfStmt", 0)]),
    dict(c="SetWindCountForClosedPathEdge", lean="SetWindClosed_wc2StepEvenOdd", frag=[("WhileStmt", 1), "body"]),
    dict(c="SetWindCountForClosedPathEdge", lean="SetWindClosed_wc2Step", frag=[("WhileStmt", 2), "body"]),
    dict(c="SetWindCountForOpenPathEdge", lean="SetWindOpen_stepEvenOdd", frag=[("WhileStmt", 0), "body"]),
    dict(c="SetWindCountForOpenPathEdge", lean="SetWindOpen_step", frag=[("WhileStmt", 1), "body"]),
    dict(c="SetWindCountForOpenPathEdge", lean="SetWindOpen", skel=True),
    dict(c="GetPrevHotEdge", lean="GetPrevHotEdge_cond", frag=[("WhileStmt", 0), "cond"]),
    dict(c="TrimHorz", lean="TrimHorz_cond", frag=[("WhileStmt", 0), "cond"]),
    dict(c="TrimHorz", lean="TrimHorz_break", frag=[("IfStmt", 0), "cond"]),
    dict(c="BuildPath64", lean="BuildPath64_guard", frag=[("IfStmt", 0), "cond"]),
    # the removal test of CleanCollinear's loop; `DotProduct` (double arithmetic) stays a function parameter
    dict(c="CleanCollinear", lean="CleanCollinear_removable", frag=[("IfStmt", 2), "cond"], dbl=True, opaque=("DotProduct",)),
    # --- second widening: the JOIN DECISIONS.  `PerpendicDistFromLineSqrd(pt, a, b) > 0.25` (double arithmetic, not entered) is ONE
    # Boolean argument named after the call site (callee, record arguments, comparison, literal: see `opaque_compare`)
    dict(c="CheckJoinLeft", lean="CheckJoinLeft", skel=True, opaque=("PerpendicDistFromLineSqrd",)),
    dict(c="CheckJoinRight", lean="CheckJoinRight", skel=True, opaque=("PerpendicDistFromLineSqrd",)),
    # the call sites of CheckJoinLeft / CheckJoinRight with their `pt` and `check_curr_x` arguments (`default` = argument omitted)
    dict(c="UpdateEdgeIntoAEL", lean="UpdateEdgeIntoAEL", skel=True, accessors=("NextVertex",)),
    dict(c="InsertLocalMinimaIntoAEL", lean="InsertLocalMinima_joinLeft", frag=[("Call:CheckJoinLeft", 0)]),
    dict(c="InsertLocalMinimaIntoAEL", lean="InsertLocalMinima_joinRight", frag=[("Call:CheckJoinRight", 0)]),
    dict(c="ProcessIntersectList", lean="ProcessIntersectList_joinLeft", frag=[("Call:CheckJoinLeft", 0)]),
    dict(c="ProcessIntersectList", lean="ProcessIntersectList_joinRight", frag=[("Call:CheckJoinRight", 0)]),
    dict(c="DoHorizontal", lean="DoHorizontal_joinLeft", frag=[("Call:CheckJoinLeft", 0)]),
    dict(c="DoHorizontal", lean="DoHorizontal_joinRight", frag=[("Call:CheckJoinRight", 0)]),
    # --- ring surgery: which end, the duplicate tests, which record survives (pointer assignments are logged)
    dict(c="AddOutPt", lean="AddOutPt", skel=True),
    dict(c="JoinOutrecPaths", lean="JoinOutrecPaths", skel=True),
    dict(c="DuplicateOp", lean="DuplicateOp", skel=True),
    # --- UpdateHorzSegment: the four walk conditions, the `!hs.left_op->horz` conjunct, the final marking
    dict(c="UpdateHorzSegment", lean="UpdateHorzSegment_condP1", frag=[("WhileStmt", 0), "cond"]),
    dict(c="UpdateHorzSegment", lean="UpdateHorzSegment_condN1", frag=[("WhileStmt", 1), "cond"]),
    dict(c="UpdateHorzSegment", lean="UpdateHorzSegment_condP2", frag=[("WhileStmt", 2), "cond"]),
    dict(c="UpdateHorzSegment", lean="UpdateHorzSegment_condN2", frag=[("WhileStmt", 3), "cond"]),
    dict(c="UpdateHorzSegment", lean="UpdateHorzSegment_unmarked", frag=[("VarDecl", 8), "init", "rhs"]),
    dict(c="UpdateHorzSegment", lean="UpdateHorzSegment_mark", frag=[("IfStmt", 1)]),
    # --- TrimHorz: the second `break` test (is the vertex just reached a local maximum) and the tail
    dict(c="TrimHorz", lean="TrimHorz_isMax", frag=[("IfStmt", 1), "cond"]),
    dict(c="TrimHorz", lean="TrimHorz_tail", frag=[("IfStmt", 2)]),
]
# functions of unit Core that unit Engine calls with Point64 arguments
ENGINE_EXTERNS = ("CrossProductSign", "IsCollinear")

RECT_TU = '''#include "clipper.rectclip.cpp"
'''
RECT_SPECS = [
    dict(c="GetLocation", lean="GetLocation"),
    dict(c="GetAdjacentLocation", lean="GetAdjacentLocation"),
    dict(c="HeadingClockwise", lean="HeadingClockwise"),
    dict(c="AreOpposites", lean="AreOpposites"),
    dict(c="GetEdgesForPt", lean="GetEdgesForPt"),
    dict(c="IsHeadingClockwise", lean="IsHeadingClockwise"),
    dict(c="HasHorzOverlap", lean="HasHorzOverlap"),
    dict(c="HasVertOverlap", lean="HasVertOverlap"),
    dict(c="IsHorizontal", lean="IsHorizontalPts"),      # (unit Engine has its own IsHorizontal(const Active&))
    dict(c="AddCorner", lean="AddCorner1", types="(Clipper2Lib::Location, Clipper2Lib::Location)", skel=True),
    dict(c="AddCorner", lean="AddCorner2", types="(Clipper2Lib::Location &, bool)", skel=True),
    dict(c="StartLocsAreClockwise", lean="StartLocsAreClockwise_step", frag=[("ForStmt", 0), "body"]),
    dict(c="GetNextLocation", lean="GetNextLocation", skel=True),
    # --- with double arithmetic kept opaque: `CrossProduct` / `GetSegmentIntersectPt` are function parameters, doubles an abstract
    # ordered type `D` (only compared with each other and with 0)
    dict(c="IsClockwise", lean="IsClockwise", dbl=True, opaque=("CrossProduct",)),
    dict(c="GetSegmentIntersection", lean="GetSegmentIntersection", dbl=True, opaque=("CrossProduct", "GetSegmentIntersectPt")),
]

OFFSET_TU = '''#include "clipper.offset.cpp"
'''
OFFSET_SPECS = [
    dict(c="IsClosedPath", lean="IsClosedPath"),
    dict(c="Group", lean="Group_isJoined", frag=[("VarDecl", 0), "init"], cname="ClipperOffset::Group::Group"),
    dict(c="GetLowestClosedPathIdx", lean="GetLowestClosedPathIdx_skip", frag=[("IfStmt", 0), "cond"]),
]

PORTABLE_COND = "#if (defined(__clang__) || defined(__GNUC__)) && UINTPTR_MAX >= UINT64_MAX"


def make_portable_include(dst_dir):
    """Copy of clipper.core.h in which the compiler-specific branches are switched off, so that the
    portable 64x64 code (never compiled on this platform) can be parsed, translated and executed."""
    src = open(os.path.join(INC, "clipper2/clipper.core.h")).read()
    cnt = src.count(PORTABLE_COND)
    if cnt < 2:
        raise TranslationError("portable-branch condition not found twice in clipper.core.h (found %d)" % cnt)
    src = src.replace(PORTABLE_COND, "#if 0 /* cpp2lean: portable branch selected */")
    os.makedirs(os.path.join(dst_dir, "clipper2"), exist_ok=True)
    with open(os.path.join(dst_dir, "clipper2/clipper.core.h"), "w") as f:
        f.write(src)
    for h in ("clipper.version.h",):
        with open(os.path.join(dst_dir, "clipper2", h), "w") as f:
            f.write(open(os.path.join(INC, "clipper2", h)).read())
    return cnt


PORTABLE_TU = '''#include "clipper2/clipper.core.h"
namespace Clipper2Lib {
template int CrossProductSign<int64_t>(const Point<int64_t>&, const Point<int64_t>&, const Point<int64_t>&);
template bool IsCollinear<int64_t>(const Point<int64_t>&, const Point<int64_t>&, const Point<int64_t>&);
}
'''
PORTABLE_SPECS = [
    dict(c="TriSign", lean="TriSign"),
    dict(c="Multiply", lean="Multiply"),
    dict(c="ProductsAreEqual", lean="ProductsAreEqual"),
    dict(c="CrossProductSign", lean="CrossProductSign", types="Point<long>"),
    dict(c="IsCollinear", lean="IsCollinear", types="Point<long>"),
]


def write_if_changed(path, text):
    old = None
    if os.path.exists(path):
        old = open(path).read()
    if old != text:
        os.makedirs(os.path.dirname(path), exist_ok=True)
        with open(path, "w") as f:
            f.write(text)
        return True
    return False


def generate(outdir):
    """Regenerate all generated Lean files.  Returns (report dict).  On a translation error the
    affected file is replaced by one that fails to compile with the message, so that the proof
    obligations depending on it are visibly broken."""
    report = {"files": {}, "errors": [], "contained_errors": CONTAINED_ERRORS}
    del CONTAINED_ERRORS[:]
    units = [
        ("Core", CORE_TU, CORE_SPECS, ("CLIPPER2_MAX_DEC_PRECISION", "precision_error_i"), None, ()),
        ("Engine", ENGINE_TU, ENGINE_SPECS, (), None, ("GetPolyType",)),
        ("RectClip", RECT_TU, RECT_SPECS, (), None, ()),
        ("Offset", OFFSET_TU, OFFSET_SPECS, (), None, ()),
    ]
    with tempfile.TemporaryDirectory(prefix="cpp2lean_port") as pd:
        try:
            make_portable_include(pd)
            units.append(("Portable", PORTABLE_TU, PORTABLE_SPECS, (), pd, ()))
        except TranslationError as e:
            units.append(("Portable", None, str(e), (), None, ()))
        core_sigs, core_decls, core_parts = {}, {}, {}
        for name, tu, specs, consts, extra, inl in units:
            path = os.path.join(outdir, name + ".lean")
            ns = "Clipper.Gen" if name != "Portable" else "Clipper.Gen.Portable"
            try:
                if tu is None:
                    raise TranslationError(specs)
                externs = None
                if name == "Engine":
                    # unit Engine refers to the Core definitions by their qualified names (and imports that file)
                    externs = {c: ("Clipper.Gen." + c, core_sigs[c], core_decls[c], core_parts[c]) for c in ENGINE_EXTERNS if c in core_sigs}
                body, sigs, decls, uparts = translate_unit(tu, specs, consts, extra, inl, externs=externs, want_decls=True)
                if name == "Core":
                    core_sigs, core_decls, core_parts = sigs, decls, uparts
                text = PRELUDE.replace("namespace Clipper.Gen", "namespace " + ns) + "\n" + body + "\nend " + ns + "\n"
                if name == "Engine":
                    text = text.replace("import ClipperVerif.Spec.Enums", "import ClipperVerif.Spec.Enums\nimport ClipperVerif.Generated.Core", 1)
                report["files"][name] = {"functions": list(sigs.keys()), "sha256": hashlib.sha256(text.encode()).hexdigest()}
            except TranslationError as e:
                msg = str(e).replace('"', "'")
                text = PRELUDE + '\n#eval (throwError "cpp2lean: %s" : Lean.Elab.Command.CommandElabM Unit)\nend Clipper.Gen\n' % msg
                text = text.replace("import ClipperVerif.Spec.Enums", "import ClipperVerif.Spec.Enums\nimport Lean")
                report["errors"].append({"unit": name, "error": str(e)})
            report["files"].setdefault(name, {})["changed"] = write_if_changed(path, text)
    return report


if __name__ == "__main__":
    out = sys.argv[1] if len(sys.argv) > 1 else os.path.join(os.path.dirname(os.path.abspath(__file__)), "../lean/ClipperVerif/Generated")
    rep = generate(out)
    print(json.dumps(rep, indent=1))
    sys.exit(1 if rep["errors"] else 0)
