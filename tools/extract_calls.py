#!/usr/bin/env python3
"""extract_calls: Tie T for C17 (and the export clause of C11).

From clang-14's JSON AST of /repo's *current* clipper.export.h this emits
`ClipperVerif/Generated/ExportCalls.lean`: for every exported function
  * its parameters (name, type, input/output),
  * its validation prefix (leading `if (cond) return <constant>;` statements) as guards over atoms,
  * every constructor / method / free-function call of a Clipper2 API in its body with, per argument slot,
    the *callee's parameter name* (resolved from the callee's declaration in the same AST) and a normalised
    rendering + classification of the argument expression in terms of the exported function's parameters
    (locals are inlined through their initialisers / assignments),
  * the assignments to its output parameters and its returned expression.
Nothing is asserted here; the judgement (`forwards`, `export_rejects`) is made by Lean theorems over the emitted value.
Anything the extractor does not understand becomes kind `other` / atom `unknown`, which the theorems reject.
"""
import json, os, subprocess, sys, hashlib, tempfile

EXPORTS = ["BooleanOp64", "BooleanOp_PolyTree64", "BooleanOpD", "BooleanOp_PolyTreeD",
           "InflatePaths64", "InflatePathsD", "InflatePath64", "InflatePathD",
           "RectClip64", "RectClipD", "RectClipLines64", "RectClipLinesD",
           "MinkowskiSum64", "MinkowskiDiff64"]
API_CLASSES = ["ClipperOffset", "Clipper64", "ClipperD", "RectClip64", "RectClipLines64"]
API_FUNCS = ["MinkowskiSum", "MinkowskiDiff", "InflatePaths", "BooleanOp", "RectClip", "RectClipLines", "Union"]
# marshalling helpers: first argument is the thing converted, further arguments may only be `scale`
CONV_FUNCS = ["ConvertCPathsToPathsT", "ConvertCPathToPathT", "ConvertCPathsDToPaths64",
              "ConvertCPathDToPath64WithScale", "CRectToRect", "ScaleRect"]
SCALE_RENDER = "pow(10,precision)"
TRANSPARENT = ("ImplicitCastExpr", "ParenExpr", "ExprWithCleanups", "MaterializeTemporaryExpr",
               "CXXBindTemporaryExpr", "ConstantExpr")
CASTS = ("CXXFunctionalCastExpr", "CStyleCastExpr", "CXXStaticCastExpr")

TU = '#include "clipper2/clipper.h"\n#include "clipper2/clipper.export.h"\n'


class ExtractError(Exception):
    pass


def clang_ast(repo, defines=()):
    inc = os.path.join(repo, "CPP/Clipper2Lib/include")
    with tempfile.TemporaryDirectory(prefix="extract_calls") as td:
        tu = os.path.join(td, "tu.cpp")
        with open(tu, "w") as f:
            f.write(TU)
        cmd = ["clang++-14", "-std=gnu++17", "-fsyntax-only", "-w", "-I", inc]
        for d in defines:
            cmd.append("-D" + d)
        # one process, so declaration ids are consistent between call sites and declarations
        cmd += ["-Xclang", "-ast-dump=json", "-Xclang", "-ast-dump-filter=Clipper2Lib", tu]
        r = subprocess.run(cmd, capture_output=True, text=True)
        if r.returncode != 0:
            raise ExtractError("clang failed: " + r.stderr[:2000])
        s = r.stdout
    dec = json.JSONDecoder()
    i, n, objs = 0, len(s), []
    while i < n:
        while i < n and s[i].isspace():
            i += 1
        if i >= n:
            break
        o, i = dec.raw_decode(s, i)
        objs.append(o)
    return objs


def inner(n):
    return [c for c in n.get("inner", []) if isinstance(c, dict) and c]


def qt(n):
    return n.get("type", {}).get("qualType", "")


class Index:
    """declarations by id; constructors by class; enumerators by enum"""

    def __init__(self, objs):
        self.by_id = {}
        self.ctors = {}      # class name -> [CXXConstructorDecl]
        self.owner = {}      # decl id -> class name
        self.enums = {}      # enum name -> [enumerator names]
        self.exports = {}    # name -> FunctionDecl with body
        for o in objs:
            self.walk(o, None)

    def walk(self, n, cls):
        k = n.get("kind")
        if k in ("FunctionDecl", "CXXMethodDecl", "CXXConstructorDecl"):
            i = n.get("id")
            # prefer the node that carries parameter names
            if i not in self.by_id or len(inner(n)) > len(inner(self.by_id[i])):
                self.by_id[i] = n
            if cls:
                self.owner[i] = cls
            if k == "CXXConstructorDecl" and cls:
                self.ctors.setdefault(cls, [])
                if all(c.get("id") != i for c in self.ctors[cls]):
                    self.ctors[cls].append(n)
            if k == "FunctionDecl" and n.get("name") in EXPORTS and any(c.get("kind") == "CompoundStmt" for c in inner(n)):
                self.exports[n["name"]] = n
        if k == "EnumDecl" and n.get("name"):
            names = [c["name"] for c in inner(n) if c.get("kind") == "EnumConstantDecl"]
            if names:
                self.enums[n["name"]] = names
        if k in ("CXXRecordDecl", "ClassTemplateSpecializationDecl") and n.get("name"):
            cls = n["name"]
        for c in inner(n):
            self.walk(c, cls)

    def params_of(self, decl):
        return [c for c in inner(decl) if c.get("kind") == "ParmVarDecl"]


def strip(n):
    while n.get("kind") in TRANSPARENT and len(inner(n)) >= 1:
        n = inner(n)[0]
    return n


def class_of_type(t):
    t = t.replace("const ", "").replace("class ", "").replace("&", "").replace("*", "").strip()
    return t.split("::")[-1]


class FnExtract:
    def __init__(self, idx, decl):
        self.idx = idx
        self.decl = decl
        self.name = decl["name"]
        self.params = idx.params_of(decl)
        self.param_names = [p.get("name", "") for p in self.params]
        self.env = {}          # local name -> initialiser node (None: no initialiser)
        self.calls = []
        self.results = []
        self.guards = []

    # ---- expressions -------------------------------------------------------------------------
    def callee_name(self, call):
        c = strip(inner(call)[0])
        if c.get("kind") == "DeclRefExpr":
            return c["referencedDecl"].get("name", "?"), c["referencedDecl"].get("id")
        if c.get("kind") == "MemberExpr":
            return c.get("name", "?"), c.get("referencedMemberDecl")
        if c.get("kind") == "UnresolvedLookupExpr":
            return c.get("name", "?"), None
        return "?" + c.get("kind", ""), None

    def is_copy(self, n):
        """CXXConstructExpr that copies / moves an object of the same class"""
        args = inner(n)
        if len(args) != 1:
            return False
        a = strip(args[0])
        return a.get("kind") != "CXXDefaultArgExpr" and class_of_type(qt(a)) == class_of_type(qt(n))

    def render(self, n, deps):
        n = strip(n)
        k = n.get("kind")
        if k == "DeclRefExpr":
            rd = n["referencedDecl"]
            if rd["kind"] == "ParmVarDecl":
                deps.add(rd["name"])
                return rd["name"]
            if rd["kind"] == "VarDecl":
                nm = rd["name"]
                if nm in self.env and self.env[nm] is not None:
                    return self.render(self.env[nm], deps)
                return "local:" + nm
            if rd["kind"] == "EnumConstantDecl":
                return class_of_type(qt(n)) + "::" + rd["name"]
            return rd.get("name", "?")
        if k in CASTS:
            return "%s(%s)" % (class_of_type(qt(n)), self.render(inner(n)[0], deps))
        if k == "BinaryOperator":
            a, b = inner(n)
            return "(%s%s%s)" % (self.render(a, deps), n["opcode"], self.render(b, deps))
        if k == "UnaryOperator":
            return "%s%s" % (n["opcode"], self.render(inner(n)[0], deps))
        if k in ("IntegerLiteral", "FloatingLiteral"):
            return str(n["value"])
        if k == "CXXBoolLiteralExpr":
            return "true" if n["value"] else "false"
        if k == "CXXNullPtrLiteralExpr":
            return "nullptr"
        if k == "CXXDefaultArgExpr":
            return "default"
        if k == "CallExpr":
            nm, _ = self.callee_name(n)
            return "%s(%s)" % (nm, ",".join(self.render(a, deps) for a in inner(n)[1:]))
        if k == "CXXMemberCallExpr":
            me = strip(inner(n)[0])
            obj = self.render(inner(me)[0], deps) if inner(me) else "?"
            return "%s.%s(%s)" % (obj, me.get("name", "?"), ",".join(self.render(a, deps) for a in inner(n)[1:]))
        if k == "CXXConstructExpr":
            args = inner(n)
            if self.is_copy(n):     # copy / move construction
                return self.render(args[0], deps)
            return "%s(%s)" % (class_of_type(qt(n)), ",".join(self.render(a, deps) for a in args))
        if k == "CXXOperatorCallExpr":
            return "op(%s)" % ",".join(self.render(a, deps) for a in inner(n)[1:])
        return "?" + str(k)

    def classify(self, n):
        """-> (kind, param)"""
        n = strip(n)
        k = n.get("kind")
        if k == "CXXDefaultArgExpr":
            return "dflt", ""
        if k in ("IntegerLiteral", "FloatingLiteral", "CXXBoolLiteralExpr"):
            return "const", ""
        if k == "DeclRefExpr":
            rd = n["referencedDecl"]
            if rd["kind"] == "ParmVarDecl":
                return "direct", rd["name"]
            if rd["kind"] == "VarDecl":
                nm = rd["name"]
                if nm in self.env:
                    if self.env[nm] is None:
                        return "output", ""
                    return self.classify(self.env[nm])
            return "other", ""
        if k in CASTS:
            # value-preserving: integer -> enumeration of the same numbering / integer types
            return self.classify(inner(n)[0])
        if k == "CXXConstructExpr" and self.is_copy(n):
            return self.classify(inner(n)[0])
        if k == "BinaryOperator" and n.get("opcode") == "*":
            a, b = inner(n)
            for x, y in ((a, b), (b, a)):
                kx, px = self.classify(x)
                if kx == "direct" and self.render(y, set()) == SCALE_RENDER:
                    return "scaled", px
            return "other", ""
        if k == "CallExpr":
            nm, _ = self.callee_name(n)
            args = inner(n)[1:]
            if nm in CONV_FUNCS and args:
                k0, p0 = self.classify(args[0])
                if k0 in ("direct", "conv") and all(self.render(a, set()) == SCALE_RENDER for a in args[1:]):
                    return "conv", p0
            return "other", ""
        return "other", ""

    def arg(self, slot, n):
        deps = set()
        expr = self.render(n, deps)
        kind, param = self.classify(n)
        return dict(slot=slot, expr=expr, kind=kind, param=param, deps=sorted(deps))

    # ---- calls -----------------------------------------------------------------------------
    def slots(self, decl, nargs, what):
        if decl is None:
            raise ExtractError("%s: declaration of callee %s not found in the AST" % (self.name, what))
        ps = self.idx.params_of(decl)
        names = [p.get("name") or ("arg%d" % i) for i, p in enumerate(ps)]
        if len(names) < nargs:
            raise ExtractError("%s: callee %s has %d parameters but %d arguments" % (self.name, what, len(names), nargs))
        return names

    def record_ctor(self, n):
        cls = class_of_type(qt(n))
        if cls not in API_CLASSES:
            return
        want = n.get("ctorType", {}).get("qualType")
        cands = [c for c in self.idx.ctors.get(cls, []) if qt(c) == want]
        if len(cands) != 1:
            raise ExtractError("%s: constructor %s %s not resolved (%d candidates)" % (self.name, cls, want, len(cands)))
        args = inner(n)
        names = self.slots(cands[0], len(args), cls + ".ctor")
        self.calls.append(dict(callee=cls + ".ctor", args=[self.arg(names[i], a) for i, a in enumerate(args)]))

    def record_member_call(self, n):
        me = strip(inner(n)[0])
        if me.get("kind") != "MemberExpr" or not inner(me):
            return
        cls = class_of_type(qt(strip(inner(me)[0])))
        if cls not in API_CLASSES:
            return
        decl = self.idx.by_id.get(me.get("referencedMemberDecl"))
        args = inner(n)[1:]
        what = "%s.%s" % (cls, me.get("name"))
        names = self.slots(decl, len(args), what)
        self.calls.append(dict(callee=what, args=[self.arg(names[i], a) for i, a in enumerate(args)]))

    def record_free_call(self, n):
        nm, did = self.callee_name(n)
        if nm not in API_FUNCS:
            return
        args = inner(n)[1:]
        names = self.slots(self.idx.by_id.get(did), len(args), nm)
        self.calls.append(dict(callee=nm, args=[self.arg(names[i], a) for i, a in enumerate(args)]))

    def scan_expr(self, n):
        """record API calls inside an expression, innermost first, left to right"""
        for c in inner(n):
            self.scan_expr(c)
        k = n.get("kind")
        if k == "CXXConstructExpr":
            self.record_ctor(n)
        elif k == "CXXMemberCallExpr":
            self.record_member_call(n)
        elif k == "CallExpr":
            self.record_free_call(n)

    # ---- statements ------------------------------------------------------------------------
    def lhs_target(self, n):
        n = strip(n)
        if n.get("kind") == "DeclRefExpr":
            rd = n["referencedDecl"]
            return rd["kind"], rd["name"]
        return None, None

    def stmt(self, n):
        k = n.get("kind")
        if k == "CompoundStmt":
            for c in inner(n):
                self.stmt(c)
        elif k == "DeclStmt":
            for v in inner(n):
                if v.get("kind") != "VarDecl":
                    continue
                init = [c for c in inner(v) if c.get("kind") not in ("ParmVarDecl",)]
                init = init[0] if init else None
                if init is not None:
                    self.scan_expr(init)
                    s = strip(init)
                    if s.get("kind") == "CXXConstructExpr" and not self.is_copy(s):
                        init = None    # default / multi-argument construction: an object, not a value derived by copy
                self.env[v["name"]] = init
        elif k == "IfStmt":
            parts = inner(n)
            self.scan_expr(parts[0])
            for c in parts[1:]:
                self.stmt(c)
        elif k == "ReturnStmt":
            if inner(n):
                self.scan_expr(inner(n)[0])
                self.results.append(("return", self.render(inner(n)[0], set())))
        elif k in ("BinaryOperator", "CXXOperatorCallExpr", "ExprWithCleanups") or k in TRANSPARENT:
            s = strip(n)
            sk = s.get("kind")
            if sk == "BinaryOperator" and s.get("opcode") == "=":
                lhs, rhs = inner(s)
                self.scan_expr(rhs)
                self.assign(lhs, rhs)
            elif sk == "CXXOperatorCallExpr" and len(inner(s)) == 3 and self.callee_name(s)[0] == "operator=":
                _, lhs, rhs = inner(s)
                self.scan_expr(rhs)
                self.assign(lhs, rhs)
            else:
                self.scan_expr(s)
        elif k == "NullStmt":
            pass
        else:
            self.scan_expr(n)

    def assign(self, lhs, rhs):
        kind, nm = self.lhs_target(lhs)
        if kind == "VarDecl":
            self.env[nm] = rhs
        elif kind == "ParmVarDecl":
            self.results.append((nm, self.render(rhs, set())))

    # ---- validation prefix -----------------------------------------------------------------
    def const_value(self, n):
        n = strip(n)
        k = n.get("kind")
        if k == "IntegerLiteral":
            return int(n["value"])
        if k == "UnaryOperator" and n.get("opcode") == "-":
            v = self.const_value(inner(n)[0])
            return None if v is None else -v
        if k in CASTS:
            return self.const_value(inner(n)[0])
        if k == "DeclRefExpr" and n["referencedDecl"]["kind"] == "EnumConstantDecl":
            en = class_of_type(qt(n))
            names = self.idx.enums.get(en)
            if names and n["referencedDecl"]["name"] in names:
                return names.index(n["referencedDecl"]["name"])
        return None

    def param_ref(self, n):
        n = strip(n)
        if n.get("kind") == "DeclRefExpr" and n["referencedDecl"]["kind"] == "ParmVarDecl":
            return n["referencedDecl"]["name"]
        return None

    def atoms(self, n):
        n = strip(n)
        k = n.get("kind")
        if k == "BinaryOperator" and n.get("opcode") == "||":
            a, b = inner(n)
            return self.atoms(a) + self.atoms(b)
        if k == "BinaryOperator" and n.get("opcode") in ("<", ">"):
            a, b = inner(n)
            p, v = self.param_ref(a), self.const_value(b)
            if p is not None and v is not None:
                return [("gt" if n["opcode"] == ">" else "lt", p, v)]
        if k == "UnaryOperator" and n.get("opcode") == "!":
            p = self.param_ref(inner(n)[0])
            if p is not None:
                return [("isNull", p)]
        if k == "CallExpr" and self.callee_name(n)[0] == "CRectIsEmpty":
            p = self.param_ref(inner(n)[1])
            if p is not None:
                return [("rectEmpty", p)]
        return [("unknown", self.render(n, set()))]

    def guard_of(self, n):
        """`if (cond) return <constant>;` without else -> (atoms, ret) else None"""
        if n.get("kind") != "IfStmt":
            return None
        parts = inner(n)
        if len(parts) != 2:
            return None
        body = parts[1]
        if body.get("kind") == "CompoundStmt" and len(inner(body)) == 1:
            body = inner(body)[0]
        if body.get("kind") != "ReturnStmt" or not inner(body):
            return None
        rv = strip(inner(body)[0])
        v = self.const_value(rv)
        if v is not None:
            ret = str(v)
        elif rv.get("kind") == "CXXNullPtrLiteralExpr":
            ret = "nullptr"
        else:
            return None
        return self.atoms(parts[0]), ret

    def run(self):
        body = [c for c in inner(self.decl) if c.get("kind") == "CompoundStmt"][0]
        stmts = inner(body)
        i = 0
        while i < len(stmts):
            g = self.guard_of(stmts[i])
            if g is None:
                break
            self.guards.append(g)
            i += 1
        for s in stmts[i:]:
            self.stmt(s)
        return self


# ------------------------------------------------------------------------------------------ Lean output

def lstr(s):
    return '"' + s.replace("\\", "\\\\").replace('"', '\\"') + '"'


def role_of(ty):
    t = ty.strip()
    return "output" if t.endswith("&") and not t.startswith("const ") else "input"


def lean_atom(a):
    if a[0] in ("gt", "lt"):
        v = a[2]
        return ".%s %s (%s)" % (a[0], lstr(a[1]), v)
    return ".%s %s" % (a[0], lstr(a[1]))


def lean_fn(fx):
    L = []
    L.append("  { name := %s," % lstr(fx.name))
    ps = ["⟨%s, %s, .%s⟩" % (lstr(p.get("name", "")), lstr(qt(p).replace("Clipper2Lib::", "")), role_of(qt(p))) for p in fx.params]
    L.append("    params := [%s]," % ",\n      ".join(ps))
    gs = ["⟨[%s], %s⟩" % (", ".join(lean_atom(a) for a in g[0]), lstr(g[1])) for g in fx.guards]
    L.append("    validation := [%s]," % ",\n      ".join(gs))
    cs = []
    for c in fx.calls:
        as_ = ["⟨%s, %s, .%s, %s, [%s]⟩" % (lstr(a["slot"]), lstr(a["expr"]), a["kind"], lstr(a["param"]),
                                           ", ".join(lstr(d) for d in a["deps"])) for a in c["args"]]
        cs.append("⟨%s, [%s]⟩" % (lstr(c["callee"]), ",\n         ".join(as_)))
    L.append("    calls := [\n      %s]," % ",\n      ".join(cs))
    rs = ["(%s, %s)" % (lstr(a), lstr(b)) for a, b in fx.results]
    L.append("    results := [%s] }" % ",\n      ".join(rs))
    return "\n".join(L)


HEADER = """/- GENERATED by tools/extract_calls.py from /repo's clipper.export.h on every ./check run — do not edit.
   Vocabulary: ClipperVerif/Model/ExportCalls.lean. -/
import ClipperVerif.Model.ExportCalls
namespace Clipper.Gen.Export
open Clipper.Model.ExportCalls

"""


def def_name(fn):
    return "fn_" + fn


def build_text(repo, defines=()):
    objs = clang_ast(repo, defines)
    idx = Index(objs)
    missing = [e for e in EXPORTS if e not in idx.exports]
    if missing:
        raise ExtractError("exported functions without a definition in the AST: %s" % ", ".join(missing))
    out = [HEADER]
    for e in EXPORTS:
        fx = FnExtract(idx, idx.exports[e]).run()
        # the z-callback registration of USINGZ builds carries no exported parameter
        fx.calls = [c for c in fx.calls if not c["callee"].endswith(".SetZCallback")]
        out.append("def %s : ExportFn :=\n%s\n" % (def_name(e), lean_fn(fx)))
    out.append("/-- every exported function, in the order of the property statement -/")
    out.append("def exportTable : List ExportFn := [%s]\n" % ", ".join(def_name(e) for e in EXPORTS))
    out.append("end Clipper.Gen.Export\n")
    return "\n".join(out)


def write_if_changed(path, text):
    old = open(path).read() if os.path.exists(path) else None
    if old != text:
        os.makedirs(os.path.dirname(path), exist_ok=True)
        with open(path, "w") as f:
            f.write(text)
        return True
    return False


def generate(repo, outdir):
    """Called by ./check on every run (propconf.EXTRA_GENERATORS).  On failure the generated file is replaced by
    one that does not compile, so every theorem depending on it is visibly broken."""
    report = {"files": {}, "errors": []}
    path = os.path.join(outdir, "ExportCalls.lean")
    try:
        text = build_text(repo)
        # "with and without USINGZ": the USINGZ build must forward identically (apart from SetZCallback)
        if build_text(repo, ("USINGZ",)) != text:
            raise ExtractError("the exported functions' call tables differ between the plain and the USINGZ build")
        report["files"]["ExportCalls"] = {"functions": list(EXPORTS), "sha256": hashlib.sha256(text.encode()).hexdigest()}
    except Exception as e:  # noqa: BLE001
        msg = str(e).replace('"', "'").replace("\n", " ")[:1500]
        text = (HEADER.replace("import ClipperVerif.Model.ExportCalls", "import ClipperVerif.Model.ExportCalls\nimport Lean")
                + '#eval (throwError "extract_calls: %s" : Lean.Elab.Command.CommandElabM Unit)\nend Clipper.Gen.Export\n' % msg)
        report["errors"].append({"unit": "ExportCalls", "error": str(e)})
    report["files"].setdefault("ExportCalls", {})["changed"] = write_if_changed(path, text)
    return report


if __name__ == "__main__":
    repo = os.environ.get("VERIF_REPO", "/repo")
    out = sys.argv[1] if len(sys.argv) > 1 else os.path.join(os.path.dirname(os.path.abspath(__file__)), "../lean/ClipperVerif/Generated")
    rep = generate(repo, out)
    print(json.dumps(rep, indent=1))
    sys.exit(1 if rep["errors"] else 0)
