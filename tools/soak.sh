#!/bin/bash
# usage: tools/soak.sh <tier> <seed>...   — runs every claimed check on the clean tree for each seed, prints one line each
cd "$(dirname "$0")/.."
tier=$1; shift
./check --setup >/dev/null 2>&1
props=$(python3 -c "
import sys; sys.path.insert(0,'tools'); import propconf
print(' '.join(sorted(p for p in propconf.PROPS if propconf.PROPS[p].get('claimed'))))")
for seed in "$@"; do
  for p in $props; do
    out=$(VERIF_SEED=$seed ./check $p --tier $tier 2>/dev/null | grep -E "^(VIOLATION|$p:)")
    echo "seed=$seed tier=$tier $out" | tr '\n' ' '; echo
  done
done
