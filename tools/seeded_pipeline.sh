#!/bin/bash
# usage: tools/seeded_pipeline.sh <tag> <prop> [prop2]  — for a sub-agent worktree /tmp/mut_<tag> with OUT/m1,m2: copy into seeded/<tag>-m<i>, validate (output in /tmp/r4_val_*.out; merge it into meta.json validated_by_main_session), run the checks, print one line each
cd /verif
t=$1; shift
for m in m1 m2; do
  [ -f /tmp/mut_$t/OUT/$m/patch.diff ] || continue
  d=seeded/$t-$m
  if [ ! -d $d ]; then mkdir -p $d; cp /tmp/mut_$t/OUT/$m/patch.diff /tmp/mut_$t/OUT/$m/meta.json $d/; cp /tmp/mut_$t/OUT/$m/demo.* $d/ 2>/dev/null; 
    timeout 1500 python3 tools/seeded_run.py validate $d > /tmp/r4_val_$t-$m.out 2>&1
  fi
  python3 - "$d" <<'PY'
import json,sys
m=json.load(open(sys.argv[1]+'/meta.json')); v=m.get('validated_by_main_session',{})
print("VALID",sys.argv[1],v.get('tests_pass_with_patch'),v.get('demo_exit_without_patch'),v.get('demo_exit_with_patch'))
PY
  SEEDED_NOTE="round 4" timeout 2400 python3 tools/seeded_run.py check $d "$@" > /tmp/r4_chk_$t-$m.out 2>&1
  python3 - "$d" "$@" <<'PY'
import json,sys
d=json.load(open(sys.argv[1]+'/checks.json'))
for p in sys.argv[2:]:
    r=d.get(p,[{}])[-1]; det=r.get('detail') or {}
    print("CHECK",sys.argv[1],p,r.get('exit'),det.get('kind'),det.get('label'),str(det.get('got'))[:160],[b[1][:60] for b in det.get('broken',[])][:2])
PY
done
