#!/bin/sh
# Rebuild /repo with the verification guard OFF (the default) and run the repository's own test suite.
set -e
cmake -G Ninja -S /repo/CPP -B /repo/_build >/dev/null
cmake --build /repo/_build -j16 >/dev/null
ctest --test-dir /repo/_build -j8 --timeout 900
