#!/usr/bin/env python3
"""Validate a seeded change and run checks against it.

  tools/seeded_run.py validate <dir>            confirm: patch applies, library+tests build, the repo's test suite passes
                                                with it, the demonstration fails with it and passes without it
  tools/seeded_run.py check <dir> C01 [C13 …]   run ./check for the given properties against a scratch worktree of
                                                /repo with the patch applied (VERIF_REPO), print the verdicts

<dir> holds patch.diff, demo.cpp (exit 0 = property holds), meta.json.  The scratch worktree lives under /tmp and is
removed afterwards; /repo itself is never modified by this script.
"""
import sys, os, subprocess, json, shutil, tempfile, time

REPO = "/repo"
VERIF = os.path.dirname(os.path.dirname(os.path.abspath(__file__)))


def sh(cmd, **kw):
    return subprocess.run(cmd, shell=isinstance(cmd, str), capture_output=True, text=True, **kw)


def make_wt(tag):
    wt = "/tmp/seedwt_%s_%d" % (tag, os.getpid())
    sh(["git", "-C", REPO, "worktree", "remove", "--force", wt])
    r = sh(["git", "-C", REPO, "worktree", "add", "--detach", wt, "HEAD"])
    if r.returncode != 0:
        raise SystemExit("worktree: " + r.stderr)
    return wt


def drop_wt(wt):
    sh(["git", "-C", REPO, "worktree", "remove", "--force", wt])
    shutil.rmtree(wt, ignore_errors=True)


def build_demo(wt, demo, out):
    inc = os.path.join(wt, "CPP/Clipper2Lib/include")
    src = os.path.join(wt, "CPP/Clipper2Lib/src")
    cmd = "g++ -std=c++17 -O1 -w -pthread -I %s -I %s -I %s %s %s/*.cpp -o %s" % (inc, os.path.join(wt, "CPP/Utils"), src, demo, src, out)
    meta_flags = ""
    r = sh(cmd)
    return r.returncode == 0, r.stderr[-2000:]


def validate(d):
    tag = os.path.basename(os.path.normpath(d))
    res = {}
    wt = make_wt(tag)
    try:
        demo = os.path.join(d, "demo.cpp")
        demo_sh = os.path.join(d, "demo.sh")
        if os.path.exists(demo_sh):
            env = dict(os.environ); env["ROOT"] = wt
            r = subprocess.run(["sh", os.path.abspath(demo_sh)], capture_output=True, text=True, env=env, timeout=1200)
            res["demo_builds_clean"] = True
            res["demo_exit_without_patch"] = r.returncode
            r = sh(["git", "-C", wt, "apply", os.path.abspath(os.path.join(d, "patch.diff"))])
            res["patch_applies"] = r.returncode == 0
            r = sh("cd %s && cmake -G Ninja -S CPP -B _build -DUSE_EXTERNAL_GTEST=ON -DCMAKE_BUILD_TYPE=RelWithDebInfo >/dev/null && cmake --build _build -j16 2>&1 | tail -n 5 && ctest --test-dir _build -j8 --timeout 900 2>&1 | tail -n 4" % wt)
            res["tests_pass_with_patch"] = "100% tests passed" in r.stdout
            r = subprocess.run(["sh", os.path.abspath(demo_sh)], capture_output=True, text=True, env=env, timeout=1200)
            res["demo_exit_with_patch"] = r.returncode
            res["demo_output_with_patch"] = (r.stdout + r.stderr)[-600:]
            res["confirmed"] = bool(res["tests_pass_with_patch"] and res["demo_exit_without_patch"] == 0 and res["demo_exit_with_patch"] != 0)
            return res
        flags = ""
        mf = os.path.join(d, "meta.json")
        meta = json.load(open(mf)) if os.path.exists(mf) else {}
        ok, err = build_demo(wt, demo, wt + "/demo_clean")
        res["demo_builds_clean"] = ok
        if ok:
            r = sh([wt + "/demo_clean"], timeout=600)
            res["demo_exit_without_patch"] = r.returncode
        r = sh(["git", "-C", wt, "apply", os.path.abspath(os.path.join(d, "patch.diff"))])
        res["patch_applies"] = r.returncode == 0
        if r.returncode != 0:
            res["apply_error"] = r.stderr[-500:]
            return res
        r = sh("cd %s && cmake -G Ninja -S CPP -B _build -DUSE_EXTERNAL_GTEST=ON -DCMAKE_BUILD_TYPE=RelWithDebInfo >/dev/null && cmake --build _build -j16 2>&1 | tail -n 5" % wt)
        res["library_and_tests_build"] = r.returncode == 0 and "error" not in r.stdout.lower()
        r = sh("cd %s && ctest --test-dir _build -j8 --timeout 900 2>&1 | tail -n 4" % wt)
        res["ctest_tail"] = r.stdout.strip().split("\n")[-3:]
        res["tests_pass_with_patch"] = "100% tests passed" in r.stdout
        ok, err = build_demo(wt, demo, wt + "/demo_mut")
        res["demo_builds_mutated"] = ok
        if ok:
            try:
                r = sh([wt + "/demo_mut"], timeout=600)
                res["demo_exit_with_patch"] = r.returncode
                res["demo_output_with_patch"] = (r.stdout + r.stderr)[-600:]
            except subprocess.TimeoutExpired:
                res["demo_exit_with_patch"] = "timeout"
        res["confirmed"] = bool(res.get("tests_pass_with_patch") and res.get("demo_exit_without_patch") == 0
                                and res.get("demo_exit_with_patch") not in (0, None))
    finally:
        drop_wt(wt)
    return res


def check(d, props, tier="quick"):
    tag = os.path.basename(os.path.normpath(d))
    wt = make_wt(tag)
    out = {}
    try:
        r = sh(["git", "-C", wt, "apply", os.path.abspath(os.path.join(d, "patch.diff"))])
        if r.returncode != 0:
            raise SystemExit("patch does not apply: " + r.stderr)
        env = dict(os.environ)
        env["VERIF_REPO"] = wt
        for p in props:
            t0 = time.time()
            r = subprocess.run([os.path.join(VERIF, "check"), p, "--tier", tier], capture_output=True, text=True, env=env, cwd=VERIF)
            lines = [l for l in r.stdout.split("\n") if l.startswith("VIOLATION") or l.startswith("KNOWN-FINDING") or l.startswith(p + ":")]
            detail = None
            for l in lines:
                if l.startswith("VIOLATION") and "replay=" in l:
                    rp = l.split("replay=")[1].split()[0]
                    try:
                        rj = json.load(open(rp))
                        f = rj.get("failure") or {}
                        detail = {"kind": rj.get("kind"), "label": f.get("label"), "got": str(f.get("got") or f.get("descr") or "")[:300],
                                  "broken": [(b.get("what"), str(b.get("theorem") or b.get("unit") or "")[:120]) for b in rj.get("broken_obligations", [])][:4],
                                  "model_divergences": rj.get("model_divergences") if isinstance(rj.get("model_divergences"), int) else len(rj.get("model_divergences") or [])}
                    except Exception as e:  # noqa
                        detail = {"error": repr(e)}
            out[p] = {"exit": r.returncode, "lines": [l for l in lines if not l.startswith("KNOWN-FINDING")], "detail": detail, "wall_s": round(time.time() - t0, 1)}
    finally:
        drop_wt(wt)
    return out


def record(d, res, tier, run):
    """append the verdicts of one `check` run to <dir>/checks.json (the run history of that seeded change)"""
    f = os.path.join(d, "checks.json")
    hist = json.load(open(f)) if os.path.exists(f) else {}
    for p, r in res.items():
        hist.setdefault(p, []).append({"tier": tier, "exit": r["exit"], "verdict": [l for l in r["lines"] if l.startswith("VIOLATION")],
                                       "detail": r["detail"], "run": run})
    json.dump(hist, open(f, "w"), indent=1)


if __name__ == "__main__":
    if len(sys.argv) < 3:
        print(__doc__)
        sys.exit(2)
    if sys.argv[1] == "validate":
        print(json.dumps(validate(sys.argv[2]), indent=1))
    elif sys.argv[1] == "check":
        tier = os.environ.get("VERIF_TIER", "quick")
        res = check(sys.argv[2], sys.argv[3:], tier)
        print(json.dumps(res, indent=1))
        record(sys.argv[2], res, tier, os.environ.get("SEEDED_NOTE", time.strftime("%Y-%m-%dT%H:%M:%S")))
