#!/usr/bin/env python3
"""Regenerate seeded/RESULTS.md from seeded/<id>/{meta.json,checks.json} and seeded/notes.json.

checks.json is the run history written by tools/seeded_run.py check (one entry per property and run); the table shows
the latest run of each property and, in the notes column, what seeded/notes.json says about first misses.
"""
import json, glob, os, re

VERIF = os.path.dirname(os.path.dirname(os.path.abspath(__file__)))
SD = os.path.join(VERIF, "seeded")


def main():
    notes = json.load(open(os.path.join(SD, "notes.json")))
    rows, kept, caught_quick, caught_any, rejected, missed = [], 0, 0, 0, [], []
    first_missed = []
    for d in sorted(glob.glob(os.path.join(SD, "C*-m*"))):
        sid = os.path.basename(d)
        meta = json.load(open(os.path.join(d, "meta.json")))
        cf = os.path.join(d, "checks.json")
        hist = json.load(open(cf)) if os.path.exists(cf) else {}
        note = notes.get(sid, "")
        is_rejected = note.startswith("REJECTED")
        caught, silent = [], []
        own = re.match(r"(C\d+)", sid).group(1)
        own_first = None
        for p, runs in sorted(hist.items()):
            last = runs[-1]
            if p == own and runs:
                own_first = runs[0]["exit"]
            if last["exit"] != 0:
                det = last.get("detail") or {}
                what = det.get("label") or det.get("kind") or "violation"
                br = det.get("broken") or []
                if br:
                    what += " + broken proof " + str(br[0][1]).split(".")[-1]
                if (last.get("verdict") or [""])[0].endswith("no-failing-input-found"):
                    what += " (no-failing-input-found)"
                caught.append("%s (%s: %s)" % (p, last["tier"], what))
            else:
                silent.append("%s (%s)" % (p, last["tier"]))
        if is_rejected:
            rejected.append(sid)
        else:
            kept += 1
            if any("(quick" in c for c in caught):
                caught_quick += 1
            if caught:
                caught_any += 1
            else:
                missed.append(sid)
            if own_first == 0 or note.startswith("first "):
                first_missed.append(sid)
        v = meta.get("validated_by_main_session") or {}
        summ = (meta.get("summary") or "").replace("|", "/").replace("\n", " ")
        rows.append("| %s | %s | %s | %s | %s |" % (sid, summ[:230], "; ".join(caught) or "—", ", ".join(silent) or "—",
                                                  note + ("" if v.get("confirmed") or is_rejected else " [validation record missing]")))
    out = []
    out.append("# Seeded changes: what each check did\n")
    out.append("Each change was written by a sub-agent that saw only the text of one property and a scratch git worktree of the library "
               "(nothing from /verif). Every one was re-validated here with `tools/seeded_run.py validate <dir>`: the patch applies, library "
               "and tests build, the repository's own test suite passes 86/86 with it, and the demonstration exits non-zero with the change "
               "and zero without it (the record is in each `meta.json` under `validated_by_main_session`). Checks were then run with "
               "`tools/seeded_run.py check <dir> Cxx…` against a scratch worktree with the patch applied (`VERIF_REPO`; /repo is never "
               "modified; evidence of such runs goes to `.cache/evidence-other-tree`). The columns show the *latest* run of each check; the "
               "notes say where a first run missed the change and what was strengthened. Full run history per change: "
               "`seeded/<id>/checks.json`. Ids `Cxx-m*` are round 1, `Cxxa/b/c-m*` are later rounds (new agents, same protocol, asked for "
               "changes that need rarer inputs).\n")
    out.append("Summary: %d changes kept (%d rejected as outside its property's quantifier: %s); %d of them are reported by at least one "
               "check with a concrete failing input or a broken obligation, %d of those in the quick tier; not reported by any check: %s. "
               "%d changes were not reported by the first run of their own property's check (history defects reported by C12 instead, or inputs the generators did not reach); the notes column says what was added for each.\n"
               % (kept, len(rejected), ", ".join(rejected) or "—", caught_any, caught_quick, ", ".join(missed) or "none", len(first_missed)))
    out.append("| id | change (agent's summary) | caught by (tier: first failing record) | run but silent | notes |")
    out.append("|---|---|---|---|---|")
    out += rows
    open(os.path.join(SD, "RESULTS.md"), "w").write("\n".join(out) + "\n")
    # compact table for DESIGN.md section 12 (between the markers)
    tab = ["| change | what it needs to manifest (short) | reported by | silent |", "|---|---|---|---|"]
    for d in sorted(glob.glob(os.path.join(SD, "C*-m*"))):
        sid = os.path.basename(d)
        meta = json.load(open(os.path.join(d, "meta.json")))
        cf = os.path.join(d, "checks.json")
        hist = json.load(open(cf)) if os.path.exists(cf) else {}
        needs = (meta.get("needs") or meta.get("summary") or "").replace("|", "/").replace("\n", " ")[:150]
        rep = "; ".join(p for p, runs in sorted(hist.items()) if runs[-1]["exit"] != 0) or "—"
        sil = "; ".join(p for p, runs in sorted(hist.items()) if runs[-1]["exit"] == 0) or "—"
        tab.append("| %s | %s | %s | %s |" % (sid, needs, rep, sil))
    dp = os.path.join(VERIF, "DESIGN.md")
    ds = open(dp).read()
    b, e = "<!-- seeded-table-begin -->", "<!-- seeded-table-end -->"
    if b in ds and e in ds:
        ds = ds[:ds.index(b) + len(b)] + "\n" + "\n".join(tab) + "\n" + ds[ds.index(e):]
        open(dp, "w").write(ds)
    print("kept", kept, "caught", caught_any, "quick", caught_quick, "missed", missed, "first-missed", first_missed)


if __name__ == "__main__":
    main()
