"""C14 premise extractor: which objects with static storage duration does the library have, and are they all const?

generate(repo, outdir) -> {"files": {...}, "errors": [...]}   (registered in propconf.EXTRA_GENERATORS)

1. clang-14's JSON AST of the three translation units (clipper.engine.cpp, clipper.offset.cpp, clipper.rectclip.cpp;
   they include every header of the library), restricted with -ast-dump-filter=Clipper2Lib: every `VarDecl` that is
   not an automatic local variable — namespace scope, static data member, function-local `static`, `thread_local`,
   `extern` — is recorded with name, enclosing scope, type and constness (top-level `const` or `constexpr`).
2. the same three files compiled with g++ (-O1, no sanitizer); `nm -C -f sysv` lists every defined data symbol with
   its section.  A symbol in a writable section (.data*, .bss*, .tdata/.tbss, COMMON; not .data.rel.ro*, which holds
   vtables/typeinfo and is read-only after relocation) must be explained by a const record of step 1 (a `const`
   object with a dynamic initialiser lives in .bss) or be one of the toolchain's own objects (`std::__ioinit` of
   <iostream>); otherwise it is added as a non-const record — and `globals_readonly` (Props/C14) fails.
3. the AST is also scanned for assignments to `Vertex::flags` / `Vertex::pt` / `Vertex::next` / `Vertex::prev`
   (members of the vertices a ReuseableDataContainer64 shares between clippers): the enclosing functions are emitted as
   `vertexWriters`; Props/C14 proves that they all belong to the path-loading code.
Output: lean/ClipperVerif/Generated/Globals.lean.
"""
import os, sys, json, subprocess, tempfile, hashlib, re

TUS = ["clipper.engine.cpp", "clipper.offset.cpp", "clipper.rectclip.cpp"]
TOOLCHAIN_OK = {"std::__ioinit"}   # <iostream>'s per-TU initialiser object: libstdc++'s, not the library's
TOOLCHAIN_PREFIXES = ("DW.ref.",)   # exception-handling personality reference emitted by g++
FUNC_KINDS = {"FunctionDecl", "CXXMethodDecl", "CXXConstructorDecl", "CXXDestructorDecl", "CXXConversionDecl", "LambdaExpr", "BlockDecl"}
SCOPE_KINDS = {"NamespaceDecl", "CXXRecordDecl", "ClassTemplateDecl", "ClassTemplateSpecializationDecl",
               "ClassTemplatePartialSpecializationDecl", "FunctionTemplateDecl", "LinkageSpecDecl", "TranslationUnitDecl"}
VERTEX_FIELDS = {"flags", "pt", "next", "prev"}


class ExtractError(Exception):
    pass


def clang_json(path, inc, src):
    cmd = ["clang++-14", "-std=gnu++17", "-fsyntax-only", "-w", "-I", inc, "-I", src,
           "-Xclang", "-ast-dump=json", "-Xclang", "-ast-dump-filter=Clipper2Lib", path]
    r = subprocess.run(cmd, capture_output=True, text=True)
    if r.returncode != 0:
        raise ExtractError("clang failed on %s: %s" % (path, r.stderr[:1500]))
    s = r.stdout
    dec = json.JSONDecoder()
    i, n, objs = 0, len(s), []
    while i < n:
        while i < n and s[i].isspace():
            i += 1
        if i >= n:
            break
        if s[i] != "{":   # "Dumping Clipper2Lib::…:" header lines
            j = s.find("\n", i)
            i = n if j < 0 else j + 1
            continue
        o, j = dec.raw_decode(s, i)
        objs.append(o)
        i = j
    return objs


def type_is_const(qt):
    qt = qt.strip()
    if "*" in qt:
        tail = qt[qt.rfind("*") + 1:].strip()
        return tail.startswith("const")
    if qt.endswith("&"):
        return True   # a reference cannot be reseated; what it refers to is another record
    return qt.startswith("const ") or qt.endswith(" const") or " const[" in qt or qt.startswith("const[")


def _reads_call_state(node):
    """does the subtree (the initialiser of a VarDecl) read a function parameter or `this`?"""
    stack = [c for c in (node.get("inner") or []) if isinstance(c, dict)]
    while stack:
        n = stack.pop()
        if n.get("kind") == "CXXThisExpr":
            return True
        if n.get("kind") == "DeclRefExpr" and (n.get("referencedDecl") or {}).get("kind") == "ParmVarDecl":
            return True
        stack.extend(c for c in (n.get("inner") or []) if isinstance(c, dict))
    return False


def walk(node, scope, in_func, file_state, out, writers, func_name, parent=None, uses=None):
    """scope: list of names; in_func: inside a function body; file_state: [current file];
    uses: {decl id: True if every reference seen so far is an lvalue-to-rvalue load}"""
    if not isinstance(node, dict):
        return
    if uses is None:
        uses = {}
    loc = node.get("loc") or {}
    for l in (loc, loc.get("spellingLoc") or {}, loc.get("expansionLoc") or {}):
        if "file" in l:
            file_state[0] = l["file"]
    rng = node.get("range") or {}
    for k in ("begin", "end"):
        b = rng.get(k) or {}
        for l in (b, b.get("spellingLoc") or {}, b.get("expansionLoc") or {}):
            if "file" in l:
                file_state[0] = l["file"]
    kind = node.get("kind")
    name = node.get("name", "")
    if kind == "VarDecl":
        sc = node.get("storageClass")
        tls = node.get("tls")
        is_global = (not in_func) or sc in ("static", "extern") or tls is not None
        if is_global:
            t = node.get("type", {})
            qt = t.get("qualType", "")
            dq = t.get("desugaredQualType", qt)
            const = bool(node.get("constexpr")) or type_is_const(qt) or type_is_const(dq)
            storage = "thread_local" if tls is not None else ("local-static" if in_func else ("static-member" if scope and scope[-1][1] == "class" else "namespace-scope"))
            # a function-local static whose initialiser reads a parameter (or `this`) is fixed by whichever call comes first: it is
            # shared state written once at run time with a caller-dependent value, however `const` its type is
            first_call = bool(in_func and tls is None and _reads_call_state(node))
            if first_call:
                const = False
                qt = qt + " (initialised from the first caller's arguments)"
            out.append(dict(id=node.get("id"), name=name, scope="::".join(s[0] for s in scope if s[0]), type=qt, isConst=const, storage=storage,
                            func=func_name or "", file=os.path.basename(file_state[0] or "?"), firstCall=first_call))
    if kind == "DeclRefExpr" and (node.get("referencedDecl") or {}).get("kind") == "VarDecl":
        rid = node["referencedDecl"].get("id")
        is_load = bool(parent) and parent.get("kind") == "ImplicitCastExpr" and parent.get("castKind") == "LValueToRValue"
        uses[rid] = uses.get(rid, True) and is_load
    # assignments to Vertex members (built-in `=` / compound assignment, or a class-type member's operator=)
    if kind == "CXXOperatorCallExpr":
        inner = [c for c in node.get("inner", []) if c]
        callee = inner[0] if inner else {}
        while callee.get("kind") == "ImplicitCastExpr" and callee.get("inner"):
            callee = callee["inner"][0]
        opname = (callee.get("referencedDecl") or {}).get("name", "")
        if opname in ("operator=", "operator+=", "operator-=", "operator|=", "operator&=") and len(inner) > 1:
            lhs = inner[1]
            while lhs.get("kind") in ("ParenExpr", "ImplicitCastExpr") and lhs.get("inner"):
                lhs = lhs["inner"][0]
            if lhs.get("kind") == "MemberExpr" and lhs.get("name") in VERTEX_FIELDS:
                base = [c for c in lhs.get("inner", []) if c]
                bt = (base[0].get("type", {}).get("qualType", "") if base else "")
                if re.search(r"\bVertex\b", bt):
                    writers.add((func_name or "?", lhs.get("name")))
    if kind in ("BinaryOperator", "CompoundAssignOperator") and (node.get("opcode", "") in ("=",) or kind == "CompoundAssignOperator"):
        inner = [c for c in node.get("inner", []) if c]
        if inner:
            lhs = inner[0]
            while lhs.get("kind") in ("ParenExpr", "ImplicitCastExpr") and lhs.get("inner"):
                lhs = lhs["inner"][0]
            if lhs.get("kind") == "MemberExpr" and lhs.get("name") in VERTEX_FIELDS:
                base = [c for c in lhs.get("inner", []) if c]
                bt = (base[0].get("type", {}).get("qualType", "") if base else "")
                if re.search(r"\bVertex\b", bt):
                    writers.add((func_name or "?", lhs.get("name")))
    new_scope, new_in_func, new_func = scope, in_func, func_name
    if kind in FUNC_KINDS:
        new_in_func = True
        if kind != "LambdaExpr":
            new_func = "::".join([s[0] for s in scope if s[0]] + [name])
    elif kind in ("NamespaceDecl",):
        new_scope = scope + [(name or "(anonymous)", "namespace")]
    elif kind in ("CXXRecordDecl", "ClassTemplateSpecializationDecl", "ClassTemplatePartialSpecializationDecl"):
        new_scope = scope + [(name, "class")]
    for c in node.get("inner", []) or []:
        walk(c, new_scope, new_in_func, file_state, out, writers, new_func, node, uses)


def nm_symbols(obj):
    r = subprocess.run(["nm", "-C", "-f", "sysv", "--defined-only", obj], capture_output=True, text=True)
    if r.returncode != 0:
        raise ExtractError("nm failed: " + r.stderr[:500])
    syms = []
    for line in r.stdout.split("\n"):
        parts = [p.strip() for p in line.split("|")]
        if len(parts) != 7 or parts[0] == "Name":
            continue
        name, _val, cls, typ, _size, _line, section = parts
        if typ not in ("OBJECT", "TLS", "COMMON") and cls not in ("B", "b", "D", "d", "C", "u", "G", "g", "S", "s"):
            continue
        syms.append((name, cls, typ, section))
    return syms


def writable(cls, section):
    if section.startswith(".data.rel.ro"):
        return False
    if section.startswith((".data", ".bss", ".tdata", ".tbss")) or section in ("*COM*", "COMMON"):
        return True
    return cls in ("B", "b", "D", "d", "C", "u") and not section.startswith(".rodata")


def _analyse_tu(args):
    """one translation unit: AST records, Vertex writers, nm symbols (runs in a worker process)"""
    tu, inc, src = args
    out, w, uses = [], set(), {}
    for top in clang_json(os.path.join(src, tu), inc, src):
        walk(top, [], False, [None], out, w, None, None, uses)
    for rec in out:
        rec["onlyRead"] = uses.get(rec.pop("id"), True) and not rec.get("firstCall", False)
    with tempfile.TemporaryDirectory(prefix="globals") as td:
        obj = os.path.join(td, tu + ".o")
        r = subprocess.run(["g++", "-std=c++17", "-O1", "-c", "-w", "-I", inc, os.path.join(src, tu), "-o", obj], capture_output=True, text=True)
        if r.returncode != 0:
            raise ExtractError("g++ -c %s failed: %s" % (tu, r.stderr[:1500]))
        syms = nm_symbols(obj)
    return tu, out, w, syms


def lean_str(s):
    return '"' + s.replace("\\", "\\\\").replace('"', '\\"') + '"'


def generate(repo, outdir):
    report = {"files": {}, "errors": []}
    inc = os.path.join(repo, "CPP/Clipper2Lib/include")
    src = os.path.join(repo, "CPP/Clipper2Lib/src")
    path = os.path.join(outdir, "Globals.lean")
    try:
        records, writers = {}, set()
        import concurrent.futures
        with concurrent.futures.ProcessPoolExecutor(max_workers=len(TUS)) as ex:
            results = list(ex.map(_analyse_tu, [(tu, inc, src) for tu in TUS]))
        nm_by_tu = {}
        for tu, out, w, syms in results:
            writers |= w
            nm_by_tu[tu] = syms
            for rec in out:
                key = (rec["scope"], rec["func"], rec["name"], rec["type"])
                if key in records:
                    if tu not in records[key]["tus"]:
                        records[key]["tus"].append(tu)
                    records[key]["isConst"] = records[key]["isConst"] and rec["isConst"]
                    records[key]["onlyRead"] = records[key]["onlyRead"] and rec["onlyRead"]
                else:
                    rec["tus"] = [tu]
                    records[key] = rec
        recs = sorted(records.values(), key=lambda r: (r["file"], r["scope"], r["func"], r["name"], r["type"]))
        if not recs:
            raise ExtractError("no static-storage declaration found at all (the library has at least invalid_rect, PI, the error strings): extractor broken")
        # nm cross-check
        toolchain, nm_only = [], []
        if True:
            for tu in TUS:
                for name, cls, typ, section in nm_by_tu[tu]:
                    if not writable(cls, section):
                        continue
                    if name.startswith("guard variable for "):
                        name = name[len("guard variable for "):]
                    base = re.sub(r"\[abi:[^\]]*\]", "", name)
                    if base in TOOLCHAIN_OK or base.startswith(TOOLCHAIN_PREFIXES):
                        if (base, tu) not in toolchain:
                            toolchain.append((base, tu))
                        continue
                    last = base.split("::")[-1]
                    known = [r2 for r2 in recs if r2["name"] == last and (base.endswith("::" + last) or base == last)]
                    if known:
                        continue   # explained by an AST record (whose constness decides)
                    nm_only.append(dict(name=last, scope="::".join(base.split("::")[:-1]), type="(nm: %s %s)" % (cls, section), isConst=False,
                                        storage="nm-only", func="", file=tu, tus=[tu], onlyRead=False))
        allrecs = recs + nm_only
        lines = ["/- GENERATED by tools/extract_globals.py from /repo's current sources (clang-14 AST + nm of g++ objects): do not edit. -/",
                 "namespace Clipper.Gen.Globals", "",
                 "structure GlobalVar where", "  name : String", "  scope : String", "  func : String", "  type : String",
                 "  storage : String", "  file : String",
                 "  /-- declared `const` (top level) or `constexpr` -/", "  isConst : Bool",
                 "  /-- every reference to it in the three translation units is an lvalue-to-rvalue load (never assigned, never bound to a reference, address never taken) -/",
                 "  onlyRead : Bool", "  deriving DecidableEq, Repr", "",
                 "/-- every object with static or thread storage duration declared by the library's headers and sources -/",
                 "def globals : List GlobalVar := ["]
        lines.append(",\n".join("  ⟨%s, %s, %s, %s, %s, %s, %s, %s⟩" % (lean_str(r["name"]), lean_str(r["scope"]), lean_str(r["func"]), lean_str(r["type"]),
                                                                            lean_str(r["storage"]), lean_str(r["file"]), "true" if r["isConst"] else "false",
                                                                            "true" if r["onlyRead"] else "false") for r in allrecs))
        lines += ["]", "", "/-- writable data symbols of the compiled objects that belong to the toolchain, not to the library -/",
                  "def toolchainSymbols : List (String × String) := [" + ", ".join("(%s, %s)" % (lean_str(a), lean_str(b)) for a, b in toolchain) + "]", "",
                  "/-- functions containing an assignment to a member of `Vertex` (function, member) -/",
                  "def vertexWriters : List (String × String) := [" + ", ".join("(%s, %s)" % (lean_str(a), lean_str(b)) for a, b in sorted(writers)) + "]", "",
                  "end Clipper.Gen.Globals", ""]
        text = "\n".join(lines)
        report["files"]["Globals"] = {"functions": ["globals(%d)" % len(allrecs), "toolchainSymbols(%d)" % len(toolchain), "vertexWriters(%d)" % len(writers)],
                                      "sha256": hashlib.sha256(text.encode()).hexdigest()}
    except Exception as e:  # noqa: BLE001  (an extractor that cannot cope is an obligation break)
        msg = str(e).replace('"', "'").replace("\n", " ")[:800]
        text = ("/- GENERATED by tools/extract_globals.py: extraction FAILED -/\nimport Lean\nnamespace Clipper.Gen.Globals\n"
                '#eval (throwError "extract_globals: %s" : Lean.Elab.Command.CommandElabM Unit)\nend Clipper.Gen.Globals\n' % msg)
        report["errors"].append({"unit": "Globals", "error": str(e)})
    old = open(path).read() if os.path.exists(path) else None
    changed = old != text
    if changed:
        os.makedirs(outdir, exist_ok=True)
        with open(path, "w") as f:
            f.write(text)
    report["files"].setdefault("Globals", {})["changed"] = changed
    return report


if __name__ == "__main__":
    here = os.path.dirname(os.path.abspath(__file__))
    rep = generate(sys.argv[1] if len(sys.argv) > 1 else "/repo", sys.argv[2] if len(sys.argv) > 2 else os.path.join(here, "../lean/ClipperVerif/Generated"))
    print(json.dumps(rep, indent=1))
    sys.exit(1 if rep["errors"] else 0)
