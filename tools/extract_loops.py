"""C04 premise extractor: the header of the outrec loop of the four solution builders.

generate(repo, outdir) -> {"files": {...}, "errors": [...]}   (registered in propconf.EXTRA_GENERATORS)

`Clipper64::BuildPaths64`, `Clipper64::BuildTree64`, `ClipperD::BuildPathsD` and `ClipperD::BuildTreeD` walk `outrec_list_`
while the body (`CleanCollinear` -> `FixSelfIntersects` -> `DoSplitOp`, reached directly or through `CheckBounds`) may append
records to it.  The hand models (`Model/SplitOp.buildPathsG`: work list `rest ++ sp`; `Model/BuilderLoop.dynLoop`) therefore
re-read the size on every turn.  This extractor reads, from clang-14's JSON AST of clipper.engine.cpp, the first top-level `for`
statement of each of the four functions and records the facts that make that the right model:

  * one induction variable, initialised with the literal 0,
  * the condition is `<that variable> < outrec_list_.size()` with the call inside the condition (evaluated on every turn),
  * the increment is `++i` / `i++`,
  * the body never writes the induction variable.

Output: lean/ClipperVerif/Generated/BuilderLoops.lean (`Props/C04Builders.builders_reread_size` decides the facts).
"""
import os, json, subprocess, hashlib

FUNCS = [("Clipper64", "BuildPaths64"), ("Clipper64", "BuildTree64"), ("ClipperD", "BuildPathsD"), ("ClipperD", "BuildTreeD")]


class ExtractError(Exception):
    pass


def clang_json(path, inc, src, flt):
    cmd = ["clang++-14", "-std=gnu++17", "-fsyntax-only", "-w", "-I", inc, "-I", src,
           "-Xclang", "-ast-dump=json", "-Xclang", "-ast-dump-filter=" + flt, path]
    r = subprocess.run(cmd, capture_output=True, text=True)
    if r.returncode != 0:
        raise ExtractError("clang failed on %s: %s" % (path, r.stderr[:1500]))
    s, dec, i, objs = r.stdout, json.JSONDecoder(), 0, []
    n = len(s)
    while i < n:
        while i < n and s[i].isspace():
            i += 1
        if i >= n:
            break
        if s[i] != "{":
            j = s.find("\n", i)
            i = n if j < 0 else j + 1
            continue
        o, j = dec.raw_decode(s, i)
        objs.append(o)
        i = j
    return objs


def inner(n):
    return n.get("inner", []) if isinstance(n, dict) else []


def strip(n):
    """skip implicit casts, parentheses, full-expression wrappers"""
    while isinstance(n, dict) and n.get("kind") in ("ImplicitCastExpr", "ParenExpr", "ExprWithCleanups", "ConstantExpr",
                                                    "MaterializeTemporaryExpr", "CXXFunctionalCastExpr", "CStyleCastExpr",
                                                    "CXXStaticCastExpr") and len(inner(n)) == 1:
        n = inner(n)[0]
    return n


def refers_to(n, decl_id):
    n = strip(n)
    return isinstance(n, dict) and n.get("kind") == "DeclRefExpr" and n.get("referencedDecl", {}).get("id") == decl_id


def is_outrec_size_call(n):
    n = strip(n)
    if not isinstance(n, dict) or n.get("kind") != "CXXMemberCallExpr" or len(inner(n)) != 1:
        return False
    m = inner(n)[0]
    if m.get("kind") != "MemberExpr" or m.get("name") != "size" or len(inner(m)) != 1:
        return False
    b = strip(inner(m)[0])
    if not isinstance(b, dict) or b.get("kind") != "MemberExpr" or b.get("name") != "outrec_list_":
        return False
    t = strip(inner(b)[0]) if inner(b) else None
    return isinstance(t, dict) and t.get("kind") == "CXXThisExpr"


def writes(n, decl_id):
    """does the subtree assign / increment / take a non-const reference or the address of the variable?"""
    if not isinstance(n, dict):
        return False
    k = n.get("kind")
    if k == "UnaryOperator" and n.get("opcode") in ("++", "--", "&") and refers_to(inner(n)[0], decl_id):
        return True
    if k in ("BinaryOperator", "CompoundAssignOperator") and n.get("opcode", "").endswith("=") and \
            n.get("opcode") not in ("==", "!=", "<=", ">=") and refers_to(inner(n)[0], decl_id):
        return True
    if k == "DeclRefExpr" and n.get("referencedDecl", {}).get("id") == decl_id and n.get("valueCategory") == "lvalue" and False:
        return True
    return any(writes(c, decl_id) for c in inner(n))


def lvalue_uses_outside_loads(n, decl_id, parent_is_load=False):
    """every use of the variable in the body must be an lvalue-to-rvalue load (no reference binding, no address)"""
    if not isinstance(n, dict):
        return 0
    k = n.get("kind")
    if k == "DeclRefExpr" and n.get("referencedDecl", {}).get("id") == decl_id:
        return 0 if parent_is_load else 1
    load = k == "ImplicitCastExpr" and n.get("castKind") == "LValueToRValue"
    return sum(lvalue_uses_outside_loads(c, decl_id, load) for c in inner(n))


def find_method(objs, cls, name):
    out = []

    def walk(n, scope):
        if not isinstance(n, dict):
            return
        k = n.get("kind")
        if k == "CXXMethodDecl" and n.get("name") == name and any(c.get("kind") == "CompoundStmt" for c in inner(n)):
            out.append(n)
            return
        for c in inner(n):
            walk(c, scope)
    for o in objs:
        walk(o, [])
    return out


def src_text(srcfile, n):
    try:
        b, e = n["range"]["begin"], n["range"]["end"]
        data = open(srcfile, "rb").read()
        return data[b["offset"]: e["offset"] + e.get("tokLen", 1)].decode("utf8", "replace")
    except Exception:
        return "?"


def lean_str(s):
    return '"' + s.replace("\\", "\\\\").replace('"', '\\"').replace("\n", " ") + '"'


def analyse(srcfile, fn):
    body = [c for c in inner(fn) if c.get("kind") == "CompoundStmt"][0]
    loops = [c for c in inner(body) if c.get("kind") == "ForStmt"]
    if len(loops) != 1:
        raise ExtractError("%s: expected exactly one top-level for statement, found %d" % (fn.get("name"), len(loops)))
    f = loops[0]
    parts = f.get("inner", [])
    if len(parts) != 5:
        raise ExtractError("%s: unexpected ForStmt shape" % fn.get("name"))
    init, _condvar, cond, inc, lbody = parts
    decls = [d for d in inner(init) if d.get("kind") == "VarDecl"] if init.get("kind") == "DeclStmt" else []
    single = len(decls) == 1
    did = decls[0]["id"] if decls else None
    init_zero = False
    if single and inner(decls[0]):
        iv = strip(inner(decls[0])[0])
        init_zero = iv.get("kind") == "IntegerLiteral" and iv.get("value") == "0"
    c = strip(cond)
    cond_ok = bool(single and isinstance(c, dict) and c.get("kind") == "BinaryOperator" and c.get("opcode") == "<" and
                   refers_to(inner(c)[0], did) and is_outrec_size_call(inner(c)[1]))
    i = strip(inc)
    inc_ok = bool(single and isinstance(i, dict) and i.get("kind") == "UnaryOperator" and i.get("opcode") == "++" and
                  refers_to(inner(i)[0], did))
    body_writes = bool(single and (writes(lbody, did) or lvalue_uses_outside_loads(lbody, did) > 0))
    return dict(fn=fn.get("name"), single=single, init_zero=init_zero, cond_ok=cond_ok, inc_ok=inc_ok, body_writes=body_writes,
                header="for (%s %s; %s)" % (src_text(srcfile, init), src_text(srcfile, cond), src_text(srcfile, inc)))


def generate(repo, outdir):
    inc = os.path.join(repo, "CPP/Clipper2Lib/include")
    src = os.path.join(repo, "CPP/Clipper2Lib/src")
    path = os.path.join(src, "clipper.engine.cpp")
    errors, recs = [], []
    try:
        objs = clang_json(path, inc, src, "Build")   # one dump holding all four definitions
    except ExtractError as e:
        objs = []
        errors.append({"unit": "extract_loops", "error": str(e)})
    for cls, name in FUNCS:
        try:
            ms = find_method(objs, cls, name)
            if len(ms) != 1:
                raise ExtractError("%s::%s: %d definitions found" % (cls, name, len(ms)))
            recs.append(analyse(path, ms[0]))
        except ExtractError as e:
            errors.append({"unit": "extract_loops", "error": str(e)})
    b = lambda v: "true" if v else "false"
    lines = ["/- GENERATED by tools/extract_loops.py from CPP/Clipper2Lib/src/clipper.engine.cpp — do not edit. -/",
             "namespace Clipper.Generated.BuilderLoops", "",
             "/-- header of the outrec loop of one solution builder -/",
             "structure Loop where",
             "  fn : String",
             "  singleVar : Bool      -- exactly one induction variable is declared",
             "  initZero : Bool       -- it starts at the literal 0",
             "  condRereadsSize : Bool -- the condition is `i < outrec_list_.size()`, the call evaluated on every turn",
             "  incByOne : Bool       -- the increment is ++i / i++",
             "  bodyWritesVar : Bool  -- the body assigns, increments or takes a reference to the variable",
             "  header : String",
             "  deriving Repr, DecidableEq", "",
             "def loops : List Loop := ["]
    lines.append(",\n".join("  ⟨%s, %s, %s, %s, %s, %s, %s⟩" % (lean_str(r["fn"]), b(r["single"]), b(r["init_zero"]), b(r["cond_ok"]),
                                                              b(r["inc_ok"]), b(r["body_writes"]), lean_str(r["header"])) for r in recs))
    lines += ["]", "", "end Clipper.Generated.BuilderLoops", ""]
    text = "\n".join(lines)
    out = os.path.join(outdir, "BuilderLoops.lean")
    old = open(out).read() if os.path.exists(out) else None
    if old != text:
        open(out, "w").write(text)
    return {"files": {"BuilderLoops": {"functions": ["loops(%d)" % len(recs)], "sha256": hashlib.sha256(text.encode()).hexdigest(),
                                       "changed": old != text}}, "errors": errors}


if __name__ == "__main__":
    import sys
    r = generate(sys.argv[1] if len(sys.argv) > 1 else "/repo", sys.argv[2] if len(sys.argv) > 2 else "/tmp")
    print(json.dumps(r, indent=1))
