#!/usr/bin/env python3
"""C15, syntactic premise (regenerated on every run): the USINGZ build differs from the plain build only in
payload handling.

Every preprocessor region controlled by USINGZ in the library sources is examined:
  * a region without #else may contain only lines that mention the Z vocabulary (z member, z_type, SetZ,
    callbacks, DefaultZ, ...), or pure structure (braces, else, comments, access specifiers);
  * in a region `#ifdef USINGZ A #else B #endif` the lines of A that do NOT mention the Z vocabulary must occur,
    in order and verbatim (whitespace-normalised), in B, and B may have at most as many further lines as A has
    Z lines (each Z line of A stands for at most one line of B).
A violation names file and line; it is reported by ./check C15 as a broken tie (the geometry of the two builds is
then compared only dynamically)."""
import os, re, sys, json

FILES = ["include/clipper2/clipper.core.h", "include/clipper2/clipper.engine.h", "include/clipper2/clipper.h",
         "include/clipper2/clipper.offset.h", "include/clipper2/clipper.rectclip.h", "include/clipper2/clipper.minkowski.h",
         "include/clipper2/clipper.export.h", "src/clipper.engine.cpp", "src/clipper.offset.cpp", "src/clipper.rectclip.cpp"]

ZVOC = re.compile(r"\bz\b|\bz_\b|\bz_type\b|\bz_value\b|SetZ|zCallback|ZCallback|\bZCB\b|DefaultZ|CheckCallback|"
                  r"MakePathZ|MakePathZD|dllCallback|DLLZCallback|z_callback|VERTEX_FIELD_CNT|EXPORT_VERTEX_DIMENSIONALITY")
# variables that exist only to hand a new output point to SetZ
PLUMB = {"resultOp", "op2", "OutPt", "nullptr"}
TOKEN = re.compile(r"[A-Za-z_]\w*|\d+\.?\d*|\S")
IDENT = re.compile(r"[A-Za-z_]\w*$")


def strip_comments(text):
    text = re.sub(r"/\*.*?\*/", lambda m: re.sub(r"[^\n]", " ", m.group(0)), text, flags=re.S)
    return re.sub(r"//[^\n]*", "", text)


def regions(text):
    """yield (start_line, a_text, b_text or None) for each conditional controlled by USINGZ"""
    lines = text.split("\n")
    stack = []
    out = []
    for i, raw in enumerate(lines, 1):
        s = raw.strip()
        m = re.match(r"#\s*(ifdef|ifndef|if|elif|else|endif)\b(.*)", s)
        if m:
            d, rest = m.group(1), m.group(2)
            if d in ("ifdef", "ifndef", "if"):
                uz = bool(re.search(r"\bUSINGZ\b", rest))
                neg = d == "ifndef" or bool(re.search(r"!\s*defined\s*\(?\s*USINGZ", rest))
                stack.append(dict(start=i, a=[], b=[], in_else=False, usingz=uz, neg=neg))
                continue
            if d in ("else", "elif") and stack:
                stack[-1]["in_else"] = True
                continue
            if d == "endif" and stack:
                r = stack.pop()
                if r["usingz"]:
                    a, b = (r["b"], r["a"]) if r["neg"] else (r["a"], r["b"])
                    has_b = r["in_else"] or r["neg"]
                    out.append((r["start"], "\n".join(a), "\n".join(b) if has_b else None))
                continue
            continue
        for r in stack:
            if r["usingz"]:
                (r["b"] if r["in_else"] else r["a"]).append(raw)
    return out


def chunks(text):
    """split into top-level statements / definitions (depth-0 `;` or closing `}`)"""
    out, cur, depth = [], "", 0
    for ch in text:
        cur += ch
        if ch in "({[":
            depth += 1
        elif ch in ")}]":
            depth -= 1
            if ch == "}" and depth <= 0:
                out.append(cur); cur = ""; depth = max(depth, 0)
        elif ch == ";" and depth <= 0:
            if out and cur.strip() == ";":
                out[-1] += ";"
            else:
                out.append(cur)
            cur = ""
    if cur.strip():
        out.append(cur)
    return [re.sub(r"\s+", " ", c).strip() for c in out if re.sub(r"[\s;{}]", "", c)]


def toks(c):
    return TOKEN.findall(c)


def only_z_difference(a, b):
    """every token run in which chunk a (USINGZ) differs from chunk b (plain) is Z payload: the a-side run mentions the Z
    vocabulary or has no identifier at all, and the b-side run has no identifier"""
    import difflib
    ta, tb = toks(a), toks(b)
    for op, i1, i2, j1, j2 in difflib.SequenceMatcher(None, ta, tb, autojunk=False).get_opcodes():
        if op == "equal":
            continue
        ra, rb = ta[i1:i2], tb[j1:j2]
        a_ok = any(ZVOC.search(t) for t in ra) or not any(IDENT.match(t) and t not in PLUMB for t in ra)
        b_ok = not any(IDENT.match(t) for t in rb)
        if not (a_ok and b_ok):
            return False, " ".join(ra) + "  <->  " + " ".join(rb)
    return True, ""


def check_file(path):
    import difflib
    problems = []
    n_regions = 0
    text = strip_comments(open(path).read())
    for start, a, b in regions(text):
        n_regions += 1
        ca = chunks(a)
        if b is None:
            for c in ca:
                if not ZVOC.search(c) and any(IDENT.match(t) and t not in PLUMB for t in toks(c)):
                    problems.append("%s:%d: statement inside a USINGZ-only region does not mention the Z vocabulary: %s" % (path, start, c[:160]))
            continue
        cb = chunks(b)
        used = set()
        for c in ca:
            # best counterpart in the plain branch
            best, bj = 0.0, None
            for j, d in enumerate(cb):
                if j in used:
                    continue
                r = difflib.SequenceMatcher(None, toks(c), toks(d), autojunk=False).ratio()
                if r > best:
                    best, bj = r, j
            if bj is None or best < 0.5:
                if not ZVOC.search(c):
                    problems.append("%s:%d: USINGZ-branch statement without counterpart and without Z vocabulary: %s" % (path, start, c[:160]))
                continue
            used.add(bj)
            ok, why = only_z_difference(c, cb[bj])
            if not ok:
                problems.append("%s:%d: USINGZ and plain branch differ beyond Z payload: [%s] in: %s" % (path, start, why, c[:160]))
        for j, d in enumerate(cb):
            if j not in used:
                problems.append("%s:%d: plain-branch statement has no counterpart in the USINGZ branch: %s" % (path, start, d[:160]))
    return n_regions, problems


def static_check(repo, verif):
    base = os.path.join(repo, "CPP/Clipper2Lib")
    total = 0
    problems = []
    for f in FILES:
        p = os.path.join(base, f)
        if not os.path.exists(p):
            problems.append("%s: missing" % p)
            continue
        n, pr = check_file(p)
        total += n
        problems += pr
    res = {"coverage": {"usingz_regions_examined": total, "usingz_files": len(FILES)}, "broken": []}
    if problems:
        res["broken"].append({"what": "usingz-syntactic-premise", "detail": problems[:40]})
    return res


if __name__ == "__main__":
    r = static_check(sys.argv[1] if len(sys.argv) > 1 else "/repo", None)
    print(json.dumps(r, indent=1))
