// C11 harness: Execute succeeds on every input; invalid arguments are reported (exception, or error code /
// empty result when the library is built with -fno-exceptions).  Built twice (see tools/propconf.py).
#include "unity.h"
#include "clipper2/clipper.minkowski.h"
#include "clipper2/clipper.export.h"
#include "gp.h"
using namespace vh;

#if (defined(__cpp_exceptions) && __cpp_exceptions) || (defined(__EXCEPTIONS) && __EXCEPTIONS)
#define EXC 1
#else
#define EXC 0
#endif

// set to false once the defects recorded in /verif/known_findings.json are fixed in /repo: the generic generator
// then also exercises those argument combinations
static const bool KNOWN_ERROR_REPORTING_DEFECTS_PRESENT = false;  // fixed in /repo (see known_findings.json `fixed`)

static int code_of(const char* what) {
  std::string w = what;
  if (w.find("Precision") != std::string::npos) return 1;
  if (w.find("scale") != std::string::npos) return 2;
  if (w.find("2 values") != std::string::npos) return 4;
  if (w.find("range") != std::string::npos) return 64;
  return 32;
}

// run f; classify: "threw c" | "empty" | "unchanged" | "ran"
template <class F> static std::string outcome(F f) {
#if EXC
  try { return f(); } catch (const Clipper2Exception& e) { return "threw " + std::to_string(code_of(e.what())); }
#else
  return f();
#endif
}

static PathsD squaresD(double s) { return PathsD{PathD{PointD(0.0, 0.0), PointD(10 * s, 0.0), PointD(10 * s, 10 * s), PointD(0.0, 10 * s)}}; }
static const double HUGE_C = 1e30;
// side length factor such that the scaled square stays a proper square for every valid precision
static double sz(int p) { return p <= 0 ? 1e8 : 1.0; }

static std::string E() { return EXC ? "1" : "0"; }
static void must_report(const std::string& label, const std::string& what, const std::string& got, bool known) {
  bool reported = got.rfind("threw", 0) == 0 || (!EXC && got == "empty");
  stat("reporting." + label);
  if (!reported) emitF((known ? "kf." : "") + label, what + " outcome=" + got + " exceptions=" + E());
}

int main(int argc, char** argv) {
  Rng g(seed_from_args(argc, argv));
  bool thorough = thorough_from_args(argc, argv);
  // ---------------------------------------------------------------- reporting part
  std::vector<int> precs = {-1000, -100, -10, -9, -8, -7, -2, 0, 2, 5, 7, 8, 9, 10, 11, 100, 1000, INT32_MAX, INT32_MIN};
  for (int p : precs) {
    bool bad = p < -8 || p > 8;
    // CheckPrecisionRange itself (generated definition)
    for (int ec : {0, 2, 64}) {
      std::string got = outcome([&] { int pp = p, e = ec; CheckPrecisionRange(pp, e); return "ok " + std::to_string(pp) + " " + std::to_string(e); });
      emitM("checkprecision", "CHECKPREC " + E() + " " + std::to_string(p) + " " + std::to_string(ec), got);
    }
    for (int oor = 0; oor < 4; ++oor) {
      // magnitudes: in range for every valid precision (10 * 10^8) vs. far out of range
      PathsD subj = squaresD((oor & 1) ? HUGE_C : sz(p)), clip = squaresD((oor & 2) ? HUGE_C : 0.7 * sz(p));
      std::string got = outcome([&] {
        PathsD r = BooleanOp(ClipType::Union, FillRule::NonZero, subj, clip, p);
        return std::string(r.empty() ? "empty" : "ran"); });
      // both inputs out of range without exceptions: nothing is added, the result is empty
      std::string req = "ERR_BOOLEAN " + E() + " " + std::to_string(p) + " " + ((oor & 1) ? "1" : "0") + " " + ((oor & 2) ? "1" : "0");
      if (!(oor == 3 && !EXC && !bad)) emitM("boolean", req, got);
      if (bad) must_report("boolean.precision", "BooleanOp(PathsD) precision=" + std::to_string(p), got, false);
      if (!bad && oor == 3) must_report("boolean.range", "BooleanOp(PathsD) all coordinates 1e31, precision=" + std::to_string(p), got, false);
    }
    for (int dz = 0; dz < 2; ++dz) for (int oor = 0; oor < 2; ++oor) {
      PathsD in = squaresD(oor ? HUGE_C : sz(p));
      std::string got = outcome([&] {
        PathsD r = InflatePaths(in, dz ? 0.0 : sz(p), JoinType::Miter, EndType::Polygon, 2.0, p, 0.0);
        if (r.empty()) return std::string("empty");
        if (r.size() == in.size() && r[0].size() == in[0].size() && r[0][0] == in[0][0] && r[0][2] == in[0][2] && dz) return std::string("unchanged");
        return std::string("ran"); });
      emitM("inflate", "ERR_INFLATE " + E() + " " + std::to_string(p) + " " + (dz ? "1" : "0") + " " + (oor ? "1" : "0"), got);
      if (bad) must_report("inflate.precision", "InflatePaths(PathsD) precision=" + std::to_string(p) + " delta=" + (dz ? "0" : "1") + " coords=" + (oor ? "1e31" : "10"), got, false);
      if (!bad && oor && !dz) must_report("inflate.range", "InflatePaths(PathsD) coordinates 1e31 precision=" + std::to_string(p), got, false);
    }
    for (int which = 0; which < 2; ++which) for (int oor = 0; oor < 2; ++oor) for (int re = 0; re < 2; ++re) for (int pe = 0; pe < 2; ++pe) {
      double u = sz(p);
      RectD rect = re ? RectD(5 * u, 5 * u, 5 * u, 9 * u) : RectD(2 * u, 2 * u, 12 * u, 12 * u);
      PathsD in = pe ? PathsD() : squaresD(oor ? HUGE_C : u);
      std::string got = outcome([&] {
        PathsD r = which ? RectClipLines(rect, in, p) : RectClip(rect, in, p);
        return std::string(r.empty() ? "empty" : "ran"); });
      // for RectClipLines of a closed square path given as a polyline the inside part is non-empty as well
      emitM(which ? "rectcliplines" : "rectclip", "ERR_RECTCLIP " + E() + " " + std::to_string(p) + " " + (re ? "1" : "0") + " " + (pe ? "1" : "0") + " " + (oor ? "1" : "0"), got);
      if (bad && !re && !pe) must_report("rectclip.precision", std::string(which ? "RectClipLines" : "RectClip") + "(RectD,PathsD) precision=" + std::to_string(p), got, false);
      if (!bad && oor && !re && !pe) must_report("rectclip.range", std::string(which ? "RectClipLines" : "RectClip") + "(RectD,PathsD) coordinates 1e31 precision=" + std::to_string(p), got, false);
    }
    for (int oor = 0; oor < 2; ++oor) {
      PathD in = squaresD(oor ? HUGE_C : sz(p))[0];
      std::string got = outcome([&] { PathD r = TrimCollinear(in, p, false); return std::string(r.empty() ? "empty" : "ran"); });
      emitM("trimD", "ERR_TRIM " + E() + " " + std::to_string(p) + " " + (oor ? "1" : "0"), got);
      if (bad) must_report("trimD.precision", "TrimCollinear(PathD) precision=" + std::to_string(p), got, false);
      if (!bad && oor) must_report("trimD.range", "TrimCollinear(PathD) coordinates 1e31 precision=" + std::to_string(p), got, false);
    }
    for (int oor = 0; oor < 2; ++oor) {
      PathD pat = squaresD(0.1 * sz(p))[0], path = squaresD(oor ? HUGE_C : sz(p))[0];
      std::string got = outcome([&] { PathsD r = (p & 1) ? MinkowskiSum(pat, path, true, p) : MinkowskiDiff(pat, path, true, p); return std::string(r.empty() ? "empty" : "ran"); });
      emitM("minkowskiD", "ERR_MINKOWSKI " + E() + " " + std::to_string(p) + " " + (oor ? "1" : "0"), got);
      if (bad) must_report("minkowskiD.precision", "Minkowski(PathD) precision=" + std::to_string(p), got, false);
      if (!bad && oor) must_report("minkowskiD.range", "Minkowski(PathD) coordinates 1e31 precision=" + std::to_string(p), got, false);
    }
    {
      std::string got = outcome([&] { ClipperD c(p); return "code " + std::to_string(c.ErrorCode()); });
      emitM("clipperD.ctor", "ERR_CLIPPERD_CTOR " + E() + " " + std::to_string(p), got);
      if (bad) { stat("reporting.clipperD.ctor"); if (got != "threw 1" && got != "code 1") emitF("clipperD.ctor.precision", "ClipperD(" + std::to_string(p) + ") -> " + got); }
    }
  }
  // range errors through the ClipperD object: error code 64 (or exception), offending paths contribute nothing
  {
    std::string got = outcome([&] {
      ClipperD c(2); c.AddSubject(squaresD(HUGE_C)); c.AddClip(squaresD(1.0));
      PathsD sol; bool ok = c.Execute(ClipType::Union, FillRule::NonZero, sol);
      return "code " + std::to_string(c.ErrorCode()) + " ok " + std::to_string(ok) + " paths " + std::to_string(sol.size()); });
    stat("reporting.clipperD.range");
    if (!(got == "threw 64" || got == "code 64 ok 1 paths 1")) emitF("clipperD.range", "ClipperD AddSubject(1e31) -> " + got);
  }
  // ScalePath itself: coordinates beyond MAX_COORD but inside int64 (the conversion would be defined) must be reported too
  {
    int ec = 0;
    PathD big{PointD(4e18, 0.0), PointD(0.0, 4e18)};
    std::string got = outcome([&] { Path64 r = ScalePath<int64_t, double>(big, 1.0, ec); return std::string(r.empty() ? "empty" : "ran"); });
    stat("reporting.scalepath.range");
    if (!(got == "threw 64" || (!EXC && got == "empty" && (ec & 64)))) emitF("scalepath.range", "ScalePath<int64_t>(4e18) -> " + got + " code " + std::to_string(ec));
    std::string g1 = outcome([&] { PathD r = TrimCollinear(PathD{PointD(4e16, 0.0), PointD(4e16, 4e16), PointD(0.0, 4e16)}, 2, false); return std::string(r.empty() ? "empty" : "ran"); });
    must_report("trimD.range", "TrimCollinear(PathD) coordinates 4e16 precision=2 (scaled 4e18 > MAX_COORD)", g1, false);
    std::string g2 = outcome([&] { PathsD r = MinkowskiSum(PathD{PointD(0.0, 0.0), PointD(1.0, 0.0), PointD(1.0, 1.0)}, PathD{PointD(3e16, 0.0), PointD(3e16, 3e16), PointD(0.0, 3e16)}, true, 2); return std::string(r.empty() ? "empty" : "ran"); });
    must_report("minkowskiD.range", "MinkowskiSum(PathD) coordinates 3e16 precision=2 (scaled 3e18 > MAX_COORD)", g2, false);
  }
  // ONE out-of-range coordinate, in every position (first / middle / last vertex of the first / second path), on either axis,
  // of either sign: the range check looks at the bounds of all vertices, so where the offender stands must not matter
  {
    for (int path_i = 0; path_i < 2; ++path_i) for (int vert_i = 0; vert_i < 3; ++vert_i) for (int axis = 0; axis < 2; ++axis) for (int sg = 0; sg < 2; ++sg) {
      PathsD in{PathD{PointD(1.0, 2.0), PointD(11.0, 3.0), PointD(4.0, 9.0)}, PathD{PointD(21.0, 2.0), PointD(31.0, 3.0), PointD(24.0, 9.0)}};
      double huge = sg ? -1e30 : 1e30;
      if (axis == 0) in[(size_t)path_i][(size_t)vert_i].x = huge; else in[(size_t)path_i][(size_t)vert_i].y = huge;
      std::string where = "path " + std::to_string(path_i) + " vertex " + std::to_string(vert_i) + (axis ? " y=" : " x=") + (sg ? "-1e30" : "1e30");
      {
        int ec = 0;
        std::string got = outcome([&] { Paths64 r = ScalePaths<int64_t, double>(in, 100.0, ec); return std::string(r.empty() ? "empty" : "ran"); });
        stat("reporting.one_offender.ScalePaths");
        if (!(got == "threw 64" || (!EXC && (ec & 64)))) emitF("one_offender.ScalePaths", "out-of-range coordinate not reported: " + where + " -> " + got + " code " + std::to_string(ec));
      }
      {
        std::string got = outcome([&] { ClipperD c(2); c.AddSubject(in); return "code " + std::to_string(c.ErrorCode()); });
        stat("reporting.one_offender.ClipperD.AddSubject");
        if (!(got == "threw 64" || got == "code 64")) emitF("one_offender.ClipperD", "AddSubject: out-of-range coordinate not reported: " + where + " -> " + got);
      }
      {
        std::string got = outcome([&] { PathsD r = InflatePaths(in, 1.0, JoinType::Miter, EndType::Polygon, 2.0, 2, 0.0); return std::string(r.empty() ? "empty" : "ran"); });
        must_report("one_offender.InflatePathsD", "InflatePaths(PathsD): " + where, got, false);
      }
      if (path_i == 0) {
        int ec = 0;
        std::string got = outcome([&] { Path64 r = ScalePath<int64_t, double>(in[0], 100.0, ec); return std::string(r.empty() ? "empty" : "ran"); });
        stat("reporting.one_offender.ScalePath");
        if (!(got == "threw 64" || (!EXC && (ec & 64)))) emitF("one_offender.ScalePath", "out-of-range coordinate not reported: " + where + " -> " + got + " code " + std::to_string(ec));
      }
    }
  }
  // per-axis scales: each coordinate is checked against the range with ITS OWN scale (x*sx, y*sy); a value that only fits with
  // the other axis' scale must be reported, one that only overflows with the other axis' scale must not
  {
    struct Cs { double sx, sy, x, y; bool oor; };
    static const Cs cs[] = {
      {1.0, 1e10, 100.0, 1e12, true},  {1e10, 1.0, 1e12, 100.0, true},  {1.0, 1e10, 100.0, -1e12, true}, {1e10, 1.0, -1e12, 100.0, true},
      {1.0, 1e10, 1e12, 100.0, false}, {1e10, 1.0, 100.0, 1e12, false}, {1.0, 1e10, -1e12, -100.0, false}, {1e-3, 1e3, 1e20, 1e14, false},
      {1e-3, 1e3, 1e14, 1e20, true},   {2.0, 0.5, 2e18, 4e18, true},    {0.5, 2.0, 4e18, 2e18, true},     {2.0, 0.5, 1e18, 4e18, false}};
    for (const Cs& c : cs) {
      int ec = 0;
      PathD in{PointD(0.0, 0.0), PointD(c.x, c.y), PointD(1.0, 2.0)};
      Path64 r;
      std::string got = outcome([&] { r = ScalePath<int64_t, double>(in, c.sx, c.sy, ec); return std::string(r.empty() ? "empty" : "ran"); });
      stat(c.oor ? "reporting.scalepath.two_scales.out_of_range" : "reporting.scalepath.two_scales.in_range");
      bool reported = got == "threw 64" || (!EXC && got == "empty" && (ec & 64));
      std::string d = "ScalePath<int64_t,double>({(0,0),(" + hexd(c.x) + "," + hexd(c.y) + "),(1,2)}, sx=" + hexd(c.sx) + ", sy=" + hexd(c.sy) + ") -> " + got + " code " + std::to_string(ec);
      if (c.oor && !reported) emitF("scalepath.two_scales.range", "out-of-range coordinate not reported: " + d);
      if (!c.oor && (got != "ran" || ec != 0 || r.size() != 3 || r[1].x != (int64_t)std::round(c.x * c.sx) || r[1].y != (int64_t)std::round(c.y * c.sy)))
        emitF("scalepath.two_scales.in_range", "in-range input not scaled as x*sx, y*sy: " + d);
    }
  }
  // zero scale, odd coordinate count
  for (int sx = 0; sx < 2; ++sx) for (int sy = 0; sy < 2; ++sy) {
    int ec = 0;
    std::string got = outcome([&] { Path64 r = ScalePath<int64_t, double>(PathD{PointD(1.0, 1.0), PointD(2.0, 3.0)}, (double)sx, (double)sy, ec); return std::string("ran"); });
    emitM("scale0", "ERR_SCALE0 " + E() + " " + std::to_string(sx) + " " + std::to_string(sy), got);
    if (!sx || !sy) { stat("reporting.scale0"); if (!(got == "threw 2" || (!EXC && (ec & 2)))) emitF("scale0", "zero scale not reported: " + got); }
  }
  for (size_t n = 0; n < 8; ++n) {
    std::vector<int64_t> v(n, 7);
    std::string got = outcome([&] { Path64 r = MakePath(v); return "points " + std::to_string(r.size()); });
    emitM("makepath", "ERR_MAKEPATH " + E() + " " + std::to_string(n), got);
    std::vector<double> vd(n, 7.5);
    std::string gotd = outcome([&] { PathD r = MakePathD(vd); return "points " + std::to_string(r.size()); });
    emitM("makepathD", "ERR_MAKEPATH " + E() + " " + std::to_string(n), gotd);
  }
  // ---------------------------------------------------------------- success part
  static const ClipType CTS[] = {ClipType::NoClip, ClipType::Intersection, ClipType::Union, ClipType::Difference, ClipType::Xor};
  static const FillRule FRS[] = {FillRule::EvenOdd, FillRule::NonZero, FillRule::Positive, FillRule::Negative};
  int N = thorough ? 6000 : 500;
  for (int i = 0; i < N; ++i) {
    Paths64 s, c, o;
    int kind = i % 4;
    if (kind == 0) { GpInput in = gen_gp(g); s = in.subj; c = in.clip; }
    else {
      int64_t range = kind == 1 ? 6 : kind == 2 ? 50 : ((int64_t)1 << 35);  // extremes up to 2^62 are C10's business
      auto mk = [&](int n) { Path64 p; for (int k = 0; k < n; ++k) p.emplace_back(g.range(-range, range), g.range(-range, range)); if (g.chance(20) && n > 1) p[n - 1] = p[0]; if (g.chance(15) && n > 2) p[1] = p[0]; return p; };
      for (int k = (int)g.range(0, 3); k > 0; --k) s.push_back(mk((int)g.range(0, 7)));
      for (int k = (int)g.range(0, 3); k > 0; --k) c.push_back(mk((int)g.range(0, 7)));
      for (int k = (int)g.range(0, 2); k > 0; --k) o.push_back(mk((int)g.range(0, 5)));
      if (kind == 3) { o.clear(); }
    }
    ClipType ct = CTS[g.next() % 5]; FillRule fr = FRS[g.next() % 4];
    Clipper64 cl; cl.PreserveCollinear(g.coin()); cl.AddSubject(s); cl.AddOpenSubject(o); cl.AddClip(c);
    // the solution containers arrive holding stale paths (a caller re-using them): nothing of that may survive an Execute
    const Path64 junk{Point64(700000001, 700000003), Point64(700000002, 700000003), Point64(700000001, 700000005)};
    auto has_junk = [&](const Paths64& ps) { for (auto& p : ps) if (p == junk) return true; return false; };
    bool prefilled = g.coin();
    Paths64 sol, solo;
    if (prefilled) { sol.push_back(junk); solo.push_back(junk); solo.push_back(junk); stat("success.prefilled_containers"); }
    bool ok;
    if (g.coin()) ok = cl.Execute(ct, fr, sol, solo); else { PolyTree64 t; ok = cl.Execute(ct, fr, t, solo); sol = PolyTreeToPaths64(t); }
    stat("success.executions");
    stat("success.kind." + std::to_string(kind));
    if (!ok) emitF("execute-returned-false", "ct=" + std::to_string((int)ct) + " fr=" + std::to_string((int)fr) + " subj=" + S(s) + " open=" + S(o) + " clip=" + S(c));
    if (ct == ClipType::NoClip) { stat("success.noclip"); if (!sol.empty() || !solo.empty()) emitF("noclip-not-empty", "subj=" + S(s) + " clip=" + S(c)); }
    if (has_junk(sol) || has_junk(solo)) emitF("stale-solution-kept", "Clipper64 ct=" + std::to_string((int)ct) + " subj=" + S(s) + " open=" + S(o) + " clip=" + S(c));
    if (kind != 0) {   // (general-position inputs reach 2^60: out of ClipperD's range once scaled)
      // the same through ClipperD (all four Execute overloads), containers pre-filled
      int prec = (int)g.range(0, 2);
      auto toD = [&](const Paths64& ps) { PathsD r; for (auto& p : ps) { PathD q; for (auto& v : p) q.emplace_back((double)v.x, (double)v.y); r.push_back(q); } return r; };
      const PathD junkD{PointD(700000001.0, 700000003.0), PointD(700000002.0, 700000003.0), PointD(700000001.0, 700000005.0)};
      auto has_junkD = [&](const PathsD& ps) { for (auto& p : ps) if (p == junkD) return true; return false; };
      bool with_open = g.coin();
      ClipperD cd(prec); cd.AddSubject(toD(s)); if (with_open) cd.AddOpenSubject(toD(o)); cd.AddClip(toD(c));
      PathsD sd{junkD}, od{junkD, junkD}; PolyTreeD td;
      int ov = (int)(g.next() % 4); bool okd; bool used_od = false, used_sd = false;
      if (ov == 0) { okd = cd.Execute(ct, fr, sd, od); used_od = used_sd = true; }
      else if (ov == 1) { okd = cd.Execute(ct, fr, sd); used_sd = true; }
      else if (ov == 2) { okd = cd.Execute(ct, fr, td, od); used_od = true; }
      else okd = cd.Execute(ct, fr, td);
      stat("success.executions.ClipperD.overload" + std::to_string(ov));
      std::string d = "ClipperD(" + std::to_string(prec) + ") overload " + std::to_string(ov) + " ct=" + std::to_string((int)ct) + " fr=" + std::to_string((int)fr) + " subj=" + S(s) + (with_open ? " open=" + S(o) : std::string(" no open subjects")) + " clip=" + S(c);
      if (cd.ErrorCode() == 0) {
        if (!okd) emitF("execute-returned-false", d);
        if (ct == ClipType::NoClip && ((used_sd && !sd.empty()) || (used_od && !od.empty()) || (!used_sd && td.Count() != 0))) emitF("noclip-not-empty", d);
        if ((used_sd && has_junkD(sd)) || (used_od && has_junkD(od))) emitF("stale-solution-kept", d);
      } else stat("success.ClipperD.range_error");
    }
  }
  // clippers fed from a ReuseableDataContainer64 (AddReuseableData marks the object "not yet succeeded" until the next Reset)
  for (int i = 0; i < (thorough ? 400 : 60); ++i) {
    GpInput in = gen_gp(g);
    ReuseableDataContainer64 rd; rd.AddPaths(in.subj, PathType::Subject, false); rd.AddPaths(in.clip, PathType::Clip, false);
    for (int ct = 0; ct <= 4; ++ct) {
      Clipper64 cl; cl.AddReuseableData(rd);
      Paths64 sol; PolyTree64 tree;
      bool ok = (i & 1) ? cl.Execute((ClipType)ct, FRS[i % 4], sol) : cl.Execute((ClipType)ct, FRS[i % 4], tree);
      stat("success.reuseable");
      if (!ok) emitF("execute-returned-false", "AddReuseableData then Execute ct=" + std::to_string(ct) + " fr=" + std::to_string(i % 4) + " subj=" + S(in.subj) + " clip=" + S(in.clip));
      if (ct == 0 && (!sol.empty() || tree.Count() != 0)) emitF("noclip-not-empty", "reuseable data, NoClip");
    }
  }
  // C boundary: out-of-range clip type / fill rule / precision must be rejected with a negative code (or nullptr) — all values
  {
    int64_t sq[] = {12, 1, 4, 0, 0, 0, 10, 0, 10, 10, 0, 10};   // CPaths64: [A=12, C=1, N=4, 0, x,y …]
    double sqd[] = {12, 1, 4, 0, 0, 0, 10, 0, 10, 10, 0, 10};
#ifdef USINGZ
    (void)sq; (void)sqd;
#else
    for (int ct = 0; ct < 256; ++ct) for (int fr = 0; fr < 256; fr += (ct < 6 ? 1 : 37)) {
      bool bad = ct > 4 || fr > 3;
      int64_t *sol = nullptr, *solo = nullptr; double *sold = nullptr, *solod = nullptr;
      int r1 = BooleanOp64((uint8_t)ct, (uint8_t)fr, sq, nullptr, sq, sol, solo, true, false);
      int r2 = BooleanOpD((uint8_t)ct, (uint8_t)fr, sqd, nullptr, sqd, sold, solod, 2, true, false);
      stat("export.validation.calls", 2);
      if (bad != (r1 < 0)) emitF("export.validation", "BooleanOp64 cliptype=" + std::to_string(ct) + " fillrule=" + std::to_string(fr) + " returned " + std::to_string(r1));
      if (bad != (r2 < 0)) emitF("export.validation", "BooleanOpD cliptype=" + std::to_string(ct) + " fillrule=" + std::to_string(fr) + " precision=2 returned " + std::to_string(r2));
      if (bad && (sol || solo || sold || solod)) emitF("export.validation", "output pointers touched on a rejected call ct=" + std::to_string(ct) + " fr=" + std::to_string(fr));
      DisposeArray64(sol); DisposeArray64(solo); DisposeArrayD(sold); DisposeArrayD(solod);
    }
    for (int p : {-100, -9, 9, 10, 1000}) {
      double *sold = nullptr, *solod = nullptr;
      int r = BooleanOpD(1, 1, sqd, nullptr, sqd, sold, solod, p, true, false);
      stat("export.validation.calls");
      if (r >= 0) emitF("export.validation", "BooleanOpD precision=" + std::to_string(p) + " returned " + std::to_string(r));
      DisposeArrayD(sold); DisposeArrayD(solod);
    }
#endif
  }
  {
    ClipperD cd(2); cd.AddSubject(squaresD(1.0)); cd.AddClip(squaresD(0.7));
    PathsD sol{PathD{PointD(1.0, 1.0)}};
    bool ok = cd.Execute(ClipType::NoClip, FillRule::NonZero, sol);
    stat("success.noclip");
    if (!ok || !sol.empty()) emitF("noclip-not-empty", "ClipperD NoClip with a non-empty solution argument: ok=" + std::to_string(ok) + " paths=" + std::to_string(sol.size()));
  }
  flush_stats();
  return 0;
}
