// C02 / C03 / C04 harness for the horizontal-join machinery of the sweep:
//   DuplicateOp, GetLastOp, AddTrialHorzJoin, UpdateHorzSegment, ConvertHorzSegsToJoins, ProcessHorzJoins, Path1InsidePath2
// are called as they are compiled from /repo (private access, no change to the library) and compared, field by field, with the Lean model
// `Model/HorzJoins.lean` (driver command HORZJOINS, lean/ClipperVerif/Driver/HorzJoins.lean).
//
// A heap travels as
//     nOps (x y next prev orec horz)*  nRecs (pts owner nSplits split* hasEdges isOpen)*
// with OutPt* / OutRec* as indices (-1 = nullptr; nSplits = -1: `splits == nullptr`).  OutPts are numbered in the order in which they are met
// walking the rings of outrec_list_; OutPts created by ConvertHorzSegsToJoins are numbered by their position in horz_join_list_ (op1, then op2)
// - not by allocation order, which C++ leaves unspecified for the two DuplicateOp calls of one HorzJoin(...) expression.
//
// Two sources of heaps:
//  (a) hand-built: rectilinear rings on a 7x7 lattice (rectangles, staircases, closed rectilinear walks, with collinear and repeated points),
//      several rings sharing horizontal lines, records with and without `front_edge`, emptied records with owner chains whose OutPts still
//      point to them (as JoinOutrecPaths leaves them), pre-filled `splits`; trial segments on one line (and, rarely, on mixed lines); joins made
//      by the real ConvertHorzSegsToJoins over several rounds, or between arbitrary OutPts.  UpdateHorzSegment / DuplicateOp additionally on
//      rings lying entirely on one horizontal line and on rings of 1-2 OutPts.
//  (b) real sweeps: ExecuteInternal's loop is replicated in the harness *calling the real private members* (Reset, PopScanline,
//      InsertLocalMinimaIntoAEL, PopHorz, DoHorizontal, ConvertHorzSegsToJoins, DoIntersections, DoTopOfScanbeam, ProcessHorzJoins) so that the
//      heap can be dumped immediately before and after every ConvertHorzSegsToJoins and before/after ProcessHorzJoins; the result of the
//      replicated loop (BuildPaths64 / BuildTree64) is compared with a genuine Execute on the same input (F record if they differ, so a
//      change of ExecuteInternal that the replica does not follow is reported, not silently missed).
//      Inputs: 2-7 rectangles / staircases / closed rectilinear walks on a 7x7 lattice (scale 1 or 10), all clip types and fill rules, paths and
//      polytree; the rectilinear corpus of harness/C04.cpp (split_then_merged, island_under_joined_hole, nested_splits, the two known
//      top-level-island inputs) and of C02.
// Spec level (S records, HORZJOINSHYP): on every real before/after pair the Lean side decides the hypotheses of the theorems of
// Props/C02Horz.lean - through Decidable instances of the very propositions, or checkers proved sound - (the heap falls into rings,
// each owned by one live record to which all its OutPts resolve = WF; trial OutPts on one scanline; join ops distinct and flat) and
// re-checks their conclusions on the engine's own result (WF kept, records/old points untouched by ConvertHorzSegsToJoins, new OutPts
// = 2 x new joins, numbered consecutively, each a duplicate of an old OutPt on the scanline, joins flat; ProcessHorzJoins moves no
// point, one ring more per split and one less per merge, no diagonal edge from flat joins; UpdateHorzSegment's run ends = the
// takeWhile characterisation).  `strict` = 1 for heaps of real sweeps (a violated premise is a FAIL: e.g. a trial OutPt registered on
// another scanline), 0 for the hand-built heaps, which violate premises on purpose (mixed lines, arbitrary joins: `ok skip ...`).
#define VERIF_PRIVATE_ACCESS
#include "unity.h"
#include "common.h"
#include "gp_gen.h"
#include <unordered_map>
#include <unordered_set>
#include <csignal>
#include <unistd.h>
using namespace vh;

// ---------------------------------------------------------------------------------------------------------------- heap dump
struct Ids {
  std::unordered_map<const OutPt*, int> id;
  std::vector<const OutPt*> ops;
  int of(const OutPt* p) const { if (!p) return -1; auto it = id.find(p); return it == id.end() ? -2 : it->second; }
  void add(const OutPt* p) { if (!id.count(p)) { id[p] = (int)ops.size(); ops.push_back(p); } }
};
static bool g_bad = false;   // a pointer that could not be named was met

static void enumerate(const ClipperBase& c, Ids& h) {
  for (const OutRec* o : c.outrec_list_)
    if (o->pts) { const OutPt* op = o->pts; int n = 0; do { h.add(op); op = op->next; } while (op != o->pts && ++n < 10000000); }
}
static int rec_index(const ClipperBase& c, const OutRec* o) {
  if (!o) return -1;
  for (size_t i = 0; i < c.outrec_list_.size(); ++i) if (c.outrec_list_[i] == o) return (int)i;
  return -2;
}
static std::string dump_heap(const ClipperBase& c, const Ids& h) {
  std::unordered_map<const OutRec*, int> ridx;
  for (size_t i = 0; i < c.outrec_list_.size(); ++i) ridx[c.outrec_list_[i]] = (int)i;
  auto rid = [&](const OutRec* o) { if (!o) return -1; auto it = ridx.find(o); if (it == ridx.end()) { g_bad = true; return -2; } return it->second; };
  std::string s = std::to_string(h.ops.size());
  for (const OutPt* op : h.ops) {
    int nx = h.of(op->next), pv = h.of(op->prev);
    if (nx < 0 || pv < 0) g_bad = true;
    s += " " + S(op->pt) + " " + std::to_string(nx) + " " + std::to_string(pv) + " " + std::to_string(rid(op->outrec)) + (op->horz ? " 1" : " 0");
  }
  s += " " + std::to_string(c.outrec_list_.size());
  for (const OutRec* o : c.outrec_list_) {
    int p = h.of(o->pts);
    if (p == -2) g_bad = true;
    s += " " + std::to_string(p) + " " + std::to_string(rid(o->owner));
    if (!o->splits) s += " -1";
    else { s += " " + std::to_string(o->splits->size()); for (const OutRec* q : *o->splits) s += " " + std::to_string(rid(q)); }
    s += std::string(o->front_edge ? " 1" : " 0") + (o->is_open ? " 1" : " 0");
  }
  return s;
}
static std::string dump_segs_in(const ClipperBase& c, const Ids& h) {
  std::string s = std::to_string(c.horz_seg_list_.size());
  for (const HorzSegment& hs : c.horz_seg_list_) { int l = h.of(hs.left_op); if (l < 0) g_bad = true; s += " " + std::to_string(l); }
  return s;
}
static std::string dump_segs_out(const ClipperBase& c, const Ids& h) {
  std::string s = std::to_string(c.horz_seg_list_.size());
  for (const HorzSegment& hs : c.horz_seg_list_) {
    int l = h.of(hs.left_op), r = h.of(hs.right_op);
    if (l < 0 || r == -2) g_bad = true;
    s += " " + std::to_string(l) + " " + std::to_string(r) + (hs.left_to_right ? " 1" : " 0");
  }
  return s;
}
static std::string dump_joins(const ClipperBase& c, const Ids& h) {
  std::string s = std::to_string(c.horz_join_list_.size());
  for (const HorzJoin& j : c.horz_join_list_) { int a = h.of(j.op1), b = h.of(j.op2); if (a < 0 || b < 0) g_bad = true; s += " " + std::to_string(a) + " " + std::to_string(b); }
  return s;
}

// watchdog: a hang of the real code becomes an F record carrying the input
static std::string g_current;
static void on_alarm(int) {
  printf("F\thang\tthe real code did not return within 20 s: %s\n", g_current.c_str());
  fflush(stdout);
  _exit(3);
}
struct Guard {
  explicit Guard(const std::string& what) { g_current = what; alarm(20); }
  ~Guard() { alarm(0); }
};

// ConvertHorzSegsToJoins on the clipper's current state: one M record (+ one S record)
static long long g_convert_joins = 0;
static void convert_record(ClipperBase& c, const std::string& label, bool strict) {
  Ids h; enumerate(c, h);
  g_bad = false;
  std::string before = dump_heap(c, h), segs = dump_segs_in(c, h), joins0 = dump_joins(c, h);
  size_t nj0 = c.horz_join_list_.size();
  bool bad_before = g_bad;
  {
    Guard w("ConvertHorzSegsToJoins " + before + " " + segs);
    c.ConvertHorzSegsToJoins();
  }
  for (size_t k = nj0; k < c.horz_join_list_.size(); ++k) { h.add(c.horz_join_list_[k].op1); h.add(c.horz_join_list_[k].op2); }
  g_bad = false;
  std::string after = dump_heap(c, h), segs1 = dump_segs_out(c, h), joins1 = dump_joins(c, h);
  // every OutPt reachable now must have a name
  { Ids h2 = h; size_t n = h2.ops.size(); enumerate(c, h2); if (h2.ops.size() != n) g_bad = true; }
  if (bad_before || g_bad) { emitF("heap-dump", label + ": an OutPt/OutRec pointer outside the enumerated heap was met: " + before); return; }
  std::string req = before + " " + segs + " " + joins0;
  emitM(label, "HORZJOINS CONVERT " + req, after + " " + segs1 + " " + joins1);
  emitS(label + ".hyp", std::string("HORZJOINSHYP CONVERT ") + (strict ? "1 " : "0 ") + req + " " + after + " " + joins1);
  size_t made = c.horz_join_list_.size() - nj0;
  g_convert_joins += (long long)made;
  stat("convert.calls");
  stat("convert.segments", (long long)c.horz_seg_list_.size());
  stat("convert.joins_made", (long long)made);
  if (made) stat("convert.calls_making_joins");
}

static long long g_process_splits = 0, g_process_merges = 0;
static void process_record(ClipperBase& c, const std::string& label, bool strict) {
  Ids h; enumerate(c, h);
  for (const HorzJoin& j : c.horz_join_list_) { h.add(j.op1); h.add(j.op2); }
  g_bad = false;
  std::string before = dump_heap(c, h), joins = dump_joins(c, h);
  bool bad_before = g_bad;
  size_t nrec0 = c.outrec_list_.size();
  size_t live0 = 0; for (const OutRec* o : c.outrec_list_) if (o->pts) ++live0;
  {
    Guard w("ProcessHorzJoins polytree=" + std::to_string((int)c.using_polytree_) + " " + before + " " + joins);
    c.ProcessHorzJoins();
  }
  g_bad = false;
  std::string after = dump_heap(c, h);
  { Ids h2 = h; size_t n = h2.ops.size(); enumerate(c, h2); if (h2.ops.size() != n) g_bad = true; }
  if (bad_before || g_bad) { emitF("heap-dump", label + ": an OutPt/OutRec pointer outside the enumerated heap was met: " + before); return; }
  std::string req = std::string(c.using_polytree_ ? "1 " : "0 ") + before + " " + joins;
  emitM(label, "HORZJOINS PROCESS " + req, after);
  emitS(label + ".hyp", std::string("HORZJOINSHYP PROCESS ") + (strict ? "1 " : "0 ") + req + " " + after);
  size_t splits = c.outrec_list_.size() - nrec0;
  size_t live1 = 0; for (const OutRec* o : c.outrec_list_) if (o->pts) ++live1;
  size_t merges = c.horz_join_list_.size() - splits;
  stat("process.calls");
  stat(c.using_polytree_ ? "process.calls.polytree" : "process.calls.paths");
  stat("process.joins", (long long)c.horz_join_list_.size());
  stat("process.joins.split_branch", (long long)splits);
  stat("process.joins.merge_branch", (long long)merges);
  if (splits && merges) stat("process.calls_with_split_and_merge");
  g_process_splits += (long long)splits; g_process_merges += (long long)merges;
  (void)live0; (void)live1;
}

// ---------------------------------------------------------------------------------------------------------------- (b) real sweeps
// ExecuteInternal, statement by statement, on the real private members
static bool replica_execute_internal(Clipper64& c, ClipType ct, FillRule fr, bool use_polytrees, const std::string& kind) {
  c.cliptype_ = ct;
  c.fillrule_ = fr;
  c.using_polytree_ = use_polytrees;
  c.Reset();
  int64_t y;
  if (ct == ClipType::NoClip || !c.PopScanline(y)) return true;
  while (c.succeeded_) {
    c.InsertLocalMinimaIntoAEL(y);
    Active* e;
    while (c.PopHorz(e)) c.DoHorizontal(*e);
    if (c.horz_seg_list_.size() > 0) {
      convert_record(c, "convert.sweep." + kind, true);       // calls ConvertHorzSegsToJoins()
      c.horz_seg_list_.clear();
    }
    c.bot_y_ = y;
    if (!c.PopScanline(y)) break;
    c.DoIntersections(y);
    c.DoTopOfScanbeam(y);
    while (c.PopHorz(e)) c.DoHorizontal(*e);
  }
  if (c.succeeded_) process_record(c, "process.sweep." + kind, true);   // calls ProcessHorzJoins()
  return c.succeeded_;
}

static void ser_tree(const PolyPath64& n, std::string& s) {
  s += "(" + S(n.Polygon());
  for (size_t i = 0; i < n.Count(); ++i) ser_tree(*n.Child(i), s);
  s += ")";
}

static void run_sweep(const Paths64& subj, const Paths64& clip, ClipType ct, FillRule fr, bool tree, bool pc, bool rev, const std::string& kind) {
  std::string in = "kind=" + kind + " ct=" + std::to_string((int)ct) + " fr=" + std::to_string((int)fr) + " tree=" + std::to_string((int)tree) + " pc=" + std::to_string((int)pc) +
                   " rev=" + std::to_string((int)rev) + " subj=" + S(subj) + " clip=" + S(clip);
  std::string got, want;
  long long joins_before = g_convert_joins;
  {
    Clipper64 c; c.PreserveCollinear(pc); c.ReverseSolution(rev); c.AddSubject(subj); c.AddClip(clip);
    Paths64 closed, opn; PolyTree64 t;
    bool ok = replica_execute_internal(c, ct, fr, tree, kind);
    if (ok) {
      Guard w("Build after replica " + in);
      if (tree) { c.BuildTree64(t, opn); ser_tree(t, got); } else { c.BuildPaths64(closed, &opn); got = S(closed); }
    }
    c.CleanUp();
    got += ok ? " ok" : " failed";
  }
  {
    Clipper64 c; c.PreserveCollinear(pc); c.ReverseSolution(rev); c.AddSubject(subj); c.AddClip(clip);
    Paths64 closed, opn; PolyTree64 t;
    bool ok;
    if (tree) { ok = c.Execute(ct, fr, t, opn); ser_tree(t, want); } else { ok = c.Execute(ct, fr, closed, opn); want = S(closed); }
    want += ok ? " ok" : " failed";
  }
  if (got != want) emitF("replica-differs-from-execute", in + " replica=" + got + " execute=" + want);
  stat("sweep.runs");
  stat("sweep.runs." + kind);
  if (g_convert_joins > joins_before) stat("sweep.runs_with_joins");
  stat(tree ? "sweep.polytree" : "sweep.paths");
}

// ---------------------------------------------------------------------------------------------------------------- generators
static const int L = 6;   // lattice 0..L

// closed rectilinear walk with 2n corners: (x0,y0) (x1,y0) (x1,y1) (x2,y1) ... (x0,y_{n-1})
static Path64 gen_walk(Rng& g, int n, int64_t sc = 1) {
  std::vector<int64_t> xs(n), ys(n);
  for (int i = 0; i < n; ++i) { xs[i] = g.range(0, L); ys[i] = g.range(0, L); }
  for (int pass = 0; pass < 4; ++pass)
    for (int i = 0; i < n; ++i) {
      while (xs[i] == xs[(i + 1) % n]) xs[i] = g.range(0, L);
      while (ys[i] == ys[(i + 1) % n]) ys[i] = g.range(0, L);
    }
  Path64 p;
  for (int i = 0; i < n; ++i) { p.emplace_back(xs[i] * sc, ys[i] * sc); p.emplace_back(xs[(i + 1) % n] * sc, ys[i] * sc); }
  if (g.coin()) std::reverse(p.begin(), p.end());
  return p;
}
static Path64 gen_rect(Rng& g, int64_t sc = 1) {
  int64_t l = g.range(0, L - 1), r = g.range(l + 1, L), t = g.range(0, L - 1), b = g.range(t + 1, L);
  Path64 p = rect_path(l * sc, t * sc, r * sc, b * sc);
  if (g.coin()) std::reverse(p.begin(), p.end());
  return p;
}
static Path64 gen_stairs(Rng& g, int64_t sc = 1) {
  // monotone staircase from (0,0) up-right, closed along the axes
  int k = (int)g.range(2, 4);
  std::vector<int64_t> xs, ys;
  int64_t x = 0, y = L;
  Path64 p; p.emplace_back((int64_t)0, (int64_t)(L * sc));
  for (int i = 0; i < k && x < L && y > 0; ++i) {
    x = g.range(x + 1, std::min<int64_t>(L, x + 3)); p.emplace_back(x * sc, y * sc);
    y = g.range(std::max<int64_t>(0, y - 3), y - 1); p.emplace_back(x * sc, y * sc);
  }
  if (y != 0) { p.emplace_back((int64_t)(x * sc), (int64_t)0); }
  if (p.back().x != 0) p.emplace_back((int64_t)0, (int64_t)0); else p.back() = Point64(0, 0);
  // remove degenerate repeat
  Path64 q; for (auto& v : p) if (q.empty() || !(q.back() == v)) q.push_back(v);
  if (g.coin()) std::reverse(q.begin(), q.end());
  if (g.coin()) for (auto& v : q) v.x = L * sc - v.x;
  return q;
}
// insert collinear lattice points on edges and repeated points
static Path64 decorate(Rng& g, const Path64& p, int pct_mid, int pct_dup) {
  Path64 q;
  size_t n = p.size();
  for (size_t i = 0; i < n; ++i) {
    const Point64& a = p[i]; const Point64& b = p[(i + 1) % n];
    q.push_back(a);
    if (g.chance(pct_dup)) q.push_back(a);
    if (a.y == b.y && std::llabs(b.x - a.x) > 1 && g.chance(pct_mid)) {
      int64_t lo = std::min(a.x, b.x) + 1, hi = std::max(a.x, b.x) - 1;
      int64_t m1 = g.range(lo, hi);
      q.emplace_back(m1, a.y);
      if (g.chance(30)) { int64_t m2 = g.range(lo, hi); if ((b.x > a.x) == (m2 > m1) && m2 != m1) q.emplace_back(m2, a.y); }
    } else if (a.x == b.x && std::llabs(b.y - a.y) > 1 && g.chance(pct_mid / 2)) {
      q.emplace_back(a.x, g.range(std::min(a.y, b.y) + 1, std::max(a.y, b.y) - 1));
    }
  }
  return q;
}
static Path64 gen_ring_path(Rng& g) {
  Path64 p;
  switch (g.next() % 4) {
    case 0: p = gen_rect(g); break;
    case 1: p = gen_stairs(g); break;
    default: p = gen_walk(g, (int)g.range(2, 4)); break;
  }
  return decorate(g, p, 40, 10);
}

// ---------------------------------------------------------------------------------------------------------------- (a) hand-built heaps
struct Built {
  Clipper64 c;
  std::vector<OutPt*> mine;        // every OutPt this harness allocated
  std::vector<OutRec*> live;       // records owning a ring
  static Active& dummy_edge() { static Active a; return a; }
  OutPt* ring_of(OutRec* r, const Path64& p) {
    OutPt* first = nullptr; OutPt* last = nullptr;
    for (const Point64& q : p) {
      OutPt* op = new OutPt(q, r);
      mine.push_back(op);
      if (!first) first = op; else { last->next = op; op->prev = last; }
      last = op;
    }
    last->next = first; first->prev = last;
    return first;
  }
  // a live record with the given ring; `pts` is a random OutPt of it
  OutRec* add_ring(Rng& g, const Path64& p, bool edges) {
    OutRec* r = c.NewOutRec();
    OutPt* first = ring_of(r, p);
    int k = (int)(g.next() % p.size());
    OutPt* op = first; while (k--) op = op->next;
    r->pts = op;
    if (edges) { r->front_edge = &dummy_edge(); r->back_edge = &dummy_edge(); }
    live.push_back(r);
    return r;
  }
  // an emptied record whose owner chain ends at `target`; a stretch of target's ring is relabelled to it (as after JoinOutrecPaths)
  void add_dead_alias(Rng& g, OutRec* target, int chain) {
    OutRec* prev = target;
    for (int i = 0; i < chain; ++i) {
      OutRec* d = c.NewOutRec();
      d->owner = prev;
      prev = d;
    }
    OutPt* op = target->pts; int skip = (int)g.range(0, 6); while (skip--) op = op->next;
    int len = (int)g.range(1, 5);
    while (len--) { op->outrec = prev; op = op->next; }
  }
  void collect_new() {
    std::unordered_set<OutPt*> known(mine.begin(), mine.end());
    for (const HorzJoin& j : c.horz_join_list_) { if (!known.count(j.op1)) { known.insert(j.op1); mine.push_back(j.op1); } if (!known.count(j.op2)) { known.insert(j.op2); mine.push_back(j.op2); } }
  }
  ~Built() {
    collect_new();
    for (OutPt* op : mine) delete op;
    for (OutRec* o : c.outrec_list_) { o->pts = nullptr; o->front_edge = nullptr; o->back_edge = nullptr; }
    c.horz_seg_list_.clear(); c.horz_join_list_.clear();
    // ~ClipperBase deletes the records (and their splits vectors)
  }
};

static std::vector<OutPt*> all_ops(Built& b) {
  Ids h; enumerate(b.c, h);
  std::vector<OutPt*> v; for (const OutPt* p : h.ops) v.push_back(const_cast<OutPt*>(p));
  return v;
}

static void build_random(Rng& g, Built& b, bool allow_edges, bool with_owner_tree) {
  int nr = (int)g.range(1, 4);
  for (int i = 0; i < nr; ++i) b.add_ring(g, gen_ring_path(g), allow_edges && g.chance(30));
  if (g.chance(40)) { int nd = (int)g.range(1, 2); for (int i = 0; i < nd; ++i) b.add_dead_alias(g, b.live[g.next() % b.live.size()], (int)g.range(1, 2)); }
  if (with_owner_tree) {
    // an acyclic owner structure among the live records and some pre-filled splits
    for (size_t i = 1; i < b.live.size(); ++i) if (g.chance(50)) b.live[i]->owner = b.live[g.next() % i];
    for (OutRec* r : b.live) if (g.chance(25)) { r->splits = new OutRecList(); int k = (int)g.range(0, 2); while (k--) r->splits->push_back(b.c.outrec_list_[g.next() % b.c.outrec_list_.size()]); }
  }
}

// trial segments: OutPts on the line y0 (rarely: on any line)
static void add_trials(Rng& g, Built& b, int64_t y0, bool mixed) {
  std::vector<OutPt*> cand;
  for (OutPt* op : all_ops(b)) if (mixed ? g.chance(30) : op->pt.y == y0) cand.push_back(op);
  if (cand.empty()) return;
  int n = (int)g.range(1, 6);
  for (int i = 0; i < n; ++i) { Guard w("AddTrialHorzJoin"); b.c.AddTrialHorzJoin(cand[g.next() % cand.size()]); }
}

static bool ring_is_flat(const OutRec* r) {
  const OutPt* op = r->pts; do { if (op->pt.y != r->pts->pt.y) return false; op = op->next; } while (op != r->pts);
  return true;
}

static void handbuilt_convert_process(Rng& g, bool mixed) {
  Built b;
  build_random(g, b, true, true);
  for (OutRec* r : b.live) if (ring_is_flat(r)) { stat("handbuilt.skipped_flat_ring"); return; }
  int rounds = (int)g.range(1, 4);
  for (int r = 0; r < rounds; ++r) {
    add_trials(g, b, g.range(0, L), mixed);
    if (b.c.horz_seg_list_.empty()) continue;
    convert_record(b.c, mixed ? "convert.handbuilt.mixed_lines" : "convert.handbuilt", false);
    b.c.horz_seg_list_.clear();
    b.collect_new();
  }
  // the sweep is over when ProcessHorzJoins runs: no record has edges any more
  for (OutRec* o : b.c.outrec_list_) { o->front_edge = nullptr; o->back_edge = nullptr; }
  if (g.chance(20)) {
    // additional joins between arbitrary OutPts (duplicated by the real DuplicateOp, as ConvertHorzSegsToJoins would)
    std::vector<OutPt*> ops = all_ops(b);
    int k = (int)g.range(1, 3);
    for (int i = 0; i < k; ++i) {
      OutPt* a = DuplicateOp(ops[g.next() % ops.size()], true);
      OutPt* z = DuplicateOp(ops[g.next() % ops.size()], false);
      b.mine.push_back(a); b.mine.push_back(z);
      b.c.horz_join_list_.emplace_back(HorzJoin(a, z));
    }
    stat("handbuilt.arbitrary_joins", k);
  }
  b.c.using_polytree_ = g.coin();
  if (!b.c.horz_join_list_.empty()) process_record(b.c, mixed ? "process.handbuilt.mixed_lines" : "process.handbuilt", false);
  stat("handbuilt.heaps");
}

// UpdateHorzSegment / DuplicateOp / GetLastOp / AddTrialHorzJoin one call at a time, including degenerate rings
static void handbuilt_small(Rng& g) {
  Built b;
  int kind = (int)(g.next() % 5);
  if (kind == 0) {           // a ring entirely on one horizontal line
    Path64 p; int n = (int)g.range(1, 6); int64_t y = g.range(0, L);
    for (int i = 0; i < n; ++i) p.emplace_back(g.range(0, L), y);
    b.add_ring(g, p, g.coin());
    stat("small.flat_ring");
  } else if (kind == 1) {    // 1-2 OutPts
    Path64 p; int n = (int)g.range(1, 2);
    for (int i = 0; i < n; ++i) p.emplace_back(g.range(0, L), g.range(0, 1));
    b.add_ring(g, p, g.coin());
    stat("small.tiny_ring");
  } else {
    build_random(g, b, true, false);
    stat("small.random");
  }
  std::vector<OutPt*> ops = all_ops(b);
  for (int rep = 0; rep < 4; ++rep) {
    Ids h; enumerate(b.c, h);
    OutPt* op = ops[g.next() % ops.size()];
    g_bad = false;
    std::string before = dump_heap(b.c, h);
    int what = (int)(g.next() % 4);
    if (what <= 1) {
      HorzSegment hs(op);
      bool res;
      { Guard w("UpdateHorzSegment " + before + " op=" + std::to_string(h.of(op))); res = UpdateHorzSegment(hs); }
      std::string after = dump_heap(b.c, h);
      emitM("update", "HORZJOINS UPDATE " + before + " " + std::to_string(h.of(op)),
            std::string(res ? "1 " : "0 ") + std::to_string(h.of(hs.left_op)) + " " + std::to_string(h.of(hs.right_op)) + (hs.left_to_right ? " 1 " : " 0 ") + after);
      emitS("update.hyp", "HORZJOINSHYP UPDATE " + before + " " + std::to_string(h.of(op)) + " " + std::string(res ? "1 " : "0 ") + std::to_string(h.of(hs.left_op)) + " " +
                              std::to_string(h.of(hs.right_op)) + (hs.left_to_right ? " 1" : " 0"));
      stat(res ? "update.true" : "update.false");
      // the mark refers to a local object: clear it again (only its nullness is ever read)
      for (OutPt* q : ops) if (q->horz == &hs) q->horz = nullptr;
    } else if (what == 2) {
      bool after_ = g.coin();
      OutPt* d = DuplicateOp(op, after_);
      b.mine.push_back(d); ops.push_back(d);
      h.add(d);
      emitM("dup", "HORZJOINS DUP " + before + " " + std::to_string(h.of(op)) + (after_ ? " 1" : " 0"), std::to_string(h.of(d)) + " " + dump_heap(b.c, h));
    } else {
      OutRec* r = b.live[g.next() % b.live.size()];
      Active e; Active other;
      bool front = g.coin();
      Active* keepf = r->front_edge; Active* keepb = r->back_edge;
      e.outrec = r; r->front_edge = front ? &e : &other; r->back_edge = front ? &other : &e;
      OutPt* last = GetLastOp(e);
      r->front_edge = keepf; r->back_edge = keepb;
      emitM("lastop", "HORZJOINS LASTOP " + before + " " + std::to_string(rec_index(b.c, r)) + (front ? " 1" : " 0"), std::to_string(h.of(last)));
      bool open_ = g.chance(30);
      op->outrec->is_open = open_;
      std::string before2 = dump_heap(b.c, h);
      size_t n0 = b.c.horz_seg_list_.size();
      b.c.AddTrialHorzJoin(op);
      emitM("trial", "HORZJOINS TRIAL " + before2 + " " + std::to_string(n0) + " " + std::to_string(h.of(op)),
            std::to_string(b.c.horz_seg_list_.size()) + (b.c.horz_seg_list_.size() > n0 ? " " + std::to_string(h.of(b.c.horz_seg_list_.back().left_op)) : ""));
      op->outrec->is_open = false;
      b.c.horz_seg_list_.clear();
    }
    if (g_bad) emitF("heap-dump", "small: unnamed pointer " + before);
  }
}

// Path1InsidePath2 on hand-built rings
static Path64 gen_any_ring(Rng& g) {
  if (g.chance(60)) return gen_ring_path(g);
  Path64 p; int n = (int)g.range(1, 7); int64_t r = g.chance(50) ? 4 : 8;
  for (int i = 0; i < n; ++i) p.emplace_back(g.range(0, r), g.range(0, r));
  return p;
}
static void inside_record(Rng& g) {
  Built b;
  Path64 p1 = gen_any_ring(g), p2 = gen_any_ring(g);
  if (g.chance(20)) { p1 = gen_rect(g); p2 = gen_rect(g); }
  OutRec* r1 = b.add_ring(g, p1, false); OutRec* r2 = b.add_ring(g, p2, false);
  Path64 s1, s2;
  { OutPt* op = r1->pts; do { s1.push_back(op->pt); op = op->next; } while (op != r1->pts); }
  { OutPt* op = r2->pts; do { s2.push_back(op->pt); op = op->next; } while (op != r2->pts); }
  bool res;
  { Guard w("Path1InsidePath2 " + S(s1) + " " + S(s2)); res = Path1InsidePath2(r1->pts, r2->pts); }
  emitM("inside", "HORZJOINS INSIDE " + S(s1) + " " + S(s2), res ? "1" : "0");
  stat(res ? "inside.true" : "inside.false");
}

// ---------------------------------------------------------------------------------------------------------------- main
static const ClipType CTS[] = {ClipType::Intersection, ClipType::Union, ClipType::Difference, ClipType::Xor};
static const FillRule FRS[] = {FillRule::EvenOdd, FillRule::NonZero, FillRule::Positive, FillRule::Negative};

static void corpus(Rng& g) {
  auto R = [](int64_t l, int64_t t, int64_t r, int64_t b) { return Path64{{l, t}, {r, t}, {r, b}, {l, b}}; };
  auto both = [&](const char* kind, ClipType ct, FillRule fr, const Paths64& s, const Paths64& c) {
    for (int tree = 0; tree < 2; ++tree) for (int pc = 0; pc < 2; ++pc) run_sweep(s, c, ct, fr, tree, pc, false, kind);
  };
  {
    Paths64 subj = {R(70, 80, 100, 110), R(30, 30, 70, 90), R(70, 10, 110, 60), R(50, 50, 110, 100), Path64{{40, 130}, {70, 130}, {70, 90}, {40, 90}},
                    R(10, 30, 70, 90), R(90, 40, 100, 60), R(0, 30, 50, 90), Path64{{60, 90}, {100, 90}, {100, 40}, {60, 40}}, R(0, 100, 60, 150)};
    Paths64 clip = {Path64{{90, 90}, {150, 90}, {150, 40}, {90, 40}}, R(100, 10, 140, 60), R(70, 50, 120, 100)};
    both("corpus.tree.split_then_merged", ClipType::Union, FillRule::EvenOdd, subj, clip);
  }
  {
    Paths64 s1 = {R(0, 0, 26, 26), R(2, 2, 24, 24), R(6, 6, 20, 20), R(8, 8, 18, 18), R(10, 20, 22, 12), R(6, 16, 22, 12), R(4, 24, 16, 12), R(16, 16, 22, 20)};
    Paths64 c1 = {R(0, 10, 20, 12)};
    both("corpus.tree.island_under_joined_hole", ClipType::Union, FillRule::EvenOdd, s1, c1);
    Paths64 s2 = {R(0, 0, 34, 34), R(2, 2, 32, 32), R(8, 8, 22, 22), R(28, 20, 30, 28), R(12, 4, 14, 10), R(12, 28, 16, 26), R(32, 12, 34, 18)};
    Paths64 c2 = {R(4, 4, 30, 30), R(6, 6, 28, 28), R(10, 2, 14, 30), R(4, 20, 22, 18), R(8, 30, 26, 26), R(16, 24, 32, 28)};
    both("corpus.tree.nested_splits", ClipType::Union, FillRule::EvenOdd, s2, c2);
  }
  both("corpus.kf.island_at_top_level", ClipType::Xor, FillRule::NonZero,
       {Path64{{2, 8}, {2, 12}, {8, 12}, {8, 16}, {12, 16}, {12, 14}, {14, 14}, {14, 8}}},
       {Path64{{0, 6}, {0, 8}, {4, 8}, {4, 10}, {8, 10}, {8, 6}}, Path64{{2, 2}, {6, 2}, {6, 8}, {2, 8}},
        Path64{{12, 0}, {12, 8}, {10, 8}, {10, 2}, {8, 2}, {8, 4}, {6, 4}, {6, 6}, {0, 6}, {0, 0}}});
  both("corpus.kf.hole_at_top_level", ClipType::Xor, FillRule::EvenOdd,
       {Path64{{4, 0}, {12, 0}, {12, 10}, {4, 10}}, Path64{{2, 2}, {2, 10}, {4, 10}, {4, 6}, {8, 6}, {8, 2}},
        Path64{{6, 2}, {10, 2}, {10, 10}, {6, 10}}, Path64{{4, 0}, {4, 2}, {8, 2}, {8, 4}, {10, 4}, {10, 6}, {12, 6}, {12, 0}}},
       {Path64{{14, 4}, {12, 4}, {12, 6}, {8, 6}, {8, 8}, {6, 8}, {6, 10}, {10, 10}, {10, 12}, {14, 12}},
        Path64{{12, 0}, {12, 8}, {6, 8}, {6, 6}, {2, 6}, {2, 2}, {0, 2}, {0, 0}}});
  // simple ones: two rectangles sharing a horizontal edge; a frame made of four bars; touching corners; a comb; nested frames
  for (ClipType ct : CTS) for (FillRule fr : {FillRule::EvenOdd, FillRule::NonZero}) {
    both("corpus.shared_horizontal_edge", ct, fr, {R(0, 0, 10, 10), R(0, 10, 10, 20)}, {R(5, 5, 15, 15)});
    both("corpus.frame_of_bars", ct, fr, {R(0, 0, 30, 10), R(0, 20, 30, 30)}, {R(0, 0, 10, 30), R(20, 0, 30, 30)});
    both("corpus.touching_corners", ct, fr, {R(0, 0, 10, 10), R(10, 10, 20, 20)}, {R(0, 10, 10, 20), R(10, 0, 20, 10)});
    both("corpus.comb", ct, fr, {R(0, 0, 70, 10), R(0, 10, 10, 40), R(20, 10, 30, 40), R(40, 10, 50, 40), R(60, 10, 70, 40)}, {R(0, 30, 70, 40), R(5, 5, 65, 35)});
    both("corpus.nested_frames", ct, fr, {R(0, 0, 60, 60), R(10, 10, 50, 50), R(20, 20, 40, 40)}, {R(0, 25, 60, 35), R(25, 0, 35, 60)});
  }
  (void)g;
}

int main(int argc, char** argv) {
  Rng g(seed_from_args(argc, argv));
  bool thorough = thorough_from_args(argc, argv);
  signal(SIGALRM, on_alarm);
  corpus(g);
  int n_sweep = thorough ? 4000 : 350, n_hand = thorough ? 6000 : 600, n_small = thorough ? 4000 : 500, n_inside = thorough ? 20000 : 2500;
  for (int i = 0; i < n_sweep; ++i) {
    Paths64 s, c;
    int64_t sc = g.chance(30) ? 10 : 1;
    std::string kind;
    switch (i % 4) {
      case 0: {  // rectangles
        int ns = (int)g.range(1, 4), nc = (int)g.range(0, 3);
        for (int k = 0; k < ns; ++k) s.push_back(gen_rect(g, sc));
        for (int k = 0; k < nc; ++k) c.push_back(gen_rect(g, sc));
        kind = "rects"; break; }
      case 1: {  // staircases and rectangles
        int ns = (int)g.range(1, 3), nc = (int)g.range(0, 3);
        for (int k = 0; k < ns; ++k) s.push_back(g.coin() ? gen_stairs(g, sc) : gen_rect(g, sc));
        for (int k = 0; k < nc; ++k) c.push_back(g.coin() ? gen_stairs(g, sc) : gen_rect(g, sc));
        kind = "stairs"; break; }
      case 2: {  // closed rectilinear walks (self-intersecting, overlapping edges), decorated with collinear and repeated points
        int ns = (int)g.range(1, 3), nc = (int)g.range(0, 2);
        for (int k = 0; k < ns; ++k) s.push_back(decorate(g, gen_walk(g, (int)g.range(2, 5), sc), 20, 5));
        for (int k = 0; k < nc; ++k) c.push_back(decorate(g, gen_walk(g, (int)g.range(2, 5), sc), 20, 5));
        kind = "walks"; break; }
      default: {  // the rectilinear generator shared with C02/C03/C04 (shared edges, touching corners)
        Input in; gen_rectilinear(g, in, sc);
        s = in.subj; c = in.clip;
        kind = "gen_rectilinear"; break; }
    }
    ClipType ct = g.chance(50) ? ClipType::Union : CTS[g.next() % 4];
    FillRule fr = g.chance(50) ? (g.coin() ? FillRule::EvenOdd : FillRule::NonZero) : FRS[g.next() % 4];
    run_sweep(s, c, ct, fr, g.coin(), g.coin(), g.chance(20), kind);
  }
  for (int i = 0; i < n_hand; ++i) handbuilt_convert_process(g, i % 10 == 9);
  for (int i = 0; i < n_small; ++i) handbuilt_small(g);
  for (int i = 0; i < n_inside; ++i) inside_record(g);
  stat("total.joins_made_by_convert", g_convert_joins);
  stat("total.process.split_branch", g_process_splits);
  stat("total.process.merge_branch", g_process_merges);
  flush_stats();
  return 0;
}
