// C07 harness: open-path offsetting (EndType Joined/Butt/Square/Round) on polylines, 1-point and 2-point paths, empty
// paths and mixtures.  The real results are judged by the Lean Spec (`STROKECHECK`), and compared with each other
// (`SAMEPATHS` for +delta/-delta, `STROKE_SAMEREGION` for reversed paths and for an added distant path).
//
// History: four deviations found with this harness were repaired in /repo (fix: commits bd5ab48, 85fe8ed, 66a5d0a and,
// for Polygon groups, 058ce9d / 7cb0e75): a 2-point path in a Joined group left end_type_ = Square/Round for the later
// paths of the group; an empty path in a non-Polygon group read path[0] / norms[0] of an empty vector; |delta| < 0.5
// returned open paths as closed polygons.  Their inputs are now ordinary corpus records (labels corpus.offset-*), and
// the generic generator places 2-point paths anywhere, emits empty paths and uses |delta| < 0.5 (including 0).
#include "offset_common.h"
#include "clipper.engine.cpp"
#include "clipper.offset.cpp"
#include "clipper.rectclip.cpp"
using namespace vh;
using namespace vo;

static const char* JT_NAME[] = {"square", "bevel", "round", "miter"};
static const char* ET_NAME[] = {"polygon", "joined", "butt", "square", "round"};

static size_t stripped_len(Path64 p, bool closed) { StripDuplicates(p, closed); return p.size(); }

// ---------------------------------------------------------------- generators (G-OPEN)
static Path64 gen_polyline(Rng& g, int64_t S, int64_t cx, int64_t cy, int n, bool closed) {
  for (int attempt = 0; attempt < 200; ++attempt) {
    Path64 p;
    double x = (double)cx + (g.unit() - 0.5) * (double)S, y = (double)cy + (g.unit() - 0.5) * (double)S;
    double th = g.unit() * 6.283185307179586;
    p.emplace_back((int64_t)std::llround(x), (int64_t)std::llround(y));
    double shortest = (double)S / (double)(1 << g.range(1, 6));
    for (int i = 1; i < n; ++i) {
      double len = shortest + g.unit() * ((double)S - shortest) * (g.chance(50) ? 0.2 : 1.0);
      if (len < 2) len = 2;
      // turn by up to ~165 degrees either way; sometimes go straight on (collinear vertex)
      // ... and sometimes by a very small angle (1e-6 .. 1e-4 rad): on long segments such a vertex still lies many units off
      // the chord of its neighbours, so it must get its join although its sine is almost zero
      double turn = g.chance(8) ? 0.0 : g.chance(10) ? (g.coin() ? 1 : -1) * std::pow(10.0, -6.0 + 2.0 * g.unit()) : (g.unit() * 2 - 1) * 2.88;
      if (std::fabs(turn) < 1e-3 && turn != 0.0) { len = (double)S * (0.5 + 0.5 * g.unit()); }
      th += turn;
      x += len * std::cos(th); y += len * std::sin(th);
      p.emplace_back((int64_t)std::llround(x), (int64_t)std::llround(y));
    }
    if (!open_turns_ok(p)) continue;
    if (closed && n >= 3) { if (p.front() == p.back() || !closed_turns_ok(p)) continue; }
    return p;
  }
  return Path64();
}

static void add_duplicates(Rng& g, Path64& p, bool closed) {
  Path64 r;
  for (auto& q : p) { r.push_back(q); if (g.chance(15)) r.push_back(q); }
  if (closed && p.size() >= 3 && g.chance(30)) r.push_back(p.front());
  p = r;
}

struct StrokeInput { Paths64 paths; int64_t S; };

static bool gen_input(Rng& g, int et, StrokeInput& in) {
  bool closed = et == 1;
  in = StrokeInput();
  in.S = log_uniform(g, 50, 1000000);
  int64_t cx = g.range(-in.S, in.S), cy = g.range(-in.S, in.S);
  int k = g.chance(45) ? 1 : (int)g.range(2, 4);
  for (int i = 0; i < k; ++i) {
    int c = (int)(g.next() % 10);
    int n = c == 0 ? 1 : (c <= 2 ? 2 : (int)g.range(3, 8));
    int64_t s = in.S / (g.chance(30) ? (1 << g.range(1, 3)) : 1);
    Path64 p = gen_polyline(g, std::max<int64_t>(s, 20), cx + g.range(-in.S / 2, in.S / 2), cy + g.range(-in.S / 2, in.S / 2), n, closed);
    if (p.empty()) return false;
    if (g.chance(12)) add_duplicates(g, p, closed);
    in.paths.push_back(p);
  }
  if (g.chance(6)) in.paths.insert(in.paths.begin() + (g.next() % (in.paths.size() + 1)), Path64());
  return true;
}

struct Params { int jt, et; Q delta, ml, arc; int api; };

static Paths64 run_real(const Paths64& paths, const Params& pr, double delta) {
  JoinType jt = (JoinType)pr.jt; EndType et = (EndType)pr.et;
  double ml = pr.ml.d(), arc = pr.arc.d();
  Paths64 sol;
  switch (pr.api) {
    case 0: return InflatePaths(paths, delta, jt, et, ml, arc);
    case 1: { ClipperOffset co(ml, arc); co.AddPaths(paths, jt, et); co.Execute(delta, sol); return sol; }
    case 2: { ClipperOffset co(ml, arc); for (auto& p : paths) co.AddPath(p, jt, et); co.Execute(delta, sol); return sol; }
    case 3: {
      ClipperOffset co(ml, arc); co.AddPaths(paths, jt, et);
      PolyTree64 tree; co.Execute(delta, tree); return PolyTreeToPaths64(tree);
    }
    case 4: {  // parameters given through the setters of a default-constructed object
      ClipperOffset co; co.MiterLimit(ml); co.ArcTolerance(arc); co.AddPaths(paths, jt, et); co.Execute(delta, sol); return sol;
    }
    case 5: {  // an object constructed with other parameters and already executed, then re-parameterised through the setters
      ClipperOffset co(ml + 1.75, arc * 3 + 1.5); co.AddPaths(paths, jt, et);
      Paths64 junk; co.Execute(delta, junk);
      co.MiterLimit(ml); co.ArcTolerance(arc);
      co.Execute(delta, sol); return sol;
    }
    case 6: {  // the result vector is re-used: it still holds a larger offset of the same paths when the call is made
      ClipperOffset co(ml, arc); co.AddPaths(paths, jt, et);
      co.Execute(delta * 3 + (delta < 0 ? -5 : 5), sol);
      co.Execute(delta, sol); return sol;
    }
    default: {  // polytree overload first (tree kept alive), then the paths overload on the same object
      ClipperOffset co(ml, arc); co.AddPaths(paths, jt, et);
      PolyTree64 tree; co.Execute(delta, tree);
      co.Execute(delta, sol); return sol;
    }
  }
}

static double join_factor(const Params& pr) { return pr.jt == 3 ? std::max(pr.ml.d(), 1.41422) : (pr.jt == 0 ? 1.41422 : 1.0); }

static std::string stroke_request(const Params& pr, const Paths64& paths, const Paths64& sol, const std::vector<Point64>& probes) {
  return "STROKECHECK " + std::to_string(pr.jt) + " " + std::to_string(pr.et) + " " + pr.delta.s() + " " + pr.ml.s() + " " + pr.arc.s() + " " +
         S(paths) + " " + S(sol) + " " + vo::S(probes, true);
}

static std::vector<Point64> propose_probes(Rng& g, const Params& pr, const Paths64& paths, const Paths64& sol, int scale = 1) {
  double ad = std::fabs(pr.delta.d());
  double arc_eff = pr.arc.d() > 0 ? pr.arc.d() : ad / 500;
  double f = std::max(join_factor(pr), pr.et == 3 || pr.et == 1 ? 1.41422 : 1.0);
  double tol = arc_eff + 2 + 0.001 * ad * f;
  ProbeGen pg(g);
  Paths64 nonempty; for (auto& p : paths) if (!p.empty()) nonempty.push_back(p);
  if (nonempty.empty()) return pg.out;
  pg.uniform(bounds_of(nonempty), 2 * ad * f + 10, 30 * scale);
  std::vector<double> radii = {ad, ad, ad * f};
  for (int i = 0; i < 80 * scale; ++i) {
    const Path64& p = nonempty[g.next() % nonempty.size()];
    size_t n = p.size(), k = g.next() % n;
    int what = (int)(g.next() % 4);
    if (n == 1 || what == 0) pg.near_pt(p[k], radii, tol);
    else if (what == 1) { if (g.coin()) pg.near_end(p[0], p[1], radii, tol); else pg.near_end(p[n - 1], p[n - 2], radii, tol); }
    else pg.near_seg(p[k], p[(k + 1) % n], radii, tol);
  }
  if (!sol.empty())
    for (int i = 0; i < 20 * scale; ++i) {
      const Path64& p = sol[g.next() % sol.size()];
      if (p.empty()) continue;
      size_t k = g.next() % p.size();
      pg.near_seg(p[k], p[(k + 1) % p.size()], {tol + 1, 2 * tol + 2}, 0);
    }
  return pg.out;
}

static void do_case(Rng& g, const StrokeInput& in0, const Params& pr) {
  Paths64 paths = in0.paths;
  double d = pr.delta.d(), ad = std::fabs(d);
  std::string tag = std::string(JT_NAME[pr.jt]) + "." + ET_NAME[pr.et];
  Paths64 sol = run_real(paths, pr, d);
  std::vector<Point64> probes = propose_probes(g, pr, paths, sol);

  // 1. the region
  emitS("stroke." + tag, stroke_request(pr, paths, sol, probes));

  // 2. +delta and -delta give the identical result
  Paths64 sol_neg = run_real(paths, pr, -d);
  emitS("stroke.plusminus", "SAMEPATHS " + S(sol) + " " + S(sol_neg));

  double arc_eff = pr.arc.d() > 0 ? pr.arc.d() : ad / 500;
  // tolerance of a comparison between two results: both may be off by the rounding/arc part
  Q cmp_tol{(int64_t)std::ceil((arc_eff + 2 + 0.001 * ad) * 8), 8};

  // 3. path direction does not matter for the region
  if (g.chance(60)) {
    Paths64 rev = paths;
    for (auto& p : rev) if (g.chance(80)) std::reverse(p.begin(), p.end());
    Paths64 sol_rev = run_real(rev, pr, d);
    emitS("stroke.direction", "STROKE_SAMEREGION " + cmp_tol.s() + " " + S(sol) + " " + S(sol_rev) + " " + vo::S(probes, true));
    // the reversed input is an input in its own right
    if (g.chance(30)) emitS("stroke." + tag, stroke_request(pr, rev, sol_rev, probes));
  }

  // 4. a distant extra path does not change the offset of the others
  if (g.chance(60)) {
    Paths64 nonempty; for (auto& p : paths) if (!p.empty()) nonempty.push_back(p);
    if (!nonempty.empty()) {
      Rect64 b = bounds_of(nonempty);
      double f = std::max(join_factor(pr), 1.41422);
      int64_t reach = (int64_t)std::ceil(ad * f + 10);
      int64_t gap = 4 * reach + 100 + g.range(0, in0.S);
      int n = g.chance(25) ? 1 : (g.chance(30) ? 2 : (int)g.range(3, 6));
      Path64 far = gen_polyline(g, std::max<int64_t>(in0.S / 2, 20), 0, 0, n, pr.et == 1);
      if (!far.empty()) {
        Rect64 fb = bounds_of(Paths64{far});
        int64_t dx = 0, dy = 0;
        switch (g.next() % 4) {
          case 0: dx = b.right + gap - fb.left; dy = b.top - fb.top; break;     // to the right
          case 1: dx = b.left - gap - fb.right; dy = b.bottom - fb.bottom; break;  // to the left
          case 2: dy = b.bottom + gap - fb.top; dx = b.left - fb.left; break;   // above (larger y)
          default: dy = b.top - gap - fb.bottom; dx = b.right - fb.right; break;   // below
        }
        for (auto& q : far) { q.x += dx; q.y += dy; }
        Paths64 more = paths;
        more.insert(more.begin() + (g.next() % (more.size() + 1)), far);
        Paths64 sol_more = run_real(more, pr, d);
        Rect64 nb(b.left - 2 * reach, b.top - 2 * reach, b.right + 2 * reach, b.bottom + 2 * reach);
        Paths64 near_part, far_part;
        for (auto& p : sol_more) {
          Rect64 pb = bounds_of(Paths64{p});
          bool inside_near = !p.empty() && pb.left >= nb.left && pb.right <= nb.right && pb.top >= nb.top && pb.bottom <= nb.bottom;
          (inside_near ? near_part : far_part).push_back(p);
        }
        // Exact equality of the canonical path sets is the usual outcome (counted), but the clean-up union places the tip of a
        // sliver between two nearly parallel raw edges differently when the scanbeams change, so the judged statement is
        // the property's own: the *region* is the same (2 units of rounding).
        if (canon_closed(sol) == canon_closed(near_part)) stat("distant.canonical_paths_identical"); else stat("distant.canonical_paths_differ");
        emitS("stroke.distant", "STROKE_SAMEREGION 2 1 " + S(sol) + " " + S(near_part) + " " + vo::S(probes, true));
        stat("distant.far_path_points." + std::to_string(std::min(n, 3)));
      }
    }
  }
  stat("case.join." + std::string(JT_NAME[pr.jt]));
  stat("case.end." + std::string(ET_NAME[pr.et]));
  stat("case.api." + std::to_string(pr.api));
  stat("input.paths", (long long)paths.size());
  for (auto& p : paths) {
    size_t n = stripped_len(p, pr.et == 1);
    stat(n >= 3 ? "input.path.3plus" : "input.path." + std::to_string(n) + "pt");
    if (n != p.size()) stat("input.path.with_duplicates");
  }
  stat("probes", (long long)probes.size());
  size_t nv = 0; for (auto& p : sol) nv += p.size();
  stat("result.vertices", (long long)nv);
  int mag = 0; for (int64_t s = in0.S; s >= 10; s /= 10) ++mag;
  stat("input.size.1e" + std::to_string(mag));
}

// ---------------------------------------------------------------- corpus: inputs of the repaired defects
static void corpus() {
  // (a) 2-point path before a triangle in a Joined group (was: the triangle offset open-ended)
  {
    Params pr{3, 1, Q{80, 8}, Q{4, 2}, Q{0, 4}, 0};
    Paths64 in{{{0, 0}, {100, 0}}, {{1000, 1000}, {1100, 1000}, {1100, 1100}}};
    Paths64 sol = canon_closed(InflatePaths(in, 10, JoinType::Miter, EndType::Joined, 2.0, 0.0));
    // fixed probes: both sides of the closing edge (1100,1100)-(1000,1000), the inside of the triangle, the other edges
    std::vector<Point64> probes = {{1047, 1053}, {1053, 1047}, {1044, 1056}, {1056, 1044}, {1020, 1026}, {1026, 1020}, {1070, 1030}, {1060, 1020},
                                   {1050, 1005}, {1050, 995}, {1095, 1050}, {1105, 1050}, {1200, 1200}, {50, 5}, {50, -5}, {-8, 0}, {108, 0}, {50, 30}};
    emitS("corpus.offset-endtype", stroke_request(pr, in, sol, probes));
    // the triangle alone gives the same paths as the triangle after the 2-point path
    Paths64 alone = InflatePaths(Paths64{in[1]}, 10, JoinType::Miter, EndType::Joined, 2.0, 0.0);
    Paths64 near_part;
    for (auto& p : sol) if (bounds_of(Paths64{p}).left > 500) near_part.push_back(p);
    emitS("corpus.offset-endtype", "SAMEPATHS " + S(alone) + " " + S(near_part));
  }
  // (b) empty path in a group with an open end type / in a Joined group (was: undefined behaviour)
  {
    Paths64 in{{}, {{0, 0}, {10, 0}}};
    Paths64 sol = canon_closed(InflatePaths(in, 5, JoinType::Round, EndType::Butt));
    Params pr{2, 2, Q{40, 8}, Q{4, 2}, Q{0, 4}, 0};
    emitS("corpus.offset-empty-path", stroke_request(pr, in, sol, {{5, 0}, {5, 3}, {5, -3}, {-3, 0}, {13, 0}, {5, 9}, {30, 30}}));
    Paths64 in2{{}, {{0, 0}, {10, 0}, {10, 10}}};
    Paths64 sol2 = canon_closed(InflatePaths(in2, 5, JoinType::Round, EndType::Joined));
    Params pr2{2, 1, Q{40, 8}, Q{4, 2}, Q{0, 4}, 0};
    emitS("corpus.offset-empty-path", stroke_request(pr2, in2, sol2, {{5, 0}, {5, 3}, {5, -3}, {10, 5}, {7, 7}, {8, 2}, {30, 30}}));
    // an empty path changes nothing
    emitS("corpus.offset-empty-path", "SAMEPATHS " + S(sol) + " " + S(InflatePaths(Paths64{in[1]}, 5, JoinType::Round, EndType::Butt)));
    emitS("corpus.offset-empty-path", "SAMEPATHS " + S(sol2) + " " + S(InflatePaths(Paths64{in2[1]}, 5, JoinType::Round, EndType::Joined)));
  }
  // (c) |delta| < 0.5 (and delta = 0) on an open path (was: the path returned as a closed polygon)
  {
    Paths64 in{{{0, 0}, {100, 0}, {100, 100}}};
    std::vector<Point64> probes = {{70, 30}, {90, 50}, {50, 10}, {50, -10}, {110, 50}, {30, 60}};
    Params p2{2, 2, Q{2, 8}, Q{4, 2}, Q{0, 4}, 0};
    emitS("corpus.offset-open-small-delta", stroke_request(p2, in, canon_closed(InflatePaths(in, 0.25, JoinType::Round, EndType::Butt, 2.0, 0.0)), probes));
    Params p0{3, 1, Q{0, 8}, Q{4, 2}, Q{0, 4}, 0};
    emitS("corpus.offset-open-small-delta", stroke_request(p0, in, canon_closed(InflatePaths(in, 0.0, JoinType::Miter, EndType::Joined, 2.0, 0.0)), probes));
    ClipperOffset co; co.AddPaths(in, JoinType::Square, EndType::Square);
    Paths64 sol; co.Execute(-0.375, sol);
    Params p3{0, 3, Q{-3, 8}, Q{4, 2}, Q{0, 4}, 1};
    emitS("corpus.offset-open-small-delta", stroke_request(p3, in, canon_closed(sol), probes));
  }
}

// miter limits below 2 matter: limits <= 1 always square off, (1,2) limit shorter miters than the default
static Q pick_ml(Rng& g) { static const int64_t v[] = {2, 4, 5, 6, 7, 8, 8, 10, 12, 16, 20}; return Q{v[g.next() % 11], 4}; }
static Q pick_arc(Rng& g, double ad) {
  static const int64_t v[] = {0, 1, 2, 4, 8, 20};
  Q a{v[g.next() % 6], 4};
  while (a.num > 0 && ad / a.d() > 20000) a.num *= 4;
  return a;
}

int main(int argc, char** argv) {
  Rng g(seed_from_args(argc, argv));
  bool thorough = thorough_from_args(argc, argv);
  corpus();
  int N = thorough ? 6000 : 500;
  for (int i = 0; i < N; ++i) {
    Params pr;
    pr.jt = (int)(g.next() % 4);
    pr.et = 1 + (int)(g.next() % 4);
    pr.ml = pick_ml(g);
    pr.api = (int)(g.next() % 8);
    StrokeInput in;
    if (!gen_input(g, pr.et, in)) { stat("gen.rejected"); continue; }
    int64_t eighths = log_uniform(g, 8, std::max<int64_t>(9, in.S * 8 / 2));
    if (g.chance(60)) eighths = eighths / 8 * 8;
    if (g.chance(4)) eighths = g.range(0, 7);  // below 1: single points vanish, below 0.5 (and 0): nothing is offset
    if (g.coin()) eighths = -eighths;
    pr.delta = Q{eighths, 8};
    pr.arc = pick_arc(g, std::fabs(pr.delta.d()));
    do_case(g, in, pr);
  }
  flush_stats();
  return 0;
}
