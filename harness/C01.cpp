// C01 harness: Boolean operations on closed paths in general position, judged by exact winding numbers (REGIONS).
#define VERIF_PRIVATE_ACCESS
#include "unity.h"
#include "gp.h"
#include "aeltrace.h"
using namespace vh;

static const ClipType CTS[] = {ClipType::Intersection, ClipType::Union, ClipType::Difference, ClipType::Xor};
static const FillRule FRS[] = {FillRule::EvenOdd, FillRule::NonZero, FillRule::Positive, FillRule::Negative};

static std::string run_all(Rng& g, const GpInput& in, bool use_tree_sometimes) {
  std::string s = "16";
  for (ClipType ct : CTS) for (FillRule fr : FRS) {
    Clipper64 c;
    bool pc = g.coin(), rev = g.coin();
    c.PreserveCollinear(pc);
    c.ReverseSolution(rev);
    c.AddSubject(in.subj);
    c.AddClip(in.clip);
    Paths64 sol;
    bool ok;
    AelTraceScope trace;
    if (use_tree_sometimes && g.chance(25)) {
      PolyTree64 tree;
      ok = c.Execute(ct, fr, tree);
      sol = PolyTreeToPaths64(tree);
      stat("exec.tree");
    } else {
      ok = c.Execute(ct, fr, sol);
      stat("exec.paths");
    }
    emitM("ael-trace", trace.request(false, (int)ct, (int)fr), "ok");
    if (!ael_trace().bad_join.empty())
      emitF("join-of-distant-edges", "ct=" + std::to_string((int)ct) + " fr=" + std::to_string((int)fr) + " pc=" + (pc ? "1" : "0") + " subj=" + S(in.subj) + " clip=" + S(in.clip) + ": " + ael_trace().bad_join);
    stat("trace.items", ael_trace().nitems);
    if (!ok) emitF("execute-returned-false", "ct=" + std::to_string((int)ct) + " fr=" + std::to_string((int)fr) + " subj=" + S(in.subj) + " clip=" + S(in.clip));
    stat(std::string("opt.preserve_collinear.") + (pc ? "on" : "off"));
    stat(std::string("opt.reverse.") + (rev ? "on" : "off"));
    stat("solution.paths", (long long)sol.size());
    s += " " + std::to_string((int)ct) + " " + std::to_string((int)fr) + " " + (rev ? "1" : "0") + " " + S(sol);
  }
  return s;
}

int main(int argc, char** argv) {
  Rng g(seed_from_args(argc, argv));
  bool thorough = thorough_from_args(argc, argv);
  int N = thorough ? 4000 : 140;
  if (const char* one = getenv("VERIF_ONE_INPUT")) {
    // single-input mode (used by the shrinker of ./check): "S(subj) S(clip)"; the same region record as in the generic loop
    std::istringstream is(one);
    GpInput in; in.R = 0; in.kind = "one";
    if (!parse_paths(is, in.subj) || !parse_paths(is, in.clip)) { fprintf(stderr, "VERIF_ONE_INPUT: cannot parse\n"); return 2; }
    auto probes = gen_probes(g, in.subj, in.clip, 120);
    std::string sols = run_all(g, in, true);
    emitS("region", "REGIONS " + S(in.subj) + " " + S(in.clip) + " " + probes_str(probes) + " " + sols);
    flush_stats();
    return 0;
  }
  // fixed corpus first: two overlapping squares, nested opposite squares, a pentagram
  std::vector<GpInput> corpus;
  { GpInput c; c.R = 100; c.kind = "corpus.squares"; c.subj = {rect_path(0, 0, 100, 100)}; c.clip = {rect_path(50, 37, 150, 141)}; corpus.push_back(c); }
  { GpInput c; c.R = 100; c.kind = "corpus.nested"; c.subj = {rect_path(0, 0, 100, 100), Path64{Point64(20, 20), Point64(20, 80), Point64(80, 83), Point64(77, 20)}}; c.clip = {rect_path(-30, 40, 130, 61)}; corpus.push_back(c); }
  { GpInput c; c.R = 1000; c.kind = "corpus.pentagram"; c.subj = {Path64{Point64(0, 1000), Point64(588, -809), Point64(-951, 309), Point64(951, 311), Point64(-588, -807)}}; c.clip = {rect_path(-400, -390, 410, 400)}; corpus.push_back(c); }
  // an edge reaches an intermediate vertex P while its right neighbour still carries the x of an earlier crossing (= P.x) and the
  // neighbour's top lies on the extension of the new edge: any join test that trusts the stale curr_x glues two distant edges
  { GpInput c; c.R = 300; c.kind = "corpus.stale-curr_x-join"; c.subj = {Path64{Point64(60, 210), Point64(200, 0), Point64(150, 20), Point64(140, 60), Point64(100, 100)}}; c.clip = {Path64{Point64(80, 170), Point64(240, 90), Point64(190, 60)}}; corpus.push_back(c); }
  // horizontal edges in general position: self-intersecting pentagon with a horizontal edge, triangle with a horizontal edge
  { GpInput c; c.R = 400; c.kind = "corpus.horizontal-edges"; c.subj = {Path64{Point64(100, 240), Point64(140, 60), Point64(360, 60), Point64(380, 240), Point64(220, 20)}}; c.clip = {Path64{Point64(20, 40), Point64(260, 40), Point64(220, 220)}}; corpus.push_back(c); }
  if (getenv("VERIF_NO_CORPUS")) corpus.clear();   // diagnostic switch: measures what the generators find on their own
  for (int i = 0; i < N + (int)corpus.size(); ++i) {
    GpInput in = i < (int)corpus.size() ? corpus[i] : gen_gp(g);
    stat("input.kind." + (in.kind.rfind("corpus", 0) == 0 ? std::string("corpus") : (in.kind == "nearparallel" || in.kind == "stairs" || in.kind == "stale-x-coincidence") ? in.kind : std::string("plain")));
    auto probes = gen_probes(g, in.subj, in.clip, thorough ? 120 : 60);
    std::string sols = run_all(g, in, true);
    emitS("region", "REGIONS " + S(in.subj) + " " + S(in.clip) + " " + probes_str(probes) + " " + sols);
    stat("input.magnitude." + std::to_string(in.R));
    stat("input.probes", (long long)probes.size());
  }
  // degenerate (not general position) inputs: the bookkeeping invariant must hold for them too (trace level only)
  for (int i = 0; i < (thorough ? 3000 : 150); ++i) {
    int range = (i % 3 == 0) ? 8 : (i % 3 == 1 ? 40 : 1000);
    auto mk = [&](int n) { Path64 p; for (int k = 0; k < n; ++k) p.emplace_back(g.range(0, range), g.range(0, range)); return p; };
    Paths64 s, cl; int ns = (int)g.range(1, 3), nc = (int)g.range(1, 3);
    for (int k = 0; k < ns; ++k) s.push_back(mk((int)g.range(3, 8)));
    for (int k = 0; k < nc; ++k) cl.push_back(mk((int)g.range(3, 8)));
    ClipType ct = CTS[g.next() % 4]; FillRule fr = FRS[g.next() % 4];
    Clipper64 c; c.AddSubject(s); c.AddClip(cl);
    Paths64 sol;
    AelTraceScope trace;
    c.Execute(ct, fr, sol);
    emitM("ael-trace.degenerate", trace.request(false, (int)ct, (int)fr), "ok");
    if (!ael_trace().bad_join.empty())
      emitF("join-of-distant-edges", "ct=" + std::to_string((int)ct) + " fr=" + std::to_string((int)fr) + " subj=" + S(s) + " clip=" + S(cl) + ": " + ael_trace().bad_join);
    stat("trace.items", ael_trace().nitems);
  }
  stat("trace.join_events", ael_trace().njoin_events);
  stat("trace.join_events_distance_checked", ael_trace().njoin_checked);
  stat("trace.edge_observations", ael_trace().nedges);
  stat("trace.joined_edge_observations", ael_trace().njoined);
  stat("trace.horizontal_edge_observations", ael_trace().nhorz);
  flush_stats();
  return 0;
}
