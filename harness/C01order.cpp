// C01 (also C13/C10) harness: the GEOMETRIC ORDER of the active edge list.
// Every insertion of every Execute is replayed on the Lean model of IsValidAelOrder / InsertLeftEdge / InsertRightEdge + settling
// loop (Model/AelOrder.lean; the predicate is the definition regenerated from the source): the model must put the edge at the index
// at which the real engine put it, and must give the real IsValidAelOrder's answer for EVERY resident (M records, aelorder.h).
// On general-position inputs the AEL after every insertion is additionally judged in exact rational arithmetic from the edges' real
// end points (S record AELSORTEDALL inside IFGP: Lean re-verifies the premise).
// Inputs: general position (gp.h gen_gp, gp_gen.h gen_general_position) and the degenerate families that reach the collinear
// branches: shared vertices, coincident / collinear / duplicated edges and paths, rectilinear lattices, open paths.
#define VERIF_PRIVATE_ACCESS
#include "unity.h"
#include "gp.h"
#include "gp_gen.h"
#include "aelorder.h"
using namespace vh;
using namespace vh::aelorder;

static const ClipType CTS[] = {ClipType::Intersection, ClipType::Union, ClipType::Difference, ClipType::Xor};
static const FillRule FRS[] = {FillRule::EvenOdd, FillRule::NonZero, FillRule::Positive, FillRule::Negative};

static void run_one(Rng& g, const Paths64& s, const Paths64& cl, const Paths64& op, ClipType ct, FillRule fr, const std::string& kind, bool gp, int64_t tol) {
  Clipper64 c;
  bool pc = g.coin();
  c.PreserveCollinear(pc);
  c.ReverseSolution(g.coin());
  c.AddSubject(s); c.AddClip(cl);
  if (!op.empty()) c.AddOpenSubject(op);
  Paths64 sol, solo;
  bool ok;
  OrderTraceScope trace(true, "ael-order." + kind);
  if (g.chance(20)) { PolyTree64 t; ok = c.Execute(ct, fr, t, solo); stat("exec.tree"); }
  else { ok = c.Execute(ct, fr, sol, solo); stat("exec.paths"); }
  trace.finish();
  std::string in = "kind=" + kind + " ct=" + std::to_string((int)ct) + " fr=" + std::to_string((int)fr) + " pc=" + (pc ? "1" : "0") + " subj=" + S(s) + " clip=" + S(cl) + " open=" + S(op);
  if (!ok) emitF("execute-returned-false", in);
  if (!order_trace().first_error.empty()) emitF("order-check", order_trace().first_error + " " + in);
  {
    // general position: Lean re-verifies the premise (IFGP) and coincident lines are a failure; degenerate families: lenient mode
    // (degenerate inputs: tolerance 2 — a joined edge is swept with the x of its join partner, JoinWith::Left in AdjustCurrXAndCopyToSEL)
    std::string req = trace.sorted_request(gp ? 0 : 1, gp ? tol : 2);
    if (!req.empty()) {
      if (getenv("VERIF_DEBUG_INPUTS")) fprintf(stderr, "INPUT-OF-S-RECORD %lld %s\n", stats()["lines.ael-sorted." + kind] + stats()["lines.ael-sorted-lenient." + kind], in.c_str());
      if (gp) emitS("ael-sorted." + kind, "IFGP " + S(s) + " " + S(cl) + " " + S(op) + " " + req, "ok");
      else emitS("ael-sorted-lenient." + kind, req, "ok");
      stat(gp ? "sorted.insertions_submitted.gp" : "sorted.insertions_submitted.degenerate", order_trace().sorted_n);
    }
  }
  stat("kind." + kind);
  stat(std::string("ct.") + std::to_string((int)ct));
  stat(std::string("fr.") + std::to_string((int)fr));
  if (!op.empty()) stat("with_open_paths");
}
static void run_some(Rng& g, const Paths64& s, const Paths64& cl, const Paths64& op, const std::string& kind, int reps, bool gp = false, int64_t tol = 1) {
  for (int r = 0; r < reps; ++r) run_one(g, s, cl, op, CTS[g.next() % 4], FRS[g.next() % 4], kind, gp, tol);
}

// ---------------------------------------------------------------------------------- degenerate families
static Path64 lattice_path(Rng& g, int n, int range, int64_t scale) {
  Path64 p;
  for (int k = 0; k < n; ++k) p.emplace_back(scale * g.range(0, range), scale * g.range(0, range));
  return p;
}
// index of a vertex with the largest y (a local minimum of the sweep, which runs from large y to small y)
static size_t lowest(const Path64& p) {
  size_t b = 0;
  for (size_t i = 1; i < p.size(); ++i) if (p[i].y > p[b].y || (p[i].y == p[b].y && p[i].x < p[b].x)) b = i;
  return b;
}
// copies of one polygon that share vertices / edges / lines with it
static Path64 variant(Rng& g, const Path64& p, std::string& what) {
  Path64 q = p;
  size_t lo = lowest(p);
  Point64 v = p[g.coin() ? lo : (size_t)(g.next() % p.size())];
  switch (g.next() % 9) {
    case 0: what += "dup,"; break;                                                        // exact duplicate
    case 1: what += "rev,"; std::reverse(q.begin(), q.end()); break;                      // reversed duplicate
    case 2: what += "rot,"; std::rotate(q.begin(), q.begin() + (g.next() % q.size()), q.end()); break;
    case 3: { what += "hom,"; int64_t k = g.range(2, 3);                                  // homothety about a vertex: collinear bounds of different length
      for (auto& r : q) { r.x = v.x + k * (r.x - v.x); r.y = v.y + k * (r.y - v.y); } break; }
    case 4: { what += "mir,";                                                            // mirror image through a vertex: shares the vertex
      for (auto& r : q) r.x = 2 * v.x - r.x; break; }
    case 5: { what += "slide,";                                                          // translated along one of its edges: collinear overlapping edges
      size_t i = g.next() % p.size(); Point64 a = p[i], b = p[(i + 1) % p.size()];
      int64_t num = g.range(1, 3);
      for (auto& r : q) { r.x += (b.x - a.x) * num / 2; r.y += (b.y - a.y) * num / 2; } break; }
    case 6: { what += "pinch,";                                                          // one vertex moved: shares all other vertices and most edges
      size_t i = g.next() % q.size(); q[i].x += g.range(-3, 3); q[i].y += g.range(-3, 3); break; }
    case 7: { what += "touch,";                                                          // translated so that its lowest vertex lands on a vertex of p
      Point64 w = p[g.next() % p.size()];
      int64_t dx = w.x - p[lo].x, dy = w.y - p[lo].y;
      if (dx == 0 && dy == 0) { dx = p[(lo + 1) % p.size()].x - p[lo].x; dy = p[(lo + 1) % p.size()].y - p[lo].y; }
      for (auto& r : q) { r.x += dx; r.y += dy; } break; }
    default: { what += "onedge,";                                                        // lowest vertex moved to the midpoint of an edge of p (vertex on edge)
      size_t i = g.next() % p.size(); Point64 a = p[i], b = p[(i + 1) % p.size()];
      int64_t mx = (a.x + b.x) / 2, my = (a.y + b.y) / 2;
      int64_t dx = mx - p[lo].x, dy = my - p[lo].y;
      for (auto& r : q) { r.x += dx; r.y += dy; } break; }
  }
  return q;
}
static void gen_coincident(Rng& g, Paths64& s, Paths64& cl, Paths64& op, std::string& what) {
  int range = (int)g.range(3, 14);
  int64_t scale = g.chance(70) ? 2 : (g.coin() ? 1000 : ((int64_t)1 << 33));   // even: midpoints are lattice points
  Path64 base = lattice_path(g, (int)g.range(3, 7), range, scale);
  s.push_back(base);
  int nv = (int)g.range(1, 4);
  for (int k = 0; k < nv; ++k) {
    Path64 q = variant(g, g.chance(70) ? base : (s.size() > 1 ? s.back() : base), what);
    if (g.chance(60)) s.push_back(q); else cl.push_back(q);
  }
  if (g.chance(35)) {   // open paths running along the polygon (coincident with closed edges), starting at any vertex
    int no = (int)g.range(1, 2);
    for (int k = 0; k < no; ++k) {
      Path64 o; size_t st = g.coin() ? lowest(base) : (size_t)(g.next() % base.size()); int len = (int)g.range(2, 4);
      for (int j = 0; j < len; ++j) o.push_back(base[(st + j) % base.size()]);
      if (g.coin()) std::reverse(o.begin(), o.end());
      if (g.chance(30)) o.push_back(Point64(o.back().x + scale * g.range(-3, 3), o.back().y + scale * g.range(-3, 3)));
      op.push_back(o);
    }
    what += "open,";
  }
}
// many polygons leaving one point in a few directions: fans of edges from a shared local minimum, collinear bounds of different length
static void gen_fan(Rng& g, Paths64& s, Paths64& cl, Paths64& op) {
  Point64 P(g.range(-5, 5), g.range(-5, 5));
  int ndirs = (int)g.range(2, 5);
  std::vector<Point64> dirs;
  for (int k = 0; k < ndirs; ++k) dirs.emplace_back(g.range(-4, 4), -g.range(g.chance(15) ? 0 : 1, 4));   // pointing up (y decreasing), sometimes horizontal
  int np = (int)g.range(2, 6);
  for (int k = 0; k < np; ++k) {
    Point64 d1 = g.pick(dirs), d2 = g.pick(dirs);
    int64_t k1 = g.range(1, 4), k2 = g.range(1, 4);
    Path64 p{P, Point64(P.x + k1 * d1.x, P.y + k1 * d1.y)};
    if (g.coin()) p.emplace_back(P.x + g.range(-12, 12), P.y - g.range(5, 20));
    if (g.chance(30)) p.emplace_back(P.x + g.range(-12, 12), P.y - g.range(5, 20));
    p.emplace_back(P.x + k2 * d2.x, P.y + k2 * d2.y);
    if (g.coin()) std::reverse(p.begin(), p.end());
    if (g.chance(15)) { op.push_back(p); continue; }
    if (g.chance(65)) s.push_back(p); else cl.push_back(p);
  }
  if (s.empty()) s.push_back(Path64{P, Point64(P.x + 3, P.y - 7), Point64(P.x - 4, P.y - 6)});
}

int main(int argc, char** argv) {
  Rng g(seed_from_args(argc, argv));
  bool thorough = thorough_from_args(argc, argv);
  {
    Paths64 none;
    run_some(g, {rect_path(0, 0, 100, 100)}, {rect_path(50, 37, 150, 141)}, none, "corpus.squares", 2);
    run_some(g, {Path64{Point64(0, 1000), Point64(588, -809), Point64(-951, 309), Point64(951, 311), Point64(-588, -807)}}, {rect_path(-400, -390, 410, 400)}, none, "corpus.pentagram", 2);
    run_some(g, {rect_path(0, 0, 10, 10), rect_path(10, 0, 20, 10)}, {rect_path(5, 5, 15, 15)}, none, "corpus.shared-edge", 4);
    run_some(g, {rect_path(0, 0, 10, 10), rect_path(10, 10, 20, 20)}, {rect_path(0, 10, 10, 20)}, none, "corpus.touching-corners", 4);
    run_some(g, {rect_path(0, 0, 10, 10), rect_path(0, 0, 10, 10)}, {rect_path(0, 0, 10, 10)}, none, "corpus.coincident", 4);
    run_some(g, {rect_path(0, 0, 30, 30)}, {rect_path(10, 10, 20, 20)}, {Path64{Point64(-5, 15), Point64(35, 16)}, Path64{Point64(15, -5), Point64(15, 35), Point64(25, 5)}}, "corpus.open", 4);
    // two triangles and an open path leaving (0,0) upwards, a third edge passing through (0,0)
    run_some(g, {Path64{Point64(0, 0), Point64(-6, -8), Point64(-1, -9)}, Path64{Point64(0, 0), Point64(3, -4), Point64(8, -3)}},
             {Path64{Point64(5, 5), Point64(-5, -5), Point64(9, -7)}}, {Path64{Point64(0, 0), Point64(0, -10)}}, "corpus.fan", 4);
  }
  int N = thorough ? 20000 : 2000;
  for (int i = 0; i < N; ++i) {
    Paths64 op;
    auto mkopen = [&](int64_t R, int pct) {
      if (!g.chance(pct)) return;
      int no = (int)g.range(1, 3);
      for (int k = 0; k < no; ++k) { Path64 p; int n = (int)g.range(2, 6); for (int j = 0; j < n; ++j) p.emplace_back(g.range(-R, R), g.range(-R, R)); op.push_back(p); }
    };
    switch (i % 8) {
      case 0: {  // general position (gp.h): all magnitudes, stairs, near-parallel, stale-x families
        GpInput in = gen_gp(g);
        if (in.R < ((int64_t)1 << 50)) mkopen(in.R, 20);
        int64_t tol = 1 + (in.R >> 49) + (in.R > ((int64_t)1 << 24) ? 1 : 0);
        run_some(g, in.subj, in.clip, op, "gp", 2, true, tol);
        stat("input.magnitude." + std::to_string(in.R));
        break; }
      case 1: {  // general position with verified margin (gp_gen.h), coordinates <= 4000
        Input in;
        if (!gen_general_position(g, in)) { stat("gp2.no_instance"); break; }
        run_some(g, in.subj, in.clip, in.open_subj, "gp2", 2, true, 1);
        break; }
      case 2: {  // small random lattices: coincident vertices, collinear overlaps, horizontals
        int range = (i % 3 == 0) ? 8 : (i % 3 == 1 ? 40 : 1000);
        Paths64 s, cl; int ns = (int)g.range(1, 3), nc = (int)g.range(1, 3);
        for (int k = 0; k < ns; ++k) s.push_back(lattice_path(g, (int)g.range(3, 8), range, 1));
        for (int k = 0; k < nc; ++k) cl.push_back(lattice_path(g, (int)g.range(3, 8), range, 1));
        mkopen(range, 25);
        run_some(g, s, cl, op, "lattice", 2);
        break; }
      case 3: {  // rectilinear with shared edges and touching corners (joins and splits)
        Input in; gen_rectilinear(g, in, g.coin() ? 1 : 10);
        mkopen(12, 20);
        run_some(g, in.subj, in.clip, op, "rect", 3);
        break; }
      case 4: {  // nested rings / touching holes / degenerate
        Input in;
        int w = (int)(g.next() % 3);
        if (w == 0) gen_nested(g, in, (int)g.range(1, 5), g.coin()); else if (w == 1) gen_touching_holes(g, in); else gen_degenerate(g, in);
        run_some(g, in.subj, in.clip, op, w == 2 ? "degenerate" : "nested-touching", 2);
        break; }
      case 5: {  // duplicated / mirrored / scaled / slid copies of one polygon, open paths along it
        Paths64 s, cl; std::string what;
        gen_coincident(g, s, cl, op, what);
        run_some(g, s, cl, op, "coincident", 3);
        stat("coincident.variants." + what.substr(0, what.find(',')));
        break; }
      case 6: {  // fans of edges from one shared point
        Paths64 s, cl;
        gen_fan(g, s, cl, op);
        run_some(g, s, cl, op, "fan", 3);
        break; }
      default: {  // dense tiny grid with many paths: many coincident edges, joins, splits, horizontals
        int range = (int)g.range(3, 12);
        Paths64 s, cl; int ns = (int)g.range(2, 6), nc = (int)g.range(0, 4);
        for (int k = 0; k < ns; ++k) s.push_back(lattice_path(g, (int)g.range(3, 10), range, 1));
        for (int k = 0; k < nc; ++k) cl.push_back(lattice_path(g, (int)g.range(3, 10), range, 1));
        mkopen(range, 25);
        run_some(g, s, cl, op, "dense", 2);
        break; }
    }
  }
  flush_stats();
  return 0;
}
