// C15 harness for the Z layer of the OPEN-path assembly (USINGZ build only): every event of every Execute with open subjects is replayed on the Lean model
// `Model/AelOpenRingsZ.lean` (driver command AELOPENRINGSZ), which must reproduce, at every snapshot, the engine's AEL, every closed OutPt ring triple for triple (up to
// the first horizontal join), the record and side of every open edge, every open output record triple for triple (x, y AND z) with its front_edge / back_edge flags,
// the number of callback calls so far; in the end the real `solution_open` WITH z (BuildPath64 on open records) and the complete callback log.
// Inputs: the generators of harness/C05rings.cpp (general-position closed sets with random / zigzag polylines incl. horizontal segments, small lattices, rectangles
// with polyline vertices on the lines of their horizontal edges, a corpus).  Random z labels (multiples of 3) on every input vertex, callback modes as in
// harness/C15rings.cpp (none 25%; fresh / hash / keep; scribbleD through ClipperD(0) when the coordinates are small), random DefaultZ.
// Spec-level: ZCHECK under IFGP on the real open solution; harness-level (F records): every vertex event's point is an input vertex with one of the z given there.
#define VERIF_PRIVATE_ACCESS
#include "unity.h"
#include "gp.h"
#include "aelopenringsz.h"
#include <set>
using namespace vh;

static const ClipType CTS[] = {ClipType::Intersection, ClipType::Union, ClipType::Difference, ClipType::Xor};
static const FillRule FRS[] = {FillRule::EvenOdd, FillRule::NonZero, FillRule::Positive, FillRule::Negative};

typedef ORingsZTrace::Call Call;
static std::vector<Call>* g_calls = nullptr;
static void note_branch(const Point64& a, const Point64& b, const Point64& c, const Point64& d, const Point64& seen) {
  if (seen == a || seen == b) stat("setz.shown.end_point_of_first_edge");
  else if (seen == c || seen == d) stat("setz.shown.end_point_of_second_edge");
  else stat("setz.shown.default_z");
}
static void cb_fresh(const Point64& a, const Point64& b, const Point64& c, const Point64& d, Point64& pt) {
  Point64 seen = pt;
  pt.z = 1000000 + (int64_t)g_calls->size();
  note_branch(a, b, c, d, seen);
  g_calls->push_back(Call{a, b, c, d, seen, pt.z});
}
static void cb_hash(const Point64& a, const Point64& b, const Point64& c, const Point64& d, Point64& pt) {
  Point64 seen = pt;
  pt.z = 5000000 + (a.z * 7 + b.z * 11 + c.z * 13 + d.z * 17 + pt.z * 19 + (int64_t)(g_calls->size() % 5)) % 999983;
  note_branch(a, b, c, d, seen);
  g_calls->push_back(Call{a, b, c, d, seen, pt.z});
}
static void cb_keep(const Point64& a, const Point64& b, const Point64& c, const Point64& d, Point64& pt) {
  note_branch(a, b, c, d, pt);
  g_calls->push_back(Call{a, b, c, d, pt, pt.z});
}
static Point64 up(const PointD& p) { Point64 q((int64_t)(p.x * 2), (int64_t)(p.y * 2)); q.z = p.z; return q; }
static void cbD_scribble(const PointD& a, const PointD& b, const PointD& c, const PointD& d, PointD& pt) {
  Point64 seen = up(pt);
  pt.z = 2000000 + (int64_t)g_calls->size();
  note_branch(up(a), up(b), up(c), up(d), seen);
  g_calls->push_back(Call{up(a), up(b), up(c), up(d), seen, pt.z});
  pt.x += 12345.0; pt.y -= 777.0;
}
static std::string PZ(const Point64& p) { return S(p.x) + " " + S(p.y) + " " + S(p.z); }
static bool small_coords(const Paths64& ps) {
  for (auto& p : ps) for (auto& q : p) if (std::llabs(q.x) > ((int64_t)1 << 40) || std::llabs(q.y) > ((int64_t)1 << 40)) return false;
  return true;
}
static long long g_events = 0;

static void run_one(Rng& g, Paths64 s, Paths64 cl, Paths64 op, ClipType ct, FillRule fr, const std::string& kind, bool allow_tree) {
  for (auto* ps : {&s, &cl, &op}) for (auto& p : *ps) for (auto& v : p) v.z = 3 * g.range(1, 300);
  int mode = 0;   // 0 none, 1 fresh, 2 hash, 3 keep, 4 scribbleD
  if (!g.chance(25)) mode = (int)g.range(1, (small_coords(s) && small_coords(cl) && small_coords(op)) ? 4 : 3);
  std::vector<Call> calls; g_calls = &calls;
  int64_t default_z = mode ? g.range(-5, 5) : 0;
  bool pc = g.coin(), rev = g.coin(), tree = allow_tree && g.chance(30);
  bool ok;
  Paths64 es = s, ecl = cl, eop = op, solo;
  ORingsZTraceScope trace;
  oringsz_trace().calls = &calls;
  if (mode == 4) {
    auto toD = [](const Paths64& ps) { PathsD r; for (auto& p : ps) { PathD q; for (auto& v : p) { PointD w((double)v.x, (double)v.y); w.z = v.z; q.push_back(w); } r.push_back(q); } return r; };
    for (auto* ps : {&es, &ecl, &eop}) for (auto& p : *ps) for (auto& v : p) { v.x *= 2; v.y *= 2; }
    ClipperD c(0);
    c.PreserveCollinear(pc); c.ReverseSolution(rev);
    c.AddSubject(toD(s)); c.AddClip(toD(cl)); if (!op.empty()) c.AddOpenSubject(toD(op));
    c.SetZCallback(cbD_scribble); c.DefaultZ = default_z;
    PathsD sol, solod;
    if (tree) { PolyTreeD t; ok = c.Execute(ct, fr, t, solod); stat("exec.tree"); }
    else { ok = c.Execute(ct, fr, sol, solod); stat("exec.paths"); }
    for (auto& p : solod) { Path64 q; for (auto& v : p) q.push_back(up(v)); solo.push_back(q); }   // scale 2: exact
  } else {
    Clipper64 c;
    c.PreserveCollinear(pc); c.ReverseSolution(rev);
    c.AddSubject(s); c.AddClip(cl); if (!op.empty()) c.AddOpenSubject(op);
    if (mode == 1) c.SetZCallback(cb_fresh); else if (mode == 2) c.SetZCallback(cb_hash); else if (mode == 3) c.SetZCallback(cb_keep);
    c.DefaultZ = (!mode && g.coin()) ? 9 : default_z;
    Paths64 sol;
    if (tree) { PolyTree64 t; ok = c.Execute(ct, fr, t, solo); stat("exec.tree"); }
    else { ok = c.Execute(ct, fr, sol, solo); stat("exec.paths"); }
  }
  g_calls = nullptr;
  static const char* MODES[] = {"none", "fresh", "hash", "keep", "scribbleD"};
  auto PZS = [](const Paths64& ps) { std::string r; for (auto& p : ps) { r += "["; for (auto& v : p) r += PZ(v) + ","; r += "]"; } return r; };
  std::string in = "kind=" + kind + " cb=" + MODES[mode] + " defaultZ=" + S(default_z) + " ct=" + std::to_string((int)ct) + " fr=" + std::to_string((int)fr) + " rev=" + std::to_string((int)rev) +
                   " subj(x y z)=" + PZS(es) + " clip=" + PZS(ecl) + " open=" + PZS(eop);
  ORingsZTrace& t = oringsz_trace();
  if (!ok) emitF("execute-returned-false", in);
  if (t.has_horz_join) stat("traces.closed_rings_not_compared_after_horizontal_join." + kind);
  if (t.hh_cross) { stat("skipped.horizontal_crosses_horizontal_undetermined." + kind); return; }
  if (!t.first_error.empty()) emitF("open-rings-check", t.first_error + " " + in);
  if (!trace.usable()) { emitF("trace-incomplete", "pending split/join items at the end of the sweep " + in); return; }
  trace.set_final(rev, mode == 4, solo);
  emitM("ael-open-rings-z." + kind, trace.request((int)ct, (int)fr, mode != 0, default_z), "ok");
  stat(std::string("callback.") + MODES[mode]);
  stat("callback.calls", (long long)calls.size());
  if (calls.size() > t.calls_at_last_snap) stat("callback.calls_after_the_sweep(DoSplitOp)", (long long)(calls.size() - t.calls_at_last_snap));
  stat("trace.items", (long long)t.items.size());
  stat("engine.open_records", t.last_open_recs);
  stat("engine.open_records_finished", t.last_open_finished);
  stat("engine.open_outpts_created", (long long)t.open_ops_seen);
  stat("engine.open_solution_paths", (long long)solo.size());
  if (t.last_open_held) emitF("open-record-still-held-after-sweep", in);
  g_events += (long long)t.items.size();
  stat("kind." + kind);
  if (solo.size() > 0) stat("traces.with_open_solution");
  std::map<std::pair<int64_t, int64_t>, std::set<int64_t>> zin;
  for (auto* ps : {&es, &ecl, &eop}) for (auto& p : *ps) for (auto& v : p) zin[{v.x, v.y}].insert(v.z);
  for (const Point64& v : t.vertex_pts) {
    auto it = zin.find({v.x, v.y});
    if (it == zin.end() || !it->second.count(v.z)) emitF("vertex-event-not-an-input-vertex-with-its-z", PZ(v) + " " + in);
    stat("events.vertex_points_checked");
  }
  {
    // the Z clause of C15 on the real open solution, judged in Lean if the input (closed sets + polylines) is in general position
    std::string ins; size_t nin = 0;
    for (auto* ps : {&es, &ecl, &eop}) for (auto& p : *ps) for (auto& v : p) { ++nin; ins += " " + PZ(v); }
    std::string sols; size_t nsol = 0;
    for (auto& p : solo) for (auto& v : p) { ++nsol; sols += " " + PZ(v); }
    std::string logs; for (auto& k : calls) logs += " " + S(k.ret);
    std::string req = "ZCHECK " + std::string(mode ? "1 " : "0 ") + "0 " + std::to_string(nin) + ins + " " + std::to_string(nsol) + sols + " " + std::to_string(calls.size()) + logs;
    Paths64 closed = es; closed.insert(closed.end(), ecl.begin(), ecl.end());
    emitS("zcheck-open-solution.ifgp." + kind, "IFGP " + S(es) + " " + S(ecl) + " " + S(eop) + " " + req);
    stat("open_solution_triples.checked", (long long)nsol);
  }
}
static void run_all16(Rng& g, const Paths64& s, const Paths64& cl, const Paths64& op, const std::string& kind, bool allow_tree) {
  for (ClipType ct : CTS) for (FillRule fr : FRS) run_one(g, s, cl, op, ct, fr, kind, allow_tree);
}
static void run_some(Rng& g, const Paths64& s, const Paths64& cl, const Paths64& op, const std::string& kind, int reps, bool allow_tree = true) {
  for (int r = 0; r < reps; ++r) run_one(g, s, cl, op, CTS[g.next() % 4], FRS[g.next() % 4], kind, allow_tree);
}

// random polylines as in harness/C05.cpp
static Paths64 gen_open_random(Rng& g, int64_t R) {
  Paths64 opn;
  int no = (int)g.range(1, 3);
  for (int k = 0; k < no; ++k) {
    Path64 p; int n = (int)g.range(2, 6);
    for (int j = 0; j < n; ++j) p.emplace_back(g.range(-R, R), g.range(-R, R));
    if (n == 2) stat("open.single_segment");
    if (g.chance(35)) { if (g.coin()) p[1].y = p[0].y; else p[n - 2].y = p[n - 1].y; stat("open.horizontal_end_segment"); }
    if (n >= 4 && g.chance(15)) { int j = (int)g.range(1, n - 3); p[j + 1].y = p[j].y; stat("open.horizontal_inner_segment"); }
    opn.push_back(p);
  }
  return opn;
}
// a polyline that crosses the box [-R,R]^2 many times (alternating sides), horizontally or vertically
static Path64 gen_zigzag(Rng& g, int64_t R) {
  Path64 p; int n = (int)g.range(4, 12);
  bool vertical = g.coin();
  int64_t a = -R + g.range(0, R / 4);
  for (int j = 0; j < n; ++j) {
    int64_t side = (j % 2 == 0) ? -(R + g.range(1, R / 2 + 1)) : (R + g.range(1, R / 2 + 1));
    if (g.chance(15)) side = g.range(-R / 2, R / 2);   // sometimes turn inside
    a += g.range(1, std::max<int64_t>(2, 2 * R / n));
    if (vertical) p.emplace_back(a, side); else p.emplace_back(side, a);
  }
  if (g.coin()) std::reverse(p.begin(), p.end());
  stat("open.zigzag");
  return p;
}

int main(int argc, char** argv) {
  Rng g(seed_from_args(argc, argv));
  bool thorough = thorough_from_args(argc, argv);
  {
    // corpus: a polyline crossing a (slightly skew, general position) square: Intersection gives the inside piece, Difference the two outside pieces
    Paths64 none;
    Paths64 sq = {Path64{Point64(0, 0), Point64(100, 3), Point64(103, 101), Point64(2, 98)}};
    run_all16(g, none, sq, {Path64{Point64(-50, 40), Point64(160, 61)}}, "corpus.segment-through-square", true);
    run_all16(g, none, sq, {Path64{Point64(-50, 40), Point64(50, 55), Point64(160, 47)}}, "corpus.polyline-through-square", true);
    run_all16(g, none, sq, {Path64{Point64(-50, 40), Point64(50, -30), Point64(60, 150), Point64(150, 50)}}, "corpus.polyline-3-crossings", true);
    run_all16(g, none, sq, {Path64{Point64(20, 20), Point64(50, 70), Point64(80, 30)}}, "corpus.polyline-inside", true);
    run_all16(g, none, sq, {Path64{Point64(50, 50), Point64(150, 55)}, Path64{Point64(-40, 70), Point64(40, 75)}}, "corpus.segments-start-end-inside", true);
    run_all16(g, {Path64{Point64(30, -20), Point64(140, -10), Point64(70, 60)}}, sq, {Path64{Point64(-50, 40), Point64(160, 21)}, Path64{Point64(90, -40), Point64(95, 140), Point64(20, -30)}}, "corpus.with-closed-subject", true);
    // rectangles with horizontal edges; open paths with horizontal segments on and off the lines of the closed horizontals
    Paths64 rc = {rect_path(0, 0, 100, 100)};
    run_all16(g, none, rc, {Path64{Point64(-50, 40), Point64(160, 40)}}, "corpus.horizontal-segment", true);
    run_all16(g, none, rc, {Path64{Point64(-50, 140), Point64(50, 100), Point64(160, 130)}}, "corpus.locmax-on-horizontal-edge", false);
    run_all16(g, none, rc, {Path64{Point64(-50, -40), Point64(50, 0), Point64(160, -30)}}, "corpus.locmin-on-horizontal-edge", false);
    run_all16(g, none, rc, {Path64{Point64(20, 50), Point64(50, 100), Point64(80, 50)}}, "corpus.locmin-on-horizontal-edge-inside", false);
    run_all16(g, none, rc, {Path64{Point64(20, 150), Point64(50, 100), Point64(80, 150)}}, "corpus.locmin-on-horizontal-edge-outside", false);
    run_all16(g, none, rc, {Path64{Point64(50, 0), Point64(50, 100)}, Path64{Point64(30, 100), Point64(70, 100)}, Path64{Point64(70, 100), Point64(70, 30)}}, "corpus.ends-on-horizontal-edges", false);
  }
  int N = thorough ? 6000 : 450;
  for (int i = 0; i < N; ++i) {
    switch (i % 5) {
      case 0: case 1: {  // general position closed sets + random polylines (C05.cpp's generator)
        GpInput in = gen_gp(g);
        if (in.R > ((int64_t)1 << 52)) { in.R = 3000; in = gen_gp(g); }
        if (in.R > ((int64_t)1 << 52)) break;
        if (in.clip.empty()) in.clip.push_back(star_poly(g, 5, in.R / 8, in.R / 2));
        Paths64 opn = gen_open_random(g, in.R);
        Paths64 subj = g.chance(60) ? in.subj : Paths64();
        if (i % 10 == 0) run_all16(g, subj, in.clip, opn, "gp", true);
        else run_some(g, subj, in.clip, opn, "gp", 4);
        stat("input.magnitude." + std::to_string(in.R));
        break; }
      case 2: {  // zigzag polylines crossing many times
        GpInput in = gen_gp(g);
        if (in.R > ((int64_t)1 << 40)) { in.R = 3000; in = gen_gp(g); }
        if (in.R > ((int64_t)1 << 40)) break;
        if (in.clip.empty()) in.clip.push_back(star_poly(g, 5, in.R / 8, in.R / 2));
        Paths64 opn; int no = (int)g.range(1, 2);
        for (int k = 0; k < no; ++k) opn.push_back(gen_zigzag(g, std::max<int64_t>(in.R / 2, 8)));
        Paths64 subj = g.chance(50) ? in.subj : Paths64();
        run_some(g, subj, in.clip, opn, "zigzag", 4);
        break; }
      case 3: {  // small lattices: open vertices on closed edges / vertices, coincident stretches; no horizontal closed edge in two thirds of the cases
        int range = (i % 3 == 0) ? 8 : (i % 3 == 1 ? 40 : 1000);
        bool allow_h = g.chance(35);
        auto mk = [&](int n, bool closed) {
          Path64 p;
          for (int tries = 0; tries < 50; ++tries) {
            p.clear();
            for (int k = 0; k < n; ++k) p.emplace_back(g.range(0, range), g.range(0, range));
            bool h = false;
            for (int k = 0; k + (closed ? 0 : 1) < n; ++k) if (p[k].y == p[(k + 1) % n].y) h = true;
            if (allow_h || !h) break;
          }
          return p; };
        Paths64 s, cl, op; int ns = (int)g.range(0, 2), nc = (int)g.range(1, 3), no = (int)g.range(1, 3);
        for (int k = 0; k < ns; ++k) s.push_back(mk((int)g.range(3, 7), true));
        for (int k = 0; k < nc; ++k) cl.push_back(mk((int)g.range(3, 7), true));
        for (int k = 0; k < no; ++k) op.push_back(mk((int)g.range(2, 6), false));
        run_some(g, s, cl, op, allow_h ? "lattice-h" : "lattice", 4, false);
        break; }
      default: {  // rectangles (horizontal closed edges) and polylines with vertices / horizontal segments on the lines of those edges
        int64_t u = g.pick(std::vector<int64_t>{1, 10, 1000});
        Paths64 cl, s;
        int nr = (int)g.range(1, 2);
        std::vector<int64_t> ys, xs;
        for (int k = 0; k < nr; ++k) {
          int64_t l = g.range(0, 6), t = g.range(0, 6), r = l + g.range(2, 8), b = t + g.range(2, 8);
          Path64 q = rect_path(l * u, t * u, r * u, b * u);
          if (g.coin()) std::reverse(q.begin(), q.end());
          (g.chance(75) ? cl : s).push_back(q);
          ys.push_back(t * u); ys.push_back(b * u); xs.push_back(l * u); xs.push_back(r * u);
        }
        if (cl.empty()) cl.swap(s);
        Paths64 op; int no = (int)g.range(1, 3);
        for (int k = 0; k < no; ++k) {
          Path64 p; int n = (int)g.range(2, 6);
          for (int j = 0; j < n; ++j) {
            int64_t x = g.range(-2, 16) * u + (u > 1 ? g.range(-2, 2) : 0), y = g.range(-2, 16) * u + (u > 1 ? g.range(-2, 2) : 0);
            if (g.chance(45)) y = g.pick(ys);      // a vertex on the line of a horizontal closed edge
            if (g.chance(10)) x = g.pick(xs);
            p.emplace_back(x, y);
          }
          op.push_back(p);
        }
        run_some(g, s, cl, op, "rect-aligned", 4, false);
        break; }
    }
  }
  ORingsZTrace& t = oringsz_trace();
  stat("events.total", g_events);
  stat("events.update", t.n_update);
  stat("events.update.open_edge", t.n_update_open);
  stat("events.insert_pair", t.n_ip);
  stat("events.insert_one", t.n_i1);
  stat("events.intersect", t.n_x);
  stat("events.intersect.open_with_closed", t.n_x_open_closed);
  stat("events.intersect.open_with_open", t.n_x_open_open);
  stat("events.intersect.at_open_local_minimum_vertex", t.n_xl);
  stat("events.intersect.at_open_local_minimum_vertex.partner_found", t.n_xl_e3);
  stat("events.intersect.point_from_intersect_node", t.n_x_node);
  stat("events.intersect.point_from_local_minimum", t.n_x_locmin);
  stat("events.intersect.point_from_maximum", t.n_x_maxima);
  stat("events.intersect.point_from_horizontal", t.n_x_horz);
  stat("events.remove_pair", t.n_rp);
  stat("events.remove_pair.open", t.n_rp_open);
  stat("events.remove_one", t.n_r1);
  stat("events.join", t.n_join);
  stat("events.split", t.n_split);
  stat("trace.snapshots", t.n_snap);
  stat("trace.open_records_dumped", t.n_open_rings_dumped);
  stat("trace.open_record_points_dumped", t.n_open_ring_points);
  stat("trace.closed_rings_dumped", t.n_oringsz_dumped);
  flush_stats();
  return 0;
}
