// C09 harness: RectClipLines (real code, in-process) against the Lean model (bit-exact, `LINES`) and against the
// exact-rational statement of the property (`LINESCHECK`); helper functions GetLocation / GetSegmentIntersection
// against their models (`LOC`, `SEGINT`).
#include "common.h"
#include "clipper.rectclip.cpp"  // the library source itself (found through -I <repo>/CPP/Clipper2Lib/src)
using namespace vh;

static const int64_t B40 = (int64_t)1 << 40;

// the input being processed, printed if a sanitizer aborts the process (./check looks for VERIF-CURRENT)
static std::string g_current;
extern "C" void __sanitizer_set_death_callback(void (*)(void));
static void on_death() { fprintf(stderr, "VERIF-CURRENT: %s\n", g_current.c_str()); }

static std::string SR(const Rect64& r) { return S(r.left) + " " + S(r.top) + " " + S(r.right) + " " + S(r.bottom); }

// ---------------------------------------------------------------------------------------------- generators
struct Scene { Rect64 rect; int64_t scale; };  // scale: typical distance of interest

static Rect64 gen_rect(Rng& g, int kind) {
  switch (kind) {
    case 0: return Rect64(0, 0, 3, 3);  // the lattice rectangle
    case 1: { int64_t l = g.range(-50, 50), t = g.range(-50, 50); return Rect64(l, t, l + g.range(1, 60), t + g.range(1, 60)); }
    case 2: { int64_t l = g.range(-100000, 100000), t = g.range(-100000, 100000); return Rect64(l, t, l + g.range(1, 200000), t + g.range(1, 200000)); }
    case 3: {  // huge rectangle
      int64_t l = g.range(-B40, B40 / 2), t = g.range(-B40, B40 / 2);
      return Rect64(l, t, g.range(l + 1, B40), g.range(t + 1, B40)); }
    case 4: {  // small rectangle far from the origin
      int64_t w = g.range(1, 1000), h = g.range(1, 1000);
      int64_t l = g.coin() ? B40 - w - g.range(0, 1000) : -B40 + g.range(0, 1000), t = g.coin() ? B40 - h - g.range(0, 1000) : -B40 + g.range(0, 1000);
      return Rect64(l, t, l + w, t + h); }
    default: return Rect64(-B40, -B40, B40, B40);
  }
}

static int64_t clamp40(int64_t v) { return std::max(-B40, std::min(B40, v)); }
static Point64 clampP(Point64 p) { return Point64(clamp40(p.x), clamp40(p.y)); }

// a coordinate "around" [lo,hi]: inside, on an end, just outside, far outside
static int64_t around(Rng& g, int64_t lo, int64_t hi) {
  int64_t span = hi - lo;
  switch (g.next() % 10) {
    case 0: return lo;
    case 1: return hi;
    case 2: return lo - g.range(1, 2);
    case 3: return hi + g.range(1, 2);
    case 4: return clamp40(lo - g.range(1, span + 2));
    case 5: return clamp40(hi + g.range(1, span + 2));
    case 6: return g.coin() ? clamp40(lo - g.range(1, B40 / 2)) : clamp40(hi + g.range(1, B40 / 2));
    default: return g.range(lo, hi);
  }
}
static Point64 pt_around(Rng& g, const Rect64& r) { return Point64(around(g, r.left, r.right), around(g, r.top, r.bottom)); }
static Point64 corner(const Rect64& r, int k) {
  switch (k & 3) { case 0: return Point64(r.left, r.top); case 1: return Point64(r.right, r.top); case 2: return Point64(r.right, r.bottom); default: return Point64(r.left, r.bottom); }
}
static Point64 on_boundary(Rng& g, const Rect64& r) {
  switch (g.next() % 6) {
    case 0: return Point64(r.left, g.range(r.top, r.bottom));
    case 1: return Point64(r.right, g.range(r.top, r.bottom));
    case 2: return Point64(g.range(r.left, r.right), r.top);
    case 3: return Point64(g.range(r.left, r.right), r.bottom);
    default: return corner(r, (int)(g.next() % 4));
  }
}

static int64_t gcd_ext(int64_t a, int64_t b, int64_t& x, int64_t& y) {
  if (b == 0) { x = 1; y = 0; return a; }
  int64_t x1, y1; int64_t d = gcd_ext(b, a % b, x1, y1);
  x = y1; y = x1 - (a / b) * y1; return d;
}

// two points in the regions adjacent to corner k whose connecting segment passes the corner at a distance far below one
// unit: cross(a - c, b - c) = t with |t| small.  Directions are chosen so that a and b are on different sides.
static bool graze_corner(Rng& g, const Rect64& r, int k, int64_t mag, int64_t tmax, Point64& a, Point64& b) {
  Point64 c = corner(r, k);
  int64_t u = g.range(1, mag), v = g.range(1, mag);
  int64_t x, y; int64_t d = gcd_ext(u, v, x, y);  // u x + v y = d
  u /= d; v /= d;
  gcd_ext(u, v, x, y);                               // u x + v y = 1
  int64_t t = g.range(-tmax, tmax);
  // want (p, q) with u q - v p = t :  q = t x + m v, p = -t y + m u
  __int128 q0 = (__int128)t * x, p0 = -(__int128)t * y;
  int64_t m = g.range(1, std::max<int64_t>(1, mag / std::max(u, v)));
  __int128 q = q0 + (__int128)m * v, p = p0 + (__int128)m * u;
  // normalise so that p, q > 0 and moderate
  if (p <= 0 || q <= 0 || p > 4 * (__int128)mag || q > 4 * (__int128)mag) {
    // shift m to bring p into (0, u]
    __int128 sh = p0 >= 0 ? -(p0 / u) : ((-p0) / u + 1);
    p = p0 + sh * u; q = q0 + sh * v;
    __int128 extra = g.range(0, std::max<int64_t>(0, mag / std::max(u, v)));
    p += extra * u; q += extra * v;
    if (p <= 0 || q <= 0 || p > 4 * (__int128)mag || q > 4 * (__int128)mag) return false;
  }
  // orientation of the two half lines depends on the corner: a goes "backwards" from the corner along (-u, +v)
  // rotated to the corner's outside quadrant pair.
  int sx = (k == 0 || k == 3) ? 1 : -1;  // +x points into the rectangle at the left corners
  int sy = (k == 0 || k == 1) ? 1 : -1;  // +y points into the rectangle at the top corners
  a = Point64(c.x - sx * u, c.y + sy * v);
  b = Point64(c.x + sx * (int64_t)p, c.y - sy * (int64_t)q);
  if (std::llabs(a.x) > B40 || std::llabs(a.y) > B40 || std::llabs(b.x) > B40 || std::llabs(b.y) > B40) return false;
  if (g.coin()) std::swap(a, b);
  return true;
}

static Path64 gen_polyline(Rng& g, const Rect64& r, int rkind, std::string& kind) {
  int n = (int)g.range(2, 12);
  Path64 p;
  int64_t w = r.right - r.left, h = r.bottom - r.top;
  switch (g.next() % 9) {
    case 0: {  // lattice around the rectangle (only meaningful for small rectangles, harmless otherwise)
      kind = "lattice";
      for (int i = 0; i < n; ++i) p.emplace_back(clamp40(r.left + g.range(-2, 2 + std::min<int64_t>(w, 3))), clamp40(r.top + g.range(-2, 2 + std::min<int64_t>(h, 3))));
      break; }
    case 1: {  // points around: inside / on / outside mixed
      kind = "around";
      for (int i = 0; i < n; ++i) p.push_back(pt_around(g, r));
      break; }
    case 2: {  // many vertices on the boundary, consecutive ones often on the same side (segments along an edge)
      kind = "boundary";
      for (int i = 0; i < n; ++i) {
        if (g.chance(70)) p.push_back(on_boundary(g, r)); else p.push_back(pt_around(g, r));
        if (i && g.chance(30)) { Point64 q = p[i - 1]; if (g.coin()) q.x = p[i].x; else q.y = p[i].y; p[i] = q; }
      }
      break; }
    case 3: {  // collinear with a side: runs along an edge, possibly beyond the corners
      kind = "along";
      bool horz = g.coin();
      int64_t fixed = horz ? (g.coin() ? r.top : r.bottom) : (g.coin() ? r.left : r.right);
      for (int i = 0; i < n; ++i) {
        if (g.chance(75)) { int64_t v = horz ? around(g, r.left, r.right) : around(g, r.top, r.bottom); p.push_back(horz ? Point64(v, fixed) : Point64(fixed, v)); }
        else p.push_back(pt_around(g, r));
      }
      break; }
    case 4: {  // exactly through corners: points c + k * d and c - k' * d
      kind = "through_corner";
      for (int i = 0; i < n; i += 2) {
        Point64 c = corner(r, (int)(g.next() % 4));
        int64_t lim = (rkind >= 3) ? (int64_t)1 << 20 : 40;
        int64_t dx = g.range(-lim, lim), dy = g.range(-lim, lim), k1 = g.range(0, 3), k2 = g.range(0, 3);
        p.push_back(clampP(Point64(c.x - k1 * dx, c.y - k1 * dy)));
        p.push_back(clampP(Point64(c.x + k2 * dx, c.y + k2 * dy)));
      }
      break; }
    case 5: {  // complete crossings: zig-zag between opposite / adjacent outside regions
      kind = "crossing";
      for (int i = 0; i < n; ++i) {
        int64_t m = std::max<int64_t>(1, std::min<int64_t>(B40 / 4, (w + h)));
        int side = (int)(g.next() % 4);
        int64_t ox = g.range(1, m), oy = g.range(1, m);
        Point64 q;
        if (side == 0) q = Point64(r.left - ox, around(g, r.top, r.bottom));
        else if (side == 1) q = Point64(around(g, r.left, r.right), r.top - oy);
        else if (side == 2) q = Point64(r.right + ox, around(g, r.top, r.bottom));
        else q = Point64(around(g, r.left, r.right), r.bottom + oy);
        p.push_back(clampP(q));
      }
      break; }
    case 6: {  // grazing corners with a tiny miss distance
      kind = "graze";
      for (int i = 0; i + 1 < n || p.size() < 2; i += 2) {
        Point64 a, b;
        int64_t mag = (rkind >= 3) ? B40 / 4 : (rkind == 2 ? 100000 : 50);
        int64_t tmax = (rkind >= 3) ? ((int64_t)1 << (int)g.range(0, 34)) : 3;
        if (graze_corner(g, r, (int)(g.next() % 4), mag, tmax, a, b)) { p.push_back(a); p.push_back(b); }
        else { p.push_back(pt_around(g, r)); p.push_back(pt_around(g, r)); }
      }
      break; }
    case 7: {  // ends on the boundary: outside -> boundary -> outside/inside
      kind = "ends_on_boundary";
      for (int i = 0; i < n; ++i) p.push_back((i % 2) ? on_boundary(g, r) : pt_around(g, r));
      break; }
    default: {  // duplicates and spikes
      kind = "dups_spikes";
      for (int i = 0; i < n; ++i) {
        if (i >= 1 && g.chance(25)) p.push_back(p[i - 1]);
        else if (i >= 2 && g.chance(25)) p.push_back(p[i - 2]);
        else p.push_back(pt_around(g, r));
      }
      break; }
  }
  return p;
}

// ---------------------------------------------------------------------------------------------- records
static int sgn(double d) { return d == 0 ? 0 : (d > 0 ? 1 : -1); }
// Known finding kf.lost_crossing (see the record emitted in main): when the double CrossProduct of a rectangle corner c
// against a segment a b is not sign-antisymmetric under swapping a and b (rounding of products above 2^53), the two
// GetIntersection calls of a "passing right through" step can disagree, the ignored second call fails and the default
// constructed ip2 = (0,0) is added to the output.  Inputs with such a (corner, segment) pair are kept at model level
// (the model reproduces the behaviour bit for bit) but are not judged at spec level by the generic generator.
static bool in_lost_crossing_class(const Rect64& r, const Path64& p) {
  for (size_t i = 0; i + 1 < p.size(); ++i)
    for (int k = 0; k < 4; ++k) {
      Point64 c = corner(r, k);
      if (sgn(CrossProduct(c, p[i], p[i + 1])) != -sgn(CrossProduct(c, p[i + 1], p[i]))) return true;
    }
  return false;
}

static void do_lines(const std::string& label, const Rect64& r, const Paths64& in, bool force_spec = false) {
  g_current = "LINES " + SR(r) + " " + S(in);
  Paths64 out = RectClipLines(r, in);
  emitM(label + ".model", "LINES " + SR(r) + " " + S(in), S(out));
  if (in.size() == 1 && !force_spec && in_lost_crossing_class(r, in[0])) { stat("skipped_spec.kf_lost_crossing_class"); return; }
  if (in.size() == 1) {
    emitS(label + ".spec", "LINESCHECK " + SR(r) + " " + S(in[0]) + " " + S(out));
    if (!force_spec) emitS(label + ".hyp", "LINESHYP " + SR(r) + " " + S(in[0]));
    // hypothesis (no mis-rounded CrossProduct sign on this run) and conclusion (Cover) of Props.C09Cover.lines_cover
    if (!force_spec) emitS(label + ".cover", "LINESCOVER " + SR(r) + " " + S(in[0]));
    stat("pieces", (long long)out.size());
    if (out.empty()) stat("result.empty"); else if (out.size() == 1) stat("result.one_piece"); else stat("result.several_pieces");
  }
}

static void do_loc(const Rect64& r, const Point64& p) {
  Location loc = Location::Inside;
  bool b = GetLocation(r, p, loc);
  emitM("loc.model", "LOC " + SR(r) + " " + S(p), std::string(b ? "1 " : "0 ") + std::to_string((int)loc));
}

static void do_segint(const Point64& p1, const Point64& p2, const Point64& p3, const Point64& p4) {
  Point64 ip(0, 0);
  bool b = GetSegmentIntersection(p1, p2, p3, p4, ip);
  emitM("segint.model", "SEGINT " + S(p1) + " " + S(p2) + " " + S(p3) + " " + S(p4), std::string(b ? "1 " : "0 ") + S(ip));
  stat(b ? "segint.true" : "segint.false");
}

int main(int argc, char** argv) {
  Rng g(seed_from_args(argc, argv));
  bool thorough = thorough_from_args(argc, argv);
  __sanitizer_set_death_callback(on_death);

  // ---- fixed corpus: degenerate inputs named by the property / the API
  {
    Rect64 r(0, 0, 10, 10);
    do_lines("corpus", r, Paths64{});
    do_lines("corpus", r, Paths64{Path64{}});
    do_lines("corpus", r, Paths64{Path64{Point64(5, 5)}});
    do_lines("corpus", r, Paths64{Path64{Point64(5, 5), Point64(5, 5)}});
    do_lines("corpus", r, Paths64{Path64{Point64(5, 5), Point64(6, 6)}});
    do_lines("corpus", r, Paths64{Path64{Point64(-5, 5), Point64(15, 5)}});
    do_lines("corpus", r, Paths64{Path64{Point64(-5, -5), Point64(15, 15)}});
    do_lines("corpus", r, Paths64{Path64{Point64(0, 0), Point64(10, 10)}});
    do_lines("corpus", r, Paths64{Path64{Point64(0, 0), Point64(10, 0), Point64(10, 10), Point64(0, 10), Point64(0, 0)}});
    do_lines("corpus", r, Paths64{Path64{Point64(-5, 0), Point64(15, 0)}});
    do_lines("corpus", r, Paths64{Path64{Point64(-5, 5), Point64(0, 5), Point64(-5, 7)}});
    do_lines("corpus", r, Paths64{Path64{Point64(-5, 5), Point64(0, 5), Point64(5, 7)}});
    do_lines("corpus", r, Paths64{Path64{Point64(0, 5), Point64(5, 0), Point64(15, 3)}});
    do_lines("corpus", r, Paths64{Path64{Point64(-5, 5), Point64(5, -5)}});     // cuts corner region, touching at (0,0)
    do_lines("corpus", r, Paths64{Path64{Point64(-4, 5), Point64(5, -5)}});
    do_lines("corpus", Rect64(0, 0, 0, 10), Paths64{Path64{Point64(-5, 5), Point64(5, 5)}});   // empty rectangles
    do_lines("corpus", Rect64(0, 0, 10, 0), Paths64{Path64{Point64(5, -5), Point64(5, 5)}});
    do_lines("corpus", Rect64(10, 10, 0, 0), Paths64{Path64{Point64(5, -5), Point64(5, 5)}});
    do_lines("corpus", Rect64(-B40, -B40, B40, B40), Paths64{Path64{Point64(-B40, -B40), Point64(B40, B40), Point64(B40, -B40)}});
  }

  // ---- witnesses of Props.C09Cover.pieces_not_maximal_witness(2): a boundary vertex reached from outside through the
  // interior splits the part of the polyline inside the closed rectangle into two pieces sharing that vertex.
  // The exact-arithmetic model (driver command LINESEXACT, value pinned by the theorems) must return what the real code
  // returns, and the real code must return the two pieces.
  {
    Rect64 r(0, 0, 10, 10);
    struct W { Paths64 in, want; };
    std::vector<W> ws = {
      { Paths64{Path64{Point64(20, 10), Point64(0, 0), Point64(10, 20)}},
        Paths64{Path64{Point64(10, 5), Point64(0, 0)}, Path64{Point64(0, 0), Point64(5, 10)}} },
      { Paths64{Path64{Point64(-5, 3), Point64(0, 4), Point64(10, 6), Point64(5, 5)}},
        Paths64{Path64{Point64(0, 4), Point64(10, 6)}, Path64{Point64(10, 6), Point64(5, 5)}} } };
    for (auto& w : ws) {
      do_lines("cover.boundary_vertex_split", r, w.in);
      Paths64 out = RectClipLines(r, w.in);
      emitM("cover.boundary_vertex_split.exact", "LINESEXACT " + SR(r) + " " + S(w.in), S(out));
      if (out != w.want)
        emitF("cover.boundary_vertex_split", "real RectClipLines does not reproduce the witness of pieces_not_maximal_witness on " + S(w.in) + ": " + S(out));
      else stat("cover.witness_reproduced");
    }
  }

  // ---- known finding (minimised by hand; exact crossing of x = 347 is at y = 433.99999999, i.e. the segment misses the
  // rectangle, yet the output is the piece (0,0) -> (347,434)):
  do_lines("kf.lost_crossing", Rect64(347, 434, 67109211, 67109298), Paths64{Path64{Point64(-28115609, 29720495), Point64(95231410, -100663865)}}, true);

  // ---- lattice: all 2-point and (thorough) 3-point polylines on the 7x7 grid around the 3x3 rectangle
  {
    Rect64 r(0, 0, 3, 3);
    std::vector<Point64> grid;
    for (int x = -2; x <= 5; ++x) for (int y = -2; y <= 5; ++y) grid.emplace_back(x, y);
    for (size_t i = 0; i < grid.size(); ++i) for (size_t j = 0; j < grid.size(); ++j) {
      if (!thorough && ((i * 31 + j * 17) % 4 != 0)) continue;
      do_lines("lattice2", r, Paths64{Path64{grid[i], grid[j]}});
    }
    int n3 = thorough ? 100000 : 4000;
    for (int t = 0; t < n3; ++t)
      do_lines("lattice3", r, Paths64{Path64{g.pick(grid), g.pick(grid), g.pick(grid)}});
  }

  // ---- random scenes
  int N = thorough ? 250000 : 15000;
  for (int t = 0; t < N; ++t) {
    int rkind = (int)(g.next() % 6);
    Rect64 r = gen_rect(g, rkind);
    std::string kind;
    Path64 p = gen_polyline(g, r, rkind, kind);
    stat("gen.rect" + std::to_string(rkind));
    stat("gen.poly." + kind);
    stat("gen.n" + std::to_string(p.size()));
    do_lines("rand", r, Paths64{p});
    if (t % 8 == 0) {  // several polylines in one call (model level only): state is reset between paths
      std::string k2, k3;
      Paths64 ps{p, gen_polyline(g, r, rkind, k2), Path64{}, gen_polyline(g, r, rkind, k3)};
      do_lines("multi", r, ps);
    }
    if (t % 4 == 0) {
      do_loc(r, p[0]); do_loc(r, on_boundary(g, r)); do_loc(r, corner(r, t));
      Point64 a = corner(r, t / 4), b = corner(r, t / 4 + 1);
      do_segint(p[0], p[1], a, b);
      do_segint(p[1], p[0], b, a);
      do_segint(on_boundary(g, r), p[0], a, b);
    }
  }
  flush_stats();
  return 0;
}
