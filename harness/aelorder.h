// Sink for hook H1 (clipper.verif.h) that ties the GEOMETRIC ORDER of the active edge list to the Lean model
// `Model/AelOrder.lean` (driver `Driver/AelOrder.lean`):  IsValidAelOrder, InsertLeftEdge, InsertRightEdge + the settling
// loop of the right bound in InsertLocalMinimaIntoAEL.  /repo is not touched: the insertion hooks kInsertPair / kInsertOne
// fire right after the insertion and the sink reads the clipper's private state.
//
// At every insertion event the AEL as it was BEFORE the insertion is reconstructed (the current AEL minus the inserted
// edge(s); for kInsertPair the left bound is inserted first, then the right bound behind it) and with, per edge, exactly the
// fields the generated function reads:
//     E := curr_x bot.x bot.y top.x top.y is_left_bound IsMaxima(e) NextVertex(e)->pt.x .y PrevPrevVertex(e)->pt.x .y
//          local_min->vertex->pt.y (join_with==Right)                                           (13 tokens)
// Records (model level):
//     M  AELINSERT L k E*k E_new          expected  "<idx> <bits> <branches>"
//     M  AELINSERT R k E*k i E_new        expected  "<idx> <bits> <branches>"   (AEL with the left bound at index i)
//   idx      = index at which the REAL engine put the edge (L: right after InsertLeftEdge, -1 if it was not linked;
//              R: after the settling loop, counted from the kIntersect events that follow the insertion)
//   bits     = the REAL IsValidAelOrder(resident_j, newcomer) for every resident j (called here on the real Active objects)
//   branches = which branch of IsValidAelOrder decided, per resident (classified here, must agree with the Lean spec):
//              0 curr_x differ, 1 cross sign, 2 resident continues higher, 3 newcomer continues higher,
//              4 resident not inserted at this minimum, 5 different sides, 6 resident's bounds collinear, 7 alternate turn
// Spec level (general-position inputs only, `want_sorted`): the AEL after every insertion, with the edges' real end points,
// is collected into one request  AELSORTEDALL mode tol n (y k (bot.x bot.y top.x top.y isNew joined)*k)*n  per Execute.
//
// Needs unity.h included with VERIF_PRIVATE_ACCESS.
#pragma once
#include "common.h"
#ifndef CLIPPER2_VERIF
#error "aelorder.h needs the hooks: compile with -DCLIPPER2_VERIF"
#endif
namespace vh {
namespace aelorder {
typedef __int128 i128;
inline int sgn128(i128 v) { return v > 0 ? 1 : v < 0 ? -1 : 0; }
// sign of cross(a,b,c) = (b-a) x (c-b), exact for |coordinates| < 2^62
inline int cross_sign(const Clipper2Lib::Point64& a, const Clipper2Lib::Point64& b, const Clipper2Lib::Point64& c) {
  return sgn128(((i128)b.x - a.x) * ((i128)c.y - b.y) - ((i128)b.y - a.y) * ((i128)c.x - b.x));
}
struct EdgeRec {
  int64_t curr_x; Clipper2Lib::Point64 bot, top; bool is_left, is_max; Clipper2Lib::Point64 nv, ppv; int64_t lmy; bool join_right;
  bool is_new = false, joined = false;
};
inline EdgeRec rec_of(const Clipper2Lib::Active* e) {
  using namespace Clipper2Lib;
  EdgeRec r;
  r.curr_x = e->curr_x; r.bot = e->bot; r.top = e->top; r.is_left = e->is_left_bound; r.is_max = IsMaxima(*e);
  r.nv = NextVertex(*e)->pt; r.ppv = PrevPrevVertex(*e)->pt; r.lmy = e->local_min->vertex->pt.y;
  r.join_right = e->join_with == JoinWith::Right;
  r.joined = e->join_with != JoinWith::NoJoin;
  return r;
}
inline std::string str(const EdgeRec& r) {
  return S(r.curr_x) + " " + S(r.bot) + " " + S(r.top) + " " + (r.is_left ? "1" : "0") + " " + (r.is_max ? "1" : "0") + " " + S(r.nv) + " " +
         S(r.ppv) + " " + S(r.lmy) + " " + (r.join_right ? "1" : "0");
}
// which branch of IsValidAelOrder decides (statistics; cross-checked against the Lean spec)
inline int branch_of(const EdgeRec& r, const EdgeRec& n) {
  if (n.curr_x != r.curr_x) return 0;
  if (cross_sign(r.top, n.bot, n.top) != 0) return 1;
  if (!r.is_max && r.top.y > n.top.y) return 2;
  if (!n.is_max && n.top.y > r.top.y) return 3;
  if (r.bot.y != n.bot.y || r.lmy != n.bot.y) return 4;
  if (r.is_left != n.is_left) return 5;
  if (cross_sign(r.ppv, r.bot, r.top) == 0) return 6;
  return 7;
}
inline const char* branch_name(int b) {
  static const char* nm[] = {"0.curr_x_differ", "1.cross_sign", "2.collinear.resident_continues_higher", "3.collinear.newcomer_continues_higher",
                             "4.collinear.resident_not_from_this_minimum", "5.collinear.different_sides", "6.collinear.resident_bounds_collinear",
                             "7.collinear.alternate_bound_turn"};
  return nm[b];
}
inline const char* len_bucket(size_t k) {
  if (k == 0) return "0"; if (k == 1) return "1"; if (k == 2) return "2"; if (k <= 4) return "3-4"; if (k <= 8) return "5-8";
  if (k <= 16) return "9-16"; if (k <= 32) return "17-32"; return "33+";
}

struct OrderTrace {
  bool want_sorted = false;     // collect the spec-level AELSORTEDALL request of this Execute
  std::string label = "ael-order";
  std::string sorted_buf; long sorted_n = 0;
  // the right bound whose settling loop is still being observed
  bool pending = false;
  const Clipper2Lib::Active* pend_rb = nullptr;
  std::vector<EdgeRec> pend_ael;   // AEL with the left bound, without the right bound
  std::string pend_bits, pend_branches;
  EdgeRec pend_new;
  int pend_left = 0, pend_observed = 0, pend_emulated = 0;
  bool pend_horizontal = false;
  std::vector<EdgeRec> pend_sorted_ael;  // AEL at hook time (both bounds) for the spec record
  int64_t pend_y = 0, pend_b0 = 0;
  std::string first_error;
  void clear() { sorted_buf.clear(); sorted_n = 0; pending = false; first_error.clear(); }
};
inline OrderTrace& order_trace() { static thread_local OrderTrace t; return t; }

inline void add_sorted(int64_t y, const std::vector<EdgeRec>& ael) {
  OrderTrace& t = order_trace();
  t.sorted_buf += " " + S(y) + " " + std::to_string(ael.size());
  for (const EdgeRec& r : ael) t.sorted_buf += " " + S(r.bot) + " " + S(r.top) + " " + (r.is_new ? "1" : "0") + " " + (r.joined ? "1" : "0");
  t.sorted_n++;
}
// real predicate + branch for every resident
inline void bits_for(const std::vector<const Clipper2Lib::Active*>& res, const std::vector<EdgeRec>& recs, const Clipper2Lib::Active* n,
                     const EdgeRec& nrec, std::string& bits, std::string& branches) {
  bits.clear(); branches.clear();
  for (size_t j = 0; j < res.size(); ++j) {
    bits += Clipper2Lib::IsValidAelOrder(*res[j], *n) ? '1' : '0';
    branches += (char)('0' + branch_of(recs[j], nrec));
  }
  if (res.empty()) { bits = "-"; branches = "-"; }
}
inline void emit_insert(const char* side, const std::vector<EdgeRec>& ael, int left_idx, const EdgeRec& n, int idx, const std::string& bits,
                        const std::string& branches) {
  OrderTrace& t = order_trace();
  std::string req = std::string("AELINSERT ") + side + " " + std::to_string(ael.size());
  for (const EdgeRec& r : ael) req += " " + str(r);
  if (side[0] == 'R') req += " " + std::to_string(left_idx);
  req += " " + str(n);
  emitM(t.label + "." + side, req, std::to_string(idx) + " " + bits + " " + branches);
}
// statistics over the calls the engine really makes
inline void stat_calls(const char* side, const std::vector<EdgeRec>& ael, size_t from, size_t upto_incl, const EdgeRec& n) {
  for (size_t j = from; j < ael.size() && j <= upto_incl; ++j)
    stat(std::string("order.calls.") + side + ".branch." + branch_name(branch_of(ael[j], n)));
}
inline void flush_pending() {
  OrderTrace& t = order_trace();
  if (!t.pending) return;
  t.pending = false;
  int swaps = t.pend_observed;
  if (t.pend_observed != t.pend_emulated && t.first_error.empty())
    t.first_error = "settling loop of the right bound made " + std::to_string(t.pend_observed) + " swaps, the real IsValidAelOrder on the same edges says " +
                    std::to_string(t.pend_emulated);
  stat((!t.pend_horizontal && t.pend_b0 > t.pend_y) ? "order.R.loop_end.observed_via_bot_y" : "order.R.loop_end.bounded_by_predicate");
  int idx = t.pend_left + 1 + swaps;
  emit_insert("R", t.pend_ael, t.pend_left, t.pend_new, idx, t.pend_bits, t.pend_branches);
  stat("order.insertions.R");
  stat(std::string("order.R.swaps.") + (swaps == 0 ? "0" : swaps == 1 ? "1" : swaps == 2 ? "2" : "3+"));
  stat(std::string("order.R.ael_length.") + len_bucket(t.pend_ael.size()));
  stat_calls("R", t.pend_ael, (size_t)t.pend_left + 1, (size_t)t.pend_left + 1 + swaps, t.pend_new);
  if (t.want_sorted) {
    std::vector<EdgeRec> a = t.pend_sorted_ael;   // [.. left right x1 x2 ..]  ->  right moved `swaps` places
    size_t p = (size_t)t.pend_left + 1;
    for (int s = 0; s < swaps && p + 1 < a.size(); ++s, ++p) std::swap(a[p], a[p + 1]);
    add_sorted(t.pend_y, a);
  }
}

inline void order_sink_fn(int ev, const Clipper2Lib::ClipperBase* c, const Clipper2Lib::Active* a) {
  using namespace Clipper2Lib;
  OrderTrace& t = order_trace();
  if (ev == verif::kIntersect && t.pending && a == t.pend_rb) {
    // Is this swap one of the settling loop, or a later one (ProcessIntersectList / DoHorizontal report the same event)?
    // ExecuteInternal sets bot_y_ = y only after InsertLocalMinimaIntoAEL(y) and the horizontals of y: while the loop runs,
    // bot_y_ still holds the value it had at the insertion hook (the previous scanline, > y).  Not decisive for a horizontal right bound (DoHorizontal runs before the
    // assignment) nor on the first scanline unless the initial bot_y_ (0) lies above it (scanlines descend, so a value > y can
    // never come back; a value < y can): then only as many swaps as the real predicate announces are attributed to the loop
    // (and fewer are an error).
    // A horizontal edge that DoHorizontal moves leftwards across the right bound reports the right bound as well; unlike a
    // horizontal resident passed by the settling loop, that edge has already been popped from the list of pending horizontals.
    bool decisive = !t.pend_horizontal && t.pend_b0 > t.pend_y;
    bool by_do_horizontal = false;
    if (const Active* p = a->prev_in_ael)
      if (p->top.y == p->bot.y) {
        by_do_horizontal = true;
        for (const Active* h = c->sel_; h; h = h->next_in_sel) if (h == p) { by_do_horizontal = false; break; }
      }
    bool in_loop = decisive ? (c->bot_y_ == t.pend_b0 && a->bot.y == t.pend_y && !by_do_horizontal) : (t.pend_observed < t.pend_emulated);
    if (in_loop) { t.pend_observed++; return; }
  }
  if ((ev == verif::kJoin || ev == verif::kSplit) && t.pending) return;   // inside IntersectEdges / CheckJoinRight: no change of order
  flush_pending();
  if (ev != verif::kInsertPair && ev != verif::kInsertOne) return;
  const Active* left = a;
  const Active* right = (ev == verif::kInsertPair) ? a->next_in_ael : nullptr;
  // the AEL now, and where the new edges are
  std::vector<const Active*> now;
  int li = -1;
  for (const Active* e = c->actives_; e; e = e->next_in_ael) { if (e == left) li = (int)now.size(); now.push_back(e); }
  // ---- left bound: AEL before = now minus {left, right}
  std::vector<const Active*> before;
  for (const Active* e : now) if (e != left && e != right) before.push_back(e);
  std::vector<EdgeRec> brec;
  for (const Active* e : before) brec.push_back(rec_of(e));
  // CheckJoinLeft(left bound) ran between the insertion and the hook: it may have joined the left bound to its left neighbour
  if (li > 0 && left->join_with == JoinWith::Left) { brec[li - 1].join_right = false; stat("order.L.joined_to_prev_right_after_insertion"); }
  EdgeRec lrec = rec_of(left);
  lrec.join_right = false;
  std::string bits, branches;
  bits_for(before, brec, left, lrec, bits, branches);
  emit_insert("L", brec, 0, lrec, li, bits, branches);
  stat(ev == verif::kInsertPair ? "order.insertions.L.pair" : "order.insertions.L.single");
  stat(std::string("order.L.ael_length.") + len_bucket(brec.size()));
  if (li < 0) stat("order.L.not_linked");
  else {
    stat(std::string("order.L.position.") + (brec.empty() ? "empty_ael" : li == 0 ? "front" : li == (int)brec.size() ? "back" : "middle"));
    // calls made by the engine: resident 0; if valid, residents 1.. up to the first invalid one (index j) or the end;
    // the edge lands at j, or at j+1 after the JoinWith::Right skip
    size_t last = 0;
    if (li > 0) {
      size_t j = 1; while (j < brec.size() && bits[j] == '1') ++j;
      last = j;
      size_t want = j + (brec[j - 1].join_right ? 1 : 0);
      if (brec[j - 1].join_right) stat("order.L.join_right_skip_taken");
      if ((size_t)li != want && t.first_error.empty())
        t.first_error = "InsertLeftEdge linked the edge at " + std::to_string(li) + " but the real IsValidAelOrder values and join_with put it at " + std::to_string(want);
    } else if (!brec.empty() && bits[0] == '1' && t.first_error.empty())
      t.first_error = "InsertLeftEdge linked the edge in front although IsValidAelOrder(actives_, e) is true";
    stat_calls("L", brec, 0, last, lrec);
  }
  int64_t y = left->bot.y;
  if (ev == verif::kInsertOne) {
    if (t.want_sorted && li >= 0) {
      std::vector<EdgeRec> s;
      for (const Active* e : now) { EdgeRec r = rec_of(e); r.is_new = (e == left); s.push_back(r); }
      add_sorted(y, s);
    }
    return;
  }
  // ---- right bound: AEL = now minus {right}; left bound at li; the settling loop has not run yet
  if (!right || li < 0) { if (t.first_error.empty()) t.first_error = "kInsertPair without a right neighbour"; return; }
  t.pending = true; t.pend_rb = right; t.pend_left = li; t.pend_observed = 0; t.pend_y = y; t.pend_b0 = c->bot_y_;
  t.pend_horizontal = right->top.y == right->bot.y;
  t.pend_ael.clear();
  std::vector<const Active*> wo;
  for (const Active* e : now) if (e != right) { wo.push_back(e); t.pend_ael.push_back(rec_of(e)); }
  t.pend_new = rec_of(right);
  bits_for(wo, t.pend_ael, right, t.pend_new, t.pend_bits, t.pend_branches);
  t.pend_emulated = 0;
  for (const Active* e = right->next_in_ael; e && IsValidAelOrder(*e, *right); e = e->next_in_ael) t.pend_emulated++;
  t.pend_sorted_ael.clear();
  if (t.want_sorted)
    for (const Active* e : now) { EdgeRec r = rec_of(e); r.is_new = (e == left || e == right); t.pend_sorted_ael.push_back(r); }
}

struct OrderTraceScope {
  explicit OrderTraceScope(bool want_sorted, const std::string& label) {
    order_trace().clear(); order_trace().want_sorted = want_sorted; order_trace().label = label;
    Clipper2Lib::verif::ael_sink() = order_sink_fn;
  }
  // call after Execute returned
  void finish() { flush_pending(); Clipper2Lib::verif::ael_sink() = nullptr; }
  ~OrderTraceScope() { Clipper2Lib::verif::ael_sink() = nullptr; order_trace().pending = false; }
  // the spec-level request of this Execute (empty when nothing was inserted)
  // mode 0: general position (coincident lines are a failure), 1: degenerate inputs (coincident lines are skipped)
  std::string sorted_request(int mode, int64_t tol) const {
    const OrderTrace& t = order_trace();
    if (t.sorted_n == 0) return "";
    return "AELSORTEDALL " + std::to_string(mode) + " " + S(tol) + " " + std::to_string(t.sorted_n) + t.sorted_buf;
  }
};
}  // namespace aelorder
}  // namespace vh
