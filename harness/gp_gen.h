// Input generators shared by the C03 and C04 harnesses:
//   general position (margin verified with exact __int128 arithmetic), rectilinear, nested, degenerate.
#pragma once
#include "common.h"
#include <unistd.h>
#include <sys/wait.h>
#include <sys/resource.h>

namespace vh {
// run `f` in a child process with an 8 MB stack; true if the child was killed or stopped by a sanitizer
inline bool dies_in_child(const std::function<void()>& f) {
  fflush(stdout); fflush(stderr);
  pid_t pid = fork();
  if (pid == 0) {
    struct rlimit rl = {8 << 20, 8 << 20};
    setrlimit(RLIMIT_STACK, &rl);
    alarm(20);
    if (!freopen("/dev/null", "w", stderr)) {}
    int fd = dup(1); (void)fd;
    f();
    _exit(0);
  }
  int st = 0;
  waitpid(pid, &st, 0);
  return WIFSIGNALED(st) || (WIFEXITED(st) && WEXITSTATUS(st) != 0);
}

typedef __int128 i128;

struct Input {
  Paths64 subj, clip, open_subj;
  int cls = 0;             // 0 = arbitrary/degenerate, 1 = general position (verified), 2 = rectilinear
  std::string gen;         // generator name for the statistics
};

// ---------------------------------------------------------------------------------- exact geometry
struct Seg { Point64 a, b; int path; int idx; int n; };   // edge idx of closed path `path` with n vertices

inline std::vector<Seg> closed_edges(const Paths64& subj, const Paths64& clip) {
  std::vector<Seg> es;
  int pid = 0;
  for (const Paths64* ps : {&subj, &clip})
    for (auto& p : *ps) {
      int n = (int)p.size();
      for (int i = 0; i < n; ++i) es.push_back(Seg{p[i], p[(i + 1) % n], pid, i, n});
      ++pid;
    }
  return es;
}
inline i128 crossv(i128 ax, i128 ay, i128 bx, i128 by) { return ax * by - ay * bx; }
inline int sgn(i128 v) { return (v > 0) - (v < 0); }

// squared distance from the rational point (px/den, py/den), den > 0, to the segment a b is >= m^2 ?
// all coordinates relative; |coords| <= 2^14, den <= 2^30  ⇒  every intermediate < 2^125
inline bool dist_ge(i128 px, i128 py, i128 den, Point64 a, Point64 b, int m) {
  i128 ax = (i128)a.x * den, ay = (i128)a.y * den;
  i128 dx = (i128)(b.x - a.x), dy = (i128)(b.y - a.y);
  i128 rx = px - ax, ry = py - ay;           // (p - a) * den
  i128 len2 = dx * dx + dy * dy;
  i128 t = rx * dx + ry * dy;                // ((p-a)·d) * den
  i128 m2d2 = (i128)m * m * den * den;
  if (len2 == 0 || t <= 0) return rx * rx + ry * ry >= m2d2;
  if (t >= len2 * den) {
    i128 qx = px - (i128)b.x * den, qy = py - (i128)b.y * den;
    return qx * qx + qy * qy >= m2d2;
  }
  i128 c = rx * dy - ry * dx;                // cross * den
  return c * c >= m2d2 * len2;
}

// The property's notion of general position, checked exactly:
//  (1) every vertex is at least `m` units from every edge it is not an end point of;
//  (2) every point where two edges cross is at least `m` units from every third edge.
// Requires all coordinates within [-8192, 8192] (asserted by the caller).
inline bool general_position(const Paths64& subj, const Paths64& clip, int m = 3) {
  auto es = closed_edges(subj, clip);
  size_t E = es.size();
  for (auto& e : es) if (e.n < 3) return false;
  // (1)
  for (size_t i = 0; i < E; ++i) {
    const Seg& v = es[i];                    // vertex = start point of edge i
    for (size_t j = 0; j < E; ++j) {
      const Seg& e = es[j];
      bool incident = (e.path == v.path) && (e.idx == v.idx || (e.idx + 1) % e.n == v.idx);
      if (incident) continue;
      if (!dist_ge(v.a.x, v.a.y, 1, e.a, e.b, m)) return false;
    }
  }
  // (2)
  for (size_t i = 0; i < E; ++i)
    for (size_t j = i + 1; j < E; ++j) {
      const Seg &p = es[i], &q = es[j];
      i128 d1x = p.b.x - p.a.x, d1y = p.b.y - p.a.y, d2x = q.b.x - q.a.x, d2y = q.b.y - q.a.y;
      i128 den = crossv(d1x, d1y, d2x, d2y);
      if (den == 0) continue;                // parallel: (1) excludes overlap
      int s1 = sgn(crossv(d2x, d2y, p.a.x - q.a.x, p.a.y - q.a.y)), s2 = sgn(crossv(d2x, d2y, p.b.x - q.a.x, p.b.y - q.a.y));
      int s3 = sgn(crossv(d1x, d1y, q.a.x - p.a.x, q.a.y - p.a.y)), s4 = sgn(crossv(d1x, d1y, q.b.x - p.a.x, q.b.y - p.a.y));
      if (!(s1 * s2 < 0 && s3 * s4 < 0)) continue;   // touching configurations are excluded by (1)
      // X = p.a + t * d1,  t = cross(q.a - p.a, d2) / den
      i128 tn = crossv(q.a.x - p.a.x, q.a.y - p.a.y, d2x, d2y);
      if (den < 0) { den = -den; tn = -tn; }
      i128 xs = (i128)p.a.x * den + tn * d1x, ys = (i128)p.a.y * den + tn * d1y;
      for (size_t k = 0; k < E; ++k) {
        if (k == i || k == j) continue;
        if (!dist_ge(xs, ys, den, es[k].a, es[k].b, m)) return false;
      }
    }
  return true;
}

inline bool is_rectilinear(const Paths64& ps) {
  for (auto& p : ps) {
    size_t n = p.size();
    for (size_t i = 0; i < n; ++i) {
      const Point64 &a = p[i], &b = p[(i + 1) % n];
      if (a.x != b.x && a.y != b.y) return false;
    }
  }
  return true;
}

// ---------------------------------------------------------------------------------- touching solutions
// does some solution vertex lie on a solution edge it is not an end point of, or coincide with another vertex?
inline bool solution_touches(const Paths64& sol) {
  std::vector<std::pair<Point64, Point64>> es;
  for (auto& p : sol) for (size_t i = 0; i < p.size(); ++i) es.push_back({p[i], p[(i + 1) % p.size()]});
  for (auto& p : sol) for (auto& v : p) {
    int starts = 0;
    for (auto& e : es) {
      if (v == e.first) { ++starts; continue; }
      if (v == e.second) continue;
      i128 cr = (i128)(e.second.x - e.first.x) * (v.y - e.first.y) - (i128)(e.second.y - e.first.y) * (v.x - e.first.x);
      if (cr == 0 && std::min(e.first.x, e.second.x) <= v.x && v.x <= std::max(e.first.x, e.second.x) &&
          std::min(e.first.y, e.second.y) <= v.y && v.y <= std::max(e.first.y, e.second.y)) return true;
    }
    if (starts != 1) return true;
  }
  return false;
}

inline void translate(Paths64& ps, int64_t dx, int64_t dy) {
  for (auto& p : ps) for (auto& q : p) { q.x += dx; q.y += dy; }
}
inline void scale_paths(Paths64& ps, int64_t k) {
  for (auto& p : ps) for (auto& q : p) { q.x *= k; q.y *= k; }
}

// ---------------------------------------------------------------------------------- general position
// polygon on a coarse lattice, scaled and jittered; all coordinates within [-4000, 4000]
inline Path64 lattice_poly(Rng& g, int n, int L, int64_t s, int kind) {
  Path64 p;
  int64_t j = std::max<int64_t>(1, s / 4);
  if (kind == 0) {  // random vertices (self-intersecting in general)
    for (int i = 0; i < n; ++i)
      p.emplace_back(g.range(-L, L) * s + g.range(-j, j), g.range(-L, L) * s + g.range(-j, j));
  } else {          // star-shaped around a random centre
    int64_t cx = g.range(-L / 2, L / 2) * s, cy = g.range(-L / 2, L / 2) * s;
    int64_t rmax = (L - std::max(std::abs(cx), std::abs(cy)) / s) * s;
    p = star_poly(g, n, std::max<int64_t>(8, rmax / 3), std::max<int64_t>(16, rmax), cx, cy);
    for (auto& q : p) { q.x += g.range(-j, j); q.y += g.range(-j, j); }
  }
  return p;
}

// returns false when no general-position instance was found within the attempt budget
inline bool gen_general_position(Rng& g, Input& in) {
  for (int attempt = 0; attempt < 40; ++attempt) {
    in = Input();
    int L = (int)g.range(3, 12);
    int64_t s = g.pick(std::vector<int64_t>{8, 16, 37, 64, 100, 256, 300});
    if (L * s + s > 4000) s = 4000 / (L + 1);
    int ns = (int)g.range(1, 3), nc = (int)g.range(0, 2);
    for (int i = 0; i < ns; ++i) in.subj.push_back(lattice_poly(g, (int)g.range(3, 9), L, s, (int)g.range(0, 1)));
    for (int i = 0; i < nc; ++i) in.clip.push_back(lattice_poly(g, (int)g.range(3, 9), L, s, (int)g.range(0, 1)));
    bool inrange = true;
    for (const Paths64* ps : {&in.subj, &in.clip}) for (auto& p : *ps) for (auto& q : p)
      if (std::llabs(q.x) > 8192 || std::llabs(q.y) > 8192) inrange = false;
    if (!inrange) { stat("gen.gp.out_of_range"); continue; }
    if (!general_position(in.subj, in.clip, 3)) { stat("gen.gp.rejected"); continue; }
    // magnitude class: translate (the margin is translation invariant)
    int64_t off = g.pick(std::vector<int64_t>{0, 0, 100000, (int64_t)1 << 30, (int64_t)1 << 40, -((int64_t)1 << 45)});
    int64_t offy = g.coin() ? off : -off / 3;
    translate(in.subj, off, offy); translate(in.clip, off, offy);
    in.cls = 1; in.gen = "gp";
    stat("gen.gp.accepted");
    stat(off == 0 ? "gen.gp.magnitude.small" : "gen.gp.magnitude.translated");
    return true;
  }
  return false;
}

// ---------------------------------------------------------------------------------- rectilinear
// histogram polygon: columns over a base line (simple rectilinear polygon, possibly with collinear vertices)
inline Path64 histogram_poly(Rng& g, int64_t x0, int64_t y0, int cols, int maxw, int maxh) {
  Path64 p;
  int64_t x = x0;
  p.emplace_back(x, y0);
  for (int i = 0; i < cols; ++i) {
    int64_t h = y0 + g.range(1, maxh);
    p.emplace_back(x, h);
    x += g.range(1, maxw);
    p.emplace_back(x, h);
  }
  p.emplace_back(x, y0);
  return p;
}
inline void rect_transform(Rng& g, Path64& p) {
  if (g.coin()) for (auto& q : p) std::swap(q.x, q.y);
  if (g.coin()) for (auto& q : p) q.x = -q.x;
  if (g.coin()) std::reverse(p.begin(), p.end());
}
// rectangles hung on one ROW: 3-6 rectangles whose bottom or top edge lies on the line y = Y, or which straddle it, with their
// vertical sides taken from 4-7 shared x-levels.  The solution then has several horizontal stretches on one scanline which overlap,
// run in opposite directions and carry intermediate vertices exactly where another stretch begins or ends - the inputs of
// ConvertHorzSegsToJoins / ProcessHorzJoins (found necessary by the seeded change C03r4-m2: an off-by-one in the walk that advances
// a segment's left end to the start of the overlap shows only when such an intermediate vertex coincides with that start).
inline void gen_row_rects(Rng& g, Input& in) {
  in = Input();
  int nx = (int)g.range(4, 7);
  std::vector<int64_t> xs;
  int64_t x = g.range(0, 2);
  for (int i = 0; i < nx; ++i) { xs.push_back(x); x += g.range(1, 2); }
  int64_t Y = g.range(3, 5);
  int nr = (int)g.range(3, 6);
  for (int k = 0; k < nr; ++k) {
    int a = (int)g.range(0, nx - 2), b = (int)g.range(a + 1, nx - 1);
    int64_t h = g.range(1, 3);
    Path64 q;
    switch (g.next() % 5) {
      case 0: case 1: q = rect_path(xs[a], Y, xs[b], Y + h); break;            // one edge on the row, body on one side
      case 2: case 3: q = rect_path(xs[a], Y - h, xs[b], Y); break;            // ... on the other side
      default: q = rect_path(xs[a], Y - g.range(1, 4), xs[b], Y + g.range(1, 3)); break;   // straddles the row
    }
    if (g.coin()) std::reverse(q.begin(), q.end());
    std::rotate(q.begin(), q.begin() + (long)g.range(0, 3), q.end());
    (g.chance(65) ? in.subj : in.clip).push_back(q);
  }
  if (in.subj.empty()) { in.subj.push_back(in.clip.back()); in.clip.pop_back(); }
  if (g.coin()) for (auto* ps : {&in.subj, &in.clip}) for (auto& q : *ps) for (auto& v : q) v.x = -v.x;
  if (g.coin()) for (auto* ps : {&in.subj, &in.clip}) for (auto& q : *ps) for (auto& v : q) v.y = -v.y;
  in.cls = 2; in.gen = "rect.row";
}
// rectilinear input on the lattice step*Z with many forced coincidences (shared edges, touching corners)
inline void gen_rectilinear(Rng& g, Input& in, int64_t step, bool simple_only = false) {
  in = Input();
  int L = (int)g.range(3, 10);
  auto one = [&](Paths64& dst) {
    int k = (int)g.range(0, simple_only ? 1 : 3);
    Path64 p;
    if (k == 0) {
      int64_t l = g.range(-L, L - 1), t = g.range(-L, L - 1);
      p = rect_path(l, t, g.range(l + 1, L), g.range(t + 1, L));
    } else if (k == 1) {
      p = histogram_poly(g, g.range(-L, 0), g.range(-L, 0), (int)g.range(1, 4), 3, L);
    } else if (k == 2) {  // frame drawn as a single self-touching path (outer ccw + slit + inner cw)
      int64_t l = g.range(-L, -2), t = g.range(-L, -2), r = g.range(2, L), b = g.range(2, L);
      p = Path64{Point64(l, t), Point64(r, t), Point64(r, b), Point64(l, b), Point64(l, t + 1),
                 Point64(l + 1, t + 1), Point64(l + 1, b - 1), Point64(r - 1, b - 1), Point64(r - 1, t + 1), Point64(l + 1, t + 1),
                 Point64(l, t + 1)};
    } else {              // random rectilinear walk, closed by an L-shaped return (self-intersecting)
      int n = (int)g.range(2, 5);
      int64_t x = g.range(-L, L), y = g.range(-L, L);
      p.emplace_back(x, y);
      for (int i = 0; i < n; ++i) {
        x = g.range(-L, L); p.emplace_back(x, y);
        y = g.range(-L, L); p.emplace_back(x, y);
      }
      p.emplace_back(p[0].x, y);
    }
    if (simple_only) {   // simple polygons only: drop repeated and collinear vertices of the histogram polygon
      bool ch = true;
      while (ch && p.size() > 4) {
        ch = false;
        for (size_t i = 0; i < p.size(); ++i) {
          const Point64 &a = p[i], &b = p[(i + 1) % p.size()], &c = p[(i + 2) % p.size()];
          if (a == b || (a.x == b.x && b.x == c.x) || (a.y == b.y && b.y == c.y)) { p.erase(p.begin() + (i + 1) % p.size()); ch = true; break; }
        }
      }
    }
    rect_transform(g, p);
    dst.push_back(p);
  };
  int ns = (int)g.range(1, 4), nc = (int)g.range(0, 3);
  for (int i = 0; i < ns; ++i) one(in.subj);
  for (int i = 0; i < nc; ++i) one(in.clip);
  if (!simple_only && g.chance(20) && !in.subj.empty()) in.clip.push_back(in.subj[0]);      // coincident path
  scale_paths(in.subj, step); scale_paths(in.clip, step);
  in.cls = (is_rectilinear(in.subj) && is_rectilinear(in.clip)) ? 2 : 0;
  if (in.cls != 2) stat("gen.rect.NOT_RECTILINEAR");
  in.gen = simple_only ? "rect.simple" : "rect";
}

// ---------------------------------------------------------------------------------- nesting
// concentric rings (squares or stars), alternating subject/clip and orientation, depth up to `depth`
inline void gen_nested(Rng& g, Input& in, int depth, bool rectilinear) {
  in = Input();
  int64_t step = rectilinear ? 2 * g.range(1, 5) : g.range(7, 40);
  int copies = (int)g.range(1, 2);
  int n = (int)g.range(5, 12);
  for (int c = 0; c < copies; ++c) {
    int64_t cx = c * (2 * depth + 3) * step * 2, cy = rectilinear ? 0 : c * 3;
    for (int d = 0; d < depth; ++d) {
      int64_t r = (depth - d) * step * 2 - (rectilinear ? 0 : g.range(0, 2));
      Path64 p;
      if (rectilinear) p = rect_path(cx - r, cy - r, cx + r, cy + r);
      else {
        for (int i = 0; i < n; ++i) {
          double a = 6.283185307179586 * i / n + 0.3;
          p.emplace_back(cx + (int64_t)std::llround(r * std::cos(a)), cy + (int64_t)std::llround(r * std::sin(a)));
        }
      }
      if (g.coin()) std::reverse(p.begin(), p.end());
      int where = (int)g.range(0, 2);
      if (where == 0) in.subj.push_back(p); else if (where == 1) in.clip.push_back(p); else { in.subj.push_back(p); }
    }
  }
  if (in.subj.empty()) { in.subj.swap(in.clip); }
  in.cls = rectilinear ? 2 : (general_position(in.subj, in.clip, 3) ? 1 : 0);
  in.gen = rectilinear ? "nest.rect" : (in.cls == 1 ? "nest.star.gp" : "nest.star.nogp");
}

// outer rectangle with holes that touch each other / the outer boundary at corners or along edges
inline void gen_touching_holes(Rng& g, Input& in) {
  in = Input();
  int64_t u = 2 * g.range(1, 6);
  int n = (int)g.range(2, 5);
  in.subj.push_back(rect_path(0, 0, (2 * n + 2) * u, (2 * n + 2) * u));
  Paths64& holes = g.coin() ? in.clip : in.subj;
  for (int i = 0; i < n; ++i) {
    // diagonal chain of squares touching at corners; optionally the first touches the outer corner region
    int64_t o = (g.chance(30) ? 0 : u) + i * 2 * u - (i ? 0 : 0);
    Path64 h = rect_path(o + i * 0, o, o + 2 * u, o + 2 * u);
    if (g.coin()) std::reverse(h.begin(), h.end());
    holes.push_back(h);
  }
  if (g.chance(40)) {  // a hole sharing part of an edge with another hole
    holes.push_back(rect_path(u, 3 * u, 3 * u, 5 * u));
  }
  if (g.chance(40)) {  // island inside the first hole touching its corner
    in.subj.push_back(rect_path(u, u, 2 * u, 2 * u));
  }
  in.cls = 2; in.gen = "touching";
}

// ---------------------------------------------------------------------------------- degenerate
inline int64_t degen_coord(Rng& g, int mag) {
  switch (mag) {
    case 0: return g.range(-4, 4);
    case 1: return g.range(-50, 50);
    // no +-1 jitter at large magnitudes: nearly horizontal long edges make TopX overflow (known finding kf.ub.topx_overflow)
    case 2: return g.range(-3, 3) * ((int64_t)1 << 40);
    case 3: return g.range(-4, 4) * ((int64_t)1 << 50);                      // up to 2^52
    // Largest magnitudes of the generic stream.  TopX extrapolates dx * (y - bot.y) beyond an edge's own y range, so the
    // product (x range)^2 / (smallest non-zero y difference) must stay below 2^63: lattices of at most 4 steps, |c| <= 2^59.
    // Larger coordinates are covered only by the known-finding witness kf.ub.topx_overflow.
    case 4: return g.range(-2, 2) * ((int64_t)1 << 58);
    default: return g.range(-1, 1) * ((int64_t)1 << 59);
  }
}
inline Path64 degen_path(Rng& g, int mag) {
  Path64 p;
  int kind = (int)g.range(0, 9);
  auto pt = [&]() { return Point64(degen_coord(g, mag), degen_coord(g, mag)); };
  switch (kind) {
    case 0: break;                                            // empty
    case 1: p.push_back(pt()); break;                         // one point
    case 2: p.push_back(pt()); p.push_back(pt()); break;      // two points
    case 3: { Point64 a = pt(); int n = (int)g.range(2, 5); for (int i = 0; i < n; ++i) p.push_back(a); break; }  // all equal
    case 4: { Point64 a = pt(), b = pt(); p = Path64{a, b, a}; if (g.coin()) p.push_back(b); break; }            // spike
    case 5: {                                                 // collinear run
      Point64 a = pt(); int64_t dx = g.range(-2, 2), dy = g.range(-2, 2); int n = (int)g.range(3, 6);
      int64_t sc = mag >= 2 ? ((int64_t)1 << (mag == 2 ? 20 : 40)) : 1;
      for (int i = 0; i < n; ++i) { int64_t k = g.range(-3, 3); p.emplace_back(a.x + k * dx * sc, a.y + k * dy * sc); }
      break;
    }
    default: {                                                // polygon with duplicates and spikes sprinkled in
      int n = (int)g.range(3, 8);
      for (int i = 0; i < n; ++i) {
        Point64 a = pt();
        p.push_back(a);
        if (g.chance(25)) p.push_back(a);
        if (g.chance(15) && p.size() >= 2) p.push_back(p[p.size() - 2]);
      }
    }
  }
  const int64_t lim = ((int64_t)1 << 59);
  for (auto& q : p) { q.x = std::max(-lim, std::min(lim, q.x)); q.y = std::max(-lim, std::min(lim, q.y)); }
  return p;
}
inline void gen_degenerate(Rng& g, Input& in) {
  in = Input();
  int mag = (int)g.range(0, 5);
  if (g.chance(10)) { in.cls = 0; in.gen = "degen.empty"; if (g.coin()) in.subj.push_back(Path64{}); return; }
  int ns = (int)g.range(0, 3), nc = (int)g.range(0, 2);
  for (int i = 0; i < ns; ++i) in.subj.push_back(degen_path(g, mag));
  for (int i = 0; i < nc; ++i) in.clip.push_back(degen_path(g, mag));
  if (g.chance(25) && !in.subj.empty()) {                    // coincident copies (same / reversed)
    Path64 c = in.subj[0];
    if (g.coin()) std::reverse(c.begin(), c.end());
    (g.coin() ? in.subj : in.clip).push_back(c);
  }
  in.cls = 0; in.gen = "degen.mag" + std::to_string(mag);
}

}  // namespace vh
