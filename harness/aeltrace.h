// Sink for hook H1 (clipper.verif.h): records the bookkeeping events of one Execute as the item list of the
// driver command AELVERIFY / AELVERIFYOPEN (lean/ClipperVerif/Driver/Ael.lean).
// Needs unity.h included with VERIF_PRIVATE_ACCESS (reads ClipperBase::actives_).
#pragma once
#include "common.h"
#ifndef CLIPPER2_VERIF
#error "aeltrace.h needs the hooks: compile with -DCLIPPER2_VERIF"
#endif
namespace vh {
struct AelTrace {
  std::string buf;
  long nitems = 0, nedges = 0, njoined = 0, nhorz = 0, njoin_events = 0, njoin_checked = 0;
  std::string bad_join;   // set when the engine joins two edges that are nowhere within 2 units of each other
  void clear() { buf.clear(); nitems = 0; bad_join.clear(); }
};
inline AelTrace& ael_trace() { static thread_local AelTrace t; return t; }

inline int ael_index_of(const Clipper2Lib::ClipperBase* c, const Clipper2Lib::Active* a) {
  int i = 0;
  for (const Clipper2Lib::Active* e = c->actives_; e; e = e->next_in_ael, ++i) if (e == a) return i;
  return -1;
}
inline void ael_snapshot(const Clipper2Lib::ClipperBase* c) {
  using namespace Clipper2Lib;
  AelTrace& t = ael_trace();
  int k = 0;
  for (const Active* e = c->actives_; e; e = e->next_in_ael) ++k;
  t.buf += " S " + std::to_string(k);
  for (const Active* e = c->actives_; e; e = e->next_in_ael) {
    bool hot = e->outrec != nullptr || e->join_with != JoinWith::NoJoin;
    t.nedges++;
    if (e->join_with != JoinWith::NoJoin) t.njoined++;
    if (e->top.y == e->bot.y) t.nhorz++;
    t.buf += " " + std::to_string(e->local_min->polytype == PathType::Subject ? 0 : 1) + " " + std::to_string(e->local_min->is_open ? 1 : 0) +
             " " + std::to_string(e->wind_dx) + " " + std::to_string(e->wind_cnt) + " " + std::to_string(e->wind_cnt2) + " " + (hot ? "1" : "0");
  }
  t.nitems++;
}
// exact squared distance test between two segments (coordinates up to 2^30 in magnitude: every product fits __int128)
namespace joincheck {
typedef __int128 i128;
inline bool pt_seg_within(const Clipper2Lib::Point64& p, const Clipper2Lib::Point64& a, const Clipper2Lib::Point64& b, i128 r2) {
  i128 dx = (i128)b.x - a.x, dy = (i128)b.y - a.y, px = (i128)p.x - a.x, py = (i128)p.y - a.y;
  i128 len2 = dx * dx + dy * dy, t = px * dx + py * dy;
  if (len2 == 0 || t <= 0) return px * px + py * py <= r2;
  if (t >= len2) { i128 qx = (i128)p.x - b.x, qy = (i128)p.y - b.y; return qx * qx + qy * qy <= r2; }
  i128 cr = px * dy - py * dx;
  return cr * cr <= r2 * len2;
}
inline int sgn(i128 v) { return v > 0 ? 1 : v < 0 ? -1 : 0; }
inline bool segs_cross(const Clipper2Lib::Point64& a, const Clipper2Lib::Point64& b, const Clipper2Lib::Point64& c, const Clipper2Lib::Point64& d) {
  auto cr = [](const Clipper2Lib::Point64& p, const Clipper2Lib::Point64& q, const Clipper2Lib::Point64& r) {
    return ((i128)q.x - p.x) * ((i128)r.y - p.y) - ((i128)q.y - p.y) * ((i128)r.x - p.x); };
  return sgn(cr(a, b, c)) * sgn(cr(a, b, d)) <= 0 && sgn(cr(c, d, a)) * sgn(cr(c, d, b)) <= 0;
}
inline bool small(const Clipper2Lib::Point64& p) { return std::llabs(p.x) <= ((int64_t)1 << 30) && std::llabs(p.y) <= ((int64_t)1 << 30); }
}  // namespace joincheck

inline void ael_sink_fn(int ev, const Clipper2Lib::ClipperBase* c, const Clipper2Lib::Active* a) {
  using namespace Clipper2Lib;
  AelTrace& t = ael_trace();
  switch (ev) {
    case verif::kInsertPair:
      t.buf += " IP " + std::to_string(ael_index_of(c, a)) + " " + std::to_string(a->local_min->polytype == PathType::Subject ? 0 : 1) + " " +
               std::to_string(a->local_min->is_open ? 1 : 0) + " " + std::to_string(a->wind_dx);
      t.nitems++; ael_snapshot(c); break;
    case verif::kInsertOne:
      t.buf += " I1 " + std::to_string(ael_index_of(c, a)) + " " + std::to_string(a->local_min->polytype == PathType::Subject ? 0 : 1) + " " + std::to_string(a->wind_dx);
      t.nitems++; ael_snapshot(c); break;
    case verif::kIntersect:
      t.buf += " X " + std::to_string(ael_index_of(c, a) - 1);
      t.nitems++; ael_snapshot(c); break;
    case verif::kRemovePair:
      t.buf += " RP " + std::to_string(ael_index_of(c, a)); t.nitems++; break;
    case verif::kRemoveOne:
      t.buf += " R1 " + std::to_string(ael_index_of(c, a)); t.nitems++; break;
    case verif::kSnapshot:
      ael_snapshot(c); break;
    case verif::kJoin: {
      // `a` is the left edge of the freshly joined pair.  Joined edges are handled as one edge from here on, which is only
      // sound when they (nearly) coincide: they must come within 2 units of each other somewhere.
      const Active* r = a ? a->next_in_ael : nullptr;
      t.njoin_events++;
      if (a && r && joincheck::small(a->bot) && joincheck::small(a->top) && joincheck::small(r->bot) && joincheck::small(r->top)) {
        t.njoin_checked++;
        bool near = joincheck::segs_cross(a->bot, a->top, r->bot, r->top) ||
                    joincheck::pt_seg_within(a->bot, r->bot, r->top, 4) || joincheck::pt_seg_within(a->top, r->bot, r->top, 4) ||
                    joincheck::pt_seg_within(r->bot, a->bot, a->top, 4) || joincheck::pt_seg_within(r->top, a->bot, a->top, 4);
        if (!near && t.bad_join.empty())
          t.bad_join = "joined edges (" + S(a->bot) + ")-(" + S(a->top) + ") and (" + S(r->bot) + ")-(" + S(r->top) + ") are nowhere within 2 units of each other";
      }
      break;
    }
    default: break;
  }
}
struct AelTraceScope {
  AelTraceScope() { ael_trace().clear(); Clipper2Lib::verif::ael_sink() = ael_sink_fn; }
  ~AelTraceScope() { Clipper2Lib::verif::ael_sink() = nullptr; }
  // request line for the driver
  std::string request(bool open, int ct, int fr) const {
    return std::string(open ? "AELVERIFYOPEN " : "AELVERIFY ") + std::to_string(ct) + " " + std::to_string(fr) + " " + std::to_string(ael_trace().nitems) + ael_trace().buf;
  }
};
}  // namespace vh
