// Sink for hook H1 (clipper.verif.h): records the bookkeeping events of one Execute as the item list of the
// driver command AELVERIFY / AELVERIFYOPEN (lean/ClipperVerif/Driver/Ael.lean).
// Needs unity.h included with VERIF_PRIVATE_ACCESS (reads ClipperBase::actives_).
#pragma once
#include "common.h"
#ifndef CLIPPER2_VERIF
#error "aeltrace.h needs the hooks: compile with -DCLIPPER2_VERIF"
#endif
namespace vh {
struct AelTrace {
  std::string buf;
  long nitems = 0, nedges = 0, njoined = 0, nhorz = 0;
  void clear() { buf.clear(); nitems = 0; }
};
inline AelTrace& ael_trace() { static thread_local AelTrace t; return t; }

inline int ael_index_of(const Clipper2Lib::ClipperBase* c, const Clipper2Lib::Active* a) {
  int i = 0;
  for (const Clipper2Lib::Active* e = c->actives_; e; e = e->next_in_ael, ++i) if (e == a) return i;
  return -1;
}
inline void ael_snapshot(const Clipper2Lib::ClipperBase* c) {
  using namespace Clipper2Lib;
  AelTrace& t = ael_trace();
  int k = 0;
  for (const Active* e = c->actives_; e; e = e->next_in_ael) ++k;
  t.buf += " S " + std::to_string(k);
  for (const Active* e = c->actives_; e; e = e->next_in_ael) {
    bool hot = e->outrec != nullptr || e->join_with != JoinWith::NoJoin;
    t.nedges++;
    if (e->join_with != JoinWith::NoJoin) t.njoined++;
    if (e->top.y == e->bot.y) t.nhorz++;
    t.buf += " " + std::to_string(e->local_min->polytype == PathType::Subject ? 0 : 1) + " " + std::to_string(e->local_min->is_open ? 1 : 0) +
             " " + std::to_string(e->wind_dx) + " " + std::to_string(e->wind_cnt) + " " + std::to_string(e->wind_cnt2) + " " + (hot ? "1" : "0");
  }
  t.nitems++;
}
inline void ael_sink_fn(int ev, const Clipper2Lib::ClipperBase* c, const Clipper2Lib::Active* a) {
  using namespace Clipper2Lib;
  AelTrace& t = ael_trace();
  switch (ev) {
    case verif::kInsertPair:
      t.buf += " IP " + std::to_string(ael_index_of(c, a)) + " " + std::to_string(a->local_min->polytype == PathType::Subject ? 0 : 1) + " " +
               std::to_string(a->local_min->is_open ? 1 : 0) + " " + std::to_string(a->wind_dx);
      t.nitems++; ael_snapshot(c); break;
    case verif::kInsertOne:
      t.buf += " I1 " + std::to_string(ael_index_of(c, a)) + " " + std::to_string(a->local_min->polytype == PathType::Subject ? 0 : 1) + " " + std::to_string(a->wind_dx);
      t.nitems++; ael_snapshot(c); break;
    case verif::kIntersect:
      t.buf += " X " + std::to_string(ael_index_of(c, a) - 1);
      t.nitems++; ael_snapshot(c); break;
    case verif::kRemovePair:
      t.buf += " RP " + std::to_string(ael_index_of(c, a)); t.nitems++; break;
    case verif::kRemoveOne:
      t.buf += " R1 " + std::to_string(ael_index_of(c, a)); t.nitems++; break;
    case verif::kSnapshot:
      ael_snapshot(c); break;
  }
}
struct AelTraceScope {
  AelTraceScope() { ael_trace().clear(); Clipper2Lib::verif::ael_sink() = ael_sink_fn; }
  ~AelTraceScope() { Clipper2Lib::verif::ael_sink() = nullptr; }
  // request line for the driver
  std::string request(bool open, int ct, int fr) const {
    return std::string(open ? "AELVERIFYOPEN " : "AELVERIFY ") + std::to_string(ct) + " " + std::to_string(fr) + " " + std::to_string(ael_trace().nitems) + ael_trace().buf;
  }
};
}  // namespace vh
