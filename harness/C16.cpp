// C16 harness: every PathsD entry point against the 64-bit entry point on scaled-and-rounded input.
// Two phases, both on the real code:
//   phase 1  scaled = round(x * scale) with the *documented* scale and rounding rule.  The rule is the one of the
//            Lean model (Model/Scale.lean): `M` records `SCALE p` / `ROUND bits` make the driver confirm that the
//            scale table and the rounding function used here are the model's, and they are compared with the
//            values the library itself uses (std::pow(10,p), ClipperD's invScale_ as exposed by PolyTreeD::Scale(),
//            std::round).
//   phase 2  real 64-bit operation on `scaled`, real D operation on the originals, descale the 64-bit result by the
//            documented rule, require bit-for-bit equality.  `F` records name the wrapper (`d-api.<wrapper>`).
// Fixed inputs for deviations that exist on the unchanged tree are emitted under `kf.` labels and the generic
// generator does not produce them (see kf_cases()).
#include "common.h"
// unity build: ./check compiles this file alone (-I <repo>/CPP/Clipper2Lib/src)
#include "clipper.engine.cpp"
#include "clipper.offset.cpp"
#include "clipper.rectclip.cpp"
using namespace vh;

// the input being processed, printed by the sanitizer death callback so that ./check can name it
static std::string g_current;
extern "C" void __sanitizer_set_death_callback(void (*)(void)) __attribute__((weak));
static void on_death() { static bool done = false; if (!done) fprintf(stderr, "VERIF-CURRENT: %s\n", g_current.c_str()); done = true; }
extern "C" void __ubsan_on_report(void) { on_death(); }

// ------------------------------------------------------------------ the documented rule (mirrors Model/Scale.lean)
// round half away from zero, exact (no x+0.5 in floating point)
static double model_round(double x) {
  double a = std::fabs(x);
  if (!(a < 4503599627370496.0)) return x;  // |x| >= 2^52: already an integer
  double t = std::floor(a);
  double r = (a - t >= 0.5) ? t + 1.0 : t;   // a - t is exact
  return std::copysign(r, x);
}
static int64_t rnd64(double x) { return (int64_t)model_round(x); }
// least power of two strictly above 10^p, by integer arithmetic
static double model_scale_pow2(int p) {
  unsigned __int128 t = 1;
  for (int i = 0; i < std::abs(p); ++i) t *= 10;
  if (p >= 0) { int k = 0; while (((unsigned __int128)1 << k) <= t) ++k; return std::ldexp(1.0, k); }
  // 2^k > 10^-|p|  <=>  2^-k < 10^|p| ; the least such k is -(largest m with 2^m < 10^|p|)
  int m = 0; while (((unsigned __int128)1 << (m + 1)) < t) ++m;
  return std::ldexp(1.0, -m);
}
static double real_pow10(int p) { return std::pow(10, p); }

static Path64 scale_path(const PathD& p, double s) {
  Path64 r; r.reserve(p.size());
  for (auto& q : p) { Point64 v; v.x = rnd64(q.x * s); v.y = rnd64(q.y * s); r.push_back(v); }
  return r;
}
static Paths64 scale_paths(const PathsD& ps, double s) {
  Paths64 r; r.reserve(ps.size());
  for (auto& p : ps) r.push_back(scale_path(p, s));
  return r;
}
static Rect64 scale_rect(const RectD& r, double s) {
  return Rect64(rnd64(r.left * s), rnd64(r.top * s), rnd64(r.right * s), rnd64(r.bottom * s));
}
static PathD descale_mul(const Path64& p, double inv) {
  PathD r; r.reserve(p.size());
  for (auto& q : p) { PointD v; v.x = (double)q.x * inv; v.y = (double)q.y * inv; r.push_back(v); }
  return r;
}
static PathsD descale_mul(const Paths64& ps, double inv) {
  PathsD r; for (auto& p : ps) r.push_back(descale_mul(p, inv)); return r;
}
static bool same_bits(double a, double b) { return memcmp(&a, &b, 8) == 0; }
static bool same_bits(const PathD& a, const PathD& b) {
  if (a.size() != b.size()) return false;
  for (size_t i = 0; i < a.size(); ++i) if (!same_bits(a[i].x, b[i].x) || !same_bits(a[i].y, b[i].y)) return false;
  return true;
}
static bool same_bits(const PathsD& a, const PathsD& b) {
  if (a.size() != b.size()) return false;
  for (size_t i = 0; i < a.size(); ++i) if (!same_bits(a[i], b[i])) return false;
  return true;
}
static int64_t ulp_dist(double a, double b) {
  int64_t x, y; memcpy(&x, &a, 8); memcpy(&y, &b, 8);
  if (x < 0) x = INT64_MIN - x;
  if (y < 0) y = INT64_MIN - y;
  return x > y ? x - y : y - x;
}

struct Ctx {
  int prec;
  double s10;    // 10^precision  (InflatePaths, RectClip, RectClipLines, Minkowski, TrimCollinear)
  double sD;     // ClipperD: least power of two above 10^precision
};
static const char* scale_case(const Ctx& c, bool pow2) { return pow2 ? "pow2" : (c.prec >= 0 ? "pow10.nonneg" : "pow10.neg"); }

// "divided by that scale": the code multiplies by 1/scale; count how far that is from the division
static void division_stats(const std::string& label, const Paths64& r64, double scale, const Ctx& c, bool pow2, const std::string& input) {
  double inv = 1 / scale;
  int64_t worst = 0;
  for (auto& p : r64) for (auto& q : p) {
    worst = std::max(worst, ulp_dist((double)q.x * inv, (double)q.x / scale));
    worst = std::max(worst, ulp_dist((double)q.y * inv, (double)q.y / scale));
  }
  std::string k = std::string("descale.") + scale_case(c, pow2) + (worst == 0 ? ".mul_equals_div" : worst == 1 ? ".mul_1ulp_from_div" : ".mul_far_from_div");
  stat(k);
  if (pow2 && worst != 0) emitF(label + ".division", "power-of-two descale differs from division: " + input);
  if (worst > 1) emitF(label + ".division", "descale more than 1 ulp from division: " + input);
}

static void compare(const std::string& label, const PathsD& resD, const Paths64& r64, double scale, const Ctx& c, bool pow2, const std::string& input) {
  stat("cmp." + label);
  if (resD.empty()) stat("cmp." + label + ".empty_result");
  PathsD want = descale_mul(r64, 1 / scale);
  if (!same_bits(resD, want))
    emitF(label, input + " | D-result " + SD(resD) + " | descaled 64-bit result " + SD(want));
  division_stats(label, r64, scale, c, pow2, input);
}

static std::string ctx_str(const Ctx& c) { return "precision=" + std::to_string(c.prec); }

// ------------------------------------------------------------------ generators (in the scaled domain, then divided)
// extent of the figure (scaled units) and, separately, how far from the origin it sits.  The extent stays below 2^29:
// with larger extents the 64-bit engine itself overflows (TopX extrapolates dx * dy past 2^63 for nearly horizontal
// edges - seen at 2^44, reported separately; it is not a D-API matter), while scaling, rounding and descaling are
// exercised up to |coordinate| = 2^52 by moving the whole figure.
static const int64_t MAGS[] = {40, 2000, 1000000, (int64_t)1 << 24, (int64_t)1 << 29};
static const int64_t OFFS[] = {0, 0, 0, (int64_t)1 << 34, (int64_t)1 << 45, ((int64_t)1 << 52) - ((int64_t)1 << 31)};
static int64_t g_ox = 0, g_oy = 0;   // centre of the current case

static double frac_of(Rng& g) {
  switch (g.next() % 10) {
    case 0: case 1: case 2: case 3: return 0.0;
    case 4: return g.coin() ? 0.5 : -0.5;                       // exact tie (when representable)
    case 5: return g.coin() ? 0.49999999 : -0.49999999;
    case 6: return g.coin() ? 0.25 : -0.375;
    default: return g.unit() - 0.5;
  }
}
// user-space path whose image under `scale` is (close to) the integer path `t`
static PathD user_path(Rng& g, const Path64& t, double scale) {
  PathD r;
  for (auto& q : t) {
    PointD v; v.x = ((double)q.x + frac_of(g)) / scale; v.y = ((double)q.y + frac_of(g)) / scale;
    r.push_back(v);
    if (g.chance(6)) {  // a vertex closer than the resolution: becomes a duplicate after rounding
      PointD w; w.x = ((double)q.x + 0.1) / scale; w.y = ((double)q.y - 0.2) / scale; r.push_back(w);
    }
  }
  return r;
}
static Path64 target_path(Rng& g, int n, int64_t M, int64_t cx, int64_t cy) {
  Path64 p;
  switch (g.next() % 5) {
    case 0: p = rand_poly(g, n, M, cx, cy); break;
    case 1: case 2: p = n >= 3 ? star_poly(g, n, M / 3 + 1, M, cx, cy) : rand_poly(g, n, M, cx, cy); break;
    case 3: { int64_t a = g.range(1, M), b = g.range(1, M); p = rect_path(cx - a, cy - b, cx + a, cy + b); if (g.coin()) std::reverse(p.begin(), p.end()); break; }
    default: { p = rand_poly(g, n, M, cx, cy); for (size_t i = 1; i < p.size(); ++i) { if (i & 1) p[i].y = p[i - 1].y; else p[i].x = p[i - 1].x; } break; }
  }
  return p;
}
static PathsD gen_pathsD(Rng& g, int npaths, int maxn, double scale, int64_t M, bool allow_degenerate) {
  PathsD r;
  for (int i = 0; i < npaths; ++i) {
    int n = (int)g.range(3, maxn);
    if (allow_degenerate && g.chance(8)) n = (int)g.range(0, 2);
    int64_t cx = g_ox + g.range(-M / 2, M / 2), cy = g_oy + g.range(-M / 2, M / 2);
    Path64 t = n == 0 ? Path64() : target_path(g, n, M / 2 + 2, cx, cy);
    r.push_back(user_path(g, t, scale));
  }
  return r;
}
// "what a user writes": a few decimals more than the precision keeps
static PathsD gen_decimal(Rng& g, int npaths, int maxn, int prec) {
  PathsD r;
  for (int i = 0; i < npaths; ++i) {
    PathD p; int n = (int)g.range(3, maxn);
    double cx = (double)g.range(-500, 500), cy = (double)g.range(-500, 500);
    for (int k = 0; k < n; ++k) {
      PointD v; v.x = cx + (double)g.range(-400000, 400000) / 1000.0; v.y = cy + (double)g.range(-400000, 400000) / 1000.0;
      if (g.chance(20)) { v.x = std::floor(v.x) + 0.5; }            // x.5 ties at precision 0
      if (g.chance(10)) { v.y = std::floor(v.y * 100) / 100 + 0.005; }  // ties at precision 2 in decimal
      p.push_back(v);
    }
    r.push_back(p);
  }
  (void)prec;
  return r;
}

static int pick_precision(Rng& g) {
  if (g.chance(70)) return (int)g.range(-2, 4);
  return (int)g.range(-8, 8);
}
static Ctx make_ctx(int p) { Ctx c; c.prec = p; c.s10 = real_pow10(p); c.sD = model_scale_pow2(p); return c; }

// ------------------------------------------------------------------ phase 1 records
static void scale_records() {
  for (int p = -8; p <= 8; ++p) {
    // the library's own ClipperD scale: PolyTreeD::Scale() is invScale_ after Execute
    ClipperD cd(p);
    PathsD sq = {{PointD(0.0, 0.0), PointD(1.0, 0.0), PointD(1.0, 1.0), PointD(0.0, 1.0)}};
    cd.AddSubject(sq);
    PolyTreeD tree;
    cd.Execute(ClipType::Union, FillRule::NonZero, tree);
    double inv_real = tree.Scale();
    double expr = std::pow(std::numeric_limits<double>::radix, std::ilogb(std::pow(10, p)) + 1);
    double mine = model_scale_pow2(p);
    if (!same_bits(1 / mine, inv_real) || !same_bits(mine, expr))
      emitF("d-api.ClipperD.scale", "precision " + std::to_string(p) + ": least power of two above 10^p is " + hexd(mine) +
            ", ClipperD uses scale " + hexd(expr) + " invScale " + hexd(inv_real));
    emitM("scale.model", "SCALE " + std::to_string(p), hexd(real_pow10(p)) + " " + hexd(expr) + " " + hexd(inv_real));
  }
}
static void round_record(double x) {
  if (!(std::fabs(x) < 9.0e18)) return;
  double r = std::round(x);
  if (!same_bits(r, model_round(x))) emitF("d-api.round", "std::round(" + hexd(x) + ") = " + hexd(r) + " but half-away-from-zero gives " + hexd(model_round(x)));
  // the conversion the library performs: Point64::Init
  Point64 pt(x, -x);
  if (pt.x != (int64_t)r || pt.y != (int64_t)std::round(-x)) emitF("d-api.Point64.Init", hexd(x));
  emitM("round.model", "ROUND " + hexd(x), S((int64_t)r));
}
static void round_records(Rng& g, int n) {
  const double fixed[] = {0.0, -0.0, 0.5, -0.5, 1.5, -1.5, 2.5, -2.5, 0.49999999999999994, -0.49999999999999994, 0.5000000000000001,
                          4503599627370495.5, -4503599627370495.5, 4503599627370496.0, 4503599627370497.0, 2251799813685247.5, 2251799813685248.25,
                          1e-300, -1e-300, 5e-324, 0.99999999999999989, 1234.5, 1234.4999999999998, 9007199254740993.0, 4611686018427387904.0, -4611686018427387904.0};
  for (double x : fixed) round_record(x);
  for (int i = 0; i < n; ++i) {
    double x;
    switch (g.next() % 5) {
      case 0: x = (double)g.range(-1000000, 1000000) + 0.5; break;
      case 1: x = ((double)g.range(-((int64_t)1 << 52), (int64_t)1 << 52)) / 2.0; break;   // halves up to 2^51
      case 2: x = (g.unit() - 0.5) * std::ldexp(1.0, (int)g.range(-4, 60)); break;
      case 3: { x = (double)g.range(-100000, 100000) + 0.5; x = std::nextafter(x, g.coin() ? 1e300 : -1e300); break; }
      default: { int p = pick_precision(g); x = ((double)g.range(-99999999, 99999999) / 1000.0) * real_pow10(p); break; }
    }
    round_record(x);
  }
}

// ------------------------------------------------------------------ phase 2: one function per wrapper
static std::string in2(const Ctx& c, const std::string& extra, const PathsD& a, const PathsD& b) {
  return ctx_str(c) + " " + extra + " subjects=" + SD(a) + " clips=" + SD(b);
}

static void t_boolean(Rng& g, const Ctx& c, const PathsD& subj, const PathsD& clip) {
  ClipType ct = (ClipType)g.range(0, 4);
  FillRule fr = (FillRule)g.range(0, 3);
  std::string input = in2(c, "ct=" + std::to_string((int)ct) + " fr=" + std::to_string((int)fr), subj, clip);
  g_current = input;
  Paths64 s64 = scale_paths(subj, c.sD), c64 = scale_paths(clip, c.sD);
  stat("boolean.ct" + std::to_string((int)ct) + ".fr" + std::to_string((int)fr));
  // Paths result
  PathsD rD = BooleanOp(ct, fr, subj, clip, c.prec);
  Paths64 r64 = BooleanOp(ct, fr, s64, c64);
  compare("d-api.BooleanOp", rD, r64, c.sD, c, true, input);
  // convenience wrappers forward to BooleanOp
  if (g.chance(20)) {
    switch (ct) {
      case ClipType::Intersection: compare("d-api.Intersect", Intersect(subj, clip, fr, c.prec), Intersect(s64, c64, fr), c.sD, c, true, input); break;
      case ClipType::Union: compare("d-api.Union", Union(subj, clip, fr, c.prec), Union(s64, c64, fr), c.sD, c, true, input);
                            compare("d-api.Union1", Union(subj, fr, c.prec), Union(s64, fr), c.sD, c, true, input); break;
      case ClipType::Difference: compare("d-api.Difference", Difference(subj, clip, fr, c.prec), Difference(s64, c64, fr), c.sD, c, true, input); break;
      case ClipType::Xor: compare("d-api.Xor", Xor(subj, clip, fr, c.prec), Xor(s64, c64, fr), c.sD, c, true, input); break;
      default: break;
    }
  }
}

static long tree_nodes = 0;
static int tree_maxdepth = 0;
static bool tree_same(const PolyPath64& a, const PolyPathD& b, double inv, std::string& why, int depth) {
  ++tree_nodes; tree_maxdepth = std::max(tree_maxdepth, depth);
  if (a.Count() != b.Count()) { why = "child count " + std::to_string(a.Count()) + " vs " + std::to_string(b.Count()) + " at depth " + std::to_string(depth); return false; }
  if (!same_bits(b.Polygon(), descale_mul(a.Polygon(), inv))) { why = "polygon at depth " + std::to_string(depth) + ": D " + SD(b.Polygon()) + " vs 64 " + S(a.Polygon()); return false; }
  if (a.IsHole() != b.IsHole() || a.Level() != b.Level()) { why = "hole flag / level"; return false; }
  if (!same_bits(b.Scale(), inv)) { why = "node scale " + hexd(b.Scale()); return false; }
  for (size_t i = 0; i < a.Count(); ++i)
    if (!tree_same(*a.Child(i), *b.Child(i), inv, why, depth + 1)) return false;
  return true;
}
static void t_polytree(Rng& g, const Ctx& c, const PathsD& subj, const PathsD& clip) {
  ClipType ct = (ClipType)g.range(1, 4);
  FillRule fr = (FillRule)g.range(0, 3);
  std::string input = in2(c, "ct=" + std::to_string((int)ct) + " fr=" + std::to_string((int)fr), subj, clip);
  g_current = input;
  Paths64 s64 = scale_paths(subj, c.sD), c64 = scale_paths(clip, c.sD);
  PolyTreeD tD; PolyTree64 t64;
  BooleanOp(ct, fr, subj, clip, tD, c.prec);
  BooleanOp(ct, fr, s64, c64, t64);
  std::string why;
  stat("cmp.d-api.PolyTreeD");
  long before = tree_nodes;
  if (!tree_same(t64, tD, 1 / c.sD, why, 0)) emitF("d-api.PolyTreeD", input + " | " + why);
  stat("polytree.nodes", tree_nodes - before);
  size_t depth = 0; { const PolyPath64* n = &t64; while (n->Count()) { n = n->Child(0); ++depth; } }
  stat("polytree.depth_first_branch." + std::to_string(std::min<size_t>(depth, 6)));
}

// is this the shape BuildPathD drops but BuildPath64 keeps (kf.d-api.ClipperD.open-3pt)?
static bool really_close(const Point64& a, const Point64& b) { return std::llabs(a.x - b.x) < 2 && std::llabs(a.y - b.y) < 2; }
static bool open_small3(const Path64& p) {
  return p.size() == 3 && (really_close(p[0], p[1]) || really_close(p[1], p[2]) || really_close(p[0], p[2]));
}
static void t_clipperD_open(Rng& g, const Ctx& c, const PathsD& subj, const PathsD& open, const PathsD& clip) {
  ClipType ct = (ClipType)g.range(1, 4);
  FillRule fr = (FillRule)g.range(0, 3);
  bool rev = g.chance(25), pres = g.chance(25);
  std::string input = ctx_str(c) + " ct=" + std::to_string((int)ct) + " fr=" + std::to_string((int)fr) + " reverse=" + (rev ? "1" : "0") +
                      " preserve_collinear=" + (pres ? "1" : "0") + " subjects=" + SD(subj) + " open=" + SD(open) + " clips=" + SD(clip);
  g_current = input;
  ClipperD cd(c.prec); Clipper64 c64;
  cd.ReverseSolution(rev); c64.ReverseSolution(rev);
  cd.PreserveCollinear(pres); c64.PreserveCollinear(pres);
  // (now and then no open subject is handed over at all - not even an empty list -: the open solution must still come back empty)
  bool with_open = !g.chance(25);
  if (!with_open) stat("clipperD.no_open_subjects_added");
  cd.AddSubject(subj); if (with_open) cd.AddOpenSubject(open); cd.AddClip(clip);
  c64.AddSubject(scale_paths(subj, c.sD)); if (with_open) c64.AddOpenSubject(scale_paths(open, c.sD)); c64.AddClip(scale_paths(clip, c.sD));
  bool tree = g.chance(35);
  PathsD closedD, openD; Paths64 closed64, open64;
  if (g.chance(40)) {   // containers that still hold paths from an earlier use: every Execute overload must overwrite them
    const PathD junkD{PointD(7e8 + 1, 7e8 + 3), PointD(7e8 + 2, 7e8 + 3), PointD(7e8 + 1, 7e8 + 5)};
    const Path64 junk{Point64(700000001, 700000003), Point64(700000002, 700000003), Point64(700000001, 700000005)};
    closedD.push_back(junkD); openD.push_back(junkD); openD.push_back(junkD); closed64.push_back(junk); open64.push_back(junk);
    stat("clipperD.prefilled_containers");
  }
  if (!tree) {
    bool okD = cd.Execute(ct, fr, closedD, openD), ok64 = c64.Execute(ct, fr, closed64, open64);
    if (okD != ok64) emitF("d-api.ClipperD.Execute", input + " | return values differ");
    compare("d-api.ClipperD.closed", closedD, closed64, c.sD, c, true, input);
  } else {
    PolyTreeD tD; PolyTree64 t64;
    bool okD = cd.Execute(ct, fr, tD, openD), ok64 = c64.Execute(ct, fr, t64, open64);
    if (okD != ok64) emitF("d-api.ClipperD.Execute", input + " | return values differ");
    std::string why;
    stat("cmp.d-api.ClipperD.tree");
    if (!tree_same(t64, tD, 1 / c.sD, why, 0)) emitF("d-api.ClipperD.tree", input + " | " + why);
  }
  // open solution: BuildPathD drops 3-point open paths with two points closer than 2 units (known finding, fixed
  // input under kf.d-api.ClipperD.open-3pt); those paths are taken out of the 64-bit side before comparing
  // (BuildPathD's test is on the OutPt ring - exactly three OutPts, two of them really close -, which the returned path does
  //  not reveal: a 3-point path built from a longer ring with repeated points is kept by both builders.  A path of that shape may
  //  therefore be present or absent on the D side; whatever the D side returns of them is taken out on both sides.)
  Paths64 open64f; PathsD openDf; std::vector<PathD> small3D;
  for (auto& p : open64) {
    if (open_small3(p)) { stat("open.small3_excluded_known_finding"); PathD q; for (auto& v : p) q.emplace_back((double)v.x / c.sD, (double)v.y / c.sD); small3D.push_back(q); }
    else open64f.push_back(p);
  }
  for (auto& p : openD) {
    bool is_small3 = false;
    for (auto& q : small3D) if (p.size() == q.size()) { bool eq = true; for (size_t i = 0; i < p.size(); ++i) if (p[i].x != q[i].x || p[i].y != q[i].y) eq = false; if (eq) is_small3 = true; }
    if (is_small3) stat("open.small3_kept_by_ClipperD"); else openDf.push_back(p);
  }
  compare("d-api.ClipperD.open", openDf, open64f, c.sD, c, true, input);
  stat("open.result_paths", (long long)open64.size());
  // the overloads without an open-solution argument, on the same objects (open subjects still loaded): they must return
  // the closed solution only, as the 64-bit overloads do
  {
    PathsD onlyD; Paths64 only64;
    bool okD = cd.Execute(ct, fr, onlyD), ok64 = c64.Execute(ct, fr, only64);
    if (okD != ok64) emitF("d-api.ClipperD.Execute", input + " | return values differ (closed-only overload)");
    compare("d-api.ClipperD.closed-only", onlyD, only64, c.sD, c, true, input);
    PolyTreeD tD; PolyTree64 t64;
    okD = cd.Execute(ct, fr, tD); ok64 = c64.Execute(ct, fr, t64);
    if (okD != ok64) emitF("d-api.ClipperD.Execute", input + " | return values differ (closed-only tree overload)");
    std::string why;
    stat("cmp.d-api.ClipperD.tree-closed-only");
    if (!tree_same(t64, tD, 1 / c.sD, why, 0)) emitF("d-api.ClipperD.tree-closed-only", input + " | " + why);
  }
}

static void t_inflate(Rng& g, const Ctx& c, const PathsD& paths, int64_t M) {
  JoinType jt = (JoinType)g.range(0, 3);
  EndType et = (EndType)g.range(0, 4);
  double ml = g.pick(std::vector<double>{2.0, 2.0, 0.0, 1.0, 3.5, 10.0});
  // delta in user units such that the scaled delta is between 1 and M/3 units; delta == 0 is the known finding
  double ds = (double)g.range(1, std::max<int64_t>(2, M / 3)) * (g.chance(35) ? -1.0 : 1.0);
  if (g.chance(30)) ds += g.unit();
  // sub-unit scaled deltas (non-zero): below half a unit the integer offsetter passes the (rounded, unioned) input through;
  // the D overload must do the same, not return its raw input
  if (g.chance(12)) { ds = (0.05 + 0.9 * g.unit()) * (g.coin() ? -1.0 : 1.0); stat("inflate.sub_unit_scaled_delta"); }
  double delta = ds / c.s10;
  if (delta == 0) return;
  double arc = 0.0;
  // the number of arc steps grows like sqrt(delta / arc_tolerance): keep that ratio bounded so that a case stays small
  bool small = std::fabs(ds) < 4000;
  switch (g.next() % 4) {
    case 0: arc = 0.0; break;
    case 1: arc = (small ? 0.25 : std::fabs(ds) / 300) / c.s10; break;
    case 2: arc = std::fabs(ds) / 50 / c.s10; break;
    default: arc = (small ? g.unit() * 3 : std::fabs(ds) * (0.003 + 0.05 * g.unit())) / c.s10;
  }
  std::string input = ctx_str(c) + " delta=" + hexd(delta) + " jt=" + std::to_string((int)jt) + " et=" + std::to_string((int)et) +
                      " miter_limit=" + hexd(ml) + " arc_tolerance=" + hexd(arc) + " paths=" + SD(paths);
  g_current = input;
  stat("inflate.jt" + std::to_string((int)jt) + ".et" + std::to_string((int)et));
  PathsD rD = InflatePaths(paths, delta, jt, et, ml, c.prec, arc);
  Paths64 r64 = InflatePaths(scale_paths(paths, c.s10), delta * c.s10, jt, et, ml, arc * c.s10);
  compare("d-api.InflatePaths", rD, r64, c.s10, c, false, input);
}

static void t_rectclip(Rng& g, const Ctx& c, const PathsD& paths, int64_t M) {
  int64_t a = g_ox + g.range(-M, M / 4), b = g_oy + g.range(-M, M / 4), w = g.range(0, M + M / 2), h = g.range(0, M + M / 2);
  if (g.chance(5)) w = 0;
  RectD rect((((double)a) + frac_of(g)) / c.s10, (((double)b) + frac_of(g)) / c.s10, (((double)(a + w)) + frac_of(g)) / c.s10, (((double)(b + h)) + frac_of(g)) / c.s10);
  std::string input = ctx_str(c) + " rect=" + hexd(rect.left) + "," + hexd(rect.top) + "," + hexd(rect.right) + "," + hexd(rect.bottom) + " paths=" + SD(paths);
  g_current = input;
  Rect64 r64 = scale_rect(rect, c.s10);
  if (r64.IsEmpty()) stat("rect.empty_after_scaling");
  if (rect.IsEmpty()) stat("rect.empty_before_scaling");
  Paths64 p64 = scale_paths(paths, c.s10);
  compare("d-api.RectClip", RectClip(rect, paths, c.prec), RectClip(r64, p64), c.s10, c, false, input);
  compare("d-api.RectClipLines", RectClipLines(rect, paths, c.prec), RectClipLines(r64, p64), c.s10, c, false, input);
  if (!paths.empty()) {
    compare("d-api.RectClip.path", RectClip(rect, paths[0], c.prec), RectClip(r64, p64[0]), c.s10, c, false, input);
    compare("d-api.RectClipLines.path", RectClipLines(rect, paths[0], c.prec), RectClipLines(r64, p64[0]), c.s10, c, false, input);
  }
}

static void t_minkowski(Rng& g, const Ctx& c, int64_t M) {
  int pn = (int)g.range(1, 5), qn = (int)g.range(0, 7);
  if (g.chance(4)) pn = 0;
  Path64 tp = pn ? target_path(g, pn, std::max<int64_t>(3, M / 16), 0, 0) : Path64();
  Path64 tq = qn ? target_path(g, qn, M / 2 + 2, g_ox + g.range(-M / 4, M / 4), g_oy + g.range(-M / 4, M / 4)) : Path64();
  PathD pattern = user_path(g, tp, c.s10), path = user_path(g, tq, c.s10);
  bool closed = g.coin();
  std::string input = ctx_str(c) + " closed=" + (closed ? "1" : "0") + " pattern=" + SD(pattern) + " path=" + SD(path);
  g_current = input;
  Path64 p64 = scale_path(pattern, c.s10), q64 = scale_path(path, c.s10);
  compare("d-api.MinkowskiSum", MinkowskiSum(pattern, path, closed, c.prec), MinkowskiSum(p64, q64, closed), c.s10, c, false, input);
  compare("d-api.MinkowskiDiff", MinkowskiDiff(pattern, path, closed, c.prec), MinkowskiDiff(p64, q64, closed), c.s10, c, false, input);
}

static void t_trim(Rng& g, const Ctx& c, int64_t M) {
  int n = (int)g.range(0, 10);
  Path64 t = n ? target_path(g, n, M / 2 + 2, g_ox, g_oy) : Path64();
  // insert collinear runs
  if (t.size() >= 2 && g.chance(70)) {
    Path64 u;
    for (size_t i = 0; i < t.size(); ++i) {
      u.push_back(t[i]);
      const Point64& nx = t[(i + 1) % t.size()];
      if (g.chance(50) && ((nx.x - t[i].x) % 2 == 0) && ((nx.y - t[i].y) % 2 == 0)) u.emplace_back(t[i].x + (nx.x - t[i].x) / 2, t[i].y + (nx.y - t[i].y) / 2);
    }
    t = u;
  }
  PathD path;   // no sub-resolution fractions here half of the time so that collinearity survives
  if (g.coin()) for (auto& q : t) path.emplace_back((double)q.x / c.s10, (double)q.y / c.s10); else path = user_path(g, t, c.s10);
  bool open = g.coin();
  std::string input = ctx_str(c) + " open=" + (open ? "1" : "0") + " path=" + SD(path);
  g_current = input;
  PathD rD = TrimCollinear(path, c.prec, open);
  Path64 r64 = TrimCollinear(scale_path(path, c.s10), open);
  if (r64.size() < path.size()) stat("trim.removed_something");
  compare("d-api.TrimCollinear", PathsD{rD}, Paths64{r64}, c.s10, c, false, input);
}

// ------------------------------------------------------------------ deviations present on the unchanged tree
static void kf_cases() {
  // (1) InflatePaths(PathsD, delta = 0): returns the *unrounded* input, while the 64-bit operation on the scaled input
  //     returns the scaled-and-rounded paths (InflatePaths(Paths64) `if (!delta) return paths;`).
  {
    Ctx c = make_ctx(2);
    PathsD in = {{PointD(0.123, 0.456), PointD(10.789, 0.2), PointD(5.5, 9.99)}};
    PathsD rD = InflatePaths(in, 0.0, JoinType::Miter, EndType::Polygon, 2.0, 2, 0.0);
    Paths64 r64 = InflatePaths(scale_paths(in, c.s10), 0.0 * c.s10, JoinType::Miter, EndType::Polygon, 2.0, 0.0);
    if (!same_bits(rD, descale_mul(r64, 1 / c.s10)))
      emitF("kf.d-api.InflatePaths.delta0", "precision=2 delta=0 jt=Miter et=Polygon paths={(0.123,0.456),(10.789,0.2),(5.5,9.99)}: D result is the unrounded input, the 64-bit result descaled is {(0.12,0.46),(10.79,0.2),(5.5,9.99)}");
    else stat("kf.InflatePaths.delta0.not_reproduced");
  }
  // (2) ClipperD drops an open 3-point solution path when two of its (scaled) points are closer than 2 units:
  //     BuildPathD tests `path.size() == 3 && IsVerySmallTriangle` without BuildPath64's `!isOpen`.
  {
    PathsD open = {{PointD(0.0, 0.0), PointD(0.0078125, 0.0), PointD(10.0, 10.0)}};
    ClipperD cd(2); cd.AddOpenSubject(open);
    PathsD cD, oD; cd.Execute(ClipType::Union, FillRule::NonZero, cD, oD);
    Clipper64 c64; c64.AddOpenSubject(scale_paths(open, 128.0));
    Paths64 cc, o64; c64.Execute(ClipType::Union, FillRule::NonZero, cc, o64);
    if (!same_bits(oD, descale_mul(o64, 1 / 128.0)))
      emitF("kf.d-api.ClipperD.open-3pt", "precision=2 (scale 128) Union NonZero open subject {(0,0),(0.0078125,0),(10,10)}: ClipperD returns " + std::to_string(oD.size()) +
            " open paths, Clipper64 on the scaled input {(0,0),(1,0),(1280,1280)} returns " + std::to_string(o64.size()));
    else stat("kf.ClipperD.open-3pt.not_reproduced");
  }
}

int main(int argc, char** argv) {
  Rng g(seed_from_args(argc, argv));
  bool thorough = thorough_from_args(argc, argv);
  if (__sanitizer_set_death_callback) __sanitizer_set_death_callback(on_death);
  int N = thorough ? 150000 : 6000;
  scale_records();
  round_records(g, thorough ? 20000 : 2000);
  kf_cases();
  for (int it = 0; it < N; ++it) {
    Ctx c = make_ctx(pick_precision(g));
    stat("precision." + std::to_string(c.prec));
    int mc = (int)(g.next() % 5), oc = (int)(g.next() % 6);
    int64_t M = MAGS[mc];
    g_ox = OFFS[oc] * (g.coin() ? 1 : -1); g_oy = OFFS[(oc + (g.coin() ? 0 : 3)) % 6] * (g.coin() ? 1 : -1);
    stat("extent_class_scaled." + std::to_string(mc)); stat("offset_class_scaled." + std::to_string(oc));
    bool decimal = c.prec >= 0 && c.prec <= 3 && g.chance(20);
    if (decimal) { stat("input.decimal"); M = (int64_t)(1000 * c.s10); if (M < 10) M = 10; g_ox = g_oy = 0; } else stat("input.scaled_lattice");
    // ClipperD family (power-of-two scale)
    {
      PathsD subj = decimal ? gen_decimal(g, (int)g.range(1, 3), 7, c.prec) : gen_pathsD(g, (int)g.range(1, 3), 8, c.sD, M, true);
      PathsD clip = decimal ? gen_decimal(g, (int)g.range(0, 2), 6, c.prec) : gen_pathsD(g, (int)g.range(0, 2), 7, c.sD, M, true);
      t_boolean(g, c, subj, clip);
      if (g.chance(60)) t_polytree(g, c, subj, clip);
      if (g.chance(50)) {
        PathsD open = decimal ? gen_decimal(g, (int)g.range(1, 2), 5, c.prec) : gen_pathsD(g, (int)g.range(1, 3), 6, c.sD, M, true);
        t_clipperD_open(g, c, subj, open, clip);
      }
      if (g.chance(15)) {  // nested rectangles: deeper trees
        PathsD nest; int depth = (int)g.range(2, 6);
        for (int k = 0; k < depth; ++k) {
          int64_t r = std::max<int64_t>(2, M / 2 - k * (M / 2 / (depth + 1)));
          Path64 sq = rect_path(g_ox - r, g_oy - r, g_ox + r, g_oy + r);
          nest.push_back(user_path(g, sq, c.sD));
        }
        PathsD none;
        stat("input.nested");
        ClipType ctn = ClipType::Union; (void)ctn;
        PolyTreeD tD; PolyTree64 t64;
        FillRule fr = FillRule::EvenOdd;
        BooleanOp(ClipType::Union, fr, nest, none, tD, c.prec);
        BooleanOp(ClipType::Union, fr, scale_paths(nest, c.sD), Paths64(), t64);
        std::string why; long before = tree_nodes;
        stat("cmp.d-api.PolyTreeD");
        if (!tree_same(t64, tD, 1 / c.sD, why, 0)) emitF("d-api.PolyTreeD", in2(c, "ct=2 fr=0", nest, none) + " | " + why);
        stat("polytree.nodes", tree_nodes - before);
        stat("polytree.nested_depth." + std::to_string(std::min(tree_maxdepth, 8))); tree_maxdepth = 0;
      }
    }
    // 10^precision family
    {
      int64_t Mo = M;
      PathsD paths = decimal ? gen_decimal(g, (int)g.range(1, 3), 7, c.prec) : gen_pathsD(g, (int)g.range(1, 3), 8, c.s10, Mo, false);
      if (g.chance(70)) t_inflate(g, c, paths, decimal ? (int64_t)(200 * c.s10) + 3 : Mo);
      PathsD rpaths = decimal ? paths : gen_pathsD(g, (int)g.range(0, 3), 8, c.s10, M, true);
      if (g.chance(70)) t_rectclip(g, c, rpaths, M);
      if (g.chance(50)) t_minkowski(g, c, Mo);
      if (g.chance(60)) t_trim(g, c, M);
    }
  }
  flush_stats();
  return 0;
}
