// Unity build of the library from /repo's current sources (the include path points at /repo/.../src).
// Define VERIF_PRIVATE_ACCESS before including to read private state (never to write it).
#pragma once
#ifdef VERIF_PRIVATE_ACCESS
#include <sstream>
#include <vector>
#include <string>
#include <memory>
#include <algorithm>
#include <functional>
#include <queue>
#include <map>
#include <iostream>
#include <numeric>
#include <cmath>
#include <cstdint>
#include <cstdlib>
#include <optional>
#include <stdexcept>
#define private public
#define protected public
#endif
#include "clipper2/clipper.h"
#include "clipper.engine.cpp"
#include "clipper.offset.cpp"
#include "clipper.rectclip.cpp"
#ifdef VERIF_PRIVATE_ACCESS
#undef private
#undef protected
#endif
