// Unity build of the library from /repo's current sources (the include path points at /repo/.../src).
#pragma once
#include "clipper2/clipper.h"
#include "clipper.engine.cpp"
#include "clipper.offset.cpp"
#include "clipper.rectclip.cpp"
