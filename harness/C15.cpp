// C15 harness, built twice (plain and -DUSINGZ).  Both builds print `X key value` records for identical inputs
// (boolean clipping with and without open paths, offsetting, rectangle clipping): ./check requires equal values
// for equal keys across builds (same x,y geometry).  The USINGZ build additionally ties the SetZ model (SETZ)
// and judges Z accounting of real runs in Lean (ZCHECK).
#define VERIF_PRIVATE_ACCESS
#include "unity.h"
#include "gp.h"
using namespace vh;

static const ClipType CTS[] = {ClipType::Intersection, ClipType::Union, ClipType::Difference, ClipType::Xor};
static const FillRule FRS[] = {FillRule::EvenOdd, FillRule::NonZero, FillRule::Positive, FillRule::Negative};

static uint64_t fnv(const std::string& s) { uint64_t h = 1469598103934665603ull; for (unsigned char c : s) { h ^= c; h *= 1099511628211ull; } return h; }
static void emitX(const std::string& key, const std::string& value) {
  char b[32]; snprintf(b, sizeof b, "%016llx", (unsigned long long)fnv(value));
  printf("X\t%s\t%s len=%zu\n", key.c_str(), b, value.size());
  stat("cross-build.records");
}
static std::string XY(const Paths64& ps) { return S(ps); }   // S() prints x and y only

#ifdef USINGZ
static thread_local std::vector<int64_t>* g_log = nullptr;
static thread_local int64_t g_next = 0;
static void cb64(const Point64&, const Point64&, const Point64&, const Point64&, Point64& pt) {
  pt.z = 1000000 + (g_next++);
  if (g_log) g_log->push_back(pt.z);
}
static void cbD(const PointD&, const PointD&, const PointD&, const PointD&, PointD& pt) {
  pt.z = 2000000 + (g_next++);
  pt.x += 12345.0; pt.y -= 777.0;   // a callback that scribbles over x,y must not move the solution (proxy copies back z only)
  if (g_log) g_log->push_back(pt.z);
}
static std::string PZ(const Point64& p) { return S(p.x) + " " + S(p.y) + " " + S(p.z); }
static void setz_cb(const Point64& a, const Point64&, const Point64&, const Point64&, Point64& p) { p.z = 1000 * p.z + 7 + 100000 * a.z; }
#endif

int main(int argc, char** argv) {
  Rng g(seed_from_args(argc, argv));
  bool thorough = thorough_from_args(argc, argv);
  int N = thorough ? 3000 : 160;
  for (int i = 0; i < N; ++i) {
    // identical random stream in both builds: all Z-specific randomness comes from a second generator
    GpInput in = gen_gp(g);
    Paths64 opn;
    if (i % 3 == 0) { int n = (int)g.range(2, 5); Path64 p; for (int k = 0; k < n; ++k) p.emplace_back(g.range(-in.R, in.R), g.range(-in.R, in.R)); opn.push_back(p); }
    ClipType ct = CTS[g.next() % 4]; FillRule fr = FRS[g.next() % 4];
    bool pc = g.coin();
    std::string key = std::to_string(i) + ":" + std::to_string((int)ct) + ":" + std::to_string((int)fr);
    Rng gz(seed_from_args(argc, argv) * 7919 + i);
#ifdef USINGZ
    // random Z labels on every input vertex (multiples of 3 so they cannot collide with callback values)
    Paths64 subj = in.subj, clip = in.clip, op = opn;
    for (auto* ps : {&subj, &clip, &op}) for (auto& p : *ps) for (auto& v : p) v.z = 3 * gz.range(1, 300);
#else
    const Paths64& subj = in.subj; const Paths64& clip = in.clip; const Paths64& op = opn;
#endif
    {
      Clipper64 c; c.PreserveCollinear(pc); c.AddSubject(subj); c.AddOpenSubject(op); c.AddClip(clip);
      Paths64 sol, solo;
#ifdef USINGZ
      std::vector<int64_t> log; g_log = &log; g_next = 0;
      bool usecb = gz.chance(75);
      if (usecb) c.SetZCallback(cb64);
      if (usecb) c.DefaultZ = 9;   // shown to the callback for genuinely new points; without a callback new points keep z = 0
#endif
      c.Execute(ct, fr, sol, solo);
      emitX("bool:" + key, XY(sol) + " | " + XY(solo));
#ifdef USINGZ
      g_log = nullptr;
      // Z accounting, stated for general position: judged only if Lean confirms GP (ZCHECK itself is GP-agnostic, so
      // the harness asks GPCHECK through the record pair below)
      std::string req = "ZCHECK " + std::string(usecb ? "1 " : "0 ") + "0 ";
      size_t nin = 0; std::string ins;
      for (auto* ps : {&subj, &clip, &op}) for (auto& p : *ps) for (auto& v : p) { ++nin; ins += " " + PZ(v); }
      size_t nsol = 0; std::string sols;
      for (auto* ps : {&sol, &solo}) for (auto& p : *ps) for (auto& v : p) { ++nsol; sols += " " + PZ(v); }
      std::string logs; for (auto z : log) logs += " " + S(z);
      req += std::to_string(nin) + ins + " " + std::to_string(nsol) + sols + " " + std::to_string(log.size()) + logs;
      emitS("zcheck.ifgp", "IFGP " + S(in.subj) + " " + S(in.clip) + " " + S(opn) + " " + req);
      stat(usecb ? "z.with_callback" : "z.without_callback");
      stat("z.callback_calls", (long long)log.size());
      // a second execution of the SAME object (another clip type): the callback installed once must still be in force
      {
        ClipType ct2 = CTS[(gz.next() % 3 + 1 + (size_t)((int)ct - 1)) % 4];
        std::vector<int64_t> log2; g_log = &log2;
        Paths64 sol2, solo2;
        c.Execute(ct2, fr, sol2, solo2);
        g_log = nullptr;
        std::string req2 = "ZCHECK " + std::string(usecb ? "1 " : "0 ") + "0 ";
        size_t nsol2 = 0; std::string sols2;
        for (auto* ps : {&sol2, &solo2}) for (auto& p : *ps) for (auto& v : p) { ++nsol2; sols2 += " " + PZ(v); }
        std::string logs2; for (auto z : log2) logs2 += " " + S(z);
        req2 += std::to_string(nin) + ins + " " + std::to_string(nsol2) + sols2 + " " + std::to_string(log2.size()) + logs2;
        emitS("zcheck.second-execute.ifgp", "IFGP " + S(in.subj) + " " + S(in.clip) + " " + S(opn) + " " + req2);
        stat("z.second_execute");
      }
#endif
    }
    if (i % 2 == 0 && in.R <= ((int64_t)1 << 40)) {
      // ClipperD at precision 0..3 on the same integer-valued input
      int prec = (int)(g.next() % 4);
      PathsD sd, cd;
      for (auto& p : in.subj) { PathD q; for (auto& v : p) q.emplace_back((double)v.x, (double)v.y); sd.push_back(q); }
      for (auto& p : in.clip) { PathD q; for (auto& v : p) q.emplace_back((double)v.x, (double)v.y); cd.push_back(q); }
      ClipperD c(prec); c.AddSubject(sd); c.AddClip(cd);
#ifdef USINGZ
      std::vector<int64_t> log; g_log = &log; g_next = 0;
      if (gz.chance(70)) c.SetZCallback(cbD);
#endif
      PathsD sol; c.Execute(ct, fr, sol);
#ifdef USINGZ
      g_log = nullptr;
#endif
      std::string v;
      for (auto& p : sol) { v += "/"; for (auto& q : p) v += hexd(q.x) + hexd(q.y); }
      emitX("boolD:" + key + ":" + std::to_string(prec), v);
#ifdef USINGZ
      // Z accounting through ClipperD (precision 0: scale 2, so solutions are multiples of 1/2; ZCHECK sees everything doubled), every
      // Execute overload on a fresh object each: the callback must be bound whichever overload runs first
      {
        PathsD szd = sd, czd = cd;
        Paths64 s64, c64;
        for (size_t a = 0; a < szd.size(); ++a) { Path64 q; for (size_t b = 0; b < szd[a].size(); ++b) { szd[a][b].z = 3 * gz.range(1, 300); Point64 w(2 * (int64_t)szd[a][b].x, 2 * (int64_t)szd[a][b].y); w.z = szd[a][b].z; q.push_back(w); } s64.push_back(q); }
        for (size_t a = 0; a < czd.size(); ++a) { Path64 q; for (size_t b = 0; b < czd[a].size(); ++b) { czd[a][b].z = 3 * gz.range(1, 300); Point64 w(2 * (int64_t)czd[a][b].x, 2 * (int64_t)czd[a][b].y); w.z = czd[a][b].z; q.push_back(w); } c64.push_back(q); }
        int ov = (int)gz.range(0, 3);
        bool usecb = gz.chance(80);
        ClipperD cz(0); cz.AddSubject(szd); cz.AddClip(czd);
        std::vector<int64_t> zlog; g_log = &zlog; g_next = 0;
        if (usecb) cz.SetZCallback(cbD);
        PathsD rs, ro; PolyTreeD rt;
        if (ov == 0) cz.Execute(ct, fr, rs);
        else if (ov == 1) cz.Execute(ct, fr, rs, ro);
        else if (ov == 2) { cz.Execute(ct, fr, rt); rs = PolyTreeToPathsD(rt); }
        else { cz.Execute(ct, fr, rt, ro); rs = PolyTreeToPathsD(rt); }
        g_log = nullptr;
        std::string ins; size_t nin = 0;
        for (auto* ps : {&s64, &c64}) for (auto& p : *ps) for (auto& w : p) { ++nin; ins += " " + PZ(w); }
        std::string sols; size_t nsol = 0; bool integral = true;
        for (auto& p : rs) for (auto& q : p) { if (2 * q.x != std::floor(2 * q.x) || 2 * q.y != std::floor(2 * q.y)) integral = false; Point64 w((int64_t)(2 * q.x), (int64_t)(2 * q.y)); w.z = q.z; ++nsol; sols += " " + PZ(w); }
        if (!integral) emitF("zcheckD.not_integral", "ClipperD(0) (scale 2) returned a coordinate that is not a multiple of 1/2");
        std::string logs; for (auto z : zlog) logs += " " + S(z);
        std::string req = "ZCHECK " + std::string(usecb ? "1 " : "0 ") + "0 " + std::to_string(nin) + ins + " " + std::to_string(nsol) + sols + " " + std::to_string(zlog.size()) + logs;
        emitS("zcheckD.ifgp.overload" + std::to_string(ov), "IFGP " + S(in.subj) + " " + S(in.clip) + " 0 " + req);
        stat("zD.overload" + std::to_string(ov));
        stat("zD.callback_calls", (long long)zlog.size());
      }
#endif
    }
    if (i % 2 == 1 && in.R >= 400 && in.R <= ((int64_t)1 << 40)) {
      // offsetting and rectangle clipping of the subject paths
      double delta = (double)g.range(-(in.R / 8), in.R / 4) + 0.5;
      static const JoinType JTS[] = {JoinType::Square, JoinType::Bevel, JoinType::Round, JoinType::Miter};
      static const EndType ETS[] = {EndType::Polygon, EndType::Joined, EndType::Butt, EndType::Square, EndType::Round};
      JoinType jt = JTS[g.next() % 4]; EndType et = ETS[g.next() % 5];
      Paths64 r = InflatePaths(subj, delta, jt, et, 2.0, 0.0);
      emitX("offset:" + key, XY(r));
      Rect64 rc(g.range(-in.R, 0), g.range(-in.R, 0), g.range(1, in.R), g.range(1, in.R));
      emitX("rectclip:" + key, XY(RectClip(rc, subj)));
      emitX("rectcliplines:" + key, XY(RectClipLines(rc, subj)));
    }
  }
#ifdef USINGZ
  // dense small-coordinate section (USINGZ build only, no cross-build records): triangles and quadrilaterals with coordinates
  // below 1000, callback always installed.  Rounded intersection points make output rings touch themselves here, so the
  // clean-up code (CleanCollinear -> FixSelfIntersects -> DoSplitOp, which creates and copies vertices) runs far more often
  // than in the generic stream.  Judged only when Lean confirms general position.
  {
    int M = thorough ? 40000 : 4000;
    Rng gd(seed_from_args(argc, argv) * 104729 + 17);
    for (int i = 0; i < M; ++i) {
      auto poly = [&](int n) { Path64 p; for (int k = 0; k < n; ++k) { Point64 q(gd.range(0, 999), gd.range(0, 999)); q.z = 3 * gd.range(1, 300); p.push_back(q); } return p; };
      Paths64 subj{poly((int)gd.range(3, 4))}, clip{poly((int)gd.range(3, 4))};
      ClipType ct = CTS[gd.next() % 4]; FillRule fr = FRS[gd.next() % 4];
      Clipper64 c; c.PreserveCollinear(gd.coin()); c.AddSubject(subj); c.AddClip(clip);
      std::vector<int64_t> log; g_log = &log; g_next = 0;
      c.SetZCallback(cb64);
      Paths64 sol;
      if (gd.coin()) c.Execute(ct, fr, sol); else { PolyTree64 t; c.Execute(ct, fr, t); sol = PolyTreeToPaths64(t); }
      g_log = nullptr;
      std::string ins; size_t nin = 0;
      for (auto* ps : {&subj, &clip}) for (auto& p : *ps) for (auto& v : p) { ++nin; ins += " " + PZ(v); }
      std::string sols; size_t nsol = 0;
      for (auto& p : sol) for (auto& v : p) { ++nsol; sols += " " + PZ(v); }
      std::string logs; for (auto z : log) logs += " " + S(z);
      emitS("zcheck.dense.ifgp", "IFGP " + S(subj) + " " + S(clip) + " 0 ZCHECK 1 0 " + std::to_string(nin) + ins + " " + std::to_string(nsol) + sols + " " + std::to_string(log.size()) + logs);
      stat("z.dense.inputs");
    }
  }
  // model-level tie of SetZ: call the real private member on constructed edges
  {
    Clipper64 c;
    Vertex v1, v2;
    LocalMinima lmS(&v1, PathType::Subject, false), lmC(&v2, PathType::Clip, false);
    int M = thorough ? 20000 : 1500;
    for (int i = 0; i < M; ++i) {
      auto rp = [&](int lim) { Point64 p(g.range(0, lim), g.range(0, lim)); p.z = g.range(1, 90); return p; };
      Active e1, e2;
      e1.bot = rp(2); e1.top = rp(2); e2.bot = rp(2); e2.top = rp(2);
      bool s = g.coin();
      e1.local_min = s ? &lmS : &lmC; e2.local_min = s ? &lmC : &lmS;
      Point64 ip = rp(2); ip.z = g.range(0, 5);
      bool hascb = g.chance(85);
      c.zCallback_ = hascb ? ZCallback64(setz_cb) : ZCallback64(nullptr);
      c.DefaultZ = g.range(-3, 3);
      Point64 before = ip;
      c.SetZ(e1, e2, ip);
      emitM("setz", "SETZ " + std::string(hascb ? "1 " : "0 ") + (s ? "1 " : "0 ") + PZ(e1.bot) + " " + PZ(e1.top) + " " + PZ(e2.bot) + " " + PZ(e2.top) + " " + PZ(before) + " " + std::to_string((long long)c.DefaultZ),
            PZ(ip));
    }
  }
#endif
  flush_stats();
  return 0;
}
