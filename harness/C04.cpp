// C04 harness: PolyTree solutions carry the same paths with correct nesting.
//  spec level : the same input is executed into Paths64 and into PolyTree64 (and PathsD / PolyTreeD); the Lean Spec (`TREECHECK`,
//               `TREECHECKD`) compares path multisets, open paths, Level/IsHole, exact areas and -- for inputs in general
//               position (verified margin) or rectilinear with features >= 2 apart -- containment in the parent, disjointness
//               from siblings and orientation = depth parity, all with exact integer arithmetic.
//  model level: the outrec table the real sweep hands to BuildTree64 (owner, splits, is_open, pts) is replayed through
//               Model/Owner.lean (`OWNERS`); the real CleanCollinear+BuildPath64 results and the real Path1InsidePath2 answers
//               are the values of the model's abstract parameters; the model must reproduce every outrec's final owner and
//               tree parent, the PolyTreeToPaths64 order and the open paths.
#include <algorithm>
#include <cmath>
#include <cstdint>
#include <cstdlib>
#include <functional>
#include <iostream>
#include <memory>
#include <numeric>
#include <optional>
#include <queue>
#include <stdexcept>
#include <string>
#include <type_traits>
#include <vector>
#include <map>
#include <sstream>
#include <cstring>
#include <cstdio>
#include <xmmintrin.h>
#include <emmintrin.h>
// BuildTree64 / ExecuteInternal / outrec_list_ are private: read access only, no source change
#define private public
#define protected public
#include "clipper2/clipper.h"
#include "clipper.engine.cpp"
#undef private
#undef protected
#include "common.h"
#include "gp_gen.h"
using namespace vh;

// identify the input when a sanitizer aborts the run (./check looks for VERIF-CURRENT in stderr)
#include <sanitizer/common_interface_defs.h>

static std::string g_current;
static void on_death() { fprintf(stderr, "\nVERIF-CURRENT: %s\n", g_current.c_str()); fflush(stderr); }
// UBSan reports end in abort() (unless the environment says otherwise) so that the input can be named before exiting
extern "C" const char* __ubsan_default_options() { return "abort_on_error=1"; }
#include <csignal>
static void on_abort(int) { on_death(); _exit(98); }
static void set_current(const char* what, const Input& in, int ct, int fr, bool pc, bool rev) {
  g_current = std::string(what) + " ct=" + std::to_string(ct) + " fr=" + std::to_string(fr) + " pc=" + (pc ? "1" : "0") + " rev=" + (rev ? "1" : "0") +
              " subj " + S(in.subj) + " clip " + S(in.clip) + " open " + S(in.open_subj);
}

static void ser_tree(const PolyPath64& node, int parent, std::vector<std::string>& out) {
  for (const auto& ch : node) {
    int my = (int)out.size();
    out.push_back(std::to_string(parent) + " " + (ch->IsHole() ? "1" : "0") + " " + std::to_string(ch->Level()) + " " + S(ch->Polygon()));
    ser_tree(*ch, my, out);
  }
}
static void ser_treeD(const PolyPathD& node, int parent, std::vector<std::string>& out, double scale) {
  for (const auto& ch : node) {
    int my = (int)out.size();
    Path64 q;
    for (auto& p : ch->Polygon()) q.emplace_back((int64_t)std::llround(p.x * scale), (int64_t)std::llround(p.y * scale));
    out.push_back(std::to_string(parent) + " " + (ch->IsHole() ? "1" : "0") + " " + std::to_string(ch->Level()) + " " + S(q));
    ser_treeD(*ch, my, out, scale);
  }
}
static std::string join(const std::vector<std::string>& v) {
  std::string s = std::to_string(v.size());
  for (auto& x : v) { s += ' '; s += x; }
  return s;
}
static Paths64 toInt(const PathsD& ps, double scale) {
  Paths64 r;
  for (auto& p : ps) { Path64 q; for (auto& v : p) q.emplace_back((int64_t)std::llround(v.x * scale), (int64_t)std::llround(v.y * scale)); r.push_back(q); }
  return r;
}

static std::string cfg(int ct, int fr, bool pc, bool rev, int cls) {
  return std::to_string(ct) + " " + std::to_string(fr) + " " + (pc ? "1" : "0") + " " + (rev ? "1" : "0") + " " + std::to_string(cls);
}

// ------------------------------------------------------------------------------------------- spec level
// Random rectilinear polygon soups whose solution paths touch each other (or themselves) are the class of the known findings
// kf.tree.*: ownership is then sometimes resolved wrongly.  In the generic stream that class is judged on path sets, areas and
// Level/IsHole only; the structured generators (nested rings, touching holes, corpus) keep the full geometric judgement.
static int eff_class(const Input& in, const Paths64& closed) {
  if (in.cls == 2 && in.gen.rfind("rect.simple", 0) == 0 && solution_touches(closed)) return 0;
  return in.cls;
}
static std::string class_label(const Input& in, int cls) {
  if (cls != in.cls) return "rect.touching_solution.basic";
  return cls == 0 ? "basic" : cls == 1 ? "gp" : "rect";
}
static void tree_check64(const Input& in, int ct, int fr, bool pc, bool rev) {
  set_current("PolyTree64", in, ct, fr, pc, rev);
  Paths64 closed, opn, topn;
  {
    Clipper64 c; c.PreserveCollinear(pc); c.ReverseSolution(rev);
    c.AddSubject(in.subj); c.AddOpenSubject(in.open_subj); c.AddClip(in.clip);
    c.Execute((ClipType)ct, (FillRule)fr, closed, opn);
  }
  PolyTree64 tree;
  {
    Clipper64 c; c.PreserveCollinear(pc); c.ReverseSolution(rev);
    c.AddSubject(in.subj); c.AddOpenSubject(in.open_subj); c.AddClip(in.clip);
    c.Execute((ClipType)ct, (FillRule)fr, tree, topn);
  }
  std::vector<std::string> nodes;
  ser_tree(tree, -1, nodes);
  // the library's own flattening must agree with the traversal used here
  if (PolyTreeToPaths64(tree).size() != nodes.size()) emitF("tree.flatten_count", in.gen);
  int cls = eff_class(in, closed);
  std::string req = "TREECHECK " + cfg(ct, fr, pc, rev, cls) + " " + S(in.subj) + " " + S(in.clip) + " " + S(in.open_subj) + " " +
                    S(closed) + " " + S(opn) + " " + join(nodes) + " " + S(topn) + " " + hexd(tree.Area());
  emitS(std::string("tree64.") + class_label(in, cls), req);
  unsigned maxlvl = 0;
  std::function<void(const PolyPath64&)> walk = [&](const PolyPath64& n) { for (const auto& ch : n) { maxlvl = std::max(maxlvl, ch->Level()); walk(*ch); } };
  walk(tree);
  vh::stat("tree.depth." + std::to_string(std::min(maxlvl, 9u)));
  vh::stat(std::string("tree.open_paths.") + (opn.empty() ? "0" : "some"));
}

static void tree_checkD(const Input& in, int ct, int fr, bool pc, bool rev, int precision) {
  double scale = std::pow(10.0, precision);
  set_current("PolyTreeD", in, ct, fr, pc, rev);
  auto toD = [&](const Paths64& ps) { PathsD r; for (auto& p : ps) { PathD q; for (auto& v : p) q.emplace_back((double)v.x / scale, (double)v.y / scale); r.push_back(q); } return r; };
  PathsD subj = toD(in.subj), clip = toD(in.clip), osubj = toD(in.open_subj), closed, opn, topn;
  {
    ClipperD c(precision); c.PreserveCollinear(pc); c.ReverseSolution(rev);
    c.AddSubject(subj); c.AddOpenSubject(osubj); c.AddClip(clip);
    c.Execute((ClipType)ct, (FillRule)fr, closed, opn);
  }
  PolyTreeD tree;
  {
    ClipperD c(precision); c.PreserveCollinear(pc); c.ReverseSolution(rev);
    c.AddSubject(subj); c.AddOpenSubject(osubj); c.AddClip(clip);
    c.Execute((ClipType)ct, (FillRule)fr, tree, topn);
  }
  PathsD tclosed = PolyTreeToPathsD(tree);
  emitS("treeD.pathsets", "TREECHECKD " + SD(closed) + " " + SD(opn) + " " + SD(tclosed) + " " + SD(topn));
  // nesting geometry on the integer coordinates the doubles were produced from
  std::vector<std::string> nodes;
  ser_treeD(tree, -1, nodes, scale);
  int cls = eff_class(in, toInt(closed, scale));
  std::string req = "TREECHECK " + cfg(ct, fr, pc, rev, cls) + " " + S(in.subj) + " " + S(in.clip) + " " + S(in.open_subj) + " " +
                    S(toInt(closed, scale)) + " " + S(toInt(opn, scale)) + " " + join(nodes) + " " + S(toInt(topn, scale)) + " -";
  emitS(std::string("treeD.") + class_label(in, cls), req);
  // tree area against the sum of the paths' areas (doubles: relative tolerance)
  double a1 = tree.Area(), a2 = 0;
  for (auto& p : closed) a2 += Area(p);
  if (std::fabs(a1 - a2) > 1e-9 * (std::fabs(a1) + std::fabs(a2)) + 1e-12) emitF("treeD.area", in.gen + " tree " + hexd(a1) + " paths " + hexd(a2));
}

// ------------------------------------------------------------------------------------------- model level
static bool splits_graph_acyclic(const std::vector<std::vector<int>>& succ) {
  size_t n = succ.size();
  std::vector<int> col(n, 0);
  std::function<bool(int)> dfs = [&](int u) {
    col[u] = 1;
    for (int v : succ[u]) {
      if (v < 0 || (size_t)v >= n) continue;
      if (col[v] == 1) return false;
      if (col[v] == 0 && !dfs(v)) return false;
    }
    col[u] = 2;
    return true;
  };
  for (size_t i = 0; i < n; ++i) if (col[i] == 0 && !dfs((int)i)) return false;
  return true;
}

static void owners_record(const Input& in, int ct, int fr, bool pc, bool rev) {
  set_current("BuildTree64", in, ct, fr, pc, rev);
  Clipper64 c; c.PreserveCollinear(pc); c.ReverseSolution(rev);
  c.AddSubject(in.subj); c.AddOpenSubject(in.open_subj); c.AddClip(in.clip);
  if (!c.ExecuteInternal((ClipType)ct, (FillRule)fr, true)) { c.CleanUp(); return; }
  size_t n = c.outrec_list_.size();
  if (n == 0 || n > 60) { vh::stat(n == 0 ? "owners.empty_table" : "owners.skipped.large_table"); c.CleanUp(); return; }
  struct Pre { int owner; std::vector<int> splits; bool is_open, has_pts; };
  std::vector<Pre> pre(n);
  bool any_split = false;
  for (size_t i = 0; i < n; ++i) {
    OutRec* o = c.outrec_list_[i];
    pre[i].owner = o->owner ? (int)o->owner->idx : -1;
    if (o->splits) for (OutRec* s : *o->splits) { pre[i].splits.push_back((int)s->idx); any_split = true; }
    pre[i].is_open = o->is_open;
    pre[i].has_pts = o->pts != nullptr;
  }
  PolyTree64 tree; Paths64 topn;
  c.BuildTree64(tree, topn);
  if (c.outrec_list_.size() != n) { vh::stat("owners.skipped.table_grew_during_build"); c.CleanUp(); return; }
  // values of the abstract parameters, read off the real state after the build
  std::map<const PolyPath*, int> node_owner;
  for (size_t i = 0; i < n; ++i) if (c.outrec_list_[i]->polypath) node_owner[c.outrec_list_[i]->polypath] = (int)i;
  std::string req = "OWNERS " + std::to_string(n);
  std::string expected;
  for (size_t i = 0; i < n; ++i) {
    OutRec* o = c.outrec_list_[i];
    req += " " + std::to_string(pre[i].owner) + " " + std::to_string(pre[i].splits.size());
    for (int s : pre[i].splits) req += " " + std::to_string(s);
    req += std::string(" ") + (pre[i].is_open ? "1" : "0") + " " + (pre[i].has_pts ? "1" : "0");
    // clean: 0 disposed, 1 invalid / not evaluated, 2 path
    if (pre[i].has_pts && !o->pts) req += " 0";
    else if (!pre[i].is_open && o->pts && !o->path.empty() && !(o->bounds.left == 0 && o->bounds.right == 0 && o->bounds.top == 0 && o->bounds.bottom == 0)) req += " 2 " + S(o->path);
    else req += " 1";
    // openPath
    Path64 op;
    if (pre[i].is_open && o->pts && BuildPath64(o->pts, rev, true, op)) req += " 1 " + S(op); else req += " 0";
    int par = -2;
    if (o->polypath) {
      const PolyPath* pp = o->polypath->Parent();
      par = (pp == &tree) ? -1 : (node_owner.count(pp) ? node_owner[pp] : -3);
    }
    expected += (i ? " " : "") + std::to_string(o->owner ? (int)o->owner->idx : -1) + ":" + std::to_string(par) + ":" + (o->pts ? "1" : "0");
  }
  std::string bits(n * n, '0');
  for (size_t i = 0; i < n; ++i) for (size_t j = 0; j < n; ++j) {
    OutRec *a = c.outrec_list_[i], *b = c.outrec_list_[j];
    if (i != j && a->pts && b->pts && !a->is_open && !b->is_open && Path1InsidePath2(a->pts, b->pts)) bits[i * n + j] = '1';
  }
  req += " " + bits;
  expected += " | " + S(PolyTreeToPaths64(tree)) + " | " + S(topn);
  emitM(any_split ? "owners.with_splits" : "owners.no_splits", req, expected);
  // the hypotheses of the Lean theorems tree_paths_perm / checkOwners_terminates, decided on this real table:
  // Fresh, acyclic in-range owners, in-range splits, ClosedWorld (H2), non-empty bounds of cleaned rings (H1), SplitsWF
  std::string body = req.substr(7);  // after "OWNERS "
  emitS(any_split ? "owners.hyp.all.with_splits" : "owners.hyp.all.no_splits", "OWNERSHYP all " + body);
  // the stronger, simpler condition: no outrec lists itself (transitively) in splits.  It does NOT hold for every real
  // table (a live outrec can list itself after MoveSplits), so the expected answer is computed here and both outcomes are counted.
  if (any_split) {
    std::vector<std::vector<int>> succ(n);
    for (size_t i = 0; i < n; ++i) succ[i] = pre[i].splits;
    bool acyc = splits_graph_acyclic(succ);
    emitM(acyc ? "owners.hyp.splits_acyclic.holds" : "owners.hyp.splits_acyclic.violated", "OWNERSHYP splitsacyclic " + body, acyc ? "ok" : "FAIL splitsAcyclic");
  }
  // the model's Level()/IsHole() against PolyPath::Level()/IsHole() of the real nodes
  std::string lv;
  for (size_t i = 0; i < n; ++i) {
    const PolyPath* pp = c.outrec_list_[i]->polypath;
    lv += (i ? " " : "");
    lv += pp ? (std::to_string(pp->Level()) + ":" + (pp->IsHole() ? "1" : "0")) : std::string("-");
  }
  emitM("owners.levels", "OWNERSLVL " + body, lv);
  vh::stat("owners.table_size." + std::to_string(std::min<size_t>(n, 10)));
  c.CleanUp();
}

// Known finding: on this rectilinear input (it contains a 180-degree spike and a slit, i.e. zero-width features)
// PolyTree construction recurses without bound in CheckSplitOwner (the `//#942` call is not guarded by recursive_split)
// and overflows the stack.  It is executed in a child process so that the harness survives.
static void kf_checksplitowner_recursion() {
  Input k; k.gen = "kf.tree.checksplitowner_recursion"; k.cls = 0;
  k.subj = {Path64{{0, 2}, {0, 6}, {2, 6}, {2, 4}, {4, 4}, {4, 8}, {10, 8}, {10, 2}}, Path64{{16, 6}, {10, 6}, {10, 12}, {16, 12}}};
  k.clip = {Path64{{10, 8}, {6, 8}, {6, 12}, {10, 12}}, Path64{{10, 8}, {10, 6}, {8, 6}, {8, 8}, {16, 8}},
            Path64{{6, 0}, {14, 0}, {14, 10}, {6, 10}, {6, 2}, {8, 2}, {8, 8}, {12, 8}, {12, 2}, {6, 2}}};
  bool died = dies_in_child([&]() {
    Clipper64 c; c.PreserveCollinear(true);
    c.AddSubject(k.subj); c.AddClip(k.clip);
    PolyTree64 tree;
    c.Execute(ClipType::Xor, FillRule::NonZero, tree);
  });
  vh::stat(died ? "kf.recursion.child_died" : "kf.recursion.child_survived");
  if (died) emitF(k.gen, "Clipper64::Execute(Xor, NonZero, PolyTree64) does not return (stack overflow in CheckSplitOwner) for subj " + S(k.subj) + " clip " + S(k.clip));
}

// The same input, stopped before BuildTree64: the outrec table violates the well-foundedness hypothesis (SplitsWF) of the
// Lean termination theorem -- the model finds a closed walk through point-less outrecs along `splits` and checks it.
static void kf_recursion_table_violates_splitswf() {
  Paths64 subj = {Path64{{0, 2}, {0, 6}, {2, 6}, {2, 4}, {4, 4}, {4, 8}, {10, 8}, {10, 2}}, Path64{{16, 6}, {10, 6}, {10, 12}, {16, 12}}};
  Paths64 clip = {Path64{{10, 8}, {6, 8}, {6, 12}, {10, 12}}, Path64{{10, 8}, {10, 6}, {8, 6}, {8, 8}, {16, 8}},
                  Path64{{6, 0}, {14, 0}, {14, 10}, {6, 10}, {6, 2}, {8, 2}, {8, 8}, {12, 8}, {12, 2}, {6, 2}}};
  Clipper64 c; c.PreserveCollinear(true);
  c.AddSubject(subj); c.AddClip(clip);
  if (!c.ExecuteInternal(ClipType::Xor, FillRule::NonZero, true)) { c.CleanUp(); return; }
  size_t n = c.outrec_list_.size();
  std::vector<std::string> recs(n);
  for (size_t i = 0; i < n; ++i) {
    OutRec* o = c.outrec_list_[i];
    recs[i] = std::to_string(o->owner ? (int)o->owner->idx : -1) + " " + std::to_string(o->splits ? o->splits->size() : 0);
    if (o->splits) for (OutRec* s : *o->splits) recs[i] += " " + std::to_string(s->idx);
    recs[i] += std::string(" ") + (o->is_open ? "1" : "0") + " " + (o->pts ? "1" : "0");
  }
  // which rings does CheckBounds dispose?  (its first step is CleanCollinear; evaluated after the snapshot, record by record)
  std::string body = std::to_string(n);
  int disposed = 0;
  for (size_t i = 0; i < n; ++i) {
    OutRec* o = c.outrec_list_[i];
    bool disp = false;
    if (o->pts && !o->is_open) { c.CleanCollinear(o); disp = c.outrec_list_[i]->pts == nullptr; }
    disposed += disp;
    body += " " + recs[i] + (disp ? " 0" : " 1") + " 0";   // clean: disposed / not evaluated; no open path
  }
  vh::stat("kf.recursion.table.disposed_by_cleancollinear", disposed);
  body += " " + std::string(n * n, '0');
  emitM("owners.hyp.kf_recursion_violates_splitsWF", "OWNERSHYP wfcycle " + body, "FAIL splitsWF");
  c.CleanUp();
}

static void add_open(Rng& g, Input& in, int64_t extent) {
  int k = (int)g.range(1, 2);
  for (int i = 0; i < k; ++i) {
    Path64 p; int n = (int)g.range(2, 5);
    for (int j = 0; j < n; ++j) p.emplace_back(g.range(-extent, extent), g.range(-extent, extent));
    in.open_subj.push_back(p);
  }
}
static int64_t extent_of(const Input& in) {
  int64_t m = 1;
  for (const Paths64* ps : {&in.subj, &in.clip}) for (auto& p : *ps) for (auto& q : p) m = std::max({m, (int64_t)std::llabs(q.x), (int64_t)std::llabs(q.y)});
  return m;
}

static void run_input(Rng& g, Input& in, bool thorough_cfgs) {
  vh::stat("input." + in.gen);
  // open subjects make the input leave the verified classes unless they keep the general-position margin: geometry is then
  // still judged for the closed tree, because open paths never enter it; but keep the class only for closed-only inputs
  for (int ct = 1; ct <= 4; ++ct)
    for (int fr = 0; fr <= 3; ++fr) {
      int reps = thorough_cfgs ? 4 : 1;
      for (int r = 0; r < reps; ++r) {
        bool pc = thorough_cfgs ? (r & 1) : g.coin(), rev = thorough_cfgs ? (r >> 1) : g.coin();
        tree_check64(in, ct, fr, pc, rev);
        if ((ct + fr + r) % 3 == 0) owners_record(in, ct, fr, pc, rev);
        if ((ct + fr + r) % 4 == 0 && extent_of(in) < ((int64_t)1 << 40)) tree_checkD(in, ct, fr, pc, rev, (int)g.pick(std::vector<int>{0, 2, 2, 3}));
      }
    }
}

int main(int argc, char** argv) {
  Rng g(seed_from_args(argc, argv));
  bool thorough = thorough_from_args(argc, argv);
  __sanitizer_set_death_callback(on_death);
  signal(SIGABRT, on_abort);
  int n_nest = thorough ? 600 : 100, n_gp = thorough ? 1000 : 100, n_rect = thorough ? 1000 : 150, n_deg = thorough ? 600 : 60;
  Input in;
  {  // corpus
    Input k; k.gen = "corpus"; k.cls = 2;
    k.subj = {rect_path(0, 0, 100, 100), rect_path(20, 20, 80, 80), rect_path(40, 40, 60, 60)};
    run_input(g, k, true);
    k.subj = {rect_path(0, 0, 100, 100)}; k.clip = {rect_path(20, 20, 50, 50), rect_path(50, 50, 80, 80)};  // holes touching at a corner
    run_input(g, k, true);
    k.subj = {}; k.clip = {}; k.cls = 0;
    run_input(g, k, false);
    // Known findings (genuine violations of the nesting clause on simple rectilinear polygons of the even lattice that share
    // edges and corners): the ownership heuristic leaves a contour at the top level of the tree.
    auto kf_tree = [&](const char* label, int ct, int fr, bool pc, bool rev, const Paths64& subj, const Paths64& clip) {
      Input w; w.gen = label; w.cls = 2; w.subj = subj; w.clip = clip;
      set_current("PolyTree64", w, ct, fr, pc, rev);
      Paths64 closed, opn, topn; PolyTree64 tree;
      { Clipper64 c; c.PreserveCollinear(pc); c.ReverseSolution(rev); c.AddSubject(subj); c.AddClip(clip); c.Execute((ClipType)ct, (FillRule)fr, closed, opn); }
      { Clipper64 c; c.PreserveCollinear(pc); c.ReverseSolution(rev); c.AddSubject(subj); c.AddClip(clip); c.Execute((ClipType)ct, (FillRule)fr, tree, topn); }
      std::vector<std::string> nodes; ser_tree(tree, -1, nodes);
      emitS(label, "TREECHECK " + cfg(ct, fr, pc, rev, 2) + " " + S(subj) + " " + S(clip) + " 0 " + S(closed) + " " + S(opn) + " " + join(nodes) + " " + S(topn) + " " + hexd(tree.Area()));
    };
    // the island [6,8]x[6,8] lies inside the hole of the big polygon (touching it at (6,6) and (8,8)) but becomes a top-level node
    kf_tree("kf.tree.island_at_top_level", 4, 1, false, false,
            {Path64{{2, 8}, {2, 12}, {8, 12}, {8, 16}, {12, 16}, {12, 14}, {14, 14}, {14, 8}}},
            {Path64{{0, 6}, {0, 8}, {4, 8}, {4, 10}, {8, 10}, {8, 6}}, Path64{{2, 2}, {6, 2}, {6, 8}, {2, 8}},
             Path64{{12, 0}, {12, 8}, {10, 8}, {10, 2}, {8, 2}, {8, 4}, {6, 4}, {6, 6}, {0, 6}, {0, 0}}});
    // a hole (positive orientation under ReverseSolution) becomes a top-level node
    kf_tree("kf.tree.hole_at_top_level", 4, 0, false, true,
            {Path64{{4, 0}, {12, 0}, {12, 10}, {4, 10}}, Path64{{2, 2}, {2, 10}, {4, 10}, {4, 6}, {8, 6}, {8, 2}},
             Path64{{6, 2}, {10, 2}, {10, 10}, {6, 10}}, Path64{{4, 0}, {4, 2}, {8, 2}, {8, 4}, {10, 4}, {10, 6}, {12, 6}, {12, 0}}},
            {Path64{{14, 4}, {12, 4}, {12, 6}, {8, 6}, {8, 8}, {6, 8}, {6, 10}, {10, 10}, {10, 12}, {14, 12}},
             Path64{{12, 0}, {12, 8}, {6, 8}, {6, 6}, {2, 6}, {2, 2}, {0, 2}, {0, 0}}});
    // a hole strictly inside the outer polygon (touching nothing) becomes a top-level node: in ProcessHorzJoins a ring split off the outer
    // ring (owner: the outer ring) is merged INTO a ring whose tentative owner is still null, and the survivor keeps the null owner, so
    // RecursiveCheckOwners never tries the outer ring (found by the generic rectilinear stream at seed 71; correct at lattice step 1,
    // wrong at every step >= 2)
    kf_tree("kf.tree.hole_at_top_level_after_merge", 2, 1, false, false,
            {Path64{{-6, -6}, {-2, -6}, {-2, -4}, {6, -4}, {6, 2}, {-6, 2}}},
            {Path64{{6, 0}, {6, 8}, {12, 8}, {12, 0}}, Path64{{-10, 2}, {-10, 8}, {8, 8}, {8, 2}}, Path64{{-2, 2}, {-2, 4}, {-4, 4}, {-4, 2}}});
    // corpus: dense lattice rectangles in which a ring is split by one horizontal join and merged by a later one; the hole
    // (90,50)-(100,80) must be found under the big outer polygon through the splits list inherited at the merge
    {
      auto R = [](int64_t l, int64_t t, int64_t r, int64_t b) { return Path64{{l, t}, {r, t}, {r, b}, {l, b}}; };
      Paths64 subj = {R(70, 80, 100, 110), R(30, 30, 70, 90), R(70, 10, 110, 60), R(50, 50, 110, 100), Path64{{40, 130}, {70, 130}, {70, 90}, {40, 90}},
                      R(10, 30, 70, 90), R(90, 40, 100, 60), R(0, 30, 50, 90), Path64{{60, 90}, {100, 90}, {100, 40}, {60, 40}}, R(0, 100, 60, 150)};
      Paths64 clip = {Path64{{90, 90}, {150, 90}, {150, 40}, {90, 40}}, R(100, 10, 140, 60), R(70, 50, 120, 100)};
      kf_tree("corpus.tree.split_then_merged", 2, 0, false, false, subj, clip);
      kf_tree("corpus.tree.split_then_merged", 2, 0, true, false, subj, clip);
      // the same tables at model level: replay, Level/IsHole, and the hypotheses of the Lean theorems (splits inherited at a merge)
      Input w; w.gen = "corpus.tree.split_then_merged"; w.cls = 2; w.subj = subj; w.clip = clip;
      owners_record(w, 2, 0, false, false);
      owners_record(w, 2, 0, true, false);
    }
    // corpus: islands inside holes that exist only through horizontal joins/splits of the outer polygon (nested frames crossed by
    // bars, even lattice); the island must hang under the hole, not beside it (stale provisional owner / nested splits)
    {
      auto R = [](int64_t l, int64_t t, int64_t r, int64_t b) { return Path64{{l, t}, {r, t}, {r, b}, {l, b}}; };
      Paths64 s1 = {R(0, 0, 26, 26), R(2, 2, 24, 24), R(6, 6, 20, 20), R(8, 8, 18, 18), R(10, 20, 22, 12), R(6, 16, 22, 12), R(4, 24, 16, 12), R(16, 16, 22, 20)};
      Paths64 c1 = {R(0, 10, 20, 12)};
      kf_tree("corpus.tree.island_under_joined_hole", 2, 0, false, false, s1, c1);
      kf_tree("corpus.tree.island_under_joined_hole", 2, 0, true, false, s1, c1);
      Paths64 s2 = {R(0, 0, 34, 34), R(2, 2, 32, 32), R(8, 8, 22, 22), R(28, 20, 30, 28), R(12, 4, 14, 10), R(12, 28, 16, 26), R(32, 12, 34, 18)};
      Paths64 c2 = {R(4, 4, 30, 30), R(6, 6, 28, 28), R(10, 2, 14, 30), R(4, 20, 22, 18), R(8, 30, 26, 26), R(16, 24, 32, 28)};
      kf_tree("corpus.tree.nested_splits", 2, 0, false, false, s2, c2);
      kf_tree("corpus.tree.nested_splits", 2, 0, true, false, s2, c2);
    }
    kf_checksplitowner_recursion();
    kf_recursion_table_violates_splitswf();
  }
  for (int i = 0; i < n_nest; ++i) {
    gen_nested(g, in, (int)g.range(2, 8), i % 2 == 0);
    run_input(g, in, i % 8 == 0);
    gen_touching_holes(g, in);
    run_input(g, in, false);
  }
  for (int i = 0; i < n_gp; ++i) {
    if (!gen_general_position(g, in)) { vh::stat("gen.gp.gave_up"); continue; }
    if (i % 5 == 0) { add_open(g, in, 4000); in.gen = "gp+open"; }
    run_input(g, in, i % 8 == 0);
  }
  for (int i = 0; i < n_rect; ++i) {
    int64_t step = g.pick(std::vector<int64_t>{2, 2, 4, 10, 1000, (int64_t)1 << 20, (int64_t)1 << 40});
    // Simple polygons (rectangles, histogram polygons) with many shared edges and corners.  Paths that overlap themselves
    // (slits, spikes) or are given twice are excluded here: with them tree building hits the two known findings above.
    gen_rectilinear(g, in, step, true);
    if (i % 5 == 0) { add_open(g, in, 10 * step); in.gen = "rect.simple+open"; }
    run_input(g, in, i % 8 == 0);
  }
  for (int i = 0; i < n_deg; ++i) {
    gen_degenerate(g, in);
    if (in.gen == "degen.mag5" || in.gen == "degen.mag4") continue;   // PolyTree building adds bounds mid-points: keep sums in range
    run_input(g, in, false);
  }
  // Dense random polygon sets: many crossings make rounded intersection points produce micro-self-intersections, so rings are
  // split while the tree is built (CleanCollinear -> FixSelfIntersects -> DoSplitOp appends to outrec_list_ during the build).
  // Only "same paths as the Paths execution" is judged here, for both tree types, and only for inputs whose general
  // position Lean confirms (IFGP): the clause is stated for general-position inputs; on tiny-lattice degenerate inputs the
  // unchanged library itself returns different path sets from its two builders.
  {
    int n_dense = thorough ? 40000 : 3500;
    for (int i = 0; i < n_dense; ++i) {
      Paths64 subj, clip;
      int64_t ext = g.pick(std::vector<int64_t>{300, 2000, 8000, 8000, 100000});
      for (int k = (int)g.range(1, 2); k > 0; --k) subj.push_back(vh::rand_poly(g, (int)g.range(5, 12), ext));
      for (int k = (int)g.range(0, 2); k > 0; --k) clip.push_back(vh::rand_poly(g, (int)g.range(3, 10), ext));
      int ct = (int)g.range(1, 4), fr = (int)g.range(0, 3);
      bool useD = g.coin();
      vh::stat(useD ? "evaluations.dense.treeD_vs_pathsD" : "evaluations.dense.tree64_vs_paths64");
      if (useD) {
        auto toD = [&](const Paths64& ps) { PathsD r; for (auto& p : ps) { PathD q; for (auto& v : p) q.emplace_back((double)v.x, (double)v.y); r.push_back(q); } return r; };
        PathsD closed, tclosed;
        PolyTreeD tree;
        // one case in three goes through the convenience wrappers BooleanOp(..., precision) / BooleanOp(..., PolyTreeD&, precision):
        // both must work on the grid of the requested precision (the results are compared on a 2^-20 grid, finer than 10^-4)
        int prec = (int)g.range(0, 4);
        bool wrap = g.chance(33);
        double cmp_scale = 1.0;
        if (wrap) {
          closed = BooleanOp((ClipType)ct, (FillRule)fr, toD(subj), toD(clip), prec);
          BooleanOp((ClipType)ct, (FillRule)fr, toD(subj), toD(clip), tree, prec);
          cmp_scale = 1048576.0;
          vh::stat("evaluations.dense.treeD.wrapper.precision" + std::to_string(prec));
        } else {
          { ClipperD c(0); c.AddSubject(toD(subj)); c.AddClip(toD(clip)); c.Execute((ClipType)ct, (FillRule)fr, closed); }
          { ClipperD c(0); c.AddSubject(toD(subj)); c.AddClip(toD(clip)); c.Execute((ClipType)ct, (FillRule)fr, tree); }
        }
        tclosed = PolyTreeToPathsD(tree);
        Paths64 a = toInt(closed, cmp_scale), b = toInt(tclosed, cmp_scale);
        if (vh::canon_closed(a) != vh::canon_closed(b))
          emitS(wrap ? "dense.treeD.wrapper.pathsets" : "dense.treeD.pathsets", "IFGP " + S(subj) + " " + S(clip) + " 0 SAMEPATHS " + S(a) + " " + S(b));
        else vh::stat("dense.treeD.same");
      } else {
        Paths64 closed;
        { Clipper64 c; c.AddSubject(subj); c.AddClip(clip); c.Execute((ClipType)ct, (FillRule)fr, closed); }
        PolyTree64 tree;
        { Clipper64 c; c.AddSubject(subj); c.AddClip(clip); c.Execute((ClipType)ct, (FillRule)fr, tree); }
        Paths64 b = PolyTreeToPaths64(tree);
        if (vh::canon_closed(closed) != vh::canon_closed(b))
          emitS("dense.tree64.pathsets", "IFGP " + S(subj) + " " + S(clip) + " 0 SAMEPATHS " + S(closed) + " " + S(b));
        else vh::stat("dense.tree64.same");
      }
    }
  }
  flush_stats();
  return 0;
}
