// AddPaths_ correspondence (C13 / C12 / C10): the vertex array, the rings linked through Vertex::next/prev, the
// VertexFlags and the local-minima list of the *real* AddPaths_ (read through private access) against the Lean model
// (Model/AddPathsRings.lean) -- `M` records, bit for bit -- plus metamorphic records on the real code alone (`F`):
// start rotation, duplicate insertion and an explicit closing vertex leave the rotation-normalised flagged ring and
// the multiset of minima points unchanged.
#define VERIF_PRIVATE_ACCESS
#include "unity.h"
#include "common.h"
#include <set>
using namespace vh;

struct Dump {
  std::string text;                                        // canonical dump = the model's answer
  std::vector<std::vector<std::array<int64_t, 3>>> rings;  // per linked ring: (x, y, flags)
  std::vector<std::array<int64_t, 4>> minima;              // (x, y, polytype, isopen)
  std::vector<size_t> ring_base;                           // slot of each ring's first vertex
  std::vector<long long> min_slot;                         // slot of each minimum's vertex
  bool fault = false;
  std::string why;
};

// read everything AddPaths_ left behind.  `total` = sum of the path sizes = length of the array.
static Dump read_back(const std::vector<Vertex*>& vlists, const LocalMinimaList& ml, size_t total) {
  Dump d;
  std::string s = std::to_string(vlists.empty() ? 0 : total) + " " + (vlists.empty() ? "0" : "1");
  const Vertex* base = vlists.empty() ? nullptr : vlists.back();
  auto idx = [&](const Vertex* p) -> long long {
    if (!p) return -1;
    long long k = p - base;
    if (k < 0 || (size_t)k >= total) { d.fault = true; d.why = "pointer outside the array"; return -2; }
    return k;
  };
  size_t n = base ? total : 0;
  s += " S " + std::to_string(n);
  for (size_t i = 0; i < n; ++i) {
    const Vertex& v = base[i];
    s += " " + S(v.pt) + " " + std::to_string(idx(v.next)) + " " + std::to_string(idx(v.prev)) + " " + std::to_string((uint32_t)v.flags);
  }
  // rings: walk the array; a slot with next != nullptr starts a ring; after the ring an unlinked closing vertex
  // (prev set, next null) may follow; the first slot with next == nullptr and prev == nullptr ends the used part.
  std::string r;
  size_t i = 0, nr = 0;
  while (i < n && !d.fault) {
    const Vertex* v0 = base + i;
    if (!v0->next) break;
    std::vector<std::array<int64_t, 3>> ring;
    const Vertex* v = v0;
    size_t steps = 0;
    do {
      ring.push_back({v->pt.x, v->pt.y, (int64_t)(uint32_t)v->flags});
      if (!v->next || idx(v->next) < 0) { d.fault = true; d.why = "broken next link"; break; }
      if (v->next->prev != v) { d.fault = true; d.why = "next->prev != self"; break; }
      v = v->next;
      if (++steps > n) { d.fault = true; d.why = "ring does not close"; break; }
    } while (v != v0);
    if (d.fault) break;
    r += " " + std::to_string(i) + " " + std::to_string(ring.size());
    for (auto& t : ring) r += " " + S(t[0]) + " " + S(t[1]) + " " + S(t[2]);
    d.rings.push_back(ring);
    d.ring_base.push_back(i);
    ++nr;
    i += ring.size();
    if (i < n && !base[i].next && base[i].prev) ++i;   // dropped closing vertex
  }
  s += " R " + std::to_string(nr) + r;
  s += " M " + std::to_string(ml.size());
  for (auto& lm : ml) {
    long long k = idx(lm->vertex);
    s += " " + std::to_string(k) + " " + S(lm->vertex->pt) + " " + std::to_string((int)lm->polytype) + " " + (lm->is_open ? "1" : "0");
    d.minima.push_back({lm->vertex->pt.x, lm->vertex->pt.y, (int64_t)lm->polytype, lm->is_open ? 1 : 0});
    d.min_slot.push_back(k);
    if (((uint32_t)lm->vertex->flags & 8u) == 0) { d.fault = true; d.why = "minimum without LocalMin flag"; }
  }
  d.text = s;
  return d;
}

static size_t total_of(const Paths64& ps) { size_t t = 0; for (auto& p : ps) t += p.size(); return t; }

static Dump run_real(const Paths64& ps, PathType pt, bool is_open, bool via_clipper) {
  size_t total = total_of(ps);
  if (via_clipper && !(pt == PathType::Clip && is_open)) {
    Clipper64 c;
    if (is_open) c.AddOpenSubject(ps); else if (pt == PathType::Subject) c.AddSubject(ps); else c.AddClip(ps);
    return read_back(c.vertex_lists_, c.minima_list_, total);
  }
  ReuseableDataContainer64 rd;
  rd.AddPaths(ps, pt, is_open);
  return read_back(rd.vertex_lists_, rd.minima_list_, total);
}

static long long n_cases = 0;
static void model_record(const std::string& label, const Paths64& ps, PathType pt, bool is_open, bool via_clipper) {
  Dump d = run_real(ps, pt, is_open, via_clipper);
  ++n_cases;
  stat(std::string("case.") + (is_open ? "open" : "closed") + (pt == PathType::Subject ? ".subject" : ".clip"));
  stat("paths.per.call." + std::to_string(std::min<size_t>(ps.size(), 6)));
  stat("rings", (long long)d.rings.size());
  stat("minima", (long long)d.minima.size());
  std::string req = "ADDPATHS " + std::to_string((int)pt) + " " + (is_open ? "1" : "0") + " " + S(ps);
  if (d.fault) emitF(label, "structural fault reading back the real vertex array: " + d.why + " request=" + req);
  emitM(label, req, d.text);
}

// ---------- metamorphic (real code only)
typedef std::vector<std::array<int64_t, 3>> FRing;
static FRing canon_ring(const FRing& r) {
  if (r.empty()) return r;
  FRing best = r;
  for (size_t k = 1; k < r.size(); ++k) {
    FRing t(r.begin() + k, r.end());
    t.insert(t.end(), r.begin(), r.begin() + k);
    if (t < best) best = t;
  }
  return best;
}
static std::string ring_str(const FRing& r) {
  std::string s = "[";
  for (auto& t : r) s += "(" + S(t[0]) + "," + S(t[1]) + ";" + S(t[2]) + ")";
  return s + "]";
}
struct Canon { std::vector<FRing> rings; std::vector<std::array<int64_t, 4>> minima; };
// `skip2`: leave out the two-vertex rings and their minima (known finding kf.two-vertex-ring.*)
static Canon canon_of(const Dump& d, bool rotate, bool skip2 = false) {
  Canon c;
  for (auto& r : d.rings) if (!(skip2 && r.size() == 2)) c.rings.push_back(rotate ? canon_ring(r) : r);
  for (size_t j = 0; j < d.minima.size(); ++j) {
    bool in2 = false;
    for (size_t k = 0; k < d.rings.size(); ++k)
      if (d.rings[k].size() == 2 && d.min_slot[j] >= (long long)d.ring_base[k] && d.min_slot[j] < (long long)d.ring_base[k] + 2) in2 = true;
    if (!(skip2 && in2)) c.minima.push_back(d.minima[j]);
  }
  std::sort(c.minima.begin(), c.minima.end());
  return c;
}
// the point sequences of the two-vertex rings (flags dropped), rotation-normalised
static std::vector<FRing> two_rings(const Dump& d, bool rotate) {
  std::vector<FRing> out;
  for (auto r : d.rings) if (r.size() == 2) { for (auto& t : r) t[2] = 0; out.push_back(rotate ? canon_ring(r) : r); }
  return out;
}
static std::string canon_str(const Canon& c) {
  std::string s;
  for (auto& r : c.rings) s += ring_str(r);
  s += " minima:";
  for (auto& m : c.minima) s += "(" + S(m[0]) + "," + S(m[1]) + ")";
  return s;
}
// true = equal; a difference confined to the flags/minima of two-vertex closed rings is the recorded finding
// (closed paths [A,B] / [A,B,A] / [B,A,A]); it is counted, and demonstrated by the fixed kf.* records below.
static bool same_or_known(const std::string& label, const Dump& da, const Dump& db, bool rotate, bool sort_rings, std::string& why) {
  Canon ca = canon_of(da, rotate), cb = canon_of(db, rotate);
  if (sort_rings) { std::sort(ca.rings.begin(), ca.rings.end()); std::sort(cb.rings.begin(), cb.rings.end()); }
  if (ca.rings == cb.rings && ca.minima == cb.minima) return true;
  Canon fa = canon_of(da, rotate, true), fb = canon_of(db, rotate, true);
  auto ta = two_rings(da, rotate), tb = two_rings(db, rotate);
  if (sort_rings) { std::sort(fa.rings.begin(), fa.rings.end()); std::sort(fb.rings.begin(), fb.rings.end()); std::sort(ta.begin(), ta.end()); std::sort(tb.begin(), tb.end()); }
  if (fa.rings == fb.rings && fa.minima == fb.minima && ta == tb) { stat("meta.known.two-vertex-ring." + label); return true; }
  why = " realA=" + canon_str(ca) + " realB=" + canon_str(cb);
  return false;
}
static void meta(const std::string& label, const Paths64& a, const Paths64& b, bool is_open, bool rotate) {
  Dump da = run_real(a, PathType::Subject, is_open, false), db = run_real(b, PathType::Subject, is_open, false);
  stat("meta." + label);
  std::string why;
  if (!same_or_known(label, da, db, rotate, false, why))
    emitF("meta-" + label, std::string(is_open ? "open" : "closed") + " A=" + S(a) + " B=" + S(b) + why);
}

static Path64 with_dups(Rng& g, const Path64& p, int pct) {
  Path64 q;
  for (auto& v : p) { q.push_back(v); while (g.chance(pct)) q.push_back(v); }
  return q;
}
static Path64 rotated(const Path64& p, size_t k) {
  Path64 q = p;
  if (!q.empty()) std::rotate(q.begin(), q.begin() + (k % q.size()), q.end());
  return q;
}

// ---------- generators
static Path64 lattice_path(Rng& g, int n, int w, int h, int64_t scale, int64_t ox, int64_t oy) {
  Path64 p;
  for (int i = 0; i < n; ++i) p.emplace_back(ox + scale * g.range(0, w), oy + scale * g.range(0, h));
  return p;
}
// rectilinear closed walk: alternate horizontal / vertical moves, sometimes repeating a direction (collinear runs)
static Path64 staircase(Rng& g, int n, int64_t step) {
  Path64 p; int64_t x = 0, y = 0; bool horz = g.coin();
  for (int i = 0; i < n; ++i) {
    p.emplace_back(x, y);
    int64_t d = step * g.range(-3, 3);
    if (horz) x += d; else y += d;
    if (!g.chance(25)) horz = !horz;
  }
  return p;
}
// a horizontal run of k vertices placed at position `at` of a random path (wraps around the start when at+k > n)
static Path64 with_horz_run(Rng& g, Path64 p, size_t at, size_t k) {
  if (p.empty()) return p;
  int64_t y = p[at % p.size()].y;
  for (size_t j = 0; j < k; ++j) p[(at + j) % p.size()].y = y;
  (void)g;
  return p;
}
static Path64 random_path(Rng& g) {
  static const int64_t SC[] = {1, 1, 1, 3, 1000, (int64_t)1 << 30, (int64_t)1 << 59};
  int64_t sc = SC[g.next() % 7];
  int kind = (int)(g.next() % 10);
  int n = (int)g.range(0, 12);
  Path64 p;
  int64_t ox = sc == 1 ? g.range(-3, 3) : 0, oy = sc == 1 ? g.range(-3, 3) : 0;
  switch (kind) {
    case 0: p = lattice_path(g, n, 3, 1, sc, ox, oy); break;                 // two rows: many equal y
    case 1: p = lattice_path(g, n, 2, 2, sc, ox, oy); break;
    case 2: p = lattice_path(g, n, 5, 0, sc, ox, oy); break;                 // all horizontal
    case 3: p = lattice_path(g, n, 0, 5, sc, ox, oy); break;                 // all vertical
    case 4: p = staircase(g, n, std::min<int64_t>(sc, (int64_t)1 << 56)); break;
    case 5: { p = lattice_path(g, std::max(n, 3), 4, 4, sc, ox, oy); p = with_horz_run(g, p, g.next() % p.size(), 2 + g.next() % 3); break; }
    case 6: { p = lattice_path(g, std::max(n, 3), 4, 4, sc, ox, oy); size_t k = 2 + g.next() % 3; p = with_horz_run(g, p, p.size() - 1 - g.next() % k, k); break; }  // run wraps the start
    case 7: { p = lattice_path(g, std::max(n, 2), 3, 3, sc, ox, oy); Path64 q = p; for (size_t i = p.size(); i-- > 0;) q.push_back(p[i]); p = q; break; }  // spike: out and back
    case 8: { Point64 a(ox + sc * g.range(0, 2), oy + sc * g.range(0, 2)); p.assign((size_t)n, a); break; }   // all equal
    default: p = rand_poly(g, n, sc == 1 ? 4 : sc, 0, 0); break;
  }
  if (g.chance(35)) p = with_dups(g, p, 35);
  if (g.chance(25) && !p.empty()) p.push_back(p[0]);
  if (g.chance(10) && !p.empty()) { p.push_back(p[0]); p.push_back(p[0]); }
  return p;
}
static Path64 extreme_path(Rng& g) {
  const int64_t B = (int64_t)1 << 62;
  static const int64_t V[] = {-B, -B + 1, -1, 0, 1, B - 1, B, INT64_MAX, INT64_MIN};
  int n = (int)g.range(0, 8);
  Path64 p;
  for (int i = 0; i < n; ++i) p.emplace_back(V[g.next() % 9], V[g.next() % 9]);
  return p;
}

int main(int argc, char** argv) {
  Rng g(seed_from_args(argc, argv));
  bool thorough = thorough_from_args(argc, argv);
  const PathType PT[] = {PathType::Subject, PathType::Clip};

  // ---- fixed corpus of the named degenerate shapes, every (polytype, is_open), both entry points
  std::vector<Paths64> corpus = {
    {}, {{}}, {{}, {}},
    {{{1, 1}}}, {{{1, 1}, {1, 1}}}, {{{1, 1}, {1, 1}, {1, 1}}},
    {{{0, 0}, {5, 5}}}, {{{5, 5}, {0, 0}}}, {{{0, 0}, {5, 0}}}, {{{0, 0}, {5, 5}, {0, 0}}}, {{{5, 5}, {0, 0}, {5, 5}}},
    {{{0, 0}, {5, 0}, {0, 0}}}, {{{0, 0}, {0, 0}, {5, 5}, {5, 5}, {0, 0}, {0, 0}}},
    {{{0, 0}, {5, 5}, {0, 0}, {5, 5}, {0, 0}}},
    {{{0, 0}, {10, 0}, {10, 10}}}, {{{0, 0}, {10, 0}, {10, 10}, {0, 0}}}, {{{0, 0}, {10, 0}, {10, 10}, {0, 0}, {0, 0}}},
    {{{0, 0}, {10, 0}, {10, 10}, {0, 10}}}, {{{10, 10}, {0, 10}, {0, 0}, {10, 0}}}, {{{0, 10}, {0, 0}, {10, 0}, {10, 10}}},
    {{{0, 0}, {3, 0}, {6, 0}, {9, 0}}}, {{{0, 0}, {3, 0}, {6, 0}, {3, 0}}},                         // all horizontal
    {{{0, 5}, {3, 5}, {6, 5}, {6, 0}, {0, 0}}}, {{{3, 5}, {6, 5}, {6, 0}, {0, 0}, {0, 5}}},         // bottom run at / around the start
    {{{6, 5}, {6, 0}, {0, 0}, {0, 5}, {3, 5}}}, {{{0, 0}, {0, 5}, {3, 5}, {6, 5}, {6, 0}}},
    {{{0, 0}, {2, 0}, {2, 2}, {4, 2}, {4, 4}, {6, 4}, {6, 6}, {0, 6}}},                             // staircase
    {{{0, 0}, {5, 5}, {10, 0}, {5, 5}}}, {{{0, 0}, {5, 5}, {5, 5}, {10, 0}, {10, 0}, {5, 5}, {0, 0}}},  // spikes
    {{{1, 1}}, {{0, 0}, {4, 4}, {8, 0}}, {}, {{2, 2}, {2, 2}}, {{0, 9}, {4, 5}, {8, 9}}},           // single-vertex paths give their slot back
    {{{1, 1}}, {{2, 2}}, {{3, 3}}}, {{{0, 0}, {4, 4}, {8, 0}, {0, 0}}, {{7, 7}}},
    {{{0, 0}, {4, 4}, {0, 0}}, {{0, 0}, {4, 4}, {8, 0}}},
    {{{-((int64_t)1 << 62), -((int64_t)1 << 62)}, {(int64_t)1 << 62, -((int64_t)1 << 62)}, {(int64_t)1 << 62, (int64_t)1 << 62}, {-((int64_t)1 << 62), (int64_t)1 << 62}}},
    {{{INT64_MIN, INT64_MAX}, {INT64_MAX, INT64_MIN}, {0, 0}}},
  };
  for (auto& ps : corpus)
    for (int pt = 0; pt < 2; ++pt)
      for (int op = 0; op < 2; ++op)
        for (int via = 0; via < 2; ++via) {
          model_record("corpus", ps, PT[pt], op != 0, via != 0);
        }
  stat("corpus.pathsets", (long long)corpus.size());

  // ---- exhaustive: every path of 0..4 points (closed and open) on the 2x3 lattice {0,1}x{0,1,2}
  {
    std::vector<Point64> L;
    for (int x = 0; x < 2; ++x) for (int y = 0; y < 3; ++y) L.emplace_back(x, y);
    int maxlen = thorough ? 5 : 4;
    std::vector<size_t> ix;
    std::function<void(int)> rec = [&](int len) {
      if ((int)ix.size() == len) {
        Path64 p; for (auto k : ix) p.push_back(L[k]);
        // quick: a seeded third of the length-4 paths; all shorter ones
        if (!thorough && len == 4 && g.next() % 3 != 0) return;
        if (thorough && len == 5 && g.next() % 4 != 0) return;
        model_record("exhaustive", Paths64{p}, PT[g.next() % 2], false, g.coin());
        model_record("exhaustive", Paths64{p}, PT[0], true, g.coin());
        stat("exhaustive.len." + std::to_string(len));
        return;
      }
      for (size_t k = 0; k < L.size(); ++k) { ix.push_back(k); rec(len); ix.pop_back(); }
    };
    for (int len = 0; len <= maxlen; ++len) rec(len);
  }

  // ---- random calls
  int N = thorough ? 60000 : 2500;
  for (int it = 0; it < N; ++it) {
    Paths64 ps;
    int k = g.chance(30) ? 1 : (int)g.range(0, 6);
    bool extreme = g.chance(8);
    for (int j = 0; j < k; ++j) ps.push_back(extreme ? extreme_path(g) : random_path(g));
    model_record(extreme ? "extreme" : "random", ps, PT[g.next() % 2], g.chance(40), g.coin());
  }

  // ---- metamorphic records on the real code alone
  int NM = thorough ? 40000 : 2500;
  for (int it = 0; it < NM; ++it) {
    Paths64 ps;
    int k = (int)g.range(1, 3);
    for (int j = 0; j < k; ++j) ps.push_back(random_path(g));
    // duplicate insertion: closed and open (rings compared position by position for open paths)
    {
      Paths64 qs = ps; for (auto& p : qs) p = with_dups(g, p, 30);
      meta("dup", ps, qs, false, false);
      meta("dup-open", ps, qs, true, false);
    }
    // explicit closing vertex, start rotation: closed paths
    {
      Paths64 qs = ps; for (auto& p : qs) if (!p.empty() && g.chance(70)) p.push_back(p[0]);
      meta("closing", ps, qs, false, false);
    }
    {
      Paths64 qs = ps; for (auto& p : qs) p = rotated(p, g.next());
      meta("rotate", ps, qs, false, true);
    }
    // path order: the multiset of rings and the multiset of minima
    {
      Paths64 qs = ps; std::reverse(qs.begin(), qs.end());
      Dump da = run_real(ps, PathType::Subject, false, false), db = run_real(qs, PathType::Subject, false, false);
      stat("meta.order");
      std::string why;
      if (!same_or_known("order", da, db, false, true, why)) emitF("meta-order", "A=" + S(ps) + " B=" + S(qs) + why);
    }
  }

  // ---- observation (NOT a finding: a two-vertex closed path is degenerate, i.e. outside C13's general-position quantifier,
  // and no listed property is violated by it): a closed path of two distinct vertices is treated differently depending on
  // how it is written: [A,B] and [B,A,A] get no minima (cnt == 2), [A,B,A] gets a minimum and a maximum (cnt == 3 counts the
  // dropped closing vertex), and then takes part in the sweep.  Fixed records; they disappear when the code treats them alike.
  {
    Paths64 a{{{0, 0}, {5, 5}}}, b{{{0, 0}, {5, 5}, {0, 0}}}, c{{{5, 5}, {0, 0}, {0, 0}}};
    Dump da = run_real(a, PathType::Subject, false, false), db = run_real(b, PathType::Subject, false, false), dc = run_real(c, PathType::Subject, false, false);
    if (da.minima != db.minima || dc.minima != db.minima)
      stat("obs.two-vertex-ring.minima_differ_by_spelling");
    Paths64 tri{{{1, 6}, {2, 3}, {6, 4}}};
    Paths64 s1 = tri, s2 = tri;
    s1.push_back(Path64{{6, 0}, {3, 6}});
    s2.push_back(Path64{{6, 0}, {3, 6}, {6, 0}});
    Paths64 r1, r2;
    { Clipper64 cl; cl.AddSubject(s1); cl.Execute(ClipType::Union, FillRule::Positive, r1); }
    { Clipper64 cl; cl.AddSubject(s2); cl.Execute(ClipType::Union, FillRule::Positive, r2); }
    if (canon_closed(r1) != canon_closed(r2))
      stat("obs.two-vertex-ring.execute_differs_by_spelling");
  }
  stat("cases", n_cases);
  flush_stats();
  return 0;
}
