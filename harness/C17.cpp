// C17 harness: the C export layer (clipper.export.h) against (a) the Lean marshalling model, cell by cell,
// and (b) the corresponding direct C++ calls, for every exported function over a spread of argument combinations.
// Also the export clause of C11: out-of-range clip type / fill rule / precision are rejected with -4 / -3 / -5
// (nullptr for the pointer-returning functions) without touching the output pointers.
// Built twice by ./check: without and with -DUSINGZ (3 cells per vertex).
#include "common.h"
#include "clipper2/clipper.export.h"
#include "clipper.engine.cpp"
#include "clipper.offset.cpp"
#include "clipper.rectclip.cpp"
#include <sanitizer/common_interface_defs.h>
using namespace vh;

// what the harness is doing right now; printed when a sanitizer aborts the run (./check reads `VERIF-CURRENT:`)
static std::string g_current;
static void on_death() { fprintf(stderr, "VERIF-CURRENT: %s\n", g_current.c_str()); fflush(stderr); }
#define CUR(s) (g_current = (s))

// The unchanged tree has two forwarding defects in the four Inflate* exports (DESIGN.md §9 items 1, 2):
// `reverse_solution` lands in ClipperOffset's `preserve_collinear` slot, and InflatePath(s)D do not scale
// `arc_tolerance`.  They are reported once each, on a fixed input, under the labels kf.export-inflate-reverse-solution
// and kf.export-inflateD-arc-tolerance.  While this switch is true the *generic* generator does not vary exactly
// these two argument dimensions on Inflate* (so everything else stays visible); set it to false once the fixes are in.
static const bool KNOWN_INFLATE_DEFECTS_PRESENT = false;  // repaired by fix: commits da9c53b and 911fe8d in /repo

constexpr int DIM = EXPORT_VERTEX_DIMENSIONALITY;
#ifdef USINGZ
#define ZARG(z) , (z)
static int64_t zof(const Point64& p) { return p.z; }
static int64_t zof(const PointD& p) { return p.z; }
#else
#define ZARG(z)
static int64_t zof(const Point64&) { return 0; }
static int64_t zof(const PointD&) { return 0; }
#endif

static std::string I(int64_t v) { return std::to_string(v); }
static std::string hx(double d) { return "h" + hexd(d); }
static std::string hz(int64_t z) { char b[24]; snprintf(b, sizeof b, "h%016llx", (unsigned long long)z); return b; }

// ---- protocol rendering: a vertex is DIM cells
static std::string vp(const Path64& p) {
  std::string s = I((int64_t)p.size());
  for (auto& q : p) { s += ' ' + I(q.x) + ' ' + I(q.y); if (DIM == 3) s += ' ' + I(zof(q)); }
  return s;
}
static std::string vps(const Paths64& ps) {
  std::string s = I((int64_t)ps.size());
  for (auto& p : ps) s += ' ' + vp(p);
  return s;
}
// doubles as bit patterns (z: raw bits, as the export layer copies it)
static std::string vpD(const PathD& p) {
  std::string s = I((int64_t)p.size());
  for (auto& q : p) { s += ' ' + hx(q.x) + ' ' + hx(q.y); if (DIM == 3) s += ' ' + hz(zof(q)); }
  return s;
}
static std::string vpsD(const PathsD& ps) {
  std::string s = I((int64_t)ps.size());
  for (auto& p : ps) s += ' ' + vpD(p);
  return s;
}
// PathsD whose every coordinate is integral, printed as integers; z printed as the integer whose double bit pattern it is
static int64_t dbl_as_int(double d, bool& ok) {
  if (!(std::fabs(d) < 9e15) || d != std::floor(d)) { ok = false; return 0; }
  return (int64_t)d;
}
static int64_t zbits_as_int(int64_t z, bool& ok) { double d; memcpy(&d, &z, 8); return dbl_as_int(d, ok); }
static std::string vpsDint(const PathsD& ps, bool& ok) {
  std::string s = I((int64_t)ps.size());
  for (auto& p : ps) {
    s += ' ' + I((int64_t)p.size());
    for (auto& q : p) {
      s += ' ' + I(dbl_as_int(q.x, ok)) + ' ' + I(dbl_as_int(q.y, ok));
      if (DIM == 3) s += ' ' + I(zbits_as_int(zof(q), ok));
    }
  }
  return s;
}

static const int64_t MAXCELLS = 4000000;
static std::string cells64(const int64_t* a) {
  if (!a) return "null";
  int64_t n = a[0];
  if (n < 2 || n > MAXCELLS) { emitF("export.header", "array header A=" + I(n) + " is not a plausible length"); return "0"; }
  std::string s = I(n);
  for (int64_t i = 0; i < n; ++i) s += ' ' + I(a[i]);   // ASan: reading below the stated length must be inside the block
  return s;
}
static std::string cellsD(const double* a) {
  if (!a) return "null";
  bool ok = true; int64_t n = dbl_as_int(a[0], ok);
  if (!ok || n < 2 || n > MAXCELLS) { emitF("export.header", "double array header A=" + hx(a[0]) + " is not a plausible length"); return "0"; }
  std::string s = I(n);
  for (int64_t i = 0; i < n; ++i) s += ' ' + hx(a[i]);
  return s;
}
static std::string cellsDint(const double* a, bool& ok) {
  if (!a) return "null";
  int64_t n = dbl_as_int(a[0], ok);
  if (!ok || n < 2 || n > MAXCELLS) { ok = false; return "0"; }
  std::string s = I(n);
  for (int64_t i = 0; i < n; ++i) s += ' ' + I(dbl_as_int(a[i], ok));
  return s;
}

static std::string tree_str(const PolyPath64& pp) {
  std::string s = vp(pp.Polygon()) + ' ' + I((int64_t)pp.Count());
  for (size_t i = 0; i < pp.Count(); ++i) s += ' ' + tree_str(*pp.Child(i));
  return s;
}
static std::string tree_strD(const PolyPathD& pp) {
  std::string s = vpD(pp.Polygon()) + ' ' + I((int64_t)pp.Count());
  for (size_t i = 0; i < pp.Count(); ++i) s += ' ' + tree_strD(*pp.Child(i));
  return s;
}

// ---- client-side marshalling written here (independent of the library's writers): exact-size blocks so that
// ASan sees any read past the stated length
template <class T, class PathsT> static T* mk_cpaths(const PathsT& ps, bool keep_empty) {
  size_t len = 2, cnt = 0;
  for (auto& p : ps) if (keep_empty || !p.empty()) { len += 2 + p.size() * DIM; ++cnt; }
  T* a = new T[len]; size_t k = 0;
  a[k++] = (T)len; a[k++] = (T)cnt;
  for (auto& p : ps) {
    if (!keep_empty && p.empty()) continue;
    a[k++] = (T)p.size(); a[k++] = 0;
    for (auto& q : p) {
      a[k++] = (T)q.x; a[k++] = (T)q.y;
      if (DIM == 3) { int64_t z = zof(q); T c; memcpy(&c, &z, 8); a[k++] = c; }
    }
  }
  return a;
}
template <class T, class PathT> static T* mk_cpath(const PathT& p) {
  T* a = new T[2 + p.size() * DIM]; size_t k = 0;
  a[k++] = (T)p.size(); a[k++] = 0;
  for (auto& q : p) {
    a[k++] = (T)q.x; a[k++] = (T)q.y;
    if (DIM == 3) { int64_t z = zof(q); T c; memcpy(&c, &z, 8); a[k++] = c; }
  }
  return a;
}
static std::string cpath_cells64(const int64_t* a, size_t n) {  // single CPath: length known to the caller only
  std::string s = I((int64_t)n);
  for (size_t i = 0; i < n; ++i) s += ' ' + I(a[i]);
  return s;
}

// client-side readers (independent of the library's readers); report a layout violation instead of running away
static bool rd_cpaths64(const int64_t* a, Paths64& out) {
  out.clear();
  if (!a) return true;
  int64_t A = a[0], C = a[1], k = 2;
  if (A < 2 || C < 0) return false;
  for (int64_t i = 0; i < C; ++i) {
    if (k + 2 > A) return false;
    int64_t n = a[k]; if (n < 0 || a[k + 1] != 0) return false;
    k += 2;
    if (k + n * DIM > A) return false;
    Path64 p;
    for (int64_t j = 0; j < n; ++j) { p.emplace_back(a[k], a[k + 1] ZARG(a[k + 2])); k += DIM; }
    out.push_back(p);
  }
  return k == A;
}
static bool rd_cpathsD(const double* a, PathsD& out) {
  out.clear();
  if (!a) return true;
  int64_t A = (int64_t)a[0], C = (int64_t)a[1], k = 2;
  if (A < 2 || C < 0) return false;
  for (int64_t i = 0; i < C; ++i) {
    if (k + 2 > A) return false;
    int64_t n = (int64_t)a[k]; if (n < 0 || a[k + 1] != 0) return false;
    k += 2;
    if (k + n * DIM > A) return false;
    PathD p;
    for (int64_t j = 0; j < n; ++j) {
#ifdef USINGZ
      int64_t z; memcpy(&z, &a[k + 2], 8);
      p.emplace_back(a[k], a[k + 1], z);
#else
      p.emplace_back(a[k], a[k + 1]);
#endif
      k += DIM;
    }
    out.push_back(p);
  }
  return k == A;
}

template <class P> static bool same_pt(const P& a, const P& b) {
  return memcmp(&a.x, &b.x, sizeof a.x) == 0 && memcmp(&a.y, &b.y, sizeof a.y) == 0 && zof(a) == zof(b);
}
template <class PS> static PS drop_empty(const PS& ps) { PS r; for (auto& p : ps) if (!p.empty()) r.push_back(p); return r; }
template <class PS> static bool same_paths(const PS& a0, const PS& b0) {
  PS a = drop_empty(a0), b = drop_empty(b0);
  if (a.size() != b.size()) return false;
  for (size_t i = 0; i < a.size(); ++i) {
    if (a[i].size() != b[i].size()) return false;
    for (size_t j = 0; j < a[i].size(); ++j) if (!same_pt(a[i][j], b[i][j])) return false;
  }
  return true;
}

// ---- generators
static int64_t rnd_z(Rng& g) { return g.chance(30) ? 0 : g.range(-1000, 1000); }
static Path64 with_z(Rng& g, Path64 p) {
#ifdef USINGZ
  for (auto& q : p) q.z = rnd_z(g);
#endif
  (void)g;
  return p;
}
// rectangle with extra collinear vertices on its edges (so that preserve_collinear matters)
static Path64 rect_collinear(Rng& g, int64_t l, int64_t t, int64_t r, int64_t b) {
  Path64 p;
  auto seg = [&](int64_t x0, int64_t y0, int64_t x1, int64_t y1) {
    p.emplace_back(x0, y0);
    int k = (int)g.range(0, 2);
    for (int i = 1; i <= k; ++i) p.emplace_back(x0 + (x1 - x0) * i / (k + 1), y0 + (y1 - y0) * i / (k + 1));
  };
  seg(l, t, r, t); seg(r, t, r, b); seg(r, b, l, b); seg(l, b, l, t);
  if (g.coin()) std::reverse(p.begin(), p.end());
  return p;
}
static Path64 gen_closed(Rng& g, int64_t R) {
  switch (g.next() % 6) {
    case 0: case 1: {
      int64_t l = g.range(-R, R / 2), t = g.range(-R, R / 2);
      return with_z(g, rect_collinear(g, l, t, l + g.range(R / 8 + 1, R), t + g.range(R / 8 + 1, R)));
    }
    case 2: return with_z(g, star_poly(g, (int)g.range(3, 9), R / 4 + 1, R, g.range(-R / 2, R / 2), g.range(-R / 2, R / 2)));
    case 3: return with_z(g, rand_poly(g, (int)g.range(3, 7), R));
    case 4: return with_z(g, rand_poly(g, (int)g.range(0, 2), R));   // empty, single point, two points
    default: {
      int64_t l = g.range(-R, 0), t = g.range(-R, 0);
      return with_z(g, rect_path(l, t, l + g.range(1, R), t + g.range(1, R)));
    }
  }
}
static Path64 gen_open(Rng& g, int64_t R) {
  int n = g.chance(15) ? (int)g.range(0, 1) : (int)g.range(2, 6);
  return with_z(g, rand_poly(g, n, R));
}
static Paths64 gen_set(Rng& g, int64_t R, bool open, int maxk) {
  Paths64 ps;
  int k = (int)g.range(0, maxk);
  for (int i = 0; i < k; ++i) ps.push_back(open ? gen_open(g, R) : gen_closed(g, R));
  return ps;
}
static bool has_empty(const Paths64& ps) { for (auto& p : ps) if (p.empty()) return true; return false; }
// PathsD = integers / 10^dec  (dec <= 0: integers times 10^-dec, so that rounding to the precision keeps a shape)
static PathsD to_D(const Paths64& ps, int dec) {
  double f = std::pow(10.0, -dec);
  PathsD r;
  for (auto& p : ps) {
    PathD q;
    for (auto& v : p) q.emplace_back((double)v.x * f, (double)v.y * f ZARG(zof(v)));
    r.push_back(q);
  }
  return r;
}
// Moves some coordinates onto exact rounding ties of the precision: v = odd / 2^(prec+1) gives v * 10^prec = odd * 5^prec / 2,
// an exact half-integer in double arithmetic.  The exported function and the C++ call receive the same doubles; they must
// round them the same way (both go through Point64's std::round-based constructor).
static void add_ties(Rng& g, PathsD& pd, int prec) {
  if (prec < 0 || prec > 8 || !g.chance(40)) return;
  const double den = std::ldexp(1.0, prec + 1);
  bool any = false;
  for (auto& p : pd)
    for (auto& q : p) {
      if (g.chance(40)) { q.x = (double)(2 * g.range(-40, 40) + 1) / den + std::floor(q.x); any = true; }
      if (g.chance(40)) { q.y = (double)(2 * g.range(-40, 40) + 1) / den + std::floor(q.y); any = true; }
    }
  if (any) stat("gen.D.inputs_with_rounding_ties");
}
static void shape_stats(const char* what, const Paths64& ps) {
  stat(std::string("gen.") + what + ".sets");
  if (ps.empty()) stat(std::string("gen.") + what + ".empty_list");
  for (auto& p : ps) {
    stat(std::string("gen.") + what + ".paths");
    if (p.size() <= 2) stat(std::string("gen.") + what + ".paths_" + std::to_string(p.size()) + "pt");
  }
}

// ================================================================================================ model level
static void model_level(Rng& g, int N) {
  const std::string D = I(DIM);
  for (int it = 0; it < N; ++it) {
    int64_t R = g.pick(std::vector<int64_t>{10, 1000, 1000000, (int64_t)1 << 40, INT64_MAX / 2});
    Paths64 ps;
    int k = (int)g.range(0, 6);
    for (int i = 0; i < k; ++i) ps.push_back(with_z(g, rand_poly(g, (int)g.pick(std::vector<int>{0, 0, 1, 1, 2, 3, 4, 7, 12}), R)));
    if (it == 0) ps.clear();
    if (it == 1) ps = Paths64{Path64{}};
    if (it == 2) ps = Paths64{Path64{}, Path64{}, Path64{}};
    shape_stats("model", ps);
    CUR("marshalling round trip of paths=" + vps(ps));
    // CreateCPathsFromPathsT<int64_t>
    int64_t* a = CreateCPathsFromPathsT<int64_t>(ps);
    std::string arr = cells64(a);
    emitM("create64.model", "CREATE " + D + " " + vps(ps), arr);
    emitM("create64.written", "CREATEPOS " + D + " " + vps(ps), I(a[0]) + " " + I(a[0]));
    // ConvertCPathsToPathsT<int64_t> on the library's own array and on a client-made one (with [0,0] entries kept)
    Paths64 back = ConvertCPathsToPathsT<int64_t>(a);
    emitM("convert64.model", "CONVERT " + D + " " + arr, vps(back));
    emitM("convert64.cells_read", "CONVERTPOS " + D + " " + arr, I(a[0]));
    if (!same_paths(back, ps) || back.size() != drop_empty(ps).size()) emitF("export.roundtrip64", "ConvertCPathsToPathsT(CreateCPathsFromPathsT(ps)) != non-empty paths of ps for ps=" + vps(ps));
    DisposeArray64(a);
    int64_t* c = mk_cpaths<int64_t>(ps, true);
    Paths64 back2 = ConvertCPathsToPathsT<int64_t>(c);
    emitM("convert64.model.client_array", "CONVERT " + D + " " + cells64(c), vps(back2));
    delete[] c;
    emitM("convert64.model.null", "CONVERT " + D + " null", vps(ConvertCPathsToPathsT<int64_t>((int64_t*)nullptr)));
    // ConvertCPathToPathT (single CPath)
    {
      Path64 p = ps.empty() ? Path64{} : ps[g.next() % ps.size()];
      int64_t* cp = mk_cpath<int64_t>(p);
      Path64 r = ConvertCPathToPathT<int64_t>(cp);
      emitM("convert64.path.model", "CONVERT1 " + D + " " + cpath_cells64(cp, 2 + p.size() * DIM), vp(r));
      delete[] cp;
    }
    // the double writers / readers on integral values (small enough to be exact doubles)
    if (R <= 1000000) {
      int64_t kk = g.pick(std::vector<int64_t>{1, 1, 2, 10, 100, -3});
      Paths64 psz = ps;
#ifdef USINGZ
      // z cells travel as raw bits; choose z = bits of an integral double so that every cell of the double array is integral
      for (auto& p : psz) for (auto& q : p) { double d = (double)g.range(-50, 50); memcpy(&q.z, &d, 8); }
#endif
      PathsD pd = to_D(psz, 0);
      bool ok = true;
      std::string req = vpsDint(pd, ok);
      double* d1 = CreateCPathsDFromPathsD(pd);
      std::string e1 = cellsDint(d1, ok);
      if (ok) emitM("createD.model", "CREATED " + D + " " + req, e1); else emitF("export.createD.nonintegral", "integral PathsD gave a non-integral cell: " + vpsD(pd));
      {  // ConvertCPathsToPathsT<double>
        PathsD bd = ConvertCPathsToPathsT<double>(d1);
        bool ok2 = true; std::string bs = vpsDint(bd, ok2);
        if (ok2) emitM("convertD.model", "CONVERT " + D + " " + e1, bs);
      }
      // CreateCPathsDFromPaths64(paths, k)
      double* d2 = CreateCPathsDFromPaths64(psz, (double)kk);
      ok = true;
      std::string e2 = cellsDint(d2, ok);
      // request: z cells as the integers whose double bits they are
      std::string req2 = vpsDint(to_D(psz, 0), ok);
      if (ok) emitM("createDfrom64.model", "CREATED64 " + D + " " + I(kk) + " " + req2, e2);
      // ConvertCPathsDToPaths64(arr, k): on d1
      {
        Paths64 b64 = ConvertCPathsDToPaths64(d1, (double)kk);
        Paths64 shown = b64;
        bool ok3 = true;
#ifdef USINGZ
        for (auto& p : shown) for (auto& q : p) q.z = zbits_as_int(q.z, ok3);
#endif
        if (ok3) emitM("convertDto64.model", "CONVERTD64 " + D + " " + I(kk) + " " + e1, vps(shown));
      }
      // ConvertCPathDToPath64WithScale on a single path
      {
        PathD p = pd.empty() ? PathD{} : pd[g.next() % pd.size()];
        double* cp = mk_cpath<double>(p);
        Path64 r = ConvertCPathDToPath64WithScale(cp, (double)kk);
        bool ok4 = true;
        std::string cs = I((int64_t)(2 + p.size() * DIM));
        for (size_t i = 0; i < 2 + p.size() * DIM; ++i) cs += ' ' + I(dbl_as_int(cp[i], ok4));
#ifdef USINGZ
        for (auto& q : r) q.z = zbits_as_int(q.z, ok4);
#endif
        if (ok4) emitM("convertDto64.path.model", "CONVERTD1 " + D + " " + I(kk) + " " + cs, vp(r));
        delete[] cp;
      }
      DisposeArrayD(d1); DisposeArrayD(d2);
    }
  }
  // polytrees built directly (arbitrary shapes, empty polygons included)
  for (int it = 0; it < N / 2 + 3; ++it) {
    PolyTree64 t;
    std::function<void(PolyPath64*, int)> grow = [&](PolyPath64* pp, int depth) {
      int kids = depth >= 4 ? 0 : (int)g.range(0, depth == 0 ? 3 : 2);
      if (it == 0) kids = 0;
      for (int i = 0; i < kids; ++i) {
        PolyPath64* c = pp->AddChild(with_z(g, rand_poly(g, (int)g.pick(std::vector<int>{0, 1, 3, 4, 5}), 1000)));
        grow(c, depth + 1);
      }
    };
    grow(&t, 0);
    stat("gen.tree.trees"); if (t.Count() == 0) stat("gen.tree.empty");
    CUR("CreateCPolyTree64 of tree=" + tree_str(t));
    int64_t* a = CreateCPolyTree64(t);
    std::string arr = cells64(a);
    emitM("tree64.model", "TREE " + D + " " + tree_str(t), arr);
    emitM("tree64.reader", "TREEREAD " + D + " " + arr, tree_str(t));
    if (a) DisposeArray64(a);
  }
}

// ================================================================================================ spec level
static int64_t* in64(Rng& g, const Paths64& ps) {
  if (ps.empty() && g.coin()) return nullptr;
  return mk_cpaths<int64_t>(ps, g.coin());
}
static double* inD(Rng& g, const PathsD& ps) {
  if (ps.empty() && g.coin()) return nullptr;
  return mk_cpaths<double>(ps, g.coin());
}

struct BoolArgs { int ct, fr; bool pc, rs; int prec; };
static std::string S(const BoolArgs& a) { return "ct=" + I(a.ct) + " fr=" + I(a.fr) + " pc=" + I(a.pc) + " rs=" + I(a.rs) + " prec=" + I(a.prec); }

static void native_bool64(const BoolArgs& a, const Paths64& s, const Paths64& so, const Paths64& c, Paths64& sol, Paths64& solo, PolyTree64* tree) {
  Clipper64 cl;
  cl.PreserveCollinear(a.pc); cl.ReverseSolution(a.rs);
  cl.AddSubject(s); cl.AddOpenSubject(so); cl.AddClip(c);
  if (tree) cl.Execute(ClipType(a.ct), FillRule(a.fr), *tree, solo); else cl.Execute(ClipType(a.ct), FillRule(a.fr), sol, solo);
}
static void native_boolD(const BoolArgs& a, const PathsD& s, const PathsD& so, const PathsD& c, PathsD& sol, PathsD& solo, PolyTreeD* tree) {
  ClipperD cl(a.prec);
  cl.PreserveCollinear(a.pc); cl.ReverseSolution(a.rs);
  cl.AddSubject(s); cl.AddOpenSubject(so); cl.AddClip(c);
  if (tree) cl.Execute(ClipType(a.ct), FillRule(a.fr), *tree, solo); else cl.Execute(ClipType(a.ct), FillRule(a.fr), sol, solo);
}
// which single argument, changed, reproduces what the exported function returned?
static std::string blame_bool64(const BoolArgs& a, const Paths64& s, const Paths64& so, const Paths64& c, const Paths64& got, const Paths64& goto_) {
  for (int d = 0; d < 4; ++d) {
    int lim = d == 0 ? 5 : d == 1 ? 4 : 2;
    for (int v = 0; v < lim; ++v) {
      BoolArgs b = a;
      if (d == 0) b.ct = v; else if (d == 1) b.fr = v; else if (d == 2) b.pc = v; else b.rs = v;
      Paths64 sol, solo; native_bool64(b, s, so, c, sol, solo, nullptr);
      if (same_paths(sol, got) && same_paths(solo, goto_)) return d == 0 ? "cliptype" : d == 1 ? "fillrule" : d == 2 ? "preserve_collinear" : "reverse_solution";
    }
  }
  BoolArgs b = a; std::swap(b.pc, b.rs);
  Paths64 sol, solo; native_bool64(b, s, so, c, sol, solo, nullptr);
  if (same_paths(sol, got) && same_paths(solo, goto_)) return "preserve_collinear-reverse_solution-swapped";
  return "result";
}
static void flatten_tree(const PolyPath64& pp, Paths64& out) { for (size_t i = 0; i < pp.Count(); ++i) { out.push_back(pp.Child(i)->Polygon()); flatten_tree(*pp.Child(i), out); } }

static void spec_boolean(Rng& g, int rounds) {
  const std::string D = I(DIM);
  for (int r = 0; r < rounds; ++r) {
    int64_t R = g.pick(std::vector<int64_t>{20, 1000, 100000});
    Paths64 s = gen_set(g, R, false, 3), so = gen_set(g, R, true, 2), c = gen_set(g, R, false, 2);
    if (r == 0) { s.clear(); so.clear(); c.clear(); }
    shape_stats("bool.subject", s); shape_stats("bool.open", so); shape_stats("bool.clip", c);
    std::string inp = "subjects=" + vps(s) + " open=" + vps(so) + " clips=" + vps(c);
    for (int ct = 0; ct <= 4; ++ct) for (int fr = 0; fr <= 3; ++fr) {
      // all four (pc, rs) combinations on a rotating subset, so that every (ct, fr) sees each of them over the rounds
      for (int m = 0; m < 4; ++m) {
        if (((r + ct + fr + m) & 1) && rounds > 1) continue;
        BoolArgs a{ct, fr, (m & 1) != 0, (m & 2) != 0, 0};
        CUR("BooleanOp64/BooleanOp_PolyTree64 " + S(a) + " " + inp);
        // ---- BooleanOp64
        {
          int64_t *cs = in64(g, s), *cso = in64(g, so), *cc = in64(g, c);
          // the out-parameters arrive holding a stale value half of the time (a caller re-using its variables): an accepted
          // call must rewrite both
          static int64_t stale64[4] = {4, 0, 0, 0};
          bool stale = g.coin();
          int64_t *sol = stale ? stale64 : nullptr, *solo = stale ? stale64 : nullptr;
          int rc = BooleanOp64((uint8_t)ct, (uint8_t)fr, cs, cso, cc, sol, solo, a.pc, a.rs);
          stat("calls.BooleanOp64");
          if (stale) stat("calls.BooleanOp64.stale_out_parameters");
          if (rc == 0 && (sol == stale64 || solo == stale64)) {
            emitF("export.BooleanOp64.out_parameter_not_rewritten", std::string(sol == stale64 ? "solution " : "") + (solo == stale64 ? "solution_open " : "") + "still holds the caller's old value after an accepted call: " + S(a) + " " + inp);
            if (sol == stale64) sol = nullptr; if (solo == stale64) solo = nullptr;
          }
          if (rc != 0) { if (sol == stale64) sol = nullptr; if (solo == stale64) solo = nullptr; }
          Paths64 nsol, nsolo; native_bool64(a, s, so, c, nsol, nsolo, nullptr);
          if (rc != 0) emitF("export.BooleanOp64.returncode", "returned " + I(rc) + " for " + S(a) + " " + inp);
          else {
            Paths64 got, goto_;
            bool okl = rd_cpaths64(sol, got) & rd_cpaths64(solo, goto_);
            if (!okl) emitF("export.BooleanOp64.layout", "returned array violates the CPaths layout for " + S(a) + " " + inp);
            else if (!same_paths(got, nsol) || !same_paths(goto_, nsolo))
              emitF("export.BooleanOp64." + blame_bool64(a, s, so, c, got, goto_), "differs from Clipper64 with the same arguments: " + S(a) + " " + inp + " export=" + vps(got) + "|" + vps(goto_) + " native=" + vps(nsol) + "|" + vps(nsolo));
            emitS("export.BooleanOp64.closed", "EXP64 " + D + " " + cells64(sol) + " " + vps(nsol));
            emitS("export.BooleanOp64.open", "EXP64 " + D + " " + cells64(solo) + " " + vps(nsolo));
            if (!nsol.empty()) stat("nonempty.BooleanOp64");
          }
          DisposeArray64(sol); DisposeArray64(solo);
          delete[] cs; delete[] cso; delete[] cc;
        }
        // ---- BooleanOp_PolyTree64
        {
          int64_t *cs = in64(g, s), *cso = in64(g, so), *cc = in64(g, c);
          int64_t *tr = nullptr, *solo = nullptr;
          int rc = BooleanOp_PolyTree64((uint8_t)ct, (uint8_t)fr, cs, cso, cc, tr, solo, a.pc, a.rs);
          stat("calls.BooleanOp_PolyTree64");
          PolyTree64 nt; Paths64 dummy, nsolo; native_bool64(a, s, so, c, dummy, nsolo, &nt);
          if (rc != 0) emitF("export.BooleanOp_PolyTree64.returncode", "returned " + I(rc) + " for " + S(a) + " " + inp);
          else {
            emitS("export.BooleanOp_PolyTree64.tree", "EXPTREE64 " + D + " " + cells64(tr) + " " + tree_str(nt));
            emitS("export.BooleanOp_PolyTree64.open", "EXP64 " + D + " " + cells64(solo) + " " + vps(nsolo));
            // also in C++: the tree array is the library writer applied to the native tree
            int64_t* want = CreateCPolyTree64(nt);
            bool same = (!want && !tr) || (want && tr && want[0] == tr[0] && memcmp(want, tr, (size_t)want[0] * 8) == 0);
            if (!same) {
              // blame through the flattened polygons
              std::string bl = "result";
              for (int d = 2; d < 4 && bl == "result"; ++d) { BoolArgs b = a; if (d == 2) b.pc = !b.pc; else b.rs = !b.rs; PolyTree64 t2; Paths64 x, y; native_bool64(b, s, so, c, x, y, &t2); int64_t* w2 = CreateCPolyTree64(t2); if ((!w2 && !tr) || (w2 && tr && w2[0] == tr[0] && memcmp(w2, tr, (size_t)w2[0] * 8) == 0)) bl = d == 2 ? "preserve_collinear" : "reverse_solution"; if (w2) DisposeArray64(w2); }
              emitF("export.BooleanOp_PolyTree64." + bl, "tree differs from Clipper64 with the same arguments: " + S(a) + " " + inp);
            }
            Paths64 goto_; if (!rd_cpaths64(solo, goto_) || !same_paths(goto_, nsolo)) emitF("export.BooleanOp_PolyTree64.open", "open solution differs: " + S(a) + " " + inp);
            if (want) DisposeArray64(want);
            if (nt.Count()) stat("nonempty.BooleanOp_PolyTree64");
          }
          DisposeArray64(tr); DisposeArray64(solo);
          delete[] cs; delete[] cso; delete[] cc;
        }
      }
    }
    // ---- the double variants: one (ct, fr, pc, rs) per precision per round, rotating
    static const int precs[] = {-8, -3, -1, 0, 1, 2, 3, 5, 8};
    for (int prec : precs) {
      int dec = prec < 0 ? prec : std::min(prec, 3);            // inputs carry up to 3 decimals
      if (prec == 8 || prec == 5) dec = 3;
      PathsD sd = to_D(s, dec), sod = to_D(so, dec), cd = to_D(c, dec);
      for (int rep = 0; rep < 3; ++rep) {
        BoolArgs a{(int)g.range(rep == 0 ? 1 : 0, 4), (int)g.range(0, 3), g.coin(), g.coin(), prec};
        CUR("BooleanOpD/BooleanOp_PolyTreeD " + S(a) + " subjects=" + vpsD(sd) + " open=" + vpsD(sod) + " clips=" + vpsD(cd));
        {
          double *cs = inD(g, sd), *cso = inD(g, sod), *cc = inD(g, cd);
          static double staleD[4] = {4, 0, 0, 0};
          bool stale = g.coin();
          double *sol = stale ? staleD : nullptr, *solo = stale ? staleD : nullptr;
          int rc = BooleanOpD((uint8_t)a.ct, (uint8_t)a.fr, cs, cso, cc, sol, solo, prec, a.pc, a.rs);
          stat("calls.BooleanOpD");
          if (rc == 0 && (sol == staleD || solo == staleD)) {
            emitF("export.BooleanOpD.out_parameter_not_rewritten", std::string(sol == staleD ? "solution " : "") + (solo == staleD ? "solution_open " : "") + "still holds the caller's old value after an accepted call: " + S(a));
            if (sol == staleD) sol = nullptr; if (solo == staleD) solo = nullptr;
          }
          if (rc != 0) { if (sol == staleD) sol = nullptr; if (solo == staleD) solo = nullptr; }
          PathsD nsol, nsolo; native_boolD(a, sd, sod, cd, nsol, nsolo, nullptr);
          if (rc != 0) emitF("export.BooleanOpD.returncode", "returned " + I(rc) + " for " + S(a));
          else {
            PathsD got, goto_;
            if (!(rd_cpathsD(sol, got) & rd_cpathsD(solo, goto_))) emitF("export.BooleanOpD.layout", "returned array violates the CPaths layout for " + S(a));
            else if (!same_paths(got, nsol) || !same_paths(goto_, nsolo)) {
              std::string bl = "result";
              for (int d = 0; d < 3 && bl == "result"; ++d) { BoolArgs b = a; if (d == 0) b.pc = !b.pc; else if (d == 1) b.rs = !b.rs; else b.prec = 2; PathsD x, y; native_boolD(b, sd, sod, cd, x, y, nullptr); if (same_paths(x, got) && same_paths(y, goto_)) bl = d == 0 ? "preserve_collinear" : d == 1 ? "reverse_solution" : "precision"; }
              emitF("export.BooleanOpD." + bl, "differs from ClipperD with the same arguments: " + S(a) + " subjects=" + vpsD(sd) + " open=" + vpsD(sod) + " clips=" + vpsD(cd));
            }
            emitS("export.BooleanOpD.closed", "EXPD " + D + " " + cellsD(sol) + " " + vpsD(nsol));
            emitS("export.BooleanOpD.open", "EXPD " + D + " " + cellsD(solo) + " " + vpsD(nsolo));
            if (!nsol.empty()) stat("nonempty.BooleanOpD");
          }
          DisposeArrayD(sol); DisposeArrayD(solo);
          delete[] cs; delete[] cso; delete[] cc;
        }
        {
          double *cs = inD(g, sd), *cso = inD(g, sod), *cc = inD(g, cd);
          double *tr = nullptr, *solo = nullptr;
          int rc = BooleanOp_PolyTreeD((uint8_t)a.ct, (uint8_t)a.fr, cs, cso, cc, tr, solo, prec, a.pc, a.rs);
          stat("calls.BooleanOp_PolyTreeD");
          PolyTreeD nt; PathsD dummy, nsolo; native_boolD(a, sd, sod, cd, dummy, nsolo, &nt);
          if (rc != 0) emitF("export.BooleanOp_PolyTreeD.returncode", "returned " + I(rc) + " for " + S(a));
          else {
            emitS("export.BooleanOp_PolyTreeD.tree", "EXPTREED " + D + " " + cellsD(tr) + " " + tree_strD(nt));
            emitS("export.BooleanOp_PolyTreeD.open", "EXPD " + D + " " + cellsD(solo) + " " + vpsD(nsolo));
            double* want = CreateCPolyTreeD(nt);
            bool same = (!want && !tr) || (want && tr && want[0] == tr[0] && memcmp(want, tr, (size_t)want[0] * 8) == 0);
            if (!same) emitF("export.BooleanOp_PolyTreeD.result", "tree differs from ClipperD with the same arguments: " + S(a) + " subjects=" + vpsD(sd) + " clips=" + vpsD(cd));
            PathsD goto_; if (!rd_cpathsD(solo, goto_) || !same_paths(goto_, nsolo)) emitF("export.BooleanOp_PolyTreeD.open", "open solution differs: " + S(a));
            if (want) DisposeArrayD(want);
            if (nt.Count()) stat("nonempty.BooleanOp_PolyTreeD");
          }
          DisposeArrayD(tr); DisposeArrayD(solo);
          delete[] cs; delete[] cso; delete[] cc;
        }
      }
    }
  }
}

// ---- offsetting
struct OffArgs { double delta; int jt, et; double ml, at; bool rs; int prec; bool pc = false; };
static std::string S(const OffArgs& a) {
  return "delta=" + hexd(a.delta) + "(" + std::to_string(a.delta) + ") jt=" + I(a.jt) + " et=" + I(a.et) + " miter_limit=" + std::to_string(a.ml) + " arc_tolerance=" + std::to_string(a.at) + " reverse_solution=" + I(a.rs) + " precision=" + I(a.prec);
}
// the corresponding C++ call: InflatePaths' body, plus the reverse_solution option of ClipperOffset
static Paths64 native_inflate64(const OffArgs& a, const Paths64& ps) {
  ClipperOffset co(a.ml, a.at, a.pc, a.rs);
  co.AddPaths(ps, JoinType(a.jt), EndType(a.et));
  Paths64 sol; co.Execute(a.delta, sol);
  return sol;
}
static PathsD native_inflateD(const OffArgs& a, const PathsD& ps, bool scale_arc = true) {
  int ec = 0;
  const double scale = std::pow(10, a.prec);
  ClipperOffset co(a.ml, scale_arc ? a.at * scale : a.at, a.pc, a.rs);
  co.AddPaths(ScalePaths<int64_t, double>(ps, scale, ec), JoinType(a.jt), EndType(a.et));
  Paths64 sol; co.Execute(a.delta * scale, sol);
  return ScalePaths<double, int64_t>(sol, 1 / scale, ec);
}
template <class PS, class F> static std::string blame_off(const OffArgs& a, const PS& got, F native) {
  { OffArgs b = a; b.rs = !a.rs; if (same_paths(native(b), got)) return "reverse_solution"; }
  { OffArgs b = a; b.pc = true; if (same_paths(native(b), got)) return "preserve_collinear"; }
  { OffArgs b = a; b.pc = a.rs; b.rs = false; if (same_paths(native(b), got)) return "reverse_solution"; }
  { OffArgs b = a; b.ml = 2.0; if (same_paths(native(b), got)) return "miter_limit"; }
  { OffArgs b = a; b.at = 0.0; if (same_paths(native(b), got)) return "arc_tolerance"; }
  { OffArgs b = a; b.at = a.at / std::pow(10, a.prec); if (same_paths(native(b), got)) return "arc_tolerance"; }
  { OffArgs b = a; std::swap(b.ml, b.at); if (same_paths(native(b), got)) return "miter_limit-arc_tolerance-swapped"; }
  { OffArgs b = a; b.delta = -a.delta; if (same_paths(native(b), got)) return "delta"; }
  for (int j = 0; j < 4; ++j) { OffArgs b = a; b.jt = j; if (j != a.jt && same_paths(native(b), got)) return "jointype"; }
  for (int e = 0; e < 5; ++e) { OffArgs b = a; b.et = e; if (e != a.et && same_paths(native(b), got)) return "endtype"; }
  return "result";
}

static void check_inflate64(const char* fn, const OffArgs& a, const Paths64& ps, int64_t* res, const std::string& label_override = "") {
  const std::string D = I(DIM);
  Paths64 want = native_inflate64(a, ps), got;
  std::string f = fn;
  if (!rd_cpaths64(res, got)) emitF("export." + f + ".layout", "returned array violates the CPaths layout for " + S(a) + " paths=" + vps(ps));
  else if (!same_paths(got, want)) {
    std::string bl = blame_off(a, got, [&](const OffArgs& b) { return native_inflate64(b, ps); });
    emitF(label_override.empty() ? "export." + f + "." + bl : label_override, f + " differs from ClipperOffset(miter_limit, arc_tolerance, false, reverse_solution) with the same arguments: " + S(a) + " paths=" + vps(ps) + " export=" + vps(got) + " native=" + vps(want));
  }
  emitS("export." + f + ".array", "EXP64 " + D + " " + cells64(res) + " " + vps(want));
  if (!want.empty()) stat("nonempty." + f);
  // the reference is InflatePaths itself whenever InflatePaths can express the call
  if (!a.rs && a.delta != 0 && !same_paths(want, InflatePaths(ps, a.delta, JoinType(a.jt), EndType(a.et), a.ml, a.at)))
    emitF("harness.reference", "harness reference for Inflate differs from InflatePaths: " + S(a));
}
static void check_inflateD(const char* fn, const OffArgs& a, const PathsD& ps, double* res) {
  const std::string D = I(DIM);
  PathsD want = native_inflateD(a, ps), got;
  std::string f = fn;
  if (!rd_cpathsD(res, got)) emitF("export." + f + ".layout", "returned array violates the CPaths layout for " + S(a) + " paths=" + vpsD(ps));
  else if (!same_paths(got, want)) {
    std::string bl = blame_off(a, got, [&](const OffArgs& b) { return native_inflateD(b, ps); });
    emitF("export." + f + "." + bl, f + " differs from the C++ InflatePaths(PathsD) frame with the same arguments: " + S(a) + " paths=" + vpsD(ps));
  }
  emitS("export." + f + ".array", "EXPD " + D + " " + cellsD(res) + " " + vpsD(want));
  if (!want.empty()) stat("nonempty." + f);
  if (!a.rs && a.delta != 0 && !same_paths(want, InflatePaths(ps, a.delta, JoinType(a.jt), EndType(a.et), a.ml, a.prec, a.at)))
    emitF("harness.reference", "harness reference for InflateD differs from InflatePaths(PathsD): " + S(a));
}

static void spec_inflate(Rng& g, int rounds) {
  static const double deltas[] = {10, -10, 2.5, -3, 0, 0.3, 60, 1};
  static const double mls[] = {2.0, 1.0, 3.5, 10.0, 0.5};
  static const double ats[] = {0.0, 0.25, 2.0, 5.0};
  static const int precs[] = {-2, 0, 1, 2, 4, 8, -8};
  for (int r = 0; r < rounds; ++r) {
    for (int jt = 0; jt < 4; ++jt) for (int et = 0; et < 5; ++et) {
      int64_t R = g.pick(std::vector<int64_t>{200, 1000, 50000});
      bool open = et >= 2;
      Paths64 ps = gen_set(g, R, open, 3);
      if (et != 0) ps = drop_empty(ps);    // an empty path in a non-polygon group is C10's defect (DESIGN §9 item 6), not C17's subject
      if (r == 0 && jt == 0 && et == 0) ps.clear();
      shape_stats("inflate", ps);
      OffArgs a{deltas[g.next() % 8], jt, et, mls[g.next() % 5], ats[g.next() % 4], g.coin(), 0};
      if (jt == 3 && g.chance(60)) a.ml = mls[g.next() % 5];
      if (KNOWN_INFLATE_DEFECTS_PRESENT) a.rs = false;
      CUR("InflatePaths64/InflatePath64/InflatePathsD/InflatePathD " + S(a) + " paths=" + vps(ps));
      if (a.rs) stat("inflate.reverse_solution_true");
      if (a.at != 0) stat("inflate.arc_tolerance_nonzero");
      {
        int64_t* in = mk_cpaths<int64_t>(ps, et == 0 && g.coin());
        int64_t* res = InflatePaths64(in, a.delta, (uint8_t)jt, (uint8_t)et, a.ml, a.at, a.rs);
        stat("calls.InflatePaths64");
        check_inflate64("InflatePaths64", a, ps, res);
        DisposeArray64(res); delete[] in;
      }
      {
        Path64 p = ps.empty() ? (open ? Path64{Point64(0, 0), Point64(50, 10)} : Path64{Point64(0, 0), Point64(100, 0), Point64(100, 100)}) : ps[0];
        int64_t* in = mk_cpath<int64_t>(p);
        int64_t* res = InflatePath64(in, a.delta, (uint8_t)jt, (uint8_t)et, a.ml, a.at, a.rs);
        stat("calls.InflatePath64");
        check_inflate64("InflatePath64", a, Paths64{p}, res);
        DisposeArray64(res); delete[] in;
      }
      // the double variants
      OffArgs ad = a;
      ad.prec = precs[g.next() % 7];
      int dec = ad.prec < 0 ? ad.prec : std::min(ad.prec, 2);
      PathsD pd = to_D(ps, dec);
      add_ties(g, pd, ad.prec);
      double f = std::pow(10.0, -dec);
      ad.delta = a.delta * f;
      // arc_tolerance is varied only where scale == 1 while the known defect is present
      ad.at = (KNOWN_INFLATE_DEFECTS_PRESENT && ad.prec != 0) ? 0.0 : a.at * f;
      if (ad.at != 0) stat("inflateD.arc_tolerance_nonzero");
      {
        double* in = mk_cpaths<double>(pd, et == 0 && g.coin());
        double* res = InflatePathsD(in, ad.delta, (uint8_t)jt, (uint8_t)et, ad.prec, ad.ml, ad.at, ad.rs);
        stat("calls.InflatePathsD");
        check_inflateD("InflatePathsD", ad, pd, res);
        DisposeArrayD(res); delete[] in;
      }
      {
        PathD p = pd.empty() ? to_D(Paths64{open ? Path64{Point64(0, 0), Point64(50, 10)} : Path64{Point64(0, 0), Point64(100, 0), Point64(100, 100)}}, dec)[0] : pd[0];
        double* in = mk_cpath<double>(p);
        double* res = InflatePathD(in, ad.delta, (uint8_t)jt, (uint8_t)et, ad.prec, ad.ml, ad.at, ad.rs);
        stat("calls.InflatePathD");
        check_inflateD("InflatePathD", ad, PathsD{p}, res);
        DisposeArrayD(res); delete[] in;
      }
    }
  }
}

// the two known forwarding defects, each on one fixed input (descriptions are fixed strings: they are the finding's identity)
static void known_defect_probes() {
  CUR("Inflate* on the square (0,0),(100,0),(100,100),(0,100), delta=10");
  Paths64 sq{Path64{Point64(0, 0), Point64(100, 0), Point64(100, 100), Point64(0, 100)}};
  PathsD sqd = to_D(sq, 0);
  {
    OffArgs a{10.0, 3 /*Miter*/, 0 /*Polygon*/, 2.0, 0.0, true, 2};
    int bad = 0; std::string which;
    Paths64 want = native_inflate64(a, sq); PathsD wantd = native_inflateD(a, sqd);
    { int64_t* in = mk_cpaths<int64_t>(sq, false); int64_t* r = InflatePaths64(in, a.delta, 3, 0, a.ml, a.at, a.rs); Paths64 got; if (!rd_cpaths64(r, got) || !same_paths(got, want)) { ++bad; which += " InflatePaths64"; } DisposeArray64(r); delete[] in; }
    { int64_t* in = mk_cpath<int64_t>(sq[0]); int64_t* r = InflatePath64(in, a.delta, 3, 0, a.ml, a.at, a.rs); Paths64 got; if (!rd_cpaths64(r, got) || !same_paths(got, want)) { ++bad; which += " InflatePath64"; } DisposeArray64(r); delete[] in; }
    { double* in = mk_cpaths<double>(sqd, false); double* r = InflatePathsD(in, a.delta, 3, 0, 2, a.ml, a.at, a.rs); PathsD got; if (!rd_cpathsD(r, got) || !same_paths(got, wantd)) { ++bad; which += " InflatePathsD"; } DisposeArrayD(r); delete[] in; }
    { double* in = mk_cpath<double>(sqd[0]); double* r = InflatePathD(in, a.delta, 3, 0, 2, a.ml, a.at, a.rs); PathsD got; if (!rd_cpathsD(r, got) || !same_paths(got, wantd)) { ++bad; which += " InflatePathD"; } DisposeArrayD(r); delete[] in; }
    stat("kf.reverse_solution.functions_differing", bad);
    fprintf(stderr, "kf.export-inflate-reverse-solution: differing:%s (native area %g)\n", which.c_str(), Area(want));
    if (bad) emitF("export.Inflate.reverse_solution.square",
                   "InflatePaths64/InflatePath64/InflatePathsD/InflatePathD(square (0,0),(100,0),(100,100),(0,100); delta=10, jointype=Miter, endtype=Polygon, precision=2, miter_limit=2, arc_tolerance=0, reverse_solution=true) "
                   "differ from ClipperOffset(miter_limit, arc_tolerance, preserve_collinear=false, reverse_solution=true): the export passes reverse_solution in the preserve_collinear slot, the result keeps positive orientation");
  }
  {
    OffArgs a{10.0, 2 /*Round*/, 0 /*Polygon*/, 2.0, 0.25, false, 2};
    int bad = 0; std::string which;
    PathsD wantd = native_inflateD(a, sqd);
    size_t nv = wantd.empty() ? 0 : wantd[0].size(), ev = 0;
    { double* in = mk_cpaths<double>(sqd, false); double* r = InflatePathsD(in, a.delta, 2, 0, 2, a.ml, a.at, a.rs); PathsD got; if (!rd_cpathsD(r, got) || !same_paths(got, wantd)) { ++bad; which += " InflatePathsD"; } if (!got.empty()) ev = got[0].size(); DisposeArrayD(r); delete[] in; }
    { double* in = mk_cpath<double>(sqd[0]); double* r = InflatePathD(in, a.delta, 2, 0, 2, a.ml, a.at, a.rs); PathsD got; if (!rd_cpathsD(r, got) || !same_paths(got, wantd)) { ++bad; which += " InflatePathD"; } DisposeArrayD(r); delete[] in; }
    stat("kf.arc_tolerance.functions_differing", bad);
    fprintf(stderr, "kf.export-inflateD-arc-tolerance: differing:%s (native %zu vertices, export %zu)\n", which.c_str(), nv, ev);
    if (!same_paths(wantd, InflatePaths(sqd, 10.0, JoinType::Round, EndType::Polygon, 2.0, 2, 0.25))) emitF("harness.reference", "reference for the arc-tolerance probe differs from InflatePaths(PathsD)");
    if (bad) emitF("export.InflateD.arc_tolerance.square",
                   "InflatePathsD/InflatePathD(square (0,0),(100,0),(100,100),(0,100); delta=10, jointype=Round, endtype=Polygon, precision=2, miter_limit=2, arc_tolerance=0.25, reverse_solution=false) "
                   "differ from InflatePaths(PathsD, 10, Round, Polygon, 2.0, 2, 0.25): the export does not multiply arc_tolerance by 10^precision");
  }
}

// ---- RectClip / RectClipLines / Minkowski
static void spec_rect_mink(Rng& g, int rounds) {
  const std::string D = I(DIM);
  static const int precs[] = {-3, 0, 1, 2, 4, 8};
  for (int r = 0; r < rounds; ++r) {
    int64_t R = g.pick(std::vector<int64_t>{50, 1000, 100000});
    Paths64 closed = gen_set(g, R, false, 4), open = gen_set(g, R, true, 4);
    if (r == 0) { closed.clear(); open.clear(); }
    Rect64 rc(g.range(-R, 0), g.range(-R, 0), g.range(1, R), g.range(1, R));
    if (g.chance(10)) rc.right = rc.left;             // empty rectangle
    if (g.chance(5)) std::swap(rc.top, rc.bottom);
    shape_stats("rect.closed", closed); shape_stats("rect.open", open);
    if (rc.IsEmpty()) stat("gen.rect.empty_rect");
    CRect64 cr{rc.left, rc.top, rc.right, rc.bottom};
    std::string rs = "rect=" + I(rc.left) + "," + I(rc.top) + "," + I(rc.right) + "," + I(rc.bottom);
    CUR("RectClip*/Minkowski* " + rs + " closed=" + vps(closed) + " open=" + vps(open));
    for (int lines = 0; lines < 2; ++lines) {
      const Paths64& ps = lines ? open : closed;
      const char* fn = lines ? "RectClipLines64" : "RectClip64";
      int64_t* in = in64(g, ps);
      int64_t* res = lines ? RectClipLines64(cr, in) : RectClip64(cr, in);
      stat(std::string("calls.") + fn);
      Paths64 want = lines ? RectClipLines(rc, ps) : RectClip(rc, ps), got;
      if (!rd_cpaths64(res, got)) emitF(std::string("export.") + fn + ".layout", "layout violated: " + rs + " paths=" + vps(ps));
      else if (!same_paths(got, want)) emitF(std::string("export.") + fn + ".result", std::string(fn) + " differs from the C++ call: " + rs + " paths=" + vps(ps) + " export=" + vps(got) + " native=" + vps(want));
      emitS(std::string("export.") + fn + ".array", "EXP64 " + D + " " + cells64(res) + " " + vps(want));
      if (!want.empty()) stat(std::string("nonempty.") + fn);
      DisposeArray64(res); delete[] in;
      // double variant
      int prec = precs[g.next() % 6];
      int dec = prec < 0 ? prec : std::min(prec, 2);
      PathsD pd = to_D(ps, dec);
      add_ties(g, pd, prec);
      double f = std::pow(10.0, -dec);
      RectD rd(rc.left * f, rc.top * f, rc.right * f, rc.bottom * f);
      CRectD crd{rd.left, rd.top, rd.right, rd.bottom};
      const char* fnd = lines ? "RectClipLinesD" : "RectClipD";
      double* ind = inD(g, pd);
      double* resd = lines ? RectClipLinesD(crd, ind, prec) : RectClipD(crd, ind, prec);
      stat(std::string("calls.") + fnd);
      PathsD wantd = lines ? RectClipLines(rd, pd, prec) : RectClip(rd, pd, prec), gotd;
      if (!rd_cpathsD(resd, gotd)) emitF(std::string("export.") + fnd + ".layout", "layout violated: " + rs + " precision=" + I(prec));
      else if (!same_paths(gotd, wantd)) {
        std::string bl = "result";
        PathsD w2 = lines ? RectClipLines(rd, pd, 2) : RectClip(rd, pd, 2);
        if (same_paths(gotd, w2)) bl = "precision";
        emitF(std::string("export.") + fnd + "." + bl, std::string(fnd) + " differs from the C++ call: " + rs + " precision=" + I(prec) + " paths=" + vpsD(pd));
      }
      emitS(std::string("export.") + fnd + ".array", "EXPD " + D + " " + cellsD(resd) + " " + vpsD(wantd));
      if (!wantd.empty()) stat(std::string("nonempty.") + fnd);
      DisposeArrayD(resd); delete[] ind;
    }
    // Minkowski
    for (int diff = 0; diff < 2; ++diff) for (int closedp = 0; closedp < 2; ++closedp) {
      Path64 pattern = with_z(g, g.chance(10) ? Path64{} : rand_poly(g, (int)g.range(1, 5), 30));
      Path64 path = with_z(g, g.chance(10) ? Path64{} : rand_poly(g, (int)g.range(1, 6), R));
      // coordinates that no double holds (odd values beyond 2^53): the single-path reader must hand them over unchanged
      if (!path.empty() && g.chance(12)) {
        int64_t T = g.pick(std::vector<int64_t>{(1LL << 53) + 1, -((1LL << 53) + 1001), (1LL << 56) + 3, -((1LL << 58) + 5)});
        bool flip = g.coin();
        for (auto& v : path) { v.x += T; v.y += flip ? -T : T; }
        stat("minkowski.path_beyond_2^53");
      }
      int64_t* cpat = g.chance(5) && pattern.empty() ? nullptr : mk_cpath<int64_t>(pattern);
      int64_t* cpth = g.chance(5) && path.empty() ? nullptr : mk_cpath<int64_t>(path);
      const char* fn = diff ? "MinkowskiDiff64" : "MinkowskiSum64";
      int64_t* res = diff ? MinkowskiDiff64(cpat, cpth, closedp) : MinkowskiSum64(cpat, cpth, closedp);
      stat(std::string("calls.") + fn);
      Paths64 want = diff ? MinkowskiDiff(pattern, path, closedp) : MinkowskiSum(pattern, path, closedp), got;
      if (!rd_cpaths64(res, got)) emitF(std::string("export.") + fn + ".layout", "layout violated");
      else if (!same_paths(got, want)) {
        std::string bl = "result";
        Paths64 w2 = diff ? MinkowskiDiff(pattern, path, !closedp) : MinkowskiSum(pattern, path, !closedp);
        Paths64 w3 = diff ? MinkowskiDiff(path, pattern, closedp) : MinkowskiSum(path, pattern, closedp);
        Paths64 w4 = diff ? MinkowskiSum(pattern, path, closedp) : MinkowskiDiff(pattern, path, closedp);
        if (same_paths(got, w2)) bl = "is_closed"; else if (same_paths(got, w3)) bl = "pattern-path-swapped"; else if (same_paths(got, w4)) bl = "sum-diff-swapped";
        emitF(std::string("export.") + fn + "." + bl, std::string(fn) + " differs from the C++ call: is_closed=" + I(closedp) + " pattern=" + vp(pattern) + " path=" + vp(path));
      }
      emitS(std::string("export.") + fn + ".array", "EXP64 " + D + " " + cells64(res) + " " + vps(want));
      if (!want.empty()) stat(std::string("nonempty.") + fn);
      DisposeArray64(res); delete[] cpat; delete[] cpth;
    }
  }
}

// ================================================================================================ C11 export clause
static void invalid_arguments(Rng& g, bool thorough) {
  CUR("exported functions with out-of-range clip type / fill rule / precision");
  Paths64 sq{rect_path(0, 0, 100, 100)}, sq2{rect_path(50, 50, 150, 150)};
  PathsD sqd = to_D(sq, 0), sq2d = to_D(sq2, 0);
  int64_t* s64 = mk_cpaths<int64_t>(sq, false); int64_t* c64 = mk_cpaths<int64_t>(sq2, false);
  double* sD = mk_cpaths<double>(sqd, false); double* cD = mk_cpaths<double>(sq2d, false);
  static int64_t sentinel64[2] = {2, 0}; static double sentinelD[2] = {2, 0};
  std::vector<int> precs_bad = {9, -9, 10, -10, 100, -100, 1000, INT32_MAX, INT32_MIN};
  std::vector<int> precs_ok = {-8, -1, 0, 2, 8};
  auto expect = [&](const char* fn, int ct, int fr, int prec, bool hasprec, int rc, bool untouched) {
    // documented: -5 precision, -4 clip type, -3 fill rule; with several bad arguments any of the applicable codes
    bool bp = hasprec && (prec < -8 || prec > 8), bc = ct > 4, bf = fr > 3;
    std::string args = std::string(fn) + " cliptype=" + I(ct) + " fillrule=" + I(fr) + " precision=" + I(prec);
    bool okc = (!bp && !bc && !bf) ? rc == 0 : ((bp && rc == -5) || (bc && rc == -4) || (bf && rc == -3));
    if (!okc) emitF(std::string("export.") + fn + ".validation", args + " returned " + I(rc));
    if ((bp || bc || bf) && !untouched) emitF(std::string("export.") + fn + ".validation-touched-output", args + " modified an output pointer although it rejected the call");
    // Tie T: the validation prefix generated from the source gives the same code
    emitM(std::string("valid.") + fn, std::string("VALID ") + fn + " " + I(ct) + " " + I(fr) + " " + I(prec) + " 0 0", (bp || bc || bf) ? I(rc) : "pass");
    stat(std::string("valid.") + ((bp || bc || bf) ? "rejected" : "accepted"));
  };
  for (int ct = 0; ct <= 255; ++ct) {
    for (int fr : {0, 3, 4, 5, 128, 255, (int)g.range(4, 255)}) {
      if (!thorough && ct > 8 && ct < 250 && (ct % 16) && fr != 0) continue;
      {
        int64_t *sol = sentinel64, *solo = sentinel64;
        int rc = BooleanOp64((uint8_t)ct, (uint8_t)fr, s64, nullptr, c64, sol, solo, true, false);
        bool untouched = sol == sentinel64 && solo == sentinel64;
        expect("BooleanOp64", ct, fr, 0, false, rc, untouched);
        if (sol != sentinel64) DisposeArray64(sol); if (solo != sentinel64) DisposeArray64(solo);
      }
      {
        int64_t *sol = sentinel64, *solo = sentinel64;
        int rc = BooleanOp_PolyTree64((uint8_t)ct, (uint8_t)fr, s64, nullptr, c64, sol, solo, true, false);
        bool untouched = sol == sentinel64 && solo == sentinel64;
        expect("BooleanOp_PolyTree64", ct, fr, 0, false, rc, untouched);
        if (sol != sentinel64) DisposeArray64(sol); if (solo != sentinel64) DisposeArray64(solo);
      }
      for (int prec : {2, precs_bad[(ct + fr) % precs_bad.size()], precs_ok[(ct + fr) % precs_ok.size()]}) {
        {
          double *sol = sentinelD, *solo = sentinelD;
          int rc = BooleanOpD((uint8_t)ct, (uint8_t)fr, sD, nullptr, cD, sol, solo, prec, true, false);
          bool untouched = sol == sentinelD && solo == sentinelD;
          expect("BooleanOpD", ct, fr, prec, true, rc, untouched);
          if (sol != sentinelD) DisposeArrayD(sol); if (solo != sentinelD) DisposeArrayD(solo);
        }
        {
          double *sol = sentinelD, *solo = sentinelD;
          int rc = BooleanOp_PolyTreeD((uint8_t)ct, (uint8_t)fr, sD, nullptr, cD, sol, solo, prec, true, false);
          bool untouched = sol == sentinelD && solo == sentinelD;
          expect("BooleanOp_PolyTreeD", ct, fr, prec, true, rc, untouched);
          if (sol != sentinelD) DisposeArrayD(sol); if (solo != sentinelD) DisposeArrayD(solo);
        }
      }
    }
  }
  // pointer-returning double functions: precision outside [-8, 8] (and a null input) give nullptr
  CRectD crd{0, 0, 80, 80};
  double* p1 = mk_cpath<double>(sqd[0]);
  std::vector<int> allp = precs_bad; allp.insert(allp.end(), precs_ok.begin(), precs_ok.end());
  for (int prec : allp) {
    bool bad = prec < -8 || prec > 8;
    struct R { const char* fn; double* res; } rs[] = {
      {"InflatePathsD", InflatePathsD(sD, 5, 3, 0, prec, 2.0, 0.0, false)},
      {"InflatePathD", InflatePathD(p1, 5, 3, 0, prec, 2.0, 0.0, false)},
      {"RectClipD", RectClipD(crd, sD, prec)},
      {"RectClipLinesD", RectClipLinesD(crd, sD, prec)}};
    for (auto& x : rs) {
      if (bad && x.res) emitF(std::string("export.") + x.fn + ".validation", std::string(x.fn) + " precision=" + I(prec) + " returned an array instead of nullptr");
      emitM(std::string("valid.") + x.fn, std::string("VALID ") + x.fn + " 0 0 " + I(prec) + " 0 0", bad ? "nullptr" : "pass");
      stat(std::string("valid.") + (bad ? "rejected" : "accepted"));
      if (x.res) DisposeArrayD(x.res);
    }
  }
  // null input / empty rectangle
  {
    CRect64 er{10, 10, 10, 50}, okr{0, 0, 80, 80};
    int64_t* r1 = RectClip64(er, s64); if (r1) { emitF("export.RectClip64.validation", "empty rectangle gave an array"); DisposeArray64(r1); }
    int64_t* r2 = RectClip64(okr, nullptr); if (r2) { emitF("export.RectClip64.validation", "null paths gave an array"); DisposeArray64(r2); }
    int64_t* r3 = RectClipLines64(er, s64); if (r3) { emitF("export.RectClipLines64.validation", "empty rectangle gave an array"); DisposeArray64(r3); }
    double* r4 = InflatePathsD(nullptr, 5, 3, 0, 2, 2.0, 0.0, false); if (r4) { emitF("export.InflatePathsD.validation", "null paths gave an array"); DisposeArrayD(r4); }
    emitM("valid.RectClip64", "VALID RectClip64 0 0 0 0 1", "nullptr");
    emitM("valid.RectClip64", "VALID RectClip64 0 0 0 1 0", "nullptr");
    emitM("valid.RectClip64", "VALID RectClip64 0 0 0 0 0", "pass");
    emitM("valid.InflatePathsD", "VALID InflatePathsD 0 0 2 1 0", "nullptr");
  }
  delete[] p1; delete[] s64; delete[] c64; delete[] sD; delete[] cD;
}

int main(int argc, char** argv) {
  __sanitizer_set_death_callback(on_death);
  setvbuf(stdout, nullptr, _IOLBF, 1 << 16);   // records printed before a sanitizer abort must reach the checker
  Rng g(seed_from_args(argc, argv));
  bool thorough = thorough_from_args(argc, argv);
  stat(DIM == 3 ? "config.usingz" : "config.plain");
  known_defect_probes();
  model_level(g, thorough ? 12000 : 1500);
  spec_boolean(g, thorough ? 240 : 30);
  spec_inflate(g, thorough ? 400 : 50);
  spec_rect_mink(g, thorough ? 4000 : 500);
  invalid_arguments(g, thorough);
  flush_stats();
  return 0;
}
