// C02 (and C01/C03/C11) harness for the JOIN DECISIONS of the sweep: ClipperBase::CheckJoinLeft / CheckJoinRight against the Lean
// specification Model/JoinCond.lean (which Props/Bridges/Joins.lean proves equal to the definitions generated from the source).
//
//  (A) direct, model level (M records JOINDECIDE): the real private CheckJoinLeft / CheckJoinRight is called on two hand-built Active
//      edges with hand-built output records (one shared record, or two records in either idx order, either side); what it did is read
//      off the records afterwards (join_with of both edges; same record closed / which record was emptied) and must be what
//      joinLeftDecision / joinRightDecision say.  Every term of the guard is exercised: missing neighbour, cold edge, open edge,
//      horizontal edge (each for e and for the neighbour), the #490 test, check_curr_x on/off with the library's own
//      PerpendicDistFromLineSqrd on either side of the threshold, curr_x equal/unequal, collinear or not.
//  (B) in real sweeps, spec level (S records JOINCOND), without a new hook: at every kJoin event (fired at the END of CheckJoinLeft/Right)
//      the two joined edges are read and the guard of the specification is evaluated on them after the fact for every pt the call sites
//      can pass (bot of either edge; the pt of the IntersectEdges event immediately before: node.pt in ProcessIntersectList,
//      (e->curr_x, horz.bot.y) in DoHorizontal).  Checkable afterwards: neighbour exists, IsHorizontal / IsOpen of both, curr_x of both,
//      the #490 test, collinearity, the distance flag (recomputed with the real function), the post-state join_with = (Right, Left) and
//      "not both still hot".  Not checkable: IsHotEdge of both before the call (the join clears outrec), idx / the choice of the action,
//      which of the two functions ran and with which check_curr_x (existentially quantified over the call-site table).
//      Inputs: rectilinear with many coincident edges (rect pairs, walks incl. duplicated vertices, anchored rectangles: the generators
//      of harness/C02.cpp; gen_rectilinear), dense lattices, and general position (harness/gp.h).
#define VERIF_PRIVATE_ACCESS
#include "unity.h"
#include "gp.h"
#include "gp_gen.h"
#ifndef CLIPPER2_VERIF
#error "C02joins.cpp needs the hooks: compile with -DCLIPPER2_VERIF"
#endif
using namespace vh;

static const ClipType CTS[4] = {ClipType::Intersection, ClipType::Union, ClipType::Difference, ClipType::Xor};
static const FillRule FRS[4] = {FillRule::EvenOdd, FillRule::NonZero, FillRule::Positive, FillRule::Negative};
static const double TH_LEFT = 0.25, TH_RIGHT = 0.35;   // the thresholds of CheckJoinLeft / CheckJoinRight (names of the generated arguments)

static int jw(JoinWith j) { return j == JoinWith::NoJoin ? 0 : (j == JoinWith::Left ? 1 : 2); }
static std::string edge_str(bool hot, bool is_open, const Point64& bot, const Point64& top, int64_t cx, size_t idx) {
  return std::string(hot ? "1 " : "0 ") + (is_open ? "1 " : "0 ") + S(bot) + " " + S(top) + " " + S(cx) + " " + std::to_string(idx);
}

// ------------------------------------------------------------------------------------------------ (A) direct calls
static OutRec* make_rec(Clipper64& c, Rng& g) {
  OutRec* r = c.NewOutRec();
  r->front_edge = nullptr; r->back_edge = nullptr;
  OutPt* a = new OutPt(Point64(g.range(0, 6), g.range(0, 6)), r);
  OutPt* b = new OutPt(Point64(g.range(0, 6), g.range(0, 6)), r);
  a->next = b; a->prev = b; b->next = a; b->prev = a;
  r->pts = a;
  return r;
}

static void direct_case(Rng& g) {
  Clipper64 c;
  Vertex v;   // vertex_top of both edges: no flags (not an open end, not a maximum)
  LocalMinima lm_closed(&v, PathType::Subject, false), lm_open(&v, PathType::Subject, true);
  Active e, n;
  const int L = 6;
  auto rnd_pt = [&]() { return Point64(g.range(0, L), g.range(0, L)); };
  // geometry: mostly two edges through a common lattice line so that collinearity and coincidence are frequent
  int shape = (int)(g.next() % 8);
  e.bot = rnd_pt(); e.top = rnd_pt(); n.bot = rnd_pt(); n.top = rnd_pt();
  if (shape <= 3) {            // both vertical on one x
    int64_t x = g.range(0, L);
    e.bot.x = e.top.x = n.bot.x = n.top.x = x;
    if (shape <= 2) { e.bot.y = n.bot.y = g.range(3, L); }
  } else if (shape == 4) {     // same bottom point
    n.bot = e.bot;
  } else if (shape == 5) {     // the same edge twice
    n.bot = e.bot; n.top = e.top;
  }
  if (g.chance(12)) e.top.y = e.bot.y;      // horizontal e
  if (g.chance(12)) n.top.y = n.bot.y;      // horizontal neighbour
  e.curr_x = g.chance(70) ? e.bot.x : g.range(0, L);
  n.curr_x = g.chance(70) ? n.bot.x : (g.coin() ? e.curr_x : g.range(0, L));
  bool e_open = g.chance(8), n_open = g.chance(8), e_hot = g.chance(88), n_hot = g.chance(88), has_nb = g.chance(93);
  e.local_min = e_open ? &lm_open : &lm_closed; n.local_min = n_open ? &lm_open : &lm_closed;
  e.vertex_top = &v; n.vertex_top = &v;
  e.wind_dx = 1; n.wind_dx = -1;
  int side = (int)(g.next() % 2);   // 0 = CheckJoinLeft (n = prev), 1 = CheckJoinRight (n = next)
  Active* left = side == 0 ? &n : &e; Active* right = side == 0 ? &e : &n;
  if (has_nb) { left->next_in_ael = right; right->prev_in_ael = left; }
  // output records
  OutRec *or_e = nullptr, *or_n = nullptr;
  bool same = e_hot && n_hot && g.chance(30);
  if (same) {
    or_e = or_n = make_rec(c, g);
    if (g.chance(40)) make_rec(c, g);         // unrelated record (idx values other than 0)
    if (g.coin()) { or_e->front_edge = left; or_e->back_edge = right; } else { or_e->front_edge = right; or_e->back_edge = left; }
  } else {
    bool e_first = g.coin();
    if (e_first) { if (e_hot) or_e = make_rec(c, g); if (n_hot) or_n = make_rec(c, g); }
    else { if (n_hot) or_n = make_rec(c, g); if (e_hot) or_e = make_rec(c, g); }
    // the two edges hold opposite sides of their records, as adjacent hot edges do in a sweep (JoinOutrecPaths on two front or two
    // back edges corrupts the records: fault `joinSameSide` of Model/AelSides.lean, excluded by the side invariant of Props/C11Sides)
    bool e_front = g.coin();
    if (or_e) { if (e_front) or_e->front_edge = &e; else or_e->back_edge = &e; }
    if (or_n) { if (!e_front) or_n->front_edge = &n; else or_n->back_edge = &n; }
  }
  e.outrec = or_e; n.outrec = or_n;
  size_t idx_e = or_e ? or_e->idx : 0, idx_n = or_n ? or_n->idx : 0;
  // pt
  Point64 pt;
  switch (g.next() % 7) {
    case 0: pt = e.bot; break;
    case 1: pt = n.bot; break;
    case 2: pt = e.top; break;
    case 3: pt = Point64(e.bot.x, g.range(0, L + 2)); break;
    case 4: pt = Point64((e.top.x + n.top.x) / 2, (e.top.y + n.top.y) / 2); break;
    case 5: pt = Point64(e.bot.x + (g.coin() ? 1 : 0), std::max(e.bot.y, n.bot.y)); break;
    default: pt = rnd_pt(); break;
  }
  bool ccx = g.coin();
  bool far = PerpendicDistFromLineSqrd(pt, n.bot, n.top) > (side == 0 ? TH_LEFT : TH_RIGHT);
  JoinWith je0 = JoinWith::NoJoin, jn0 = JoinWith::NoJoin;
  e.join_with = je0; n.join_with = jn0;
  std::string req = "JOINDECIDE " + std::to_string(side) + (ccx ? " 1 " : " 0 ") + (far ? "1 " : "0 ") +
                    edge_str(e_hot, e_open, e.bot, e.top, e.curr_x, idx_e) + (has_nb ? " 1 " : " 0 ") +
                    edge_str(n_hot, n_open, n.bot, n.top, n.curr_x, idx_n) + " " + S(pt) + " " + std::to_string(jw(je0)) + " " + std::to_string(jw(jn0));
  // the real function
  if (side == 0) c.CheckJoinLeft(e, pt, ccx); else c.CheckJoinRight(e, pt, ccx);
  std::string act;
  bool joined = e.join_with != JoinWith::NoJoin || n.join_with != JoinWith::NoJoin;
  if (!joined) {
    act = "none";
    if (e.outrec != or_e || n.outrec != or_n) emitF("join-direct", "no join_with set but outrec changed: " + req);
  } else if (same) act = "same";
  else if (or_n && or_n->pts == nullptr && or_e && or_e->pts != nullptr) act = "keepE";
  else if (or_e && or_e->pts == nullptr && or_n && or_n->pts != nullptr) act = "keepNb";
  else act = "unrecognised";
  if (!c.succeeded_) emitF("join-direct", "succeeded_ cleared: " + req);
  emitM("joindecide." + std::string(side == 0 ? "left" : "right"), req, act + " " + std::to_string(jw(e.join_with)) + " " + std::to_string(jw(n.join_with)));
  stat("direct.act." + act);
  stat(side == 0 ? "direct.left" : "direct.right");
  if (!has_nb) stat("direct.no_neighbour");
  if (!e_hot) stat("direct.e_cold");
  if (!n_hot) stat("direct.nb_cold");
  if (e_open) stat("direct.e_open");
  if (n_open) stat("direct.nb_open");
  if (e.top.y == e.bot.y) stat("direct.e_horizontal");
  if (n.top.y == n.bot.y) stat("direct.nb_horizontal");
  if (ccx) stat(far ? "direct.check_curr_x.far" : "direct.check_curr_x.near"); else stat(e.curr_x == n.curr_x ? "direct.curr_x_equal" : "direct.curr_x_differs");
  if (IsCollinear(e.top, pt, n.top)) stat("direct.collinear");
  if ((pt.y < e.top.y + 2 || pt.y < n.top.y + 2) && (e.bot.y > pt.y || n.bot.y > pt.y)) stat("direct.trivial_join_test_fires");
  // unlink before the clipper is destroyed (it owns the records and their OutPts, not the edges)
  e.outrec = nullptr; n.outrec = nullptr;
}

// ------------------------------------------------------------------------------------------------ (B) join events of real sweeps
struct JCand { int kind; Point64 pt; };
struct JoinTrace {
  std::vector<JCand> last;            // pt of the IntersectEdges event immediately before (ProcessIntersectList / DoHorizontal)
  std::vector<std::string> recs;
  long nevents = 0, nskipped_large = 0;
};
static JoinTrace& jt() { static JoinTrace t; return t; }
static bool horizontal(const Active* a) { return a->top.y == a->bot.y; }

static void join_sink(int ev, const ClipperBase* c, const Active* a) {
  JoinTrace& t = jt();
  switch (ev) {
    case verif::kIntersect: {
      // fired after IntersectEdges(x, y, pt); SwapPositionsInAEL(x, y); with `a` = x, now immediately to the right of y
      t.last.clear();
      const Active* l = a ? a->prev_in_ael : nullptr;
      if (!a || !l) break;
      for (const IntersectNode& nd : c->intersect_nodes_)
        if (nd.edge1 == a && nd.edge2 == l) t.last.push_back({1, nd.pt});
      // DoHorizontal, left to right: x = horz, y = e, pt = (e->curr_x, horz.bot.y);  right to left: x = e, y = horz, same pt
      if (horizontal(a)) t.last.push_back({2, Point64(l->curr_x, a->bot.y)});
      if (horizontal(l)) t.last.push_back({2, Point64(a->curr_x, l->bot.y)});
      break;
    }
    case verif::kJoin: {
      t.nevents++;
      const Active* l = a;
      const Active* r = a ? a->next_in_ael : nullptr;
      if (!l || !r) { t.recs.push_back("BROKEN"); break; }
      std::vector<JCand> cands{{0, r->bot}, {0, l->bot}};
      for (auto& q : t.last) cands.push_back(q);
      std::string s = "JOINCOND " + edge_str(l->outrec != nullptr, l->local_min->is_open, l->bot, l->top, l->curr_x, 0) + " " +
                      edge_str(r->outrec != nullptr, r->local_min->is_open, r->bot, r->top, r->curr_x, 0) + " " +
                      std::to_string(jw(l->join_with)) + " " + std::to_string(jw(r->join_with)) + " " + std::to_string(cands.size());
      for (auto& q : cands) {
        bool farL = PerpendicDistFromLineSqrd(q.pt, l->bot, l->top) > TH_LEFT;    // CheckJoinLeft(r, pt): prev = l
        bool farR = PerpendicDistFromLineSqrd(q.pt, r->bot, r->top) > TH_RIGHT;   // CheckJoinRight(l, pt): next = r
        s += " " + std::to_string(q.kind) + " " + S(q.pt) + (farL ? " 1" : " 0") + (farR ? " 1" : " 0");
      }
      t.recs.push_back(s);
      break;
    }
    case verif::kSplit: break;       // Split may run inside IntersectEdges / AddLocalMaxPoly between the intersection and the join
    default: t.last.clear(); break;  // insertions, removals, snapshots: the next join check is called with pt = bot
  }
}

static long long n_exec = 0;
static void run_sweep(Rng& g, const std::string& label, const Paths64& subj, const Paths64& clip, ClipType ct, FillRule fr) {
  Clipper64 c;
  c.PreserveCollinear(g.coin());
  c.ReverseSolution(g.chance(25));
  c.AddSubject(subj); c.AddClip(clip);
  Paths64 sol;
  jt().last.clear(); jt().recs.clear();
  verif::ael_sink() = join_sink;
  bool ok;
  // PolyTree output only where the input has no self-overlapping paths (known finding: CheckSplitOwner recursion on such input)
  bool tree = (label == "gp" || label == "rectpair") && g.chance(25);
  if (tree) { PolyTree64 t; ok = c.Execute(ct, fr, t); stat("sweep.exec.tree"); } else ok = c.Execute(ct, fr, sol);
  verif::ael_sink() = nullptr;
  ++n_exec;
  if (!ok) emitF(label, "Execute returned false ct=" + std::to_string((int)ct) + " fr=" + std::to_string((int)fr) + " subj=" + S(subj) + " clip=" + S(clip));
  for (auto& r : jt().recs) {
    if (r == "BROKEN") { emitF(label, "kJoin event without a right neighbour subj=" + S(subj) + " clip=" + S(clip)); continue; }
    emitS("joincond." + label, r);
    stat("sweep.join_events." + label);
  }
  stat("sweep.exec." + label);
  if (jt().recs.empty()) stat("sweep.exec_without_join." + label);
}
static void run_all16(Rng& g, const std::string& label, const Paths64& s, const Paths64& c) {
  for (ClipType ct : CTS) for (FillRule fr : FRS) run_sweep(g, label, s, c, ct, fr);
}
static void run_some(Rng& g, const std::string& label, const Paths64& s, const Paths64& c, int k) {
  for (int i = 0; i < k; ++i) run_sweep(g, label, s, c, CTS[g.next() % 4], FRS[g.next() % 4]);
}

// ---- the rectilinear generators of harness/C02.cpp
static const int64_t SCALES[3] = {1, 7, (int64_t)1 << 30};
static Paths64 scaled(const Paths64& ps, int64_t k) {
  Paths64 r;
  for (auto& p : ps) { Path64 q; for (auto& v : p) q.emplace_back(v.x * k, v.y * k); r.push_back(q); }
  return r;
}
struct R { int l, b, r, t; };
static std::vector<R> all_rects() {
  std::vector<R> v;
  for (int l = 0; l < 5; ++l) for (int r = l + 1; r < 5; ++r)
    for (int b = 0; b < 5; ++b) for (int t = b + 1; t < 5; ++t) v.push_back({l, b, r, t});
  return v;
}
static Path64 rect(const R& q, bool ccw) {
  Path64 p{Point64(q.l, q.b), Point64(q.r, q.b), Point64(q.r, q.t), Point64(q.l, q.t)};
  if (!ccw) std::reverse(p.begin(), p.end());
  return p;
}
static Path64 rect_walk(Rng& g, int n /* >= 4 */, int L) {
  int extra = (n > 4 && g.chance(50)) ? (int)g.range(0, std::min(3, n - 4)) : 0;
  if ((n - extra) % 2) ++extra;
  if (n - extra < 4) extra = n - 4;
  int m = (n - extra) / 2;
  std::vector<int> X(m), Y(m);
  for (;;) {
    for (int j = 0; j < m; ++j) { X[j] = (int)g.range(0, L); Y[j] = (int)g.range(0, L); }
    bool ok = true;
    for (int j = 0; j < m; ++j) if (X[j] == X[(j + 1) % m] || Y[j] == Y[(j + 1) % m]) ok = false;
    if (ok) break;
  }
  Path64 p;
  for (int j = 0; j < m; ++j) { p.emplace_back(X[j], Y[j]); p.emplace_back(X[(j + 1) % m], Y[j]); }
  for (int e = 0; e < extra; ++e) {
    size_t i = (size_t)g.range(0, (int64_t)p.size() - 1);
    Point64 a = p[i], b = p[(i + 1) % p.size()], c = a;
    for (int tries = 0; tries < 50; ++tries) {
      c = a;
      if (a.y == b.y) c.x = g.range(0, L); else c.y = g.range(0, L);
      if (!(c == a) && !(c == b)) break;
      c = a;
    }
    if (c == a) continue;
    p.insert(p.begin() + (long)i + 1, c);
  }
  if (g.coin()) std::reverse(p.begin(), p.end());
  if (g.coin()) std::rotate(p.begin(), p.begin() + g.range(0, (int64_t)p.size() - 1), p.end());
  return p;
}

static void rect_pairs(Rng& g, bool thorough) {
  auto rs = all_rects();
  for (size_t i = 0; i < rs.size(); ++i)
    for (size_t j = 0; j < rs.size(); ++j) {
      if (g.next() % (thorough ? 4 : 40) != 0) continue;
      int si = (int)(g.next() % 3);
      Paths64 subj = scaled({rect(rs[i], g.coin())}, SCALES[si]), clip = scaled({rect(rs[j], g.coin())}, SCALES[si]);
      if (thorough) run_all16(g, "rectpair", subj, clip); else run_some(g, "rectpair", subj, clip, 4);
    }
}
static void walks(Rng& g, bool thorough) {
  const int N = thorough ? 6000 : 220;
  for (int it = 0; it < N; ++it) {
    Paths64 subj, clip;
    int ns = (int)g.range(1, 3), nc = (int)g.range(1, 3);
    for (int k = 0; k < ns + nc; ++k) {
      Path64 p = rect_walk(g, (int)g.range(4, 16), 6);
      if (g.chance(25)) {   // repeated vertices (zero-length edges)
        for (int r = (int)g.range(1, 3); r > 0; --r) { size_t i = (size_t)g.range(0, (int64_t)p.size() - 1); p.insert(p.begin() + (long)i, p[i]); }
        stat("walk.duplicated_vertices");
      }
      (k < ns ? subj : clip).push_back(p);
    }
    int si = (int)(g.next() % 3);
    run_some(g, "walk", scaled(subj, SCALES[si]), scaled(clip, SCALES[si]), thorough ? 8 : 6);
  }
  const int NL = thorough ? 200 : 6;
  for (int it = 0; it < NL; ++it) {
    Paths64 subj{rect_walk(g, (int)g.range(17, 40), 12)}, clip{rect_walk(g, (int)g.range(17, 40), 12)};
    run_some(g, "longwalk", subj, clip, 6);
  }
}
static void anchored(Rng& g, bool thorough) {
  const int N = thorough ? 3000 : 200;
  for (int it = 0; it < N; ++it) {
    int corner = (int)(g.next() % 4), k = (int)g.range(3, 4);
    bool same_orient = g.chance(70), ccw0 = g.coin();
    Paths64 subj, clip;
    for (int j = 0; j < k; ++j) {
      int w = (int)g.range(1, 4), h = (int)g.range(1, 4);
      if (g.chance(30)) h = 1 + (it % 3);
      R q = (corner & 1) ? R{4 - w, 0, 4, h} : R{0, 0, w, h};
      if (corner & 2) { q.b = 4 - h; q.t = 4; }
      Path64 p = rect(q, same_orient ? ccw0 : g.coin());
      if (g.chance(25)) std::rotate(p.begin(), p.begin() + (int)g.range(1, 3), p.end());
      ((j == 0 || g.chance(55)) ? subj : clip).push_back(p);
    }
    int si = (int)(g.next() % 3);
    run_some(g, "anchored", scaled(subj, SCALES[si]), scaled(clip, SCALES[si]), thorough ? 8 : 5);
  }
}
static void stacked(Rng& g, bool thorough) {   // sets of lattice rectangles with coincident copies
  auto rs = all_rects();
  const int N = thorough ? 2500 : 120;
  for (int it = 0; it < N; ++it) {
    Paths64 subj, clip;
    int ns = (int)g.range(1, 4), nc = (int)g.range(0, 4);
    for (int k = 0; k < ns; ++k) subj.push_back(rect(g.pick(rs), g.chance(75)));
    for (int k = 0; k < nc; ++k) clip.push_back(rect(g.pick(rs), g.chance(75)));
    if (g.chance(30)) subj.push_back(subj[0]);
    if (g.chance(20)) clip.push_back(subj[0]);
    int si = (int)(g.next() % 3);
    run_some(g, "multi", scaled(subj, SCALES[si]), scaled(clip, SCALES[si]), 5);
  }
}
static void others(Rng& g, bool thorough) {
  const int N = thorough ? 6000 : 300;
  for (int i = 0; i < N; ++i) {
    switch (i % 4) {
      case 0: {   // general position (joins are rare here: near-collinear neighbours only)
        GpInput in = gen_gp(g);
        run_some(g, "gp", in.subj, in.clip, 4);
        break; }
      case 1: {   // rectilinear with shared edges and touching corners, frames, histograms
        Input in; gen_rectilinear(g, in, g.coin() ? 1 : 10);
        run_some(g, "rect", in.subj, in.clip, 4);
        break; }
      case 2: {   // dense tiny lattice, arbitrary directions: collinear overlaps in every direction
        int range = (int)g.range(3, 12);
        auto mk = [&](int n) { Path64 p; for (int k = 0; k < n; ++k) p.emplace_back(g.range(0, range), g.range(0, range)); return p; };
        Paths64 s, cl; int ns = (int)g.range(2, 6), nc = (int)g.range(0, 4);
        for (int k = 0; k < ns; ++k) s.push_back(mk((int)g.range(3, 10)));
        for (int k = 0; k < nc; ++k) cl.push_back(mk((int)g.range(3, 10)));
        run_some(g, "dense", s, cl, 4);
        break; }
      default: {  // a polygon and a copy shifted by one unit: long nearly coincident edges (the check_curr_x distance test)
        int n = (int)g.range(3, 7); int64_t Rr = g.coin() ? 60 : 4000;
        Path64 p; for (int k = 0; k < n; ++k) p.emplace_back(g.range(-Rr, Rr), g.range(-Rr, Rr));
        Path64 q = p; int64_t dx = g.range(-1, 1), dy = g.range(-1, 1);
        for (auto& v : q) { v.x += dx; v.y += dy; }
        if (g.coin()) std::reverse(q.begin(), q.end());
        run_some(g, "shifted-copy", {p}, {q}, 4);
        break; }
    }
  }
}

int main(int argc, char** argv) {
  uint64_t seed = seed_from_args(argc, argv);
  bool thorough = thorough_from_args(argc, argv);
  Rng g(seed);
  const int ND = thorough ? 400000 : 40000;
  for (int i = 0; i < ND; ++i) direct_case(g);
  rect_pairs(g, thorough);
  walks(g, thorough);
  anchored(g, thorough);
  stacked(g, thorough);
  others(g, thorough);
  stat("executions", n_exec);
  stat("join_events", jt().nevents);
  flush_stats();
  return 0;
}
