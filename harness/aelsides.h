// Sink for hook H1 (clipper.verif.h) that additionally records the *side* bookkeeping of the sweep: for every edge of the
// AEL its join state, its output record and whether it is that record's front edge.  Produces the item list of the driver
// command AELSIDES (lean/ClipperVerif/Driver/AelSides.lean).  The AELVERIFY format of aeltrace.h is untouched.
//
// Needs unity.h included with VERIF_PRIVATE_ACCESS (reads ClipperBase::actives_, outrec_list_) and the hook events
// kJoin (6) / kSplit (7).  Items:
//   IP pos pt isOpen dxLeft | I1 pos pt dx | X i | RP i | R1 i      as in aeltrace.h
//   J i        CheckJoinLeft/Right joined the edges at positions i, i+1 (emitted after the join)
//   SP i       Split(e, pt) was entered for the edge at position i (emitted before the split)
//   S k (pt isOpen dx wc wc2 hot join orec front)*k                 snapshot; join 0 none / 1 left / 2 right;
//              orec = rank of e->outrec among the *closed* output records (= idx when there are no open paths), -1 if none;
//              front = IsFront(e).  Open edges always report orec -1 front 0 (the model does not track them).
// A kJoin event that names an edge the trace has not announced yet (CheckJoinLeft on the new left bound runs before the
// kInsertPair hook) is held back until that kInsertPair has been written.
//
// Independently of Lean the sink checks on the real data structure, at every event:
//   * pointer consistency: a closed edge with an outrec is that outrec's front_edge or back_edge, and both of them point back;
//   * joined edges have no outrec and come as adjacent (Right, Left) pairs;
//   * alternation: reading the closed edges that own an outrec from left to right, IsFront is true, false, true, ...
#pragma once
#include "common.h"
#include <unordered_set>
#ifndef CLIPPER2_VERIF
#error "aelsides.h needs the hooks: compile with -DCLIPPER2_VERIF"
#endif
namespace vh {
struct SidesTrace {
  std::string buf;
  long nitems = 0;
  bool record = true;               // false: only run the C++-side checks (probe mode)
  std::unordered_set<const Clipper2Lib::Active*> known;
  std::vector<const Clipper2Lib::Active*> pending_joins;
  std::string first_error;          // first C++-side check that failed during this Execute
  // totals over the process
  long nedges = 0, nhot_closed = 0, njoined = 0, nsnap = 0, njoin_ev = 0, nsplit_ev = 0, ndeferred = 0, nback_first = 0;
  void clear() { buf.clear(); nitems = 0; known.clear(); pending_joins.clear(); first_error.clear(); }
};
inline SidesTrace& sides_trace() { static thread_local SidesTrace t; return t; }

inline int sides_index_of(const Clipper2Lib::ClipperBase* c, const Clipper2Lib::Active* a) {
  int i = 0;
  for (const Clipper2Lib::Active* e = c->actives_; e; e = e->next_in_ael, ++i) if (e == a) return i;
  return -1;
}
// rank of an output record among the closed ones
inline int sides_rank(const Clipper2Lib::ClipperBase* c, const Clipper2Lib::OutRec* o) {
  int r = 0;
  for (size_t j = 0; j < o->idx && j < c->outrec_list_.size(); ++j) if (!c->outrec_list_[j]->is_open) ++r;
  return r;
}
inline void sides_fail(const std::string& why) {
  SidesTrace& t = sides_trace();
  if (t.first_error.empty()) t.first_error = why;
}
// the checks that need no model
inline void sides_check(const Clipper2Lib::ClipperBase* c, const char* where) {
  using namespace Clipper2Lib;
  SidesTrace& t = sides_trace();
  bool expect_front = true;
  int pos = 0;
  for (const Active* e = c->actives_; e; e = e->next_in_ael, ++pos) {
    t.nedges++;
    if (e->join_with != JoinWith::NoJoin) {
      t.njoined++;
      if (e->outrec) sides_fail(std::string(where) + ": joined edge with outrec at " + std::to_string(pos));
      if (e->join_with == JoinWith::Right && !(e->next_in_ael && e->next_in_ael->join_with == JoinWith::Left))
        sides_fail(std::string(where) + ": join Right without Left partner at " + std::to_string(pos));
      if (e->join_with == JoinWith::Left && !(e->prev_in_ael && e->prev_in_ael->join_with == JoinWith::Right))
        sides_fail(std::string(where) + ": join Left without Right partner at " + std::to_string(pos));
    }
    if (e->local_min->is_open || !e->outrec) continue;
    t.nhot_closed++;
    const OutRec* o = e->outrec;
    if (o->is_open) sides_fail(std::string(where) + ": closed edge owns open outrec at " + std::to_string(pos));
    if (e != o->front_edge && e != o->back_edge) sides_fail(std::string(where) + ": edge is neither front nor back of its outrec at " + std::to_string(pos));
    if (!o->front_edge || !o->back_edge || o->front_edge == o->back_edge || o->front_edge->outrec != o || o->back_edge->outrec != o)
      sides_fail(std::string(where) + ": outrec front/back pointers inconsistent at " + std::to_string(pos));
    bool front = (e == o->front_edge);
    if (front != expect_front) sides_fail(std::string(where) + ": sides do not alternate at " + std::to_string(pos));
    expect_front = !expect_front;
  }
  if (!expect_front) sides_fail(std::string(where) + ": odd number of closed edges with outrec");
}
inline void sides_snapshot(const Clipper2Lib::ClipperBase* c, const char* where) {
  using namespace Clipper2Lib;
  SidesTrace& t = sides_trace();
  sides_check(c, where);
  t.nsnap++;
  if (!t.record) return;
  int k = 0;
  for (const Active* e = c->actives_; e; e = e->next_in_ael) ++k;
  t.buf += " S " + std::to_string(k);
  for (const Active* e = c->actives_; e; e = e->next_in_ael) {
    bool hot = e->outrec != nullptr || e->join_with != JoinWith::NoJoin;
    bool open = e->local_min->is_open;
    int join = e->join_with == JoinWith::NoJoin ? 0 : (e->join_with == JoinWith::Left ? 1 : 2);
    int orec = (!open && e->outrec) ? sides_rank(c, e->outrec) : -1;
    bool front = (!open && e->outrec) ? (e == e->outrec->front_edge) : false;
    t.buf += " " + std::to_string(e->local_min->polytype == PathType::Subject ? 0 : 1) + " " + std::to_string(open ? 1 : 0) +
             " " + std::to_string(e->wind_dx) + " " + std::to_string(e->wind_cnt) + " " + std::to_string(e->wind_cnt2) + " " + (hot ? "1" : "0") +
             " " + std::to_string(join) + " " + std::to_string(orec) + " " + (front ? "1" : "0");
  }
  t.nitems++;
}
inline void sides_item(const std::string& s) {
  SidesTrace& t = sides_trace();
  if (t.record) t.buf += s;
  t.nitems++;
}
inline void sides_sink_fn(int ev, const Clipper2Lib::ClipperBase* c, const Clipper2Lib::Active* a) {
  using namespace Clipper2Lib;
  SidesTrace& t = sides_trace();
  auto ptype = [](const Active* e) { return std::to_string(e->local_min->polytype == PathType::Subject ? 0 : 1); };
  switch (ev) {
    case verif::kInsertPair:
      sides_item(" IP " + std::to_string(sides_index_of(c, a)) + " " + ptype(a) + " " + std::to_string(a->local_min->is_open ? 1 : 0) + " " + std::to_string(a->wind_dx));
      t.known.insert(a); t.known.insert(a->next_in_ael);
      for (const Active* j : t.pending_joins) { sides_item(" J " + std::to_string(sides_index_of(c, j))); t.ndeferred++; }
      t.pending_joins.clear();
      sides_snapshot(c, "IP"); break;
    case verif::kInsertOne:
      sides_item(" I1 " + std::to_string(sides_index_of(c, a)) + " " + ptype(a) + " " + std::to_string(a->wind_dx));
      t.known.insert(a);
      sides_snapshot(c, "I1"); break;
    case verif::kIntersect:
      sides_item(" X " + std::to_string(sides_index_of(c, a) - 1));
      sides_snapshot(c, "X"); break;
    case verif::kRemovePair:
      sides_item(" RP " + std::to_string(sides_index_of(c, a)));
      t.known.erase(a); if (a->next_in_ael) t.known.erase(a->next_in_ael);
      break;
    case verif::kRemoveOne:
      sides_item(" R1 " + std::to_string(sides_index_of(c, a)));
      t.known.erase(a);
      break;
    case verif::kSnapshot:
      sides_snapshot(c, "SNAP"); break;
    case verif::kJoin:
      t.njoin_ev++;
      if (!t.known.count(a) || !a->next_in_ael || !t.known.count(a->next_in_ael)) { t.pending_joins.push_back(a); break; }
      sides_item(" J " + std::to_string(sides_index_of(c, a)));
      sides_snapshot(c, "J"); break;
    case verif::kSplit:
      t.nsplit_ev++;
      sides_item(" SP " + std::to_string(sides_index_of(c, a)));
      break;
  }
}
struct SidesTraceScope {
  explicit SidesTraceScope(bool record = true) { sides_trace().clear(); sides_trace().record = record; Clipper2Lib::verif::ael_sink() = sides_sink_fn; }
  ~SidesTraceScope() { Clipper2Lib::verif::ael_sink() = nullptr; }
  std::string request(int ct, int fr) const {
    return "AELSIDES " + std::to_string(ct) + " " + std::to_string(fr) + " " + std::to_string(sides_trace().nitems) + sides_trace().buf;
  }
};
}  // namespace vh
