// C15 harness for the Z layer of the output ring assembly (USINGZ build only): every event of every Execute is replayed on the Lean model
// `Model/AelRingsZ.lean` (driver command AELRINGSZ), which must reproduce, at every snapshot, the engine's AEL field by field, the OutPt ring of
// every closed output record - live, finished or emptied by a join - triple for triple (x, y AND z) and in order, the number of callback calls so
// far, and at the end the complete callback log (arguments in the order passed - subject edge first -, the point as SetZ showed it, the z left in it).
//
// Inputs: general position (gp.h gen_gp, incl. staircases with horizontal edges and near-parallel edges); small-lattice inputs with and without
// horizontal edges and a sheared dense grid (coincident vertices, crossings at end points: the end-point branches of SetZ, AddOutPt's duplicate
// suppression followed by SetZ overwriting the old end, joins and splits) - for these only the model-level tie is claimed; a corpus.  Closed paths
// only (the SetZ calls for open-path records are not modelled).  Random z labels (multiples of 3, 3..900) on every input vertex.  No callback in
// ~25% of the runs; otherwise one of: `fresh` (z = 1000000 + call index), `hash` (z = a function of all five arguments' z), `keep` (leaves the z
// SetZ put there: end-point z or DefaultZ), `scribbleD` (ClipperD at precision 0 = scale 2, a PointD callback that also overwrites x and y - the
// ZCB proxy must copy back z only; the engine, its hooks and the trace are the same ClipperBase).  DefaultZ random when a callback is installed.
//
// Spec-level, on the rings as they stand at the end of the sweep (before CleanCollinear / BuildPath64): ZCHECK under IFGP = the Z clause of C15 in
// its own words, judged in Lean when Lean confirms general position.  Harness-level (F records): every U / IP / RP point is an input vertex with
// one of the z given there; a sweep of a general-position input (judged by Lean: IFGP) has no CheckJoinLeft/Right event (ZNOJOINS: the hypothesis of
// the `..._no_joins` theorems); the z handed to IntersectEdges is 0 or the z of an end point of one of the two edges (at the same
// location; outside general position also of an end point elsewhere - counted; ZNODISTANTZ under IFGP: never on a general-position input).
#define VERIF_PRIVATE_ACCESS
#include "unity.h"
#include "gp.h"
#include "aelringsz.h"
#include <set>
using namespace vh;

static const ClipType CTS[] = {ClipType::Intersection, ClipType::Union, ClipType::Difference, ClipType::Xor};
static const FillRule FRS[] = {FillRule::EvenOdd, FillRule::NonZero, FillRule::Positive, FillRule::Negative};

typedef RingsZTrace::Call Call;
static std::vector<Call>* g_calls = nullptr;
static void note_branch(const Point64& a, const Point64& b, const Point64& c, const Point64& d, const Point64& seen) {
  if (seen == a || seen == b) stat("setz.shown.end_point_of_first_edge");
  else if (seen == c || seen == d) stat("setz.shown.end_point_of_second_edge");
  else stat("setz.shown.default_z");
}
static void cb_fresh(const Point64& a, const Point64& b, const Point64& c, const Point64& d, Point64& pt) {
  Point64 seen = pt;
  pt.z = 1000000 + (int64_t)g_calls->size();
  note_branch(a, b, c, d, seen);
  g_calls->push_back(Call{a, b, c, d, seen, pt.z});
}
static void cb_hash(const Point64& a, const Point64& b, const Point64& c, const Point64& d, Point64& pt) {
  Point64 seen = pt;
  pt.z = 5000000 + (a.z * 7 + b.z * 11 + c.z * 13 + d.z * 17 + pt.z * 19 + (int64_t)(g_calls->size() % 5)) % 999983;
  note_branch(a, b, c, d, seen);
  g_calls->push_back(Call{a, b, c, d, seen, pt.z});
}
static void cb_keep(const Point64& a, const Point64& b, const Point64& c, const Point64& d, Point64& pt) {
  note_branch(a, b, c, d, pt);
  g_calls->push_back(Call{a, b, c, d, pt, pt.z});
}
// ClipperD(0): scale 2.  The user's callback sees descaled points; the log stores them rescaled (exact: powers of two, small coordinates)
static Point64 up(const PointD& p) { Point64 q((int64_t)(p.x * 2), (int64_t)(p.y * 2)); q.z = p.z; return q; }
static void cbD_scribble(const PointD& a, const PointD& b, const PointD& c, const PointD& d, PointD& pt) {
  Point64 seen = up(pt);
  pt.z = 2000000 + (int64_t)g_calls->size();
  note_branch(up(a), up(b), up(c), up(d), seen);
  g_calls->push_back(Call{up(a), up(b), up(c), up(d), seen, pt.z});
  pt.x += 12345.0; pt.y -= 777.0;   // must not move the solution
}

static std::string PZ(const Point64& p) { return S(p.x) + " " + S(p.y) + " " + S(p.z); }

static bool has_horizontal(const Paths64& ps) {
  for (const Path64& p : ps) { size_t n = p.size(); for (size_t i = 0; i < n; ++i) if (p[i].y == p[(i + 1) % n].y) return true; }
  return false;
}

static long long g_events = 0;

// mode: 0 none, 1 fresh, 2 hash, 3 keep, 4 scribbleD
static void run_one(Rng& g, Paths64 s, Paths64 cl, ClipType ct, FillRule fr, const std::string& kind, int mode, bool allow_tree) {
  for (auto* ps : {&s, &cl}) for (auto& p : *ps) for (auto& v : p) v.z = 3 * g.range(1, 300);
  std::vector<Call> calls; g_calls = &calls;
  int64_t default_z = mode ? g.range(-5, 5) : 0;
  if (mode && g.chance(30)) default_z = 0;
  bool pc = g.coin(), rs = g.coin(), tree = allow_tree && g.chance(25);
  bool ok;
  Paths64 es = s, ecl = cl;   // the engine's input (scaled for ClipperD)
  RingsZTraceScope trace;
  ringsz_trace().calls = &calls;
  if (mode == 4) {
    PathsD sd, cd;
    for (auto& p : s) { PathD q; for (auto& v : p) { PointD w((double)v.x, (double)v.y); w.z = v.z; q.push_back(w); } sd.push_back(q); }
    for (auto& p : cl) { PathD q; for (auto& v : p) { PointD w((double)v.x, (double)v.y); w.z = v.z; q.push_back(w); } cd.push_back(q); }
    for (auto* ps : {&es, &ecl}) for (auto& p : *ps) for (auto& v : p) { v.x *= 2; v.y *= 2; }
    ClipperD c(0);
    c.PreserveCollinear(pc); c.ReverseSolution(rs);
    c.AddSubject(sd); c.AddClip(cd);
    c.SetZCallback(cbD_scribble); c.DefaultZ = default_z;
    if (tree) { PolyTreeD t; ok = c.Execute(ct, fr, t); stat("exec.tree"); }
    else { PathsD sol; ok = c.Execute(ct, fr, sol); stat("exec.paths"); }
  } else {
    Clipper64 c;
    c.PreserveCollinear(pc); c.ReverseSolution(rs);
    c.AddSubject(s); c.AddClip(cl);
    if (mode == 1) c.SetZCallback(cb_fresh); else if (mode == 2) c.SetZCallback(cb_hash); else if (mode == 3) c.SetZCallback(cb_keep);
    c.DefaultZ = default_z;   // without a callback DefaultZ is never read
    if (!mode && g.coin()) c.DefaultZ = 9;
    Paths64 sol;
    if (tree) { PolyTree64 t; ok = c.Execute(ct, fr, t); stat("exec.tree"); }
    else { ok = c.Execute(ct, fr, sol); stat("exec.paths"); }
  }
  g_calls = nullptr;
  static const char* MODES[] = {"none", "fresh", "hash", "keep", "scribbleD"};
  std::string in = "kind=" + kind + " cb=" + MODES[mode] + " defaultZ=" + S(default_z) + " ct=" + std::to_string((int)ct) + " fr=" + std::to_string((int)fr) + " subj(x y z)=";
  for (auto& p : es) { in += "["; for (auto& v : p) in += PZ(v) + ","; in += "]"; }
  in += " clip(x y z)=";
  for (auto& p : ecl) { in += "["; for (auto& v : p) in += PZ(v) + ","; in += "]"; }
  RingsZTrace& t = ringsz_trace();
  if (!ok) emitF("execute-returned-false", in);
  if (t.has_horz) stat("traces.with_horizontal_edge");
  if (t.has_horz_join) stat("traces.cut_at_horizontal_join." + kind);
  if (t.hh_cross) { stat("skipped.horizontal_crosses_horizontal_undetermined." + kind); return; }
  if (!t.first_error.empty()) emitF("rings-check", t.first_error + " " + in);
  if (!trace.usable()) { emitF("trace-incomplete", "pending split/join items at the end of the sweep " + in); return; }
  emitM("ael-rings-z." + kind, trace.request((int)ct, (int)fr, mode != 0, default_z), "ok");
  stat(std::string("callback.") + MODES[mode]);
  stat("callback.calls", (long long)calls.size());
  stat("trace.items", (long long)t.items.size());
  stat("engine.rings_finished", t.last_done);
  stat("engine.outpts_created", (long long)t.nops_seen);
  if (t.last_live && !t.has_horz_join) emitF("live-ring-after-sweep", in);
  g_events += (long long)t.items.size();
  stat("kind." + kind);
  {
    // the `…_no_joins` theorems of Props/C15Rings.lean apply to traces without J items: on the general-position kinds every trace must be one
    long nj = 0; for (const std::string& it : t.items) if (it.compare(0, 3, " J ") == 0) ++nj;
    bool gpk = kind == "gp" || kind == "corpus.triangles" || kind == "corpus.pentagram" || kind == "corpus.bowtie";
    if (nj) stat("traces.with_join_event." + kind); else stat("traces.without_join_event");
    if (gpk) emitS("no-joins.ifgp." + kind, "IFGP " + S(es) + " " + S(ecl) + " 0 ZNOJOINS " + std::to_string(nj));   // judged only if Lean confirms general position
  }
  // harness-level checks on the trace's points
  std::map<std::pair<int64_t, int64_t>, std::set<int64_t>> zin;
  for (auto* ps : {&es, &ecl}) for (auto& p : *ps) for (auto& v : p) zin[{v.x, v.y}].insert(v.z);
  for (const Point64& v : t.vertex_pts) {
    auto it = zin.find({v.x, v.y});
    if (it == zin.end() || !it->second.count(v.z)) emitF("vertex-event-not-an-input-vertex-with-its-z", PZ(v) + " " + in);
    stat("events.vertex_points_checked");
  }
  {
    bool gpkind = kind == "gp" || kind == "corpus.triangles" || kind == "corpus.pentagram" || kind == "corpus.bowtie";
    long distant = 0;
    for (size_t k = 0; k < t.x_pts.size(); ++k) {
      const Point64& v = t.x_pts[k];
      switch (t.x_cls[k]) {
        case 0: stat("events.intersect.z_handed_over.zero"); break;
        case 1: stat("events.intersect.z_handed_over.z_of_the_end_point_it_coincides_with"); break;
        case 2:
          // outside general position only: without a callback this z (of a vertex somewhere else) stays in the output
          stat("events.intersect.z_handed_over.z_of_an_end_point_elsewhere." + kind); ++distant;
          break;
        default: emitF("intersect-point-z-unexplained", PZ(v) + " " + in);
      }
      if (mode == 0) stat("events.intersect.without_callback");
    }
    // judged only if Lean confirms general position: no IntersectEdges is handed the z of a vertex that lies elsewhere
    if (gpkind) emitS("no-distant-z.ifgp." + kind, "IFGP " + S(es) + " " + S(ecl) + " 0 ZNODISTANTZ " + std::to_string(distant));
  }
  // the Z clause of C15 on the rings at the end of the sweep, judged in Lean if the input is in general position
  {
    std::string ins; size_t nin = 0;
    for (auto* ps : {&es, &ecl}) for (auto& p : *ps) for (auto& v : p) { ++nin; ins += " " + PZ(v); }
    std::string sols; size_t nsol = 0; long unaccounted = 0;
    std::set<int64_t> rets; for (auto& k : calls) rets.insert(k.ret);
    for (auto& rg : t.last_rings) for (auto& v : rg) {
      ++nsol; sols += " " + PZ(v);
      auto it = zin.find({v.x, v.y});
      bool okv = (it != zin.end() && it->second.count(v.z)) || (mode && rets.count(v.z)) || (!mode && it == zin.end() && v.z == 0);
      if (!okv) ++unaccounted;
    }
    std::string logs; for (auto& k : calls) logs += " " + S(k.ret);
    std::string req = "ZCHECK " + std::string(mode ? "1 " : "0 ") + "0 " + std::to_string(nin) + ins + " " + std::to_string(nsol) + sols + " " + std::to_string(calls.size()) + logs;
    emitS("zcheck-rings.ifgp." + kind, "IFGP " + S(es) + " " + S(ecl) + " 0 " + req);
    stat("ring_triples.checked", (long long)nsol);
    if (unaccounted) stat("ring_triples.unaccounted." + kind, unaccounted);   // expected only outside general position (by-value points of Split / CheckJoin)
  }
}

static int pick_mode(Rng& g, bool smallcoords) {
  if (g.chance(25)) return 0;
  int m = (int)g.range(1, smallcoords ? 4 : 3);
  return m;
}
static void run_all16(Rng& g, const Paths64& s, const Paths64& cl, const std::string& kind, bool allow_tree, bool smallcoords) {
  for (ClipType ct : CTS) for (FillRule fr : FRS) run_one(g, s, cl, ct, fr, kind, pick_mode(g, smallcoords), allow_tree);
}
static void run_some(Rng& g, const Paths64& s, const Paths64& cl, const std::string& kind, int reps) {
  for (int r = 0; r < reps; ++r) run_one(g, s, cl, CTS[g.next() % 4], FRS[g.next() % 4], kind, pick_mode(g, true), g.coin());
}

int main(int argc, char** argv) {
  Rng g(seed_from_args(argc, argv));
  bool thorough = thorough_from_args(argc, argv);
  {
    run_all16(g, {Path64{Point64(0, 0), Point64(100, 10), Point64(40, 90)}}, {Path64{Point64(50, -20), Point64(130, 60), Point64(20, 50)}}, "corpus.triangles", true, true);
    run_all16(g, {Path64{Point64(0, 1000), Point64(588, -809), Point64(-951, 309), Point64(951, 311), Point64(-588, -807)}},
              {Path64{Point64(0, -400), Point64(410, 3), Point64(-2, 400), Point64(-400, -5)}}, "corpus.pentagram", true, true);
    run_all16(g, {Path64{Point64(0, 0), Point64(10, 2), Point64(14, 12), Point64(4, 10)}, Path64{Point64(10, 2), Point64(20, 4), Point64(24, 14), Point64(14, 12)}},
              {Path64{Point64(5, 5), Point64(17, 7), Point64(19, 17), Point64(7, 15)}}, "corpus.shared-edge", false, true);
    run_all16(g, {Path64{Point64(0, 0), Point64(10, 1), Point64(11, 11), Point64(1, 10)}, Path64{Point64(11, 11), Point64(21, 12), Point64(22, 22), Point64(12, 21)}},
              {Path64{Point64(1, 10), Point64(11, 11), Point64(12, 21), Point64(2, 20)}}, "corpus.touching-corners", false, true);
    // a clip vertex on a subject edge, a subject vertex on a clip edge, and a common vertex: the end-point branches of SetZ
    run_all16(g, {Path64{Point64(0, 0), Point64(20, 2), Point64(12, 22)}}, {Path64{Point64(10, 1), Point64(30, -9), Point64(16, 12), Point64(25, 30)}}, "corpus.vertex-on-edge", true, true);
    run_all16(g, {Path64{Point64(0, 0), Point64(10, 3), Point64(4, 12)}, Path64{Point64(0, 0), Point64(10, 3), Point64(4, 12)}}, {Path64{Point64(0, 0), Point64(10, 3), Point64(4, 12)}}, "corpus.coincident", false, true);
    run_all16(g, {Path64{Point64(0, 0), Point64(20, 21), Point64(21, 1), Point64(1, 20)}}, {Path64{Point64(5, -3), Point64(16, 8), Point64(4, 25)}}, "corpus.bowtie", true, true);
    run_all16(g, {rect_path(0, 0, 100, 100)}, {rect_path(50, 37, 150, 141)}, "corpus.squares", true, true);
    run_all16(g, {rect_path(0, 0, 10, 10), rect_path(10, 10, 20, 20)}, {rect_path(0, 10, 10, 20)}, "corpus.rect-touching-corners", false, true);
  }
  int N = thorough ? 900 : 90;
  for (int i = 0; i < N; ++i) {
    switch (i % 6) {
      case 0: case 1: case 2: {  // general position, all 16 ct x fr
        GpInput in = gen_gp(g);
        run_all16(g, in.subj, in.clip, "gp", true, in.R <= ((int64_t)1 << 40));
        stat("input.magnitude." + std::to_string(in.R));
        break; }
      case 3: {  // small random lattices without horizontal edges: coincident vertices, crossings at vertices, collinear overlaps
        int range = (i % 4 == 0) ? 6 : (i % 4 == 1 ? 12 : (i % 4 == 2 ? 40 : 1000));
        auto mk = [&](int n) {
          Path64 p;
          for (int tries = 0; tries < 50; ++tries) {
            p.clear();
            for (int k = 0; k < n; ++k) p.emplace_back(g.range(0, range), g.range(0, range));
            if (!has_horizontal({p})) break;
          }
          return p; };
        Paths64 s, cl; int ns = (int)g.range(1, 3), nc = (int)g.range(1, 3);
        for (int k = 0; k < ns; ++k) s.push_back(mk((int)g.range(3, 7)));
        for (int k = 0; k < nc; ++k) cl.push_back(mk((int)g.range(3, 7)));
        run_some(g, s, cl, "lattice", 6);
        break; }
      case 4: {  // small lattice, horizontal edges allowed
        int range = (i % 4 == 0) ? 8 : 40;
        auto mk = [&](int n) { Path64 p; for (int k = 0; k < n; ++k) p.emplace_back(g.range(0, range), g.range(0, range)); return p; };
        Paths64 s, cl; int ns = (int)g.range(1, 3), nc = (int)g.range(1, 3);
        for (int k = 0; k < ns; ++k) s.push_back(mk((int)g.range(3, 7)));
        for (int k = 0; k < nc; ++k) cl.push_back(mk((int)g.range(3, 7)));
        run_some(g, s, cl, "lattice-h", 6);
        break; }
      default: {  // dense tiny grid, sheared so that no edge is horizontal
        int range = (int)g.range(3, 9);
        auto mk = [&](int n) {
          Path64 p;
          for (int tries = 0; tries < 50; ++tries) {
            p.clear();
            for (int k = 0; k < n; ++k) { int64_t x = g.range(0, range), y = g.range(0, range); p.emplace_back(x, 3 * y + x); }
            if (!has_horizontal({p})) break;
          }
          return p; };
        Paths64 s, cl; int ns = (int)g.range(2, 5), nc = (int)g.range(0, 3);
        for (int k = 0; k < ns; ++k) s.push_back(mk((int)g.range(3, 8)));
        for (int k = 0; k < nc; ++k) cl.push_back(mk((int)g.range(3, 8)));
        run_some(g, s, cl, "dense", 6);
        break; }
    }
  }
  RingsZTrace& t = ringsz_trace();
  stat("events.update", t.n_update);
  stat("events.insert_pair", t.n_ip);
  stat("events.intersect", t.n_x);
  stat("events.intersect.point_from_intersect_node", t.n_x_node);
  stat("events.intersect.point_from_local_minimum", t.n_x_locmin);
  stat("events.intersect.point_from_maximum", t.n_x_maxima);
  stat("events.intersect.point_from_horizontal", t.n_x_horz);
  stat("events.remove_pair", t.n_rp);
  stat("events.join", t.n_join);
  stat("events.split", t.n_split);
  stat("trace.snapshots", t.n_snap);
  stat("trace.ring_points_dumped", t.n_ring_points);
  flush_stats();
  return 0;
}
