// Common part of every correspondence harness (DESIGN.md §2.3, Tie C).
// A harness is one C++17 program per property.  It is compiled against /repo's *current* sources,
// calls the real code in-process and prints one record per line on stdout:
//
//   M <TAB> label <TAB> request <TAB> expected     model-level: the Lean model (cvdriver) must answer `expected`
//   S <TAB> label <TAB> request <TAB> expected     spec-level: the Lean Spec judges the real result (normally `ok`)
//   F <TAB> label <TAB> description                a property failure established on the real code alone
//   # key value                                     statistics for the evidence file
//
// Every random choice derives from the seed given as argv[1]; argv[2] is the tier (quick|thorough).
#pragma once
#include <cstdint>
#include <cstdio>
#include <cstring>
#include <cstdlib>
#include <string>
#include <vector>
#include <map>
#include <sstream>
#include <algorithm>
#include <functional>

#include "clipper2/clipper.h"

namespace vh {
using namespace Clipper2Lib;

struct Rng {
  uint64_t s;
  explicit Rng(uint64_t seed) {
    // scramble the seed: consecutive seeds must not give shifted copies of one stream
    uint64_t z = seed + 0x1234567ull;
    z = (z ^ (z >> 33)) * 0xFF51AFD7ED558CCDull;
    z = (z ^ (z >> 33)) * 0xC4CEB9FE1A85EC53ull;
    s = z ^ (z >> 33);
  }
  uint64_t next() {  // splitmix64
    uint64_t z = (s += 0x9E3779B97F4A7C15ull);
    z = (z ^ (z >> 30)) * 0xBF58476D1CE4E5B9ull;
    z = (z ^ (z >> 27)) * 0x94D049BB133111EBull;
    return z ^ (z >> 31);
  }
  // uniform in [lo, hi]
  int64_t range(int64_t lo, int64_t hi) {
    uint64_t span = (uint64_t)hi - (uint64_t)lo + 1;
    if (span == 0) return (int64_t)next();
    return (int64_t)((uint64_t)lo + next() % span);
  }
  bool coin() { return next() & 1; }
  bool chance(int pct) { return (int)(next() % 100) < pct; }
  template <class T> const T& pick(const std::vector<T>& v) { return v[next() % v.size()]; }
  double unit() { return (double)(next() >> 11) * (1.0 / 9007199254740992.0); }
};

inline uint64_t seed_from_args(int argc, char** argv) {
  return argc > 1 ? strtoull(argv[1], nullptr, 10) : 1;
}
inline bool thorough_from_args(int argc, char** argv) {
  return argc > 2 && std::string(argv[2]) == "thorough";
}

// ---- printing in the line protocol
inline std::string hexd(double d) {
  uint64_t u; memcpy(&u, &d, 8);
  char b[20]; snprintf(b, sizeof b, "%016llx", (unsigned long long)u);
  return b;
}
inline std::string S(int64_t v) { return std::to_string(v); }
inline std::string S(const Point64& p) { return S(p.x) + " " + S(p.y); }
inline std::string S(const Path64& p) {
  std::string s = std::to_string(p.size());
  for (auto& q : p) { s += ' '; s += S(q); }
  return s;
}
inline std::string S(const Paths64& ps) {
  std::string s = std::to_string(ps.size());
  for (auto& p : ps) { s += ' '; s += S(p); }
  return s;
}
// inverse of S(Paths64) on a token stream (used by the single-input mode that the shrinker of ./check drives)
inline bool parse_paths(std::istream& is, Paths64& out) {
  long long n; if (!(is >> n) || n < 0 || n > 100000) return false;
  out.clear();
  for (long long i = 0; i < n; ++i) {
    long long m; if (!(is >> m) || m < 0 || m > 10000000) return false;
    Path64 p;
    for (long long k = 0; k < m; ++k) { long long x, y; if (!(is >> x >> y)) return false; p.emplace_back((int64_t)x, (int64_t)y); }
    out.push_back(p);
  }
  return true;
}
inline std::string SD(const PathD& p) {
  std::string s = std::to_string(p.size());
  for (auto& q : p) { s += ' '; s += hexd(q.x); s += ' '; s += hexd(q.y); }
  return s;
}
inline std::string SD(const PathsD& ps) {
  std::string s = std::to_string(ps.size());
  for (auto& p : ps) { s += ' '; s += SD(p); }
  return s;
}

inline std::map<std::string, long long>& stats() { static std::map<std::string, long long> m; return m; }
inline void stat(const std::string& k, long long d = 1) { stats()[k] += d; }

inline void emitM(const std::string& label, const std::string& req, const std::string& expected) {
  printf("M\t%s\t%s\t%s\n", label.c_str(), req.c_str(), expected.c_str());
  stat("lines." + label);
}
inline void emitS(const std::string& label, const std::string& req, const std::string& expected = "ok") {
  printf("S\t%s\t%s\t%s\n", label.c_str(), req.c_str(), expected.c_str());
  stat("lines." + label);
}
inline void emitF(const std::string& label, const std::string& descr) {
  printf("F\t%s\t%s\n", label.c_str(), descr.c_str());
}
inline void flush_stats() {
  for (auto& kv : stats()) printf("# %s %lld\n", kv.first.c_str(), kv.second);
  fflush(stdout);
}

// ---- canonical form of closed path sets (rotate to smallest vertex, sort)
inline Path64 canon_closed(Path64 p) {
  if (p.empty()) return p;
  size_t best = 0;
  for (size_t i = 1; i < p.size(); ++i)
    if (p[i].x < p[best].x || (p[i].x == p[best].x && p[i].y < p[best].y)) best = i;
  std::rotate(p.begin(), p.begin() + best, p.end());
  return p;
}
inline bool path_less(const Path64& a, const Path64& b) {
  if (a.size() != b.size()) return a.size() < b.size();
  for (size_t i = 0; i < a.size(); ++i) {
    if (a[i].x != b[i].x) return a[i].x < b[i].x;
    if (a[i].y != b[i].y) return a[i].y < b[i].y;
  }
  return false;
}
inline Paths64 canon_closed(Paths64 ps) {
  for (auto& p : ps) p = canon_closed(p);
  std::sort(ps.begin(), ps.end(), path_less);
  return ps;
}

// ---- generators shared by several properties
// random polygon: n vertices uniformly in [-r, r]^2 (self-intersecting in general)
inline Path64 rand_poly(Rng& g, int n, int64_t r, int64_t cx = 0, int64_t cy = 0) {
  Path64 p;
  for (int i = 0; i < n; ++i) p.emplace_back(cx + g.range(-r, r), cy + g.range(-r, r));
  return p;
}
// star-shaped polygon around (cx,cy)
inline Path64 star_poly(Rng& g, int n, int64_t rmin, int64_t rmax, int64_t cx = 0, int64_t cy = 0) {
  Path64 p;
  std::vector<double> ang;
  for (int i = 0; i < n; ++i) ang.push_back(g.unit() * 6.283185307179586);
  std::sort(ang.begin(), ang.end());
  for (int i = 0; i < n; ++i) {
    double rr = (double)rmin + g.unit() * (double)(rmax - rmin);
    p.emplace_back(cx + (int64_t)std::llround(rr * std::cos(ang[i])), cy + (int64_t)std::llround(rr * std::sin(ang[i])));
  }
  if (g.coin()) std::reverse(p.begin(), p.end());
  return p;
}
inline Path64 rect_path(int64_t l, int64_t t, int64_t r, int64_t b) {
  return Path64{Point64(l, t), Point64(r, t), Point64(r, b), Point64(l, b)};
}

}  // namespace vh
