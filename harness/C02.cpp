// C02 harness: the real Clipper64 on rectilinear (axis-parallel) inputs; every solution is judged by the
// verified Lean checker (RECTCHECK: rectilinear, coordinate provenance, per-cell winding numbers, exact area).
// One S record per Execute (PreserveCollinear on/off, ReverseSolution on/off).
//  (i)   small scope: ordered pairs of the 100 axis-parallel rectangles with corners on {0..4}^2,
//        all 4 clip types x 4 fill rules, at scales 1, 7 and 2^30, seeded orientations
//        (thorough: all 10000 pairs x PreserveCollinear on/off; quick: a seeded 1/8 sample of the pairs)
//  (ii)  random closed rectilinear walks, 4-16 vertices on a 6x6 lattice (self-intersecting, self-overlapping,
//        collinear vertices, 180-degree spikes / zero-width sections, repeated edges, touching corners),
//        1-3 paths each as subject and clip, scales 1, 7, 2^30 (optionally translated) and 2^58
//  (ii-b) a few long walks (17-40 vertices) on a 12x12 lattice
//  (iii) sets of up to 5 lattice rectangles per side with coincident copies (subject == clip path included)
#include "unity.h"
#include "common.h"
using namespace vh;

static const int64_t SCALES[4] = {1, 7, (int64_t)1 << 30, (int64_t)1 << 58};  // 6 * 2^58 < 2^62 (the engine's coordinate range)

static Path64 scaled(const Path64& p, int64_t k, int64_t ox = 0, int64_t oy = 0) {
  Path64 r;
  for (auto& q : p) r.emplace_back(q.x * k + ox, q.y * k + oy);
  return r;
}
static Paths64 scaled(const Paths64& ps, int64_t k, int64_t ox = 0, int64_t oy = 0) {
  Paths64 r;
  for (auto& p : ps) r.push_back(scaled(p, k, ox, oy));
  return r;
}

static long long n_exec = 0;

static void run_one(const std::string& label, const Paths64& subj, const Paths64& clip, ClipType ct, FillRule fr,
                    bool pc, bool rev, bool also_area) {
  Clipper64 c;
  c.PreserveCollinear(pc);
  c.ReverseSolution(rev);
  c.AddSubject(subj);
  c.AddClip(clip);
  Paths64 sol;
  bool ok = c.Execute(ct, fr, sol);
  ++n_exec;
  if (!ok) { emitF(label, "Execute returned false"); return; }
  std::string args = std::to_string((int)ct) + " " + std::to_string((int)fr) + " ";
  // The proved checker takes paths whose edges are non-degenerate.  Repeated vertices (zero-length edges) given to the engine
  // are removed for the judge only: they change neither a winding number nor the set of x / y values of the input.
  auto strip = [](const Paths64& ps) {
    Paths64 r;
    for (auto& p : ps) {
      Path64 q;
      for (auto& v : p) if (q.empty() || !(q.back() == v)) q.push_back(v);
      while (q.size() > 1 && q.front() == q.back()) q.pop_back();
      if (q.size() >= 2) r.push_back(q);
    }
    return r;
  };
  std::string tail = S(strip(subj)) + " " + S(strip(clip)) + " " + S(sol);
  emitS(label, "RECTCHECK " + args + (rev ? "1 " : "0 ") + tail);
  if (also_area) emitS(label + ".area", "SPEC_AREA_RECT " + args + tail);
  stat(std::string("exec.ct") + std::to_string((int)ct));
  stat(std::string("exec.fr") + std::to_string((int)fr));
  stat(pc ? "exec.preserve_collinear_on" : "exec.preserve_collinear_off");
  stat(rev ? "exec.reverse_on" : "exec.reverse_off");
  stat("sol.paths." + std::to_string(std::min<size_t>(sol.size(), 6)));
  if (sol.empty()) stat("sol.empty");
  size_t nv = 0;
  for (auto& p : sol) nv += p.size();
  stat("sol.vertices.total", (long long)nv);
}

// ---- (i) rectangles on the 4x4 cell grid
struct R { int l, b, r, t; };
static std::vector<R> all_rects() {
  std::vector<R> v;
  for (int l = 0; l < 5; ++l) for (int r = l + 1; r < 5; ++r)
    for (int b = 0; b < 5; ++b) for (int t = b + 1; t < 5; ++t) v.push_back({l, b, r, t});
  return v;
}
static Path64 rect(const R& q, bool ccw) {
  Path64 p{Point64(q.l, q.b), Point64(q.r, q.b), Point64(q.r, q.t), Point64(q.l, q.t)};
  if (!ccw) std::reverse(p.begin(), p.end());
  return p;
}
static const char* relation(const R& a, const R& b) {
  bool sepx = a.r < b.l || b.r < a.l, sepy = a.t < b.b || b.t < a.b;
  if (sepx || sepy) return "disjoint";
  bool tx = a.r == b.l || b.r == a.l, ty = a.t == b.b || b.t == a.b;
  if (tx && ty) return "touch_corner";
  if (tx || ty) return "touch_edge";
  if (a.l == b.l && a.r == b.r && a.b == b.b && a.t == b.t) return "equal";
  bool shared = a.l == b.l || a.r == b.r || a.b == b.b || a.t == b.t;
  return shared ? "overlap_shared_edge_line" : "overlap_general";
}

static void rect_pairs(Rng& g, bool thorough) {
  auto rs = all_rects();
  static const ClipType cts[4] = {ClipType::Intersection, ClipType::Union, ClipType::Difference, ClipType::Xor};
  static const FillRule frs[4] = {FillRule::EvenOdd, FillRule::NonZero, FillRule::Positive, FillRule::Negative};
  for (size_t i = 0; i < rs.size(); ++i)
    for (size_t j = 0; j < rs.size(); ++j) {
      if (!thorough && g.next() % 8 != 0) continue;
      stat("rectpair.pairs");
      stat(std::string("rectpair.rel.") + relation(rs[i], rs[j]));
      for (int si = 0; si < 3; ++si) {
        // orientation of the two rectangles: seeded, all four combinations occur
        bool sccw = g.coin(), cccw = g.coin();
        stat(std::string("rectpair.orient.") + (sccw ? "ccw" : "cw") + "_" + (cccw ? "ccw" : "cw"));
        Paths64 subj{scaled(rect(rs[i], sccw), SCALES[si])};
        Paths64 clip{scaled(rect(rs[j], cccw), SCALES[si])};
        for (int a = 0; a < 4; ++a)
          for (int b = 0; b < 4; ++b) {
            std::string label = "rectpair.scale" + std::to_string(si);
            if (thorough) {
              for (int pc = 0; pc < 2; ++pc) run_one(label, subj, clip, cts[a], frs[b], pc, g.coin(), false);
            } else {
              run_one(label, subj, clip, cts[a], frs[b], g.coin(), g.coin(), false);
            }
          }
      }
    }
}

// ---- (ii) random closed rectilinear walks on the lattice {0..6}^2
// Alternating horizontal / vertical moves; the last two moves return to the start, so the path is closed,
// every edge is axis-parallel and non-degenerate.  Nothing prevents self-intersection, overlap with earlier
// edges, zero-width sections (out and back along the same line) or touching corners.
static Path64 rect_walk(Rng& g, int n /* >= 4 */, int L) {
  // m alternating corner pairs: v(2j) = (X[j], Y[j]), v(2j+1) = (X[j+1 mod m], Y[j]); cyclically adjacent X (and Y)
  // differ, so every edge is non-degenerate.  The remaining n - 2m vertices are inserted on the lines of existing
  // edges: between the end points (collinear vertex) or beyond one (180-degree spike, zero-width section).
  int extra = (n > 4 && g.chance(50)) ? (int)g.range(0, std::min(3, n - 4)) : 0;
  if ((n - extra) % 2) ++extra;
  if (n - extra < 4) extra = n - 4;
  int m = (n - extra) / 2;
  std::vector<int> X(m), Y(m);
  for (;;) {
    for (int j = 0; j < m; ++j) { X[j] = (int)g.range(0, L); Y[j] = (int)g.range(0, L); }
    bool ok = true;
    for (int j = 0; j < m; ++j) if (X[j] == X[(j + 1) % m] || Y[j] == Y[(j + 1) % m]) ok = false;
    if (ok) break;
  }
  Path64 p;
  for (int j = 0; j < m; ++j) { p.emplace_back(X[j], Y[j]); p.emplace_back(X[(j + 1) % m], Y[j]); }
  for (int e = 0; e < extra; ++e) {
    size_t i = (size_t)g.range(0, (int64_t)p.size() - 1);
    Point64 a = p[i], b = p[(i + 1) % p.size()], c = a;
    for (int tries = 0; tries < 50; ++tries) {
      c = a;
      if (a.y == b.y) c.x = g.range(0, L); else c.y = g.range(0, L);
      if (!(c == a) && !(c == b)) break;
      c = a;
    }
    if (c == a) continue;
    bool between = (c.x > std::min(a.x, b.x) && c.x < std::max(a.x, b.x)) || (c.y > std::min(a.y, b.y) && c.y < std::max(a.y, b.y));
    stat(between ? "walk.collinear_vertex" : "walk.spike_vertex");
    p.insert(p.begin() + (long)i + 1, c);
  }
  if (g.coin()) std::reverse(p.begin(), p.end());
  if (g.coin()) std::rotate(p.begin(), p.begin() + g.range(0, (int64_t)p.size() - 1), p.end());
  return p;
}

static bool self_touching(const Path64& p) {
  // a vertex visited twice (touching corner / repeated vertex)
  for (size_t i = 0; i < p.size(); ++i)
    for (size_t j = i + 1; j < p.size(); ++j)
      if (p[i] == p[j]) return true;
  return false;
}
static bool has_overlap(const Path64& p) {
  // two distinct edges on the same line with overlapping interiors (repeated / zero-width section)
  size_t n = p.size();
  for (size_t i = 0; i < n; ++i)
    for (size_t j = i + 1; j < n; ++j) {
      const Point64 &a = p[i], &b = p[(i + 1) % n], &c = p[j], &d = p[(j + 1) % n];
      if (a.x == b.x && c.x == d.x && a.x == c.x &&
          std::max(std::min(a.y, b.y), std::min(c.y, d.y)) < std::min(std::max(a.y, b.y), std::max(c.y, d.y))) return true;
      if (a.y == b.y && c.y == d.y && a.y == c.y &&
          std::max(std::min(a.x, b.x), std::min(c.x, d.x)) < std::min(std::max(a.x, b.x), std::max(c.x, d.x))) return true;
    }
  return false;
}

// ---- (ii-b) a few long walks on a 12x12 lattice (many self-intersections and coincidences per input)
static void long_walks(Rng& g, bool thorough) {
  static const ClipType cts[4] = {ClipType::Intersection, ClipType::Union, ClipType::Difference, ClipType::Xor};
  static const FillRule frs[4] = {FillRule::EvenOdd, FillRule::NonZero, FillRule::Positive, FillRule::Negative};
  const int N = thorough ? 400 : 8;
  for (int it = 0; it < N; ++it) {
    Paths64 subj, clip;
    int ns = (int)g.range(1, 2), nc = (int)g.range(1, 2);
    for (int k = 0; k < ns + nc; ++k) (k < ns ? subj : clip).push_back(rect_walk(g, (int)g.range(17, 40), 12));
    stat("longwalk.inputs");
    int si = (int)(g.next() % 4);
    Paths64 s2 = scaled(subj, SCALES[si]), c2 = scaled(clip, SCALES[si]);
    for (int a = 0; a < 4; ++a)
      for (int b = 0; b < 4; ++b)
        run_one("longwalk.scale" + std::to_string(si), s2, c2, cts[a], frs[b], g.coin(), g.chance(25), false);
  }
}

static void random_walks(Rng& g, bool thorough) {
  static const ClipType cts[4] = {ClipType::Intersection, ClipType::Union, ClipType::Difference, ClipType::Xor};
  static const FillRule frs[4] = {FillRule::EvenOdd, FillRule::NonZero, FillRule::Positive, FillRule::Negative};
  const int N = thorough ? 12000 : 400;
  for (int it = 0; it < N; ++it) {
    Paths64 subj, clip;
    int ns = (int)g.range(1, 3), nc = (int)g.range(1, 3);
    for (int k = 0; k < ns + nc; ++k) {
      int n = (int)g.range(4, 16);
      Path64 p = rect_walk(g, n, 6);
      stat("walk.vertices." + std::to_string(p.size()));
      if (self_touching(p)) stat("walk.repeated_vertex");
      if (has_overlap(p)) stat("walk.overlapping_edges");
      stat(Area(p) > 0 ? "walk.area_pos" : (Area(p) < 0 ? "walk.area_neg" : "walk.area_zero"));
      // repeated vertices (zero-length edges, also tripled) and, now and then, a path that is nothing but a doubled segment
      // with repeated end points: the sweep then holds zero-extent horizontals and fully retraced edges
      if (g.chance(25)) {
        for (int r = (int)g.range(1, 3); r > 0; --r) { size_t i = (size_t)g.range(0, (int64_t)p.size() - 1); p.insert(p.begin() + (long)i, p[i]); }
        stat("walk.duplicated_vertices");
      }
      if (g.chance(6)) {
        Point64 a(g.range(0, 6), g.range(0, 6)), b = a;
        if (g.coin()) b.x = (a.x + g.range(1, 5)) % 7; else b.y = (a.y + g.range(1, 5)) % 7;
        p = Path64{a, a, b, b};
        stat("walk.doubled_segment_path");
      }
      (k < ns ? subj : clip).push_back(p);
    }
    stat("walk.inputs");
    int si = g.chance(12) ? 3 : (int)(g.next() % 3);
    int64_t ox = 0, oy = 0;
    if (si < 3 && g.chance(30)) { ox = g.range(-50, 50) * SCALES[si]; oy = g.range(-50, 50) * SCALES[si]; stat("walk.translated"); }
    Paths64 s2 = scaled(subj, SCALES[si], ox, oy), c2 = scaled(clip, SCALES[si], ox, oy);
    std::string label = "walk.scale" + std::to_string(si);
    for (int a = 0; a < 4; ++a)
      for (int b = 0; b < 4; ++b) {
        bool pc = g.coin(), rev = g.chance(25);
        run_one(label, s2, c2, cts[a], frs[b], pc, rev, a == 1 && b == 1);
      }
  }
}

// ---- (iii) directed degenerate families built from rectangles: stacked copies, shared edges, grids
static void directed(Rng& g, bool thorough) {
  static const ClipType cts[4] = {ClipType::Intersection, ClipType::Union, ClipType::Difference, ClipType::Xor};
  static const FillRule frs[4] = {FillRule::EvenOdd, FillRule::NonZero, FillRule::Positive, FillRule::Negative};
  auto rs = all_rects();
  const int N = thorough ? 3000 : 120;
  for (int it = 0; it < N; ++it) {
    Paths64 subj, clip;
    int ns = (int)g.range(1, 4), nc = (int)g.range(0, 4);
    for (int k = 0; k < ns; ++k) subj.push_back(rect(g.pick(rs), g.chance(75)));
    for (int k = 0; k < nc; ++k) clip.push_back(rect(g.pick(rs), g.chance(75)));
    if (g.chance(30) && !subj.empty()) subj.push_back(subj[0]);          // coincident copy
    if (g.chance(20) && !subj.empty()) clip.push_back(subj[0]);          // clip coincides with a subject
    stat("multi.inputs");
    int si = (int)(g.next() % 3);
    Paths64 s2 = scaled(subj, SCALES[si]), c2 = scaled(clip, SCALES[si]);
    for (int a = 0; a < 4; ++a)
      for (int b = 0; b < 4; ++b)
        run_one("multi.scale" + std::to_string(si), s2, c2, cts[a], frs[b], g.coin(), g.chance(25), false);
  }
}

// ---- (iv) rectangles that share one corner and hence two edge lines: three or more coincident axis-parallel edges start at one
// vertex, so a hot vertical edge has hot horizontal neighbours at that vertex (CheckJoinLeft/CheckJoinRight, AddOutPt at a pinch)
static void anchored(Rng& g, bool thorough) {
  static const ClipType cts[4] = {ClipType::Intersection, ClipType::Union, ClipType::Difference, ClipType::Xor};
  static const FillRule frs[4] = {FillRule::EvenOdd, FillRule::NonZero, FillRule::Positive, FillRule::Negative};
  const int N = thorough ? 4000 : 300;
  for (int it = 0; it < N; ++it) {
    int corner = (int)(g.next() % 4), k = (int)g.range(3, 4);
    bool same_orient = g.chance(70), ccw0 = g.coin();
    Paths64 subj, clip;
    for (int j = 0; j < k; ++j) {
      int w = (int)g.range(1, 4), h = (int)g.range(1, 4);
      if (g.chance(30)) h = 1 + (it % 3);                      // same height: a strip of nested widths
      R q = (corner & 1) ? R{4 - w, 0, 4, h} : R{0, 0, w, h};
      if (corner & 2) { q.b = 4 - h; q.t = 4; }
      Path64 p = rect(q, same_orient ? ccw0 : g.coin());
      if (g.chance(25)) std::rotate(p.begin(), p.begin() + (int)g.range(1, 3), p.end());
      ((j == 0 || g.chance(55)) ? subj : clip).push_back(p);
    }
    stat("anchored.inputs");
    stat(std::string("anchored.") + (same_orient ? (ccw0 ? "all_ccw" : "all_cw") : "mixed_orientation"));
    int si = (int)(g.next() % 3);
    Paths64 s2 = scaled(subj, SCALES[si]), c2 = scaled(clip, SCALES[si]);
    for (int a = 0; a < 4; ++a)
      for (int b = 0; b < 4; ++b)
        run_one("anchored.scale" + std::to_string(si), s2, c2, cts[a], frs[b], g.coin(), g.chance(25), false);
  }
}

int main(int argc, char** argv) {
  uint64_t seed = seed_from_args(argc, argv);
  bool thorough = thorough_from_args(argc, argv);
  Rng g(seed);
  rect_pairs(g, thorough);
  random_walks(g, thorough);
  long_walks(g, thorough);
  directed(g, thorough);
  anchored(g, thorough);
  stat("executions", n_exec);
  flush_stats();
  return 0;
}
