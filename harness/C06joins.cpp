// C06 / C07 harness for the JOIN GEOMETRY of ClipperOffset (Model/OffsetJoins.lean, Props/C06Joins.lean).
//
// The REAL private primitives ClipperOffset::DoBevel / DoMiter / DoSquare / DoRound / OffsetPoint / BuildNormals /
// OffsetPolygon / DoGroupOffset and the file-static helpers GetUnitNormal / NormalizeVector / GetAvgUnitVector are called
// directly (unity build of the unchanged sources under `#define private public`); their private inputs (`norms`,
// `group_delta_`, `join_type_`, `temp_lim_`, `steps_per_rad_`, `step_sin_`, `step_cos_`) are set by hand, which is what the
// library itself does before it calls them.
//
//   M records: the polymorphic Lean definitions evaluated at Float must reproduce the doubles bit for bit (helpers) and
//              the rounded integer vertices of path_out exactly (primitives).  In the "magnified" classes |delta| is 2^53..2^60,
//              every double handed to Point64 is then an integer, so path_out exposes every bit of the double result.
//   S records: the idealised (exact arithmetic) statements proved in Props/C06Joins.lean are judged on the real output
//              by the Lean driver in exact rational arithmetic, with a tolerance that covers rounding only.
//   libm results (acos, sin, cos, atan2) are passed along as a table; sqrt/fabs/ceil/round are IEEE/ISO-exact.
#define VERIF_PRIVATE_ACCESS
#include "unity.h"
#include "common.h"
#include <cmath>
#include <climits>
using namespace vh;

static const char* JT_NAME[] = {"square", "bevel", "round", "miter"};

static std::string HV(const PointD& v) { return hexd(v.x) + " " + hexd(v.y); }
static std::string B(bool b) { return b ? "1" : "0"; }

struct Libm {
  std::string s; int n = 0;
  void add(int fn, double a, double b, double r) { s += " " + std::to_string(fn) + " " + hexd(a) + " " + hexd(b) + " " + hexd(r); ++n; }
  std::string str() const { return std::to_string(n) + s; }
};

// ---------------------------------------------------------------- generators
static int64_t rnd_mag(Rng& g, int maxbits) {
  int bits = (int)g.range(1, maxbits);
  int64_t m = ((int64_t)1 << bits);
  int64_t v = g.range(-m, m);
  return v;
}
// integer direction vectors: random, axis-parallel, 45 degrees
static void rnd_dir(Rng& g, int maxbits, int64_t& u, int64_t& v) {
  for (;;) {
    switch (g.next() % 6) {
      case 0: u = rnd_mag(g, maxbits); v = 0; break;
      case 1: u = 0; v = rnd_mag(g, maxbits); break;
      case 2: u = rnd_mag(g, maxbits); v = g.coin() ? u : -u; break;
      default: u = rnd_mag(g, maxbits); v = rnd_mag(g, maxbits);
    }
    if (u != 0 || v != 0) return;
  }
}
static const char* TURN_NAME[] = {"random", "near0", "near180", "exact0", "exact180", "right90", "left90", "deg45", "deg135", "tiny_edges"};
// a vertex b with predecessor a and successor c; |coord| <= 2^40 (the sum of at most three terms below 2^38)
static int gen_corner(Rng& g, Point64& a, Point64& b, Point64& c) {
  int kind = (int)(g.next() % 10);
  int mb = (int)g.range(2, 37);
  b = Point64(rnd_mag(g, 38), rnd_mag(g, 38));
  if (g.chance(10)) b = Point64(0, 0);
  int64_t u, v; rnd_dir(g, mb, u, v);
  a = Point64(b.x - u, b.y - v);
  int64_t e1 = g.range(-2, 2), e2 = g.range(-2, 2);
  int64_t m = g.chance(50) ? 1 : g.range(1, 1000);
  if (mb > 27) m = 1;
  switch (kind) {
    case 1: c = Point64(b.x + m * u + e1, b.y + m * v + e2); break;
    case 2: c = Point64(b.x - m * u + e1, b.y - m * v + e2); break;
    case 3: c = Point64(b.x + m * u, b.y + m * v); break;
    case 4: c = Point64(b.x - m * u, b.y - m * v); break;
    case 5: c = Point64(b.x + v, b.y - u); break;
    case 6: c = Point64(b.x - v, b.y + u); break;
    case 7: if (mb > 36) mb = 36; c = Point64(b.x + (u - v) / 1, b.y + (u + v) / 1); break;
    case 8: c = Point64(b.x + (-u - v), b.y + (u - v)); break;
    case 9: a = Point64(b.x + g.range(-2, 2), b.y + g.range(-2, 2)); c = Point64(b.x + g.range(-2, 2), b.y + g.range(-2, 2)); break;
    default: { int64_t p, q; rnd_dir(g, (int)g.range(2, 37), p, q); c = Point64(b.x + p, b.y + q); }
  }
  return kind;
}
static const char* DELTA_NAME[] = {"eighths", "log", "half", "1e9", "magnified"};
// |delta| from 0.5 to 1e9, either sign; class 4: 2^53..2^60 (every result is an integer-valued double)
static double gen_delta(Rng& g, int& cls, bool allow_magnified) {
  cls = (int)(g.next() % (allow_magnified ? 5 : 4));
  double d;
  switch (cls) {
    case 0: d = (double)g.range(4, 8000) / 8.0; break;
    case 1: d = std::exp(std::log(0.5) + g.unit() * (std::log(1e9) - std::log(0.5))); break;
    case 2: d = 0.5 + (g.coin() ? 0.0 : g.unit()); break;
    case 3: d = 1e9 - (g.coin() ? 0.0 : g.unit() * 1000); break;
    default: d = std::ldexp(1.0 + g.unit(), (int)g.range(53, 59)); break;
  }
  return g.coin() ? d : -d;
}
// unit-ish vectors that are not outputs of GetUnitNormal: exact rational unit vectors and arbitrary angles
static PointD gen_free_normal(Rng& g) {
  static const double T[][2] = {{0.6, 0.8}, {0.8, 0.6}, {5.0 / 13, 12.0 / 13}, {1, 0}, {0, 1}, {0.28, 0.96}, {8.0 / 17, 15.0 / 17}};
  if (g.chance(40)) {
    const double* t = T[g.next() % 7];
    return PointD((g.coin() ? 1 : -1) * t[0], (g.coin() ? 1 : -1) * t[1]);
  }
  double th = g.unit() * 6.283185307179586;
  return PointD(std::cos(th), std::sin(th));
}
static bool fits(double v) { return std::fabs(v) < 4.0e18; }  // < 2^62: static_cast<int64_t> is defined

struct Corner { Point64 a, b, c; PointD nk, nj; int kind; bool free_normals; };
static Corner gen_case(Rng& g) {
  Corner r;
  for (;;) {
    r.kind = gen_corner(g, r.a, r.b, r.c);
    if (r.a == r.b || r.b == r.c) continue;
    break;
  }
  r.free_normals = g.chance(12);
  if (r.free_normals) { r.nk = gen_free_normal(g); r.nj = gen_free_normal(g); }
  else { r.nk = GetUnitNormal(r.a, r.b); r.nj = GetUnitNormal(r.b, r.c); }
  return r;
}
static void set_rig(ClipperOffset& co, const Corner& cs, double gd) {
  co.norms = PathD{cs.nk, cs.nj};
  co.group_delta_ = gd;
  co.path_out.clear();
}
static double clamp1(double s) { if (s > 1.0) s = 1.0; else if (s < -1.0) s = -1.0; return s; }

// exact value of a double as "num den" is not needed: the Lean side converts bit patterns exactly.

// ---------------------------------------------------------------- helpers: GetUnitNormal, NormalizeVector, GetAvgUnitVector, BuildNormals
static void helper_cases(Rng& g, int N) {
  emitM("joins.const", "JNCONST", hexd(0.999) + " " + hexd(0.001) + " " + hexd(floating_point_tolerance) + " " + hexd(arc_const) + " " + hexd(PI));
  for (int i = 0; i < N; ++i) {
    Point64 a, b, c; int kind = gen_corner(g, a, b, c);
    if (g.chance(3)) b = a;
    PointD n = GetUnitNormal(a, b);
    emitM("joins.unitnormal", "JNUNIT " + S(a) + " " + S(b), HV(n));
    stat(std::string("unitnormal.") + (a == b ? "same_point" : (a.x == b.x || a.y == b.y) ? "axis" : "general"));
    // full int64 range differences (|coord| up to 2^61)
    if (g.chance(10)) {
      Point64 p(rnd_mag(g, 61), rnd_mag(g, 61)), q(rnd_mag(g, 61), rnd_mag(g, 61));
      emitM("joins.unitnormal", "JNUNIT " + S(p) + " " + S(q), HV(GetUnitNormal(p, q)));
      stat("unitnormal.huge");
    }
    (void)kind;
    PointD v1 = gen_free_normal(g), v2 = gen_free_normal(g);
    if (g.chance(20)) v2 = PointD(-v1.x + (g.unit() - 0.5) * 0.004, -v1.y + (g.unit() - 0.5) * 0.004);  // sum near the AlmostZero threshold
    if (g.chance(5)) v2 = PointD(-v1.x, -v1.y);
    if (g.chance(20)) { v1 = PointD(g.unit() * 1e6, -g.unit() * 1e6); }
    PointD s(v1.x + v2.x, v1.y + v2.y);
    emitM("joins.normalize", "JNNORMALIZE " + HV(s), HV(NormalizeVector(s)));
    emitM("joins.avgunit", "JNAVG " + HV(v1) + " " + HV(v2), HV(GetAvgUnitVector(v1, v2)));
    PointD nz = NormalizeVector(s);
    stat(nz.x == 0 && nz.y == 0 ? "normalize.almost_zero" : "normalize.general");
    if (a != b && b != c) {
      PointD nk = GetUnitNormal(a, b), nj = GetUnitNormal(b, c);
      double cr = CrossProduct(nj, nk), dt = DotProduct(nj, nk);
      emitM("joins.crossdot", "JNCROSSDOT " + HV(nj) + " " + HV(nk), hexd(cr) + " " + hexd(clamp1(cr)) + " " + hexd(dt));
      stat(cr > 1.0 || cr < -1.0 ? "crossdot.clamped" : "crossdot.in_range");
      if (dt > 1.0 || dt < -1.0) stat("crossdot.cos_beyond_1");
    }
  }
  for (int i = 0; i < N / 4; ++i) {
    int n = (int)g.range(0, 7);
    Path64 p;
    int mb = (int)g.range(3, 40);
    for (int t = 0; t < n; ++t) p.emplace_back(rnd_mag(g, mb), rnd_mag(g, mb));
    if (n >= 2 && g.chance(10)) p[1] = p[0];
    ClipperOffset co;
    co.BuildNormals(p);
    emitM("joins.buildnormals", "JNNORMS " + S(p), std::to_string(co.norms.size()) + (co.norms.empty() ? "" : " ") + [&] {
      std::string s; for (size_t t = 0; t < co.norms.size(); ++t) { if (t) s += " "; s += HV(co.norms[t]); } return s; }());
  }
  // GetSegmentIntersectPt<double> directly: clamped and unclamped, parallel
  for (int i = 0; i < N / 2; ++i) {
    auto rp = [&]() { double s = std::ldexp(1.0, (int)g.range(0, 40)); return PointD((g.unit() - 0.5) * s, (g.unit() - 0.5) * s); };
    PointD a = rp(), b = rp(), c = rp(), d = rp(), ip = rp();
    if (g.chance(10)) d = PointD(c.x + (b.x - a.x), c.y + (b.y - a.y));  // parallel (det may or may not round to 0)
    if (g.chance(10)) { a = PointD(1, 1); b = PointD(5, 1); c = PointD(2, 7); d = PointD(4, 7); }
    PointD r = ip;
    bool ok = GetSegmentIntersectPt(a, b, c, d, r);
    emitM("joins.segint", "JNSEGINT " + HV(a) + " " + HV(b) + " " + HV(c) + " " + HV(d) + " " + HV(ip), HV(r));
    stat(!ok ? "segint.parallel" : (r.x == a.x && r.y == a.y) ? "segint.clamped_lo" : (r.x == b.x && r.y == b.y) ? "segint.clamped_hi" : "segint.inner");
  }
}

// ---------------------------------------------------------------- the four primitives
static void primitive_cases(Rng& g, int N) {
  for (int i = 0; i < N; ++i) {
    Corner cs = gen_case(g);
    int dcls; double gd = gen_delta(g, dcls, true);
    bool cap = g.chance(25);
    Path64 path{cs.a, cs.b};
    size_t j = 1, k = cap ? 1 : 0;
    std::string tag = std::string(cap ? "cap" : "join") + (dcls == 4 ? ".magnified" : "") + (cs.free_normals ? ".free_normals" : "");
    ClipperOffset co;
    // ---- DoBevel
    set_rig(co, cs, gd);
    co.DoBevel(path, j, k);
    emitM("joins.bevel", "JNBEVEL " + S(cs.b) + " " + HV(cs.nj) + " " + HV(cap ? cs.nj : cs.nk) + " " + B(cap) + " " + hexd(gd), S(co.path_out));
    if (dcls != 4)
      emitS("joins.bevel.ideal", "JNCHKBEVEL " + S(cs.b) + " " + HV(cs.nj) + " " + HV(cap ? cs.nj : cs.nk) + " " + B(cap) + " " + hexd(gd) + " " + S(co.path_out));
    stat("bevel." + tag);
    // ---- DoMiter (join only): the real cos_a, and free values of cos_a
    if (!cap) {
      double cos_a = DotProduct(cs.nj, cs.nk);
      bool real_cos = true;
      if (g.chance(15)) { cos_a = g.unit() * 2 - 1; real_cos = false; }
      double q = gd / (cos_a + 1);
      if (cos_a + 1 != 0 && fits(std::fabs((double)cs.b.x) + 2.1 * std::fabs(q)) && fits(std::fabs((double)cs.b.y) + 2.1 * std::fabs(q))) {
        set_rig(co, cs, gd);
        co.DoMiter(path, j, k, cos_a);
        emitM("joins.miter", "JNMITER " + S(cs.b) + " " + HV(cs.nj) + " " + HV(cs.nk) + " " + hexd(cos_a) + " " + hexd(gd), S(co.path_out));
        // the idealised statement needs 1 + cos_a well away from 0 (the property excludes turns within 10 degrees of a reversal)
        if (dcls != 4 && real_cos && cos_a > -0.98)
          emitS("joins.miter.ideal", "JNCHKMITER " + S(cs.b) + " " + HV(cs.nj) + " " + HV(cs.nk) + " " + hexd(cos_a) + " " + hexd(gd) + " " + S(co.path_out));
        stat(std::string("miter.") + (cos_a > 0.999 ? "almost_straight" : cos_a < -0.98 ? "near_reversal" : "general") + (dcls == 4 ? ".magnified" : ""));
      } else stat("miter.skipped_overflow");
    }
    // ---- DoSquare
    {
      set_rig(co, cs, gd);
      size_t kk = cap ? 1 : 0;
      co.DoSquare(path, j, kk);
      emitM("joins.square", "JNSQUARE " + S(cs.b) + " " + S(cap ? cs.b : cs.a) + " " + HV(cs.nj) + " " + HV(cap ? cs.nj : cs.nk) + " " + B(cap) + " " + hexd(gd), S(co.path_out));
      // ideal statement: real unit normals of the two edges, convex for this delta or a cap, turn not within 10 degrees of a reversal
      double sin_a = CrossProduct(cs.nj, cs.nk), cos_a = DotProduct(cs.nj, cs.nk);
      if (dcls != 4 && !cs.free_normals && (cap || (sin_a * gd >= 0 && cos_a > -0.98 && cos_a <= 0.999))) {
        emitS("joins.square.ideal", "JNCHKSQUARE " + S(cs.b) + " " + S(cap ? cs.b : cs.a) + " " + HV(cs.nj) + " " + HV(cap ? cs.nj : cs.nk) + " " + B(cap) + " " + hexd(gd) + " " + S(co.path_out));
        stat("square.ideal_judged");
      }
      stat("square." + tag);
    }
    // ---- DoRound: the real angle (atan2 of the real sine / cosine, or PI for a cap), step set-up from a real-looking arc tolerance
    {
      double absd = std::fabs(gd);
      double arc_tol = g.chance(40) ? absd * arc_const : std::min(absd, g.chance(50) ? 0.25 : absd * (0.0005 + g.unit() * 0.2));
      double steps_per_360 = std::min(PI / std::acos(1 - arc_tol / absd), absd * PI);
      if (g.chance(10)) steps_per_360 = (double)g.range(1, 12);            // coarse circles, incl. steps <= 1
      double ssin = std::sin(2 * PI / steps_per_360), scos = std::cos(2 * PI / steps_per_360);
      if (gd < 0.0) ssin = -ssin;
      double spr = steps_per_360 / (2 * PI);
      double angle = cap ? PI : std::atan2(clamp1(CrossProduct(cs.nj, cs.nk)), DotProduct(cs.nj, cs.nk));
      if (g.chance(5)) angle = 0.0;
      if (spr * std::fabs(angle) < 5000) {
        set_rig(co, cs, gd);
        co.steps_per_rad_ = spr; co.step_sin_ = ssin; co.step_cos_ = scos;
        co.DoRound(path, j, k, angle);
        std::string common = S(cs.b) + " " + HV(cs.nj) + " " + HV(cap ? cs.nj : cs.nk) + " " + B(cap) + " " + hexd(gd);
        emitM("joins.round", "JNROUND " + common + " " + hexd(angle) + " " + hexd(spr) + " " + hexd(ssin) + " " + hexd(scos), S(co.path_out));
        if (dcls != 4)
          emitS("joins.round.ideal", "JNCHKROUND " + common + " " + hexd(ssin) + " " + hexd(scos) + " " + S(co.path_out));
        size_t np = co.path_out.size();
        stat("round." + tag);
        stat(np <= 2 ? "round.points.2" : np <= 8 ? "round.points.3-8" : np <= 64 ? "round.points.9-64" : "round.points.65+");
        stat("round.points_total", (long long)np);
      } else stat("round.skipped_too_many_steps");
    }
  }
}

// ---------------------------------------------------------------- OffsetPoint: sine / cosine, branch selection, primitives
static void point_cases(Rng& g, int N) {
  for (int i = 0; i < N; ++i) {
    Corner cs = gen_case(g);
    if (g.chance(2)) cs.a = cs.b;   // path[j] == path[k]: nothing is emitted
    int dcls; double gd = gen_delta(g, dcls, true);
    if (g.chance(2)) gd = (g.coin() ? 1 : -1) * 1e-13;   // below floating_point_tolerance: the vertex is copied
    int jt = (int)(g.next() % 4);
    double ml = g.chance(30) ? 2.0 : g.chance(50) ? (double)g.range(2, 40) / 4.0 : 1.0 + g.unit() * 3;
    double absd = std::fabs(gd);
    double arc_tol = g.chance(50) ? absd * arc_const : std::min(absd, 0.25);
    double steps_per_360 = std::min(PI / std::acos(1 - arc_tol / absd), absd * PI);
    double ssin = std::sin(2 * PI / steps_per_360), scos = std::cos(2 * PI / steps_per_360);
    if (gd < 0.0) ssin = -ssin;
    double spr = steps_per_360 / (2 * PI);
    if (!(spr < 3000)) { if (jt == 2) { static const int other[] = {0, 1, 3}; jt = other[g.next() % 3]; stat("point.round_avoided_too_many_steps"); } }
    double tl = (ml <= 1) ? 2.0 : 2.0 / (ml * ml);
    double sin_a = clamp1(CrossProduct(cs.nj, cs.nk)), cos_a = DotProduct(cs.nj, cs.nk);
    // the miter branch divides by cos_a + 1: keep the result inside int64_t
    double q = gd / (cos_a + 1);
    if (!(cos_a + 1 != 0 && fits(std::fabs((double)cs.b.x) + 2.1 * std::fabs(q)))) { stat("point.skipped_overflow"); continue; }
    Libm lm; lm.add(3, sin_a, cos_a, std::atan2(sin_a, cos_a));
    Path64 path{cs.a, cs.b};
    ClipperOffset co(ml, arc_tol);
    ClipperOffset::Group grp(Paths64{Path64{cs.a, cs.b, cs.c}}, (JoinType)jt, EndType::Polygon);
    co.norms = PathD{cs.nk, cs.nj};
    co.group_delta_ = gd; co.join_type_ = (JoinType)jt; co.temp_lim_ = tl;
    co.steps_per_rad_ = spr; co.step_sin_ = ssin; co.step_cos_ = scos;
    co.path_out.clear();
    co.OffsetPoint(grp, path, 1, 0);
    emitM("joins.offsetpoint", "JNPOINT " + std::to_string(jt) + " " + hexd(tl) + " " + hexd(gd) + " " + hexd(spr) + " " + hexd(ssin) + " " + hexd(scos) + " " +
          S(cs.b) + " " + S(cs.a) + " " + HV(cs.nj) + " " + HV(cs.nk) + " " + lm.str(), S(co.path_out));
    // which branch ran (for the statistics only)
    const char* br;
    if (cs.a == cs.b) br = "same_point";
    else if (absd <= floating_point_tolerance) br = "copy";
    else if (cos_a > -0.999 && sin_a * gd < 0) br = "concave";
    else if (cos_a > 0.999 && jt != 2) br = "miter_shortcut";
    else if (jt == 3) br = cos_a > tl - 1 ? "miter" : "miter_squared";
    else br = JT_NAME[jt];
    stat(std::string("point.branch.") + br);
    stat(std::string("point.turn.") + TURN_NAME[cs.kind]);
    stat(std::string("point.delta.") + DELTA_NAME[dcls]);
  }
}

// ---------------------------------------------------------------- BuildNormals + OffsetPolygon on whole paths
static void polygon_cases(Rng& g, int N) {
  for (int i = 0; i < N; ++i) {
    int n = (int)g.range(1, 9);
    int mb = (int)g.range(4, 39);
    Path64 p;
    switch (g.next() % 3) {
      case 0: for (int t = 0; t < n; ++t) p.emplace_back(rnd_mag(g, mb), rnd_mag(g, mb)); break;
      case 1: p = star_poly(g, std::max(3, n), 10, ((int64_t)1 << (int)g.range(5, 30))); break;
      default: {  // rectilinear staircase with 45 degree cuts
        int64_t x = 0, y = 0, s = (int64_t)1 << (int)g.range(2, 30);
        for (int t = 0; t < n; ++t) { p.emplace_back(x, y); switch (g.next() % 3) { case 0: x += s; break; case 1: y += s; break; default: x += s; y += s; } }
      }
    }
    if (p.size() >= 2 && g.chance(10)) p[1] = p[0];
    int dcls; double gd = gen_delta(g, dcls, false);
    int jt = (int)(g.next() % 4);
    double ml = g.chance(50) ? 2.0 : 1.0 + g.unit() * 4;
    double absd = std::fabs(gd);
    double arc_tol = g.chance(50) ? absd * arc_const : std::min(absd, 0.25);
    double steps_per_360 = std::min(PI / std::acos(1 - arc_tol / absd), absd * PI);
    double ssin = std::sin(2 * PI / steps_per_360), scos = std::cos(2 * PI / steps_per_360);
    if (gd < 0.0) ssin = -ssin;
    double spr = steps_per_360 / (2 * PI);
    if (!(spr < 1500)) { stat("polygon.skipped_too_many_steps"); continue; }
    double tl = (ml <= 1) ? 2.0 : 2.0 / (ml * ml);
    ClipperOffset co(ml, arc_tol);
    ClipperOffset::Group grp(Paths64{p}, (JoinType)jt, EndType::Polygon);
    co.BuildNormals(p);
    // libm table and overflow guard over all vertices
    Libm lm; bool ok = true;
    for (size_t jx = 0, kx = p.size() - 1; jx < p.size(); kx = jx, ++jx) {
      double sin_a = clamp1(CrossProduct(co.norms[jx], co.norms[kx])), cos_a = DotProduct(co.norms[jx], co.norms[kx]);
      lm.add(3, sin_a, cos_a, std::atan2(sin_a, cos_a));
      double q = gd / (cos_a + 1);
      if (p[jx] != p[kx] && !(cos_a + 1 != 0 && fits(std::fabs((double)p[jx].x) + std::fabs((double)p[jx].y) + 2.1 * std::fabs(q)))) ok = false;
    }
    if (!ok) { stat("polygon.skipped_overflow"); continue; }
    Paths64 sol;
    co.solution = &sol;
    co.group_delta_ = gd; co.join_type_ = (JoinType)jt; co.temp_lim_ = tl;
    co.steps_per_rad_ = spr; co.step_sin_ = ssin; co.step_cos_ = scos;
    co.OffsetPolygon(grp, p);
    co.solution = nullptr;
    emitM("joins.polygon", "JNPOLY " + std::to_string(jt) + " " + hexd(tl) + " " + hexd(gd) + " " + hexd(spr) + " " + hexd(ssin) + " " + hexd(scos) + " " +
          S(p) + " " + lm.str(), S(sol[0]));
    stat(std::string("polygon.") + JT_NAME[jt]);
    stat("polygon.raw_points", (long long)sol[0].size());
  }
}

// ---------------------------------------------------------------- temp_lim_ and the arc set-up, through the real Execute
static void setup_cases(Rng& g, int N) {
  for (int i = 0; i < N; ++i) {
    double ml = g.chance(20) ? 2.0 : g.chance(20) ? (double)g.range(0, 8) / 4.0 : g.unit() * 6;
    double delta = (g.coin() ? 1 : -1) * (g.chance(50) ? (double)g.range(4, 4000) / 8.0 : std::exp(std::log(0.5) + g.unit() * (std::log(3000.0) - std::log(0.5))));
    double arc_tol;
    switch (g.next() % 5) {
      case 0: arc_tol = 0; break;
      case 1: arc_tol = 0.25; break;
      case 2: arc_tol = std::fabs(delta) * (1 + g.unit()); break;     // larger than |delta|: min() takes |delta|
      case 3: arc_tol = 1e-12 * (g.coin() ? 1.0 : 1.5); break;       // at / just above floating_point_tolerance: the |delta|*PI cap
      default: arc_tol = std::fabs(delta) * (0.0002 + g.unit() * 0.3);
    }
    bool rev = g.coin();
    Path64 tri = rev ? Path64{{0, 0}, {0, 100}, {100, 0}} : Path64{{0, 0}, {100, 0}, {0, 100}};
    ClipperOffset co(ml, arc_tol);
    co.AddPath(tri, JoinType::Round, EndType::Polygon);
    Paths64 sol;
    co.Execute(delta, sol);
    double gd = co.group_delta_;
    // the libm calls DoGroupOffset must have made (arguments recomputed here; the Lean side checks them bit for bit)
    double absd = std::fabs(gd);
    double at = (arc_tol > floating_point_tolerance) ? std::min(absd, arc_tol) : absd * arc_const;
    double x = 1 - at / absd, ac = std::acos(x);
    double s360 = std::min(PI / ac, absd * PI);
    double arg = 2 * PI / s360;
    Libm lm; lm.add(0, x, 0, ac); lm.add(1, arg, 0, std::sin(arg)); lm.add(2, arg, 0, std::cos(arg));
    emitM("joins.setup", "JNSETUP " + hexd(ml) + " " + hexd(arc_tol) + " " + hexd(gd) + " " + lm.str(),
          hexd(co.temp_lim_) + " " + hexd(co.steps_per_rad_) + " " + hexd(co.step_sin_) + " " + hexd(co.step_cos_));
    stat(std::string("setup.") + (gd < 0 ? "negative_delta" : "positive_delta"));
    stat(PI / ac > absd * PI ? "setup.capped_by_delta_pi" : "setup.from_arc_tolerance");
    stat(ml <= 1 ? "setup.miter_limit_le_1" : "setup.miter_limit_gt_1");
  }
}

int main(int argc, char** argv) {
  Rng g(seed_from_args(argc, argv));
  bool thorough = thorough_from_args(argc, argv);
  int N = thorough ? 40000 : 2500;
  helper_cases(g, N);
  primitive_cases(g, N);
  point_cases(g, 2 * N);
  polygon_cases(g, N / 2);
  setup_cases(g, N / 5);
  flush_stats();
  return 0;
}
