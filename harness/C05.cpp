// C05 harness: open subject paths cut at the clip region boundary (OPENCHECK judged in Lean), and
// "adding open subjects does not change the closed solution" (region level, SAMEREGION).
#define VERIF_PRIVATE_ACCESS
#include "unity.h"
#include "gp.h"
#include "aeltrace.h"
using namespace vh;

static const ClipType CTS[] = {ClipType::Intersection, ClipType::Union, ClipType::Difference, ClipType::Xor};
static const FillRule FRS[] = {FillRule::EvenOdd, FillRule::NonZero, FillRule::Positive, FillRule::Negative};

int main(int argc, char** argv) {
  Rng g(seed_from_args(argc, argv));
  bool thorough = thorough_from_args(argc, argv);
  int N = thorough ? 4000 : 220;
  for (int i = 0; i < N; ++i) {
    GpInput in = gen_gp(g);
    if (in.R > ((int64_t)1 << 52)) in.R = 3000, in = gen_gp(g);
    if (in.R > ((int64_t)1 << 52)) continue;  // x16 scaling in the judge must stay comfortable; magnitudes to 2^52
    if (in.clip.empty()) in.clip.push_back(star_poly(g, 5, in.R / 8, in.R / 2));
    Paths64 opn;
    int no = (int)g.range(1, 3);
    for (int k = 0; k < no; ++k) {
      Path64 p; int n = (int)g.range(2, 6);
      for (int j = 0; j < n; ++j) p.emplace_back(g.range(-in.R, in.R), g.range(-in.R, in.R));
      // exactly horizontal segments (the sweep treats them separately): at an end of the path (35%), in its interior (15%)
      if (g.chance(35)) { if (g.coin()) p[1].y = p[0].y; else p[n - 2].y = p[n - 1].y; stat("open.horizontal_end_segment"); }
      if (n >= 4 && g.chance(15)) { int j = (int)g.range(1, n - 3); p[j + 1].y = p[j].y; stat("open.horizontal_inner_segment"); }
      opn.push_back(p);
    }
    bool closed_subj = g.chance(60);
    Paths64 subj = closed_subj ? in.subj : Paths64();
    for (int rep = 0; rep < 2; ++rep) {
      ClipType ct = CTS[g.next() % 4]; FillRule fr = FRS[g.next() % 4];
      Clipper64 c;
      c.AddSubject(subj); c.AddOpenSubject(opn); c.AddClip(in.clip);
      Paths64 sol, sol_open;
      bool use_tree = g.chance(30);
      bool ok;
      AelTraceScope trace;
      if (use_tree) { PolyTree64 t; ok = c.Execute(ct, fr, t, sol_open); sol = PolyTreeToPaths64(t); stat("exec.tree"); }
      else { ok = c.Execute(ct, fr, sol, sol_open); stat("exec.paths"); }
      emitM("ael-trace.open", trace.request(true, (int)ct, (int)fr), "ok");
      stat("trace.items", ael_trace().nitems);
      if (!ok) emitF("execute-returned-false", "open ct=" + std::to_string((int)ct));
      std::string head = std::to_string((int)ct) + " " + std::to_string((int)fr) + " ";
      emitS("open", "OPENCHECK " + head + S(subj) + " " + S(in.clip) + " " + S(opn) + " " + S(sol_open));
      stat("open.solution.paths", (long long)sol_open.size());
      stat(std::string("ct.") + std::to_string((int)ct));
      // the other ways of asking for the same thing must agree exactly with the run above:
      //  (a) the Execute overload WITHOUT an open-solution argument (open subjects still loaded) returns the closed solution only;
      //  (b) the same paths handed over through a ReuseableDataContainer64 - open subjects first, then clips, then closed subjects,
      //      and in the opposite order - give the same closed and open solutions.
      {
        Clipper64 ca; ca.AddSubject(subj); ca.AddOpenSubject(opn); ca.AddClip(in.clip);
        Paths64 only; bool oka = ca.Execute(ct, fr, only);
        stat("overload.closed_only_with_open_subjects");
        if (!oka) emitF("execute-returned-false", "closed-only overload, open subjects loaded, ct=" + std::to_string((int)ct));
        if (!use_tree && canon_closed(only) != canon_closed(sol))
          emitF("closed-only-overload", "Execute(ct, fr, closed) with open subjects loaded differs from the closed part of Execute(ct, fr, closed, open): ct=" + std::to_string((int)ct) + " fr=" + std::to_string((int)fr) + " subj=" + S(subj) + " clip=" + S(in.clip) + " open=" + S(opn) + " got=" + S(only) + " want=" + S(sol));
        for (int order = 0; order < 2; ++order) {
          ReuseableDataContainer64 rd;
          if (order == 0) { rd.AddPaths(opn, PathType::Subject, true); rd.AddPaths(in.clip, PathType::Clip, false); rd.AddPaths(subj, PathType::Subject, false); }
          else { rd.AddPaths(subj, PathType::Subject, false); rd.AddPaths(in.clip, PathType::Clip, false); rd.AddPaths(opn, PathType::Subject, true); }
          Clipper64 cr; cr.AddReuseableData(rd);
          Paths64 rs, ro; bool okr = cr.Execute(ct, fr, rs, ro);
          stat("reuseable.with_open_subjects");
          if (!okr) emitF("execute-returned-false", "AddReuseableData with open subjects (order " + std::to_string(order) + "), ct=" + std::to_string((int)ct) + " fr=" + std::to_string((int)fr) + " subj=" + S(subj) + " clip=" + S(in.clip) + " open=" + S(opn));
          else if (!use_tree && (canon_closed(rs) != canon_closed(sol) || ro != sol_open))
            emitF("reuseable-data-differs", "paths through ReuseableDataContainer64 (order " + std::to_string(order) + ") give another solution: ct=" + std::to_string((int)ct) + " fr=" + std::to_string((int)fr) + " subj=" + S(subj) + " clip=" + S(in.clip) + " open=" + S(opn) + " open solution " + S(ro) + " vs " + S(sol_open));
        }
      }
      //  (c) ReverseSolution(true) returns the same open pieces, each judged by the same Spec check and, as a set of polylines
      //      up to direction, identical to the pieces of the run above;
      //  (d) both Execute overloads with an open-solution argument REPLACE what the caller's containers held.
      {
        auto undirected = [](Paths64 ps) {
          for (auto& p : ps) { Path64 r(p.rbegin(), p.rend()); if (path_less(r, p)) p = r; }
          std::sort(ps.begin(), ps.end(), path_less); return ps; };
        Clipper64 cv; cv.ReverseSolution(true); cv.AddSubject(subj); cv.AddOpenSubject(opn); cv.AddClip(in.clip);
        Paths64 vs, vo; bool okv;
        if (use_tree) { PolyTree64 t; okv = cv.Execute(ct, fr, t, vo); } else okv = cv.Execute(ct, fr, vs, vo);
        stat("reverse_solution.with_open_subjects");
        if (!okv) emitF("execute-returned-false", "ReverseSolution with open subjects, ct=" + std::to_string((int)ct));
        emitS("open.reversed", "OPENCHECK " + head + S(subj) + " " + S(in.clip) + " " + S(opn) + " " + S(vo));
        if (undirected(vo) != undirected(sol_open))
          emitF("reverse-solution-open-differs", "ReverseSolution(true) changes the open pieces beyond their direction: ct=" + std::to_string((int)ct) + " fr=" + std::to_string((int)fr) + " tree=" + std::to_string((int)use_tree) + " subj=" + S(subj) + " clip=" + S(in.clip) + " open=" + S(opn) + " got=" + S(vo) + " want=" + S(sol_open));
        for (int tree = 0; tree < 2; ++tree) {
          Clipper64 cs; cs.AddSubject(subj); cs.AddOpenSubject(opn); cs.AddClip(in.clip);
          Paths64 pc{Path64{Point64(1, 2), Point64(3, 4), Point64(5, 9)}}, po{Path64{Point64(7, 7), Point64(8, 9)}, Path64{Point64(0, 0), Point64(1, 1)}};
          PolyTree64 t;
          bool oks = tree ? cs.Execute(ct, fr, t, po) : cs.Execute(ct, fr, pc, po);
          stat(tree ? "prefilled.tree" : "prefilled.paths");
          bool same = use_tree == (bool)tree ? po == sol_open : undirected(po) == undirected(sol_open);
          if (!oks || !same || (!tree && !use_tree && pc != sol))
            emitF("stale-open-container", std::string(tree ? "Execute(ct, fr, tree, open)" : "Execute(ct, fr, closed, open)") + " into containers that were not empty does not give the result of empty ones: ct=" + std::to_string((int)ct) + " fr=" + std::to_string((int)fr) + " subj=" + S(subj) + " clip=" + S(in.clip) + " open=" + S(opn) + " got=" + S(po) + " want=" + S(sol_open));
        }
      }
      // closed solution must be the same region as without the open subjects
      Clipper64 c2; c2.AddSubject(subj); c2.AddClip(in.clip);
      Paths64 sol2; c2.Execute(ct, fr, sol2);
      Paths64 all = subj; all.insert(all.end(), in.clip.begin(), in.clip.end());
      auto probes = gen_probes(g, subj, in.clip, 30);
      // the open paths' edges are part of the reference for the band: a join near an open/closed crossing may move a vertex
      // (the premise of C05 puts the open polylines in general position together with the closed paths: a clip vertex 2 units
      //  from an open segment is outside the quantifier - the whole record is therefore guarded by IFGP over all three sets)
      emitS("closed-unchanged", "IFGP " + S(subj) + " " + S(in.clip) + " " + S(opn) + " SAMEREGION " + S(sol) + " " + S(sol2) + " " + S(all) + " " + probes_str(probes));
      if (canon_closed(sol) == canon_closed(sol2)) stat("closed.identical"); else stat("closed.differs-as-paths");
    }
    stat("input.magnitude." + std::to_string(in.R));
  }
  // degenerate inputs with open paths: trace level only (the open-edge invariant holds regardless of general position)
  for (int i = 0; i < (thorough ? 3000 : 200); ++i) {
    int range = (i % 3 == 0) ? 8 : (i % 3 == 1 ? 40 : 1000);
    auto mk = [&](int n) { Path64 p; for (int k = 0; k < n; ++k) p.emplace_back(g.range(0, range), g.range(0, range)); return p; };
    Paths64 s, cl, op; int ns = (int)g.range(0, 2), nc = (int)g.range(1, 3), no = (int)g.range(1, 3);
    for (int k = 0; k < ns; ++k) s.push_back(mk((int)g.range(3, 8)));
    for (int k = 0; k < nc; ++k) cl.push_back(mk((int)g.range(3, 8)));
    for (int k = 0; k < no; ++k) op.push_back(mk((int)g.range(2, 6)));
    ClipType ct = CTS[g.next() % 4]; FillRule fr = FRS[g.next() % 4];
    Clipper64 c; c.AddSubject(s); c.AddOpenSubject(op); c.AddClip(cl);
    Paths64 sol, solo;
    AelTraceScope trace;
    c.Execute(ct, fr, sol, solo);
    emitM("ael-trace.open.degenerate", trace.request(true, (int)ct, (int)fr), "ok");
  }
  stat("trace.edge_observations", ael_trace().nedges);
  flush_stats();
  return 0;
}
