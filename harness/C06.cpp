// C06 harness: polygon offsetting (EndType::Polygon) on simple polygons with holes.
// The real InflatePaths / ClipperOffset results are judged by the Lean Spec (`OFFSETCHECK`, exact rationals).
#include "offset_common.h"
#include "clipper.engine.cpp"
#include "clipper.offset.cpp"
#include "clipper.rectclip.cpp"
using namespace vh;
using namespace vo;

static const char* JT_NAME[] = {"square", "bevel", "round", "miter"};

// ---------------------------------------------------------------- generators (G-SIMPLE)
static Path64 gen_star(Rng& g, int64_t S, int64_t cx, int64_t cy, int nmin, int nmax) {
  int n = (int)g.range(nmin, nmax);
  double lo = 0.25 + 0.7 * g.unit();  // ratio of the smallest to the largest radius
  std::vector<double> ang;
  for (int i = 0; i < n; ++i) ang.push_back(g.unit() * 6.283185307179586);
  std::sort(ang.begin(), ang.end());
  double sx = 1, sy = 1;
  if (g.chance(25)) { double f = 1.0 / (double)(1 << g.range(1, 3)); if (g.coin()) sx = f; else sy = f; }
  Path64 p;
  for (int i = 0; i < n; ++i) {
    double rr = (double)S * (lo + (1 - lo) * g.unit());
    p.emplace_back(cx + (int64_t)std::llround(sx * rr * std::cos(ang[i])), cy + (int64_t)std::llround(sy * rr * std::sin(ang[i])));
  }
  return p;  // counter-clockwise (y up) when valid
}
static Path64 gen_rectilinear(Rng& g, int64_t S, int64_t cx, int64_t cy) {
  int64_t w = g.range(S / 2, S), h = g.range(S / 2, S);
  Path64 p;
  switch (g.next() % 3) {
    case 0: p = {{-w, -h}, {w, -h}, {w, h}, {-w, h}}; break;
    case 1: {  // L
      int64_t a = g.range(-w / 2, w / 2), b = g.range(-h / 2, h / 2);
      p = {{-w, -h}, {w, -h}, {w, b}, {a, b}, {a, h}, {-w, h}}; break;
    }
    default: {  // U
      int64_t a1 = g.range(-w * 3 / 4, -w / 4), a2 = g.range(w / 4, w * 3 / 4), b = g.range(-h / 2, h / 2);
      p = {{-w, -h}, {w, -h}, {w, h}, {a2, h}, {a2, b}, {a1, b}, {a1, h}, {-w, h}}; break;
    }
  }
  for (auto& q : p) { q.x += cx; q.y += cy; }
  return p;
}
static void add_collinear_midpoints(Rng& g, Path64& p) {
  Path64 r;
  for (size_t i = 0; i < p.size(); ++i) {
    r.push_back(p[i]);
    const Point64& a = p[i]; const Point64& b = p[(i + 1) % p.size()];
    if (g.chance(20) && ((a.x + b.x) % 2 == 0) && ((a.y + b.y) % 2 == 0) && !(a == b)) r.emplace_back((a.x + b.x) / 2, (a.y + b.y) / 2);
  }
  p = r;
}
// a vertex near the middle of a long edge, pushed a few units off it: the turning angle there is tiny (its sine is almost
// zero) but the vertex is still many units away from the chord of its neighbours' offset points when |delta| is small
static void add_near_collinear_midpoints(Rng& g, Path64& p) {
  Path64 r;
  for (size_t i = 0; i < p.size(); ++i) {
    r.push_back(p[i]);
    const Point64& a = p[i]; const Point64& b = p[(i + 1) % p.size()];
    double dx = (double)(b.x - a.x), dy = (double)(b.y - a.y), len = std::sqrt(dx * dx + dy * dy);
    if (len > 20000 && g.chance(40)) {
      double off = (double)g.range(2, 40) * (g.coin() ? 1 : -1);
      r.emplace_back((a.x + b.x) / 2 + (int64_t)std::llround(-dy / len * off), (a.y + b.y) / 2 + (int64_t)std::llround(dx / len * off));
    }
  }
  p = r;
}
static bool ccw(const Path64& p) { return Area(p) > 0; }

struct PolyInput { Paths64 paths; std::vector<int> group; int64_t S; std::string kind; int holes = 0, outers = 0, islands = 0; };

// one outer with holes around (cx,cy); returns false when no valid polygon was found
static bool gen_polygon(Rng& g, int64_t S, int64_t cx, int64_t cy, Paths64& out, PolyInput& info) {
  for (int attempt = 0; attempt < 50; ++attempt) {
    Path64 outer;
    int k = (int)(g.next() % 10);
    if (k < 6) { outer = gen_star(g, S, cx, cy, 3, 24); info.kind = "star"; }
    else if (k < 8) { outer = gen_rectilinear(g, S, cx, cy); info.kind = "rectilinear"; }
    else { outer = gen_star(g, S, cx, cy, 3, 5); info.kind = "few-vertices"; }
    if (g.chance(15)) add_collinear_midpoints(g, outer);
    if (g.chance(12)) { add_near_collinear_midpoints(g, outer); stat("gen.near_collinear_midpoints"); }
    if (outer.size() < 3 || !closed_turns_ok(outer) || !closed_set_simple(Paths64{outer}) || !ccw(outer)) continue;
    Paths64 res{outer};
    std::vector<bool> is_hole{false};
    int want = (int)(g.next() % 4);
    if (S < 200) want = std::min(want, 1);
    int holes = 0;
    for (int h = 0, tries = 0; h < want && tries < 40; ++tries) {
      int64_t hs = std::max<int64_t>(8, (int64_t)((double)S * (0.05 + 0.25 * g.unit())));
      int64_t hx = cx + g.range(-S * 6 / 10, S * 6 / 10), hy = cy + g.range(-S * 6 / 10, S * 6 / 10);
      Path64 hole = gen_star(g, hs, hx, hy, 3, 10);
      if (!closed_turns_ok(hole) || !ccw(hole)) continue;
      if (!strictly_inside(hole[0], outer)) continue;
      bool clash = false;
      for (size_t i = 1; i < res.size(); ++i) {
        if (PointInPolygon(hole[0], res[i]) != PointInPolygonResult::IsOutside) clash = true;  // inside an earlier hole
        if (PointInPolygon(res[i][0], hole) != PointInPolygonResult::IsOutside) clash = true;  // swallows an earlier path
      }
      if (clash) continue;
      Paths64 trial = res; trial.push_back(hole);
      if (!closed_set_simple(trial)) continue;
      res.push_back(hole); is_hole.push_back(true); ++h; ++holes;
      // an island inside the hole, now and then
      if (g.chance(10) && hs >= 40) {
        Path64 isl = gen_star(g, hs / 4, hx, hy, 3, 6);
        Paths64 t2 = res; t2.push_back(isl);
        if (closed_turns_ok(isl) && ccw(isl) && strictly_inside(isl[0], hole) && closed_set_simple(t2)) {
          res.push_back(isl); is_hole.push_back(false); info.islands++;
        }
      }
    }
    // orientation: outer and islands counter-clockwise, holes clockwise
    for (size_t i = 1; i < res.size(); ++i) if (is_hole[i]) std::reverse(res[i].begin(), res[i].end());
    info.holes += holes; info.outers++;
    for (auto& p : res) out.push_back(p);
    return true;
  }
  return false;
}

static bool gen_input(Rng& g, PolyInput& in) {
  in = PolyInput();
  in.S = log_uniform(g, 50, 1000000);
  int64_t cx = g.range(-in.S, in.S), cy = g.range(-in.S, in.S);
  if (!gen_polygon(g, in.S, cx, cy, in.paths, in)) return false;
  in.group.assign(in.paths.size(), 0);
  if (g.chance(25)) {  // a second polygon beside the first one
    Rect64 b = bounds_of(in.paths);
    int64_t S2 = std::max<int64_t>(50, in.S / (1 << g.range(0, 2)));
    int64_t gap = log_uniform(g, 1, std::max<int64_t>(2, in.S));
    Paths64 second; PolyInput tmp;
    // generated around the origin, then shifted so that its bounding box starts `gap` right of the first one
    if (gen_polygon(g, S2, 0, 0, second, tmp)) {
      Rect64 b2 = bounds_of(second);
      int64_t dx = b.right + gap - b2.left, dy = (b.top + b.bottom) / 2 - (b2.top + b2.bottom) / 2;
      for (auto& p : second) { for (auto& q : p) { q.x += dx; q.y += dy; } in.paths.push_back(p); in.group.push_back(1); }
      in.holes += tmp.holes; in.outers += tmp.outers; in.islands += tmp.islands;
    }
  }
  if (!closed_set_simple(in.paths)) return false;
  return true;
}

// ---------------------------------------------------------------- one case
struct Params { int jt; Q delta, ml, arc; bool rev; bool negative_convention; int api; int pointless_group = 0; };

static Paths64 run_real(const PolyInput& in, const Paths64& paths, const Params& pr) {
  JoinType jt = (JoinType)pr.jt;
  double d = pr.delta.d(), ml = pr.ml.d(), arc = pr.arc.d();
  Paths64 sol;
  switch (pr.api) {
    case 0: return InflatePaths(paths, d, jt, EndType::Polygon, ml, arc);
    case 1: case 4: case 5: {
      ClipperOffset co(ml, arc, pr.api == 5, pr.rev);
      // a Polygon group without any point (before / after the real one) has no orientation and must change nothing
      if (pr.pointless_group == 1) co.AddPaths(Paths64{Path64()}, jt, EndType::Polygon);
      co.AddPaths(paths, jt, EndType::Polygon);
      if (pr.pointless_group == 2) co.AddPaths(Paths64{Path64(), Path64()}, JoinType::Round, EndType::Polygon);
      if (pr.api == 4) { Paths64 junk; co.Execute(-d * 0.5 + 3, junk); co.Execute(d, junk); }  // the object is used before
      co.Execute(d, sol);
      return sol;
    }
    case 2: {
      ClipperOffset co(ml, arc, false, pr.rev);
      if (pr.pointless_group == 1) co.AddPaths(Paths64{Path64()}, jt, EndType::Polygon);
      co.AddPaths(paths, jt, EndType::Polygon);
      PolyTree64 tree;
      co.Execute(d, tree);
      return PolyTreeToPaths64(tree);
    }
    case 6: {  // parameters through the setters of a default-constructed object
      ClipperOffset co; co.MiterLimit(ml); co.ArcTolerance(arc); co.ReverseSolution(pr.rev);
      co.AddPaths(paths, jt, EndType::Polygon); co.Execute(d, sol); return sol;
    }
    case 7: {  // constructed with other parameters, executed, re-parameterised through the setters, executed again
      ClipperOffset co(ml + 1.75, arc * 3 + 1.5, false, !pr.rev);
      co.AddPaths(paths, jt, EndType::Polygon);
      Paths64 junk; co.Execute(d, junk);
      co.MiterLimit(ml); co.ArcTolerance(arc); co.ReverseSolution(pr.rev);
      co.Execute(d, sol); return sol;
    }
    case 8: {  // the result vector is re-used: it still holds a larger offset of the same paths when the call is made
      ClipperOffset co(ml, arc, false, pr.rev);
      co.AddPaths(paths, jt, EndType::Polygon);
      co.Execute(d + (d < 0 ? -7 : 7), sol);
      co.Execute(d, sol); return sol;
    }
    case 9: {  // polytree overload first (tree kept alive), then the paths overload on the same object
      ClipperOffset co(ml, arc, false, pr.rev);
      co.AddPaths(paths, jt, EndType::Polygon);
      PolyTree64 tree; co.Execute(d, tree);
      co.Execute(d, sol); return sol;
    }
    default: {  // one group per polygon-with-holes
      ClipperOffset co(ml, arc, false, pr.rev);
      Paths64 g0, g1;
      for (size_t i = 0; i < paths.size(); ++i) (in.group[i] == 0 ? g0 : g1).push_back(paths[i]);
      co.AddPaths(g0, jt, EndType::Polygon);
      if (pr.pointless_group) co.AddPaths(Paths64{Path64()}, jt, EndType::Polygon);
      co.AddPaths(g1, jt, EndType::Polygon);
      co.Execute(d, sol);
      return sol;
    }
  }
}

static void do_case(Rng& g, const PolyInput& in, Params pr, const std::string& cls) {
  Paths64 paths = in.paths;
  std::vector<int> grp = in.group;
  // presentation: path order and start vertices are arbitrary
  for (size_t i = paths.size(); i > 1; --i) { size_t j = g.next() % i; std::swap(paths[i - 1], paths[j]); std::swap(grp[i - 1], grp[j]); }
  for (auto& p : paths) std::rotate(p.begin(), p.begin() + (g.next() % p.size()), p.end());  // (no empty path yet)
  if (pr.negative_convention) for (auto& p : paths) std::reverse(p.begin(), p.end());
  // empty paths anywhere in the list are ignored by the library
  int empties = 0;
  while (g.chance(8)) { size_t at = g.next() % (paths.size() + 1); paths.insert(paths.begin() + at, Path64()); grp.insert(grp.begin() + at, 0); ++empties; }
  PolyInput shuffled = in; shuffled.paths = paths; shuffled.group = grp;
  if (pr.api == 3 && in.outers < 2) pr.api = 1;
  if (pr.api == 0) pr.rev = false;
  Paths64 sol = run_real(shuffled, paths, pr);

  double ad = std::fabs(pr.delta.d());
  double arc_eff = pr.arc.d() > 0 ? pr.arc.d() : ad / 500;
  double f = pr.jt == 3 ? std::max(pr.ml.d(), 1.41422) : (pr.jt == 0 ? 1.41422 : 1.0);
  double tol = arc_eff + 2 + 0.001 * ad * f;
  ProbeGen pg(g);
  Rect64 b = bounds_of(paths);  // empty paths contribute nothing
  pg.uniform(b, 2 * ad * f + 10, 30);
  std::vector<double> radii = {ad, ad, ad * f};
  if (ad < 0.5) radii = {1.0, 3.0, (double)in.S / 10};
  for (int i = 0; i < 70; ++i) {
    const Path64& p = paths[g.next() % paths.size()];
    if (p.empty()) continue;
    size_t k = g.next() % p.size();
    if (i % 3 == 2) pg.near_pt(p[k], radii, tol);
    else pg.near_seg(p[k], p[(k + 1) % p.size()], radii, tol);
  }
  // and around the real result's own boundary
  if (!sol.empty())
    for (int i = 0; i < 20; ++i) {
      const Path64& p = sol[g.next() % sol.size()];
      if (p.empty()) continue;
      size_t k = g.next() % p.size();
      pg.near_seg(p[k], p[(k + 1) % p.size()], {tol + 1, 2 * tol + 2}, 0);
    }
  size_t nv = 0; for (auto& p : sol) nv += p.size();
  std::string req = "OFFSETCHECK " + std::to_string(pr.jt) + " " + pr.delta.s() + " " + pr.ml.s() + " " + pr.arc.s() + " " + (pr.rev ? "1 " : "0 ") +
                    S(paths) + " " + S(sol) + " " + vo::S(pg.out, true);
  emitS(std::string("offset.") + JT_NAME[pr.jt] + "." + cls, req);
  stat(std::string("case.join.") + JT_NAME[pr.jt]);
  stat("case.class." + cls);
  stat("case.api." + std::to_string(pr.api));
  stat(pr.negative_convention ? "case.convention.negative" : "case.convention.positive");
  if (pr.rev) stat("case.reverse_solution");
  if (empties) stat("input.with_empty_paths");
  if (pr.pointless_group && pr.api != 0) stat("case.pointless_polygon_group");
  stat("input.kind." + in.kind);
  stat("input.paths", (long long)paths.size());
  stat("input.holes", in.holes);
  stat("input.islands", in.islands);
  if (in.outers > 1) stat("input.two_polygons");
  stat("probes", (long long)pg.out.size());
  stat("result.vertices", (long long)nv);
  if (sol.empty()) stat("result.empty");
  int mag = 0; for (int64_t s = in.S; s >= 10; s /= 10) ++mag;
  stat("input.size.1e" + std::to_string(mag));
}

// miter limits below 2 matter: limits <= 1 always square off, (1,2) limit shorter miters than the default
static Q pick_ml(Rng& g) { static const int64_t v[] = {2, 4, 5, 6, 7, 8, 8, 10, 12, 16, 20}; return Q{v[g.next() % 11], 4}; }
static Q pick_arc(Rng& g, double ad) {
  static const int64_t v[] = {0, 1, 2, 4, 8, 20};  // quarters
  Q a{v[g.next() % 6], 4};
  // keep the number of arc vertices moderate: steps per circle ~ pi / sqrt(2 arc / delta)
  while (a.num > 0 && ad / a.d() > 20000) a.num *= 4;
  return a;
}

int main(int argc, char** argv) {
  Rng g(seed_from_args(argc, argv));
  bool thorough = thorough_from_args(argc, argv);
  int N = thorough ? 15000 : 1200;
  {
    // known finding (found by the generic stream at the thorough budget, seed 4): shrinking at a convex vertex (interior angle
    // about 147 degrees) leaves a result vertex 2.03 units from the ideal offset boundary - 0.6 % more than the property's
    // tolerance (2 + 0.1 % |delta|); the same for every join type.  Its own generator, so that the record does not depend on the seed.
    Rng gk(20260927);
    PolyInput k;
    k.paths = {Path64{Point64(49258, 40431), Point64(48478, 41534), Point64(48816, 40015), Point64(48959, 39870), Point64(49106, 40513)}};
    k.group = {0}; k.S = 1100; k.kind = "kf"; k.outers = 1;
    Params pk; pk.jt = 1; pk.delta = Q{-39, 8}; pk.ml = Q{6, 4}; pk.arc = Q{0, 4}; pk.rev = false; pk.negative_convention = false; pk.api = 0; pk.pointless_group = 0;
    do_case(gk, k, pk, "kf.shrink_convex_vertex_notch");
  }
  for (int i = 0; i < N; ++i) {
    PolyInput in;
    if (!gen_input(g, in)) { stat("gen.rejected"); continue; }
    // near-vanishing class: a round-ish contour (regular n-gon, random rotation) shrunk to 1.5 .. 20 % of its inradius - alone as an
    // outer (negative delta) or as the hole of a square (positive delta).  What remains is small but far outside the tolerance
    // band, so a wrong "this path will vanish anyway" shortcut or a lost residue shows up as missing / extra region.
    bool nearvanish = g.chance(8);
    double nv_inradius = 0; bool nv_hole = false;
    if (nearvanish) {
      in = PolyInput();
      int n = (int)g.range(5, 32);
      int64_t R = log_uniform(g, 300, 300000);
      double rot = g.unit() * 6.283185307179586;
      Path64 ngon;
      for (int k = 0; k < n; ++k) ngon.emplace_back((int64_t)std::llround((double)R * std::cos(rot + 6.283185307179586 * k / n)), (int64_t)std::llround((double)R * std::sin(rot + 6.283185307179586 * k / n)));
      if (!ccw(ngon)) std::reverse(ngon.begin(), ngon.end());
      nv_inradius = (double)R * std::cos(3.141592653589793 / n) - 1.5;
      nv_hole = g.coin();
      if (nv_hole) {
        in.paths.push_back(Path64{Point64(-3 * R, -3 * R), Point64(3 * R, -3 * R), Point64(3 * R, 3 * R), Point64(-3 * R, 3 * R)});
        std::reverse(ngon.begin(), ngon.end());
        in.holes = 1;
      }
      in.paths.push_back(ngon);
      in.group.assign(in.paths.size(), 0);
      in.S = nv_hole ? 3 * R : R; in.kind = "ngon"; in.outers = 1;
      if (!closed_set_simple(in.paths)) { stat("gen.rejected"); continue; }
    }
    Params pr;
    pr.jt = (int)(g.next() % 4);
    pr.ml = pick_ml(g);
    pr.rev = g.chance(30);
    pr.negative_convention = g.chance(40);
    pr.api = (int)(g.next() % 10);
    pr.pointless_group = g.chance(15) ? (int)g.range(1, 2) : 0;
    int c = (int)(g.next() % 20);
    std::string cls;
    int64_t eighths;
    if (c < 8) { cls = "inflate"; eighths = log_uniform(g, 8, std::max<int64_t>(9, in.S * 8 / 3)); }
    else if (c < 16) { cls = "shrink"; eighths = -log_uniform(g, 8, std::max<int64_t>(9, in.S * 8 / 3)); }
    else if (c < 18) { cls = "overshrink"; eighths = -g.range(in.S * 8, in.S * 16); }
    else { cls = "small"; static const int64_t sm[] = {0, 1, -1, 2, -2, 3, -3}; eighths = sm[g.next() % 7]; }
    if (g.chance(60) && cls != "small") eighths = eighths / 8 * 8;  // integral delta most of the time
    if (cls != "small" && eighths > -8 && eighths < 8) eighths = eighths < 0 ? -8 : 8;
    if (nearvanish) {
      cls = "nearvanish";
      double f = 0.80 + 0.185 * g.unit();
      eighths = (int64_t)(f * nv_inradius * 8.0);
      if (g.chance(60)) eighths = eighths / 8 * 8;
      if (eighths < 8) eighths = 8;
      if (!nv_hole) eighths = -eighths;
      pr.pointless_group = 0;
    }
    pr.delta = Q{eighths, 8};
    pr.arc = pick_arc(g, std::fabs(pr.delta.d()));
    do_case(g, in, pr, cls);
  }
  flush_stats();
  return 0;
}
