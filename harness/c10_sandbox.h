// Process sandbox of the C10 harness: every batch of cases runs in a forked child under ASan+UBSan+LSan with
//   * a per-case wall-clock watchdog (alarm),
//   * a live-heap cap (sanitizer malloc/free hooks; RLIMIT_AS cannot be used with ASan's shadow memory),
//   * an `operator new` interposer that can fail the k-th allocation from now (std::bad_alloc) and otherwise forwards to
//     the sanitizer's own operator new (dlsym RTLD_NEXT), so that new/delete mismatch detection stays intact.
// The parent classifies how the child ended.  Nothing here touches the library.
#pragma once
#include <cstdint>
#include <cstdio>
#include <cstdlib>
#include <cstring>
#include <new>
#include <string>
#include <functional>
#include <dlfcn.h>
#include <fcntl.h>
#include <signal.h>
#include <unistd.h>
#include <sys/mman.h>
#include <sys/wait.h>
#include <sys/time.h>
#include <sanitizer/lsan_interface.h>

extern "C" {
size_t __sanitizer_get_allocated_size(const volatile void*);
int __sanitizer_install_malloc_and_free_hooks(void (*)(const volatile void*, size_t), void (*)(const volatile void*));
// defaults for runs outside ./check (the environment set by ./check overrides them flag by flag)
const char* __asan_default_options() { return "detect_leaks=1:abort_on_error=0:exitcode=97:allocator_may_return_null=1:detect_stack_use_after_return=0:quarantine_size_mb=32"; }
const char* __ubsan_default_options() { return "print_stacktrace=1:halt_on_error=1:exitcode=98"; }
}

namespace sbx {

// Watchdog of a child: `seconds` of CPU time (ITIMER_PROF -> SIGPROF; an endless loop burns CPU, a machine that is merely busy does
// not make an innocent case look hung), with a wall-clock backstop at 15 x that (alarm -> SIGALRM) for a process that blocks.
// Neither signal is handled: the default action ends the child and the parent classifies the run as HANG.
inline void watchdog(int seconds) {
  struct itimerval tv; tv.it_interval.tv_sec = 0; tv.it_interval.tv_usec = 0; tv.it_value.tv_sec = seconds; tv.it_value.tv_usec = 0;
  setitimer(ITIMER_PROF, &tv, nullptr);
  alarm(seconds > 0 ? (unsigned)seconds * 15u : 0u);
}


enum ExitCode { EX_OK = 0, EX_SWALLOWED = 91, EX_WRONG_EXC = 92, EX_EXC = 93, EX_MEM = 94, EX_LEAK = 95, EX_ASAN = 97, EX_UBSAN = 98 };
enum Outcome { OK = 0, CRASH, HANG, UB, LEAK, MEM, EXC, ALLOC_SWALLOWED, ALLOC_WRONG_EXC };
inline const char* outcome_name(Outcome o) {
  static const char* n[] = {"ok", "crash", "hang", "ub", "leak", "mem", "exc", "alloc", "alloc"};
  return n[o];
}

// state shared between a child and the parent (anonymous shared mapping)
struct Shared {
  volatile long cur;        // index of the case (or injection point k) being executed
  volatile long done;       // number of cases finished / the k at which the operation completed without injection
  volatile long aux[8];     // free use (leaking k's found by the live-byte counter, …)
  volatile long naux;
  volatile long peak;       // peak live heap bytes of the child
};
inline Shared*& shared() { static Shared* s = nullptr; return s; }

// ---- heap accounting and failure injection
struct Heap {
  bool in_child = false;
  long long live = 0, peak = 0, cap = (1ll << 30);
  long long total = 0;               // cumulative bytes requested
  long long allocs = 0;              // calls of operator new / new[]
  long countdown = 0;                // > 0: the countdown-th operator new from now throws
  bool armed = false, hit = false;
};
inline Heap& heap() { static Heap h; return h; }

inline void malloc_hook(const volatile void*, size_t n) {
  Heap& h = heap();
  if (!h.in_child) return;
  h.live += (long long)n; h.total += (long long)n;
  if (h.live > h.peak) h.peak = h.live;
  if (h.live > h.cap) {
    if (shared()) shared()->peak = h.peak;
    const char m[] = "C10-SANDBOX: live heap above the cap\n";
    if (write(2, m, sizeof m - 1)) {}
    _exit(EX_MEM);
  }
}
inline void free_hook(const volatile void* p) {
  Heap& h = heap();
  if (!h.in_child || !p) return;
  h.live -= (long long)__sanitizer_get_allocated_size(p);
}

typedef void* (*new_fn)(size_t);
inline void* forward_new(size_t n, bool array) {
  static new_fn real_new = (new_fn)dlsym(RTLD_NEXT, "_Znwm");
  static new_fn real_newa = (new_fn)dlsym(RTLD_NEXT, "_Znam");
  Heap& h = heap();
  ++h.allocs;
  if (h.armed && h.countdown > 0 && --h.countdown == 0) { h.hit = true; h.armed = false; throw std::bad_alloc(); }
  // a single request above the cap: what a real system does is fail it
  if (h.in_child && (long long)n > h.cap) {
    const char m[] = "C10-SANDBOX: single allocation above the cap\n";
    if (write(2, m, sizeof m - 1)) {}
    _exit(EX_MEM);
  }
  new_fn f = array ? real_newa : real_new;
  if (!f) { void* p = malloc(n ? n : 1); if (!p) throw std::bad_alloc(); return p; }
  return f(n);
}

// Arms the injector for the lifetime of the object.  Declare it *after* the library objects under test so that it is
// destroyed first during unwinding (destructors of the library objects then run with the injector off).
struct Armer {
  Armer() { Heap& h = heap(); if (h.countdown > 0 && !h.hit) h.armed = true; }
  ~Armer() { heap().armed = false; }
};

// ---- running something in a child
struct Result {
  Outcome oc = OK;
  int exit_code = 0, sig = 0;
  long cur = 0, done = 0;
  std::string diag;          // first sanitizer line (diagnostic only; not part of any record)
};

inline std::string err_path() { return "/tmp/c10-sandbox-" + std::to_string((long)getpid()) + ".err"; }

inline std::string first_diag(const std::string& text) {
  static const char* keys[] = {"ERROR: AddressSanitizer", "ERROR: LeakSanitizer", "runtime error:", "C10-SANDBOX:", "terminate called", "AddressSanitizer:"};
  size_t best = std::string::npos;
  for (const char* k : keys) { size_t p = text.find(k); if (p < best) best = p; }
  if (best == std::string::npos) return text.substr(0, 200);
  size_t b = text.rfind('\n', best); b = (b == std::string::npos) ? 0 : b + 1;
  size_t e = text.find('\n', best);
  return text.substr(b, (e == std::string::npos ? text.size() : e) - b).substr(0, 300);
}

// body runs in the child; it returns the exit code it wants (EX_OK normally).  A leak check follows when it returns EX_OK.
inline Result in_child(const std::function<int()>& body, bool leak_check = true) {
  if (!shared()) {
    shared() = (Shared*)mmap(nullptr, sizeof(Shared), PROT_READ | PROT_WRITE, MAP_SHARED | MAP_ANONYMOUS, -1, 0);
    __sanitizer_install_malloc_and_free_hooks(malloc_hook, free_hook);
  }
  Shared* sh = shared();
  sh->cur = -1; sh->done = 0; sh->naux = 0; sh->peak = 0;
  std::string ep = err_path();
  fflush(stdout); fflush(stderr);
  pid_t pid = fork();
  if (pid == 0) {
    int fd = open(ep.c_str(), O_WRONLY | O_CREAT | O_TRUNC, 0600);
    if (fd >= 0) { dup2(fd, 2); close(fd); }
    Heap& h = heap();
    h.in_child = true; h.live = 0; h.peak = 0;
    int code = body();
    watchdog(0);
    sh->peak = h.peak;
    if (code == EX_OK && leak_check) {
      h.in_child = false;                 // the leak checker's own allocations are not the library's
      if (__lsan_do_recoverable_leak_check()) code = EX_LEAK;
    }
    _exit(code);
  }
  Result r;
  int st = 0;
  if (pid < 0 || waitpid(pid, &st, 0) != pid) { r.oc = CRASH; r.diag = "fork/waitpid failed"; return r; }
  r.cur = sh->cur; r.done = sh->done;
  if (WIFSIGNALED(st)) {
    r.sig = WTERMSIG(st);
    r.oc = (r.sig == SIGALRM || r.sig == SIGPROF) ? HANG : CRASH;
  } else {
    r.exit_code = WEXITSTATUS(st);
    switch (r.exit_code) {
      case EX_OK: r.oc = OK; break;
      case EX_UBSAN: r.oc = UB; break;
      case EX_LEAK: r.oc = LEAK; break;
      case EX_MEM: r.oc = MEM; break;
      case EX_EXC: r.oc = EXC; break;
      case EX_SWALLOWED: r.oc = ALLOC_SWALLOWED; break;
      case EX_WRONG_EXC: r.oc = ALLOC_WRONG_EXC; break;
      default: r.oc = CRASH; break;       // EX_ASAN and anything unexpected
    }
  }
  if (r.oc != OK) {
    std::string text;
    if (FILE* f = fopen(ep.c_str(), "r")) {
      char buf[8192]; size_t n;
      while (text.size() < (1u << 18) && (n = fread(buf, 1, sizeof buf, f)) > 0) text.append(buf, n);
      fclose(f);
    }
    r.diag = first_diag(text);
    if (r.oc == CRASH && r.exit_code == EX_ASAN) {
      if (text.find("LeakSanitizer: detected memory leaks") != std::string::npos && text.find("ERROR: AddressSanitizer") == std::string::npos) r.oc = LEAK;
      else if (text.find("runtime error:") != std::string::npos && text.find("ERROR: AddressSanitizer") == std::string::npos) r.oc = UB;
    }
  }
  unlink(ep.c_str());
  return r;
}

}  // namespace sbx

void* operator new(size_t n) { return sbx::forward_new(n, false); }
void* operator new[](size_t n) { return sbx::forward_new(n, true); }
