// C08 harness, second half of RectClip64: CheckEdges / TidyEdges / GetPath (real code, in-process, private members read through
// `#define private public`; no hook).  For every generated path of the general class the per-path steps of RectClip64::Execute are
// replicated on a fresh object: ExecuteInternal, CheckEdges, TidyEdges(0..3), GetPath for every results_ slot - and after EVERY
// stage the complete heap is dumped: every field of every OutPt2 of op_container_ (pt, next, prev, owner_idx, edge), results_, and the
// eight lists edges_[0..7] with their nullptr slots.  Nodes are identified by their position in op_container_ (creation order), so
// pointer values do not matter.  Model level: `RCTIDY rect path <dumps>` - Model/RectClipTidy.lean must reproduce every token of every
// dump, every GetPath result and the final RectClip(rect, {path}) (answer `ok <branch summary>` or the first diverging token);
// `RCEXEC rect paths` - the whole Execute on several paths.  In-process (F records): results_ slots pointing into one ring or to a
// node with another owner_idx, an unlinked node reachable from results_, rings with inconsistent links, GetPath results that differ
// from RectClip's, per-path clean-up (results_/edges_/start_locs_/op_container_ empty after Execute), re-use of one object.
#include <algorithm>
#include <cmath>
#include <csignal>
#include <cstdint>
#include <cstdlib>
#include <cstdio>
#include <cstring>
#include <deque>
#include <functional>
#include <map>
#include <numeric>
#include <set>
#include <sstream>
#include <string>
#include <vector>
#include <limits>
#include <unistd.h>
#define private public
#define protected public
#include "common.h"
#include "clipper.rectclip.cpp"  // the library source itself (found through -I <repo>/CPP/Clipper2Lib/src)
#undef private
#undef protected
using namespace vh;

static const int64_t B40 = (int64_t)1 << 40;
static std::string SR(const Rect64& r) { return S(r.left) + " " + S(r.top) + " " + S(r.right) + " " + S(r.bottom); }

static std::string g_current;
extern "C" void __sanitizer_set_death_callback(void (*)(void));
static void on_death() { fprintf(stderr, "VERIF-CURRENT: %s\n", g_current.c_str()); }
static void on_alarm(int) {
  const char* m = "VERIF-WATCHDOG: the real code did not return within 30 s\nVERIF-CURRENT: ";
  (void)!write(2, m, strlen(m)); (void)!write(2, g_current.c_str(), g_current.size()); (void)!write(2, "\n", 1);
  _exit(96);
}

static int64_t clamp40(int64_t v) { return std::max(-B40, std::min(B40, v)); }
static Point64 corner(const Rect64& r, int k) {
  switch (k & 3) { case 0: return Point64(r.left, r.top); case 1: return Point64(r.right, r.top); case 2: return Point64(r.right, r.bottom); default: return Point64(r.left, r.bottom); }
}
typedef __int128 i128;
static int sgn(double d) { return d == 0 ? 0 : (d > 0 ? 1 : -1); }
// the class of known finding kf.lost_crossing (see harness/C08.cpp)
static bool in_lost_crossing_class(const Rect64& r, const Path64& p) {
  size_t n = p.size();
  for (size_t i = 0; i < n; ++i)
    for (int k = 0; k < 4; ++k) {
      Point64 c = corner(r, k);
      const Point64& a = p[i]; const Point64& b = p[(i + 1) % n];
      if (sgn(CrossProduct(c, a, b)) != -sgn(CrossProduct(c, b, a))) return true;
    }
  return false;
}
// see harness/C08.cpp: a segment entering the rectangle for which GetIntersection finds no crossing makes ExecuteInternal spin
static bool strictly_inside(const Rect64& r, const Point64& q) { return q.x > r.left && q.x < r.right && q.y > r.top && q.y < r.bottom; }
static bool would_hang(const Rect64& r, const Path64& p) {
  if (r.IsEmpty() || p.size() < 3) return false;
  Rect64 b = GetBounds(p);
  if (!r.Intersects(b) || r.Contains(b)) return false;
  Path64 rp = r.AsPath();
  size_t n = p.size();
  for (size_t i = 0; i < n; ++i) {
    const Point64& cur = p[i]; const Point64& prv = p[(i + n - 1) % n];
    if (!strictly_inside(r, cur) || strictly_inside(r, prv)) continue;
    Location l = Location::Inside; Point64 ip;
    if (!GetIntersection(rp, cur, prv, l, ip)) return true;
  }
  return false;
}

// ---------------------------------------------------------------------------------------------- heap dumps
struct Dump {
  std::string toks;
  bool bad = false;
  std::string why;
};
static void addtok(std::string& s, const std::string& t) { if (!s.empty()) s += ' '; s += t; }

static std::map<const OutPt2*, long> index_nodes(RectClip64& rc) {
  std::map<const OutPt2*, long> idx;
  long k = 0;
  for (const OutPt2& o : rc.op_container_) idx[&o] = k++;
  return idx;
}
static void dump_heap(RectClip64& rc, const char* stage, std::string& out, std::string& problems) {
  std::map<const OutPt2*, long> idx = index_nodes(rc);
  auto id = [&](const OutPt2* p) -> long {
    if (!p) return -1;
    auto it = idx.find(p);
    if (it == idx.end()) { problems += std::string(" [") + stage + ": pointer outside op_container_]"; return -2; }
    return it->second;
  };
  addtok(out, stage);
  addtok(out, std::to_string(rc.op_container_.size()));
  for (const OutPt2& o : rc.op_container_) {
    addtok(out, S(o.pt));
    addtok(out, std::to_string(id(o.next)));
    addtok(out, std::to_string(id(o.prev)));
    addtok(out, std::to_string(o.owner_idx));
    long e = -1;
    if (o.edge) {
      e = (long)(o.edge - &rc.edges_[0]);
      if (e < 0 || e > 7) { problems += std::string(" [") + stage + ": edge pointer outside edges_]"; e = -2; }
    }
    addtok(out, std::to_string(e));
  }
  addtok(out, "R");
  addtok(out, std::to_string(rc.results_.size()));
  for (OutPt2* p : rc.results_) addtok(out, std::to_string(id(p)));
  addtok(out, "E");
  for (int e = 0; e < 8; ++e) {
    addtok(out, std::to_string(rc.edges_[e].size()));
    for (OutPt2* p : rc.edges_[e]) addtok(out, std::to_string(id(p)));
  }
}

// invariants of the real heap that the theorems of Props/C08Tidy.lean state for the model; `after_check`: owner_idx is meaningful
// (before CheckEdges every node has owner_idx 0 and there is one ring)
static void check_real_heap(RectClip64& rc, const char* stage, const std::string& label, bool edges_point_back) {
  std::map<const OutPt2*, long> idx = index_nodes(rc);
  std::map<const OutPt2*, size_t> ring_of;  // node -> slot whose ring contains it
  for (size_t s = 0; s < rc.results_.size(); ++s) {
    OutPt2* op = rc.results_[s];
    if (!op) continue;
    if (op->owner_idx != s) emitF(label + ".slot_owner", std::string(stage) + ": results_[" + std::to_string(s) + "] points to a node with owner_idx " + std::to_string(op->owner_idx) + ": " + g_current);
    OutPt2* q = op; size_t guard = 0;
    do {
      if (q->next->prev != q || q->prev->next != q) { emitF(label + ".links", std::string(stage) + ": ring of slot " + std::to_string(s) + " is not doubly linked: " + g_current); break; }
      auto it = ring_of.find(q);
      if (it != ring_of.end()) {
        emitF(label + ".two_slots", std::string(stage) + ": results_[" + std::to_string(it->second) + "] and results_[" + std::to_string(s) + "] point into the same ring: " + g_current);
        break;
      }
      ring_of[q] = s;
      if (q->owner_idx != s) { emitF(label + ".owner", std::string(stage) + ": node in the ring of slot " + std::to_string(s) + " has owner_idx " + std::to_string(q->owner_idx) + ": " + g_current); break; }
      q = q->next;
    } while (q != op && ++guard < 10000000);
  }
  for (int e = 0; e < 8; ++e)
    for (OutPt2* p : rc.edges_[e]) {
      if (!p) continue;
      if (!ring_of.count(p)) emitF(label + ".edge_dead", std::string(stage) + ": edges_[" + std::to_string(e) + "] holds a node that is in no ring of results_: " + g_current);
      if (edges_point_back && p->edge != &rc.edges_[e]) emitF(label + ".edge_back", std::string(stage) + ": edges_[" + std::to_string(e) + "] holds a node whose edge field points elsewhere: " + g_current);
    }
}

static long long g_splits = 0, g_rejoins = 0;

// model level: everything after ExecuteInternal, stage by stage
static bool do_tidy(const std::string& label, const Rect64& r, const Path64& p) {
  if (r.IsEmpty() || p.size() < 3) return false;
  RectClip64 rc(r);
  rc.path_bounds_ = GetBounds(p);
  if (!rc.rect_.Intersects(rc.path_bounds_) || rc.rect_.Contains(rc.path_bounds_)) return false;
  g_current = "RCTIDY " + SR(r) + " " + S(p);
  if (would_hang(r, p)) { stat("skipped.would_hang"); return false; }
  alarm(30);
  std::string toks, problems;
  rc.ExecuteInternal(p);
  dump_heap(rc, "A", toks, problems);
  addtok(toks, "L"); addtok(toks, std::to_string(rc.start_locs_.size()));
  for (Location l : rc.start_locs_) addtok(toks, std::to_string((int)l));
  size_t nodes = rc.op_container_.size();
  rc.CheckEdges();
  dump_heap(rc, "C", toks, problems);
  check_real_heap(rc, "after CheckEdges", label, true);
  if (rc.op_container_.size() != nodes) emitF(label + ".new_node", "CheckEdges created a node: " + g_current);
  {  // quirks of CheckEdges that the theorems must not exclude: its collinear pass stops early (collinear triples and even
     // consecutive equal points can survive), so an edge-list entry may have zero length
    bool coll = false, dup = false; long long zero = 0, entries = 0;
    for (OutPt2* op : rc.results_) if (op) { OutPt2* q = op; do { if (IsCollinear(q->prev->pt, q->pt, q->next->pt)) coll = true; if (q->pt == q->prev->pt) dup = true; q = q->next; } while (q != op); }
    for (int e = 0; e < 8; ++e) for (OutPt2* q : rc.edges_[e]) if (q) { ++entries; if (q->pt == q->prev->pt) ++zero; }
    if (coll) stat("check.collinear_triple_survives_CheckEdges");
    if (dup) stat("check.equal_neighbours_survive_CheckEdges");
    stat("check.edge_entries", entries);
    stat("check.edge_entries_of_zero_length", zero);
  }
  size_t live_after_check = 0;
  for (OutPt2* op : rc.results_) if (op) { OutPt2* q = op; do { ++live_after_check; q = q->next; } while (q != op); }
  long long splits = 0, rejoins = 0;
  for (size_t i = 0; i < 4; ++i) {
    // every split appends a slot, every rejoin nulls one: rejoins = splits - (change of the number of non-null slots)
    size_t size_before = rc.results_.size();
    long long nn_before = 0, nn_after = 0;
    for (OutPt2* q : rc.results_) if (q) ++nn_before;
    rc.TidyEdges(i, rc.edges_[i * 2], rc.edges_[i * 2 + 1]);
    for (OutPt2* q : rc.results_) if (q) ++nn_after;
    long long sp = (long long)(rc.results_.size() - size_before);
    splits += sp;
    rejoins += sp - (nn_after - nn_before);
    {  // quirk: `cw[i] = op` / `ccw[j] = op` move a node between the two lists of a side without updating op->edge
      long long stale = 0;
      for (int e = 0; e < 8; ++e) for (OutPt2* q : rc.edges_[e]) if (q && q->edge != &rc.edges_[e]) ++stale;
      stat("tidy.entries_whose_edge_field_points_elsewhere", stale);
    }
    std::string st = "T" + std::to_string(i);
    dump_heap(rc, st.c_str(), toks, problems);
    check_real_heap(rc, ("after TidyEdges " + std::to_string(i)).c_str(), label, false);
  }
  if (rc.op_container_.size() != nodes) emitF(label + ".new_node", "TidyEdges created a node: " + g_current);
  {  // TidyEdges neither drops nor duplicates a node of a live ring
    size_t live = 0;
    for (OutPt2* op : rc.results_) if (op) { OutPt2* q = op; size_t guard = 0; do { ++live; q = q->next; } while (q != op && ++guard < 10000000); }
    if (live != live_after_check) emitF(label + ".live_nodes", "nodes in live rings before TidyEdges " + std::to_string(live_after_check) + ", after " + std::to_string(live) + ": " + g_current);
  }
  Paths64 got;
  for (OutPt2*& op : rc.results_) {
    Path64 tmp = rc.GetPath(op);
    addtok(toks, "G"); addtok(toks, S(tmp));
    if (!tmp.empty()) {
      if (tmp.size() < 3) stat("tidy.getpath_returned_1_or_2_points");  // quirk of the real GetPath (no size test after its collinear removal): see getPath_short_witness
      got.push_back(tmp);
    }
  }
  dump_heap(rc, "H", toks, problems);
  Paths64 out = RectClip(r, Paths64{p});
  alarm(0);
  addtok(toks, "F"); addtok(toks, S(out));
  if (got != out) emitF(label + ".replica", "the replicated stages give " + S(got) + " but RectClip gives " + S(out) + ": " + g_current);
  if (!problems.empty()) emitF(label + ".dump", "heap not dumpable:" + problems + ": " + g_current);
  emitM(label + ".tidy.model", "RCTIDY " + SR(r) + " " + S(p) + " " + toks, "ok");
  stat("tidy.inputs");
  stat("tidy.nodes", (long long)nodes);
  stat("tidy.real_splits", splits);
  stat("tidy.real_rejoins", rejoins);
  if (splits) stat("tidy.inputs_with_split");
  if (rejoins) stat("tidy.inputs_with_rejoin");
  stat("tidy.result_paths", (long long)out.size());
  if (in_lost_crossing_class(r, p)) stat("tidy.inputs_in_kf_lost_crossing_class");
  g_splits += splits; g_rejoins += rejoins;
  return true;
}

// whole Execute on several paths, per-path clean-up, re-use of the object
static void do_exec(const std::string& label, const Rect64& r, const Paths64& ps) {
  for (auto& p : ps) if (would_hang(r, p)) { stat("skipped.would_hang"); return; }
  g_current = "RCEXEC " + SR(r) + " " + S(ps);
  alarm(30);
  RectClip64 rc(r);
  Paths64 out = rc.Execute(ps);
  bool clean = rc.results_.empty() && rc.start_locs_.empty() && rc.op_container_.empty();
  for (int e = 0; e < 8; ++e) clean = clean && rc.edges_[e].empty();
  if (!clean) emitF(label + ".cleanup", "results_/edges_/start_locs_/op_container_ not empty after Execute: " + g_current);
  Paths64 again = rc.Execute(ps);
  if (again != out) emitF(label + ".reuse", "second Execute on the same object differs: " + g_current);
  Paths64 single;
  for (auto& p : ps) { Paths64 o = RectClip(r, Paths64{p}); single.insert(single.end(), o.begin(), o.end()); }
  if (single != out) emitF(label + ".path_by_path", "Execute of several paths differs from the single-path results: " + g_current);
  alarm(0);
  emitM(label + ".exec.model", "RCEXEC " + SR(r) + " " + S(ps), S(out));
  stat("exec.calls");
  stat("exec.paths", (long long)ps.size());
}

// ---------------------------------------------------------------------------------------------- generators (those of harness/C08.cpp)
static Rect64 gen_rect(Rng& g, int kind) {
  switch (kind) {
    case 0: { int64_t l = g.range(-50, 50), t = g.range(-50, 50); return Rect64(l, t, l + g.range(8, 80), t + g.range(8, 80)); }
    case 1: { int64_t l = g.range(-100000, 100000), t = g.range(-100000, 100000); return Rect64(l, t, l + g.range(10, 200000), t + g.range(10, 200000)); }
    case 2: { int64_t l = g.range(-B40, B40 / 2), t = g.range(-B40, B40 / 2); return Rect64(l, t, g.range(l + 1, B40), g.range(t + 1, B40)); }
    default: {
      int64_t w = g.range(8, 1000), h = g.range(8, 1000);
      int64_t l = g.coin() ? B40 - w - g.range(0, 1000) : -B40 + g.range(0, 1000), t = g.coin() ? B40 - h - g.range(0, 1000) : -B40 + g.range(0, 1000);
      return Rect64(l, t, l + w, t + h); }
  }
}
static int64_t around(Rng& g, int64_t lo, int64_t hi) {
  int64_t span = hi - lo;
  switch (g.next() % 9) {
    case 0: return lo;
    case 1: return hi;
    case 2: return clamp40(lo - g.range(1, span + 2));
    case 3: return clamp40(hi + g.range(1, span + 2));
    case 4: return g.coin() ? clamp40(lo - g.range(1, 8 * span + 8)) : clamp40(hi + g.range(1, 8 * span + 8));
    default: return g.range(lo, hi);
  }
}
static Point64 pt_around(Rng& g, const Rect64& r) { return Point64(around(g, r.left, r.right), around(g, r.top, r.bottom)); }
static Point64 region_pt(Rng& g, const Rect64& r, int side, int64_t d) {
  int64_t w = r.right - r.left, h = r.bottom - r.top;
  switch (side & 3) {
    case 0: return Point64(clamp40(r.left - d), clamp40(r.top + g.range(-d, h + d)));
    case 1: return Point64(clamp40(r.left + g.range(-d, w + d)), clamp40(r.top - d));
    case 2: return Point64(clamp40(r.right + d), clamp40(r.top + g.range(-d, h + d)));
    default: return Point64(clamp40(r.left + g.range(-d, w + d)), clamp40(r.bottom + d));
  }
}
static Path64 gen_poly(Rng& g, const Rect64& r, std::string& kind) {
  int64_t w = r.right - r.left, h = r.bottom - r.top;
  int64_t m = std::max<int64_t>(4, std::min<int64_t>(w, h));
  Path64 p;
  switch (g.next() % 10) {
    case 0: {
      kind = "star";
      int n = (int)g.range(3, 14);
      int64_t rmax = std::max<int64_t>(8, std::min<int64_t>(B40 / 4, g.range(m / 2, 2 * (w + h))));
      int64_t cx = clamp40(r.left + g.range(-w / 2, w + w / 2)), cy = clamp40(r.top + g.range(-h / 2, h + h / 2));
      p = star_poly(g, n, std::max<int64_t>(2, rmax / (int64_t)g.range(2, 6)), rmax, 0, 0);
      for (auto& q : p) q = Point64(clamp40(q.x + cx), clamp40(q.y + cy));
      break; }
    case 1: {
      kind = "random";
      int n = (int)g.range(3, 10);
      for (int i = 0; i < n; ++i) p.push_back(pt_around(g, r));
      break; }
    case 2: {
      kind = "along_sides";
      int n = (int)g.range(3, 10);
      for (int i = 0; i < n; ++i) {
        Point64 q = pt_around(g, r);
        if (i && g.chance(60)) { if (g.coin()) q.x = p[i - 1].x; else q.y = p[i - 1].y; }
        if (g.chance(40)) { if (g.coin()) q.x = g.coin() ? r.left : r.right; else q.y = g.coin() ? r.top : r.bottom; }
        p.push_back(q);
      }
      break; }
    case 3: {
      kind = "through_corners";
      int n = (int)g.range(2, 5);
      for (int i = 0; i < n; ++i) {
        Point64 c = corner(r, (int)(g.next() % 4));
        if (g.chance(35)) p.push_back(c);
        else {
          int64_t lim = std::max<int64_t>(2, std::min<int64_t>(m, (int64_t)1 << 20));
          int64_t dx = g.range(-lim, lim), dy = g.range(-lim, lim), k1 = g.range(1, 3), k2 = g.range(1, 3);
          p.emplace_back(clamp40(c.x - k1 * dx), clamp40(c.y - k1 * dy));
          p.emplace_back(clamp40(c.x + k2 * dx), clamp40(c.y + k2 * dy));
        }
      }
      if (p.size() < 3) p.push_back(pt_around(g, r));
      break; }
    case 4: {
      kind = "enclosing";
      int64_t d1 = g.range(0, m), d2 = g.range(0, m), d3 = g.range(0, m), d4 = g.range(0, m);
      p = Path64{Point64(clamp40(r.left - d1), clamp40(r.top - d2)), Point64(clamp40(r.right + d3), clamp40(r.top - d2 - g.range(0, 3))),
                 Point64(clamp40(r.right + d3), clamp40(r.bottom + d4)), Point64(clamp40(r.left - d1 - g.range(0, 3)), clamp40(r.bottom + d4))};
      if (g.coin()) { Point64 e = region_pt(g, r, (int)(g.next() % 4), g.range(1, 2 * m)); p.insert(p.begin() + (long)(g.next() % 4), e); }
      if (g.coin()) std::reverse(p.begin(), p.end());
      std::rotate(p.begin(), p.begin() + (long)(g.next() % p.size()), p.end());
      break; }
    case 5: {
      kind = "spiral";
      int turns = (int)g.range(1, 3);
      bool cw = g.coin();
      int side = (int)(g.next() % 4);
      int64_t d = g.range(1, m);
      for (int t = 0; t < turns * 4 + (int)g.range(0, 3); ++t) {
        p.push_back(region_pt(g, r, side, d));
        if (g.chance(20)) p.emplace_back(g.range(r.left, r.right), g.range(r.top, r.bottom));
        side = (side + (cw ? 1 : 3)) & 3;
        d += g.range(0, m / 2 + 1);
      }
      break; }
    case 6: {
      kind = "rect_like";
      int64_t a = g.range(-2, 2), b = g.range(-2, 2), c = g.range(-2, 2), d = g.range(-2, 2);
      if (g.chance(30)) a = b = c = d = 0;
      p = rect_path(r.left + a, r.top + b, r.right + c, r.bottom + d);
      if (g.coin()) std::reverse(p.begin(), p.end());
      std::rotate(p.begin(), p.begin() + (long)(g.next() % 4), p.end());
      if (g.chance(30)) p.insert(p.begin() + 1, Point64((p[0].x + p[1].x) / 2, (p[0].y + p[1].y) / 2));
      break; }
    case 7: {
      kind = "degenerate";
      int n = (int)g.range(0, 8);
      Point64 a = pt_around(g, r), b = pt_around(g, r);
      for (int i = 0; i < n; ++i) {
        switch (g.next() % 4) {
          case 0: p.push_back(i ? p[i - 1] : a); break;
          case 1: { int64_t k = g.range(-2, 3); p.emplace_back(clamp40(a.x + k * ((b.x - a.x) / 4)), clamp40(a.y + k * ((b.y - a.y) / 4))); break; }
          case 2: p.push_back(i >= 2 ? p[i - 2] : b); break;
          default: p.push_back(pt_around(g, r)); break;
        }
      }
      break; }
    case 8: {
      kind = "inside_or_outside";
      int n = (int)g.range(3, 8);
      int mode = (int)(g.next() % 3);
      for (int i = 0; i < n; ++i) {
        if (mode == 0) p.emplace_back(g.range(r.left, r.right), g.range(r.top, r.bottom));
        else if (mode == 1) p.emplace_back(clamp40(r.right + g.range(1, m)), clamp40(r.top + g.range(-m, h + m)));
        else p.emplace_back(clamp40(r.left - g.range(0, m)), clamp40(r.top + g.range(-m, h + m)));
      }
      break; }
    default: {
      kind = "big_triangle";
      int n = (int)g.range(3, 4);
      for (int i = 0; i < n; ++i) p.push_back(region_pt(g, r, (int)(g.next() % 4), g.range(1, 4 * m)));
      if (g.coin()) p[0] = Point64(g.range(r.left, r.right), g.range(r.top, r.bottom));
      break; }
  }
  return p;
}
static int64_t gcd_ext(int64_t a, int64_t b, int64_t& x, int64_t& y) {
  if (b == 0) { x = 1; y = 0; return a; }
  int64_t x1, y1; int64_t d = gcd_ext(b, a % b, x1, y1);
  x = y1; y = x1 - (a / b) * y1; return d;
}
static bool graze_corner(Rng& g, const Rect64& r, int k, int64_t mag, int64_t tmax, Point64& a, Point64& b) {
  Point64 c = corner(r, k);
  int64_t u = g.range(1, mag), v = g.range(1, mag);
  int64_t x, y; int64_t d = gcd_ext(u, v, x, y);
  u /= d; v /= d;
  gcd_ext(u, v, x, y);
  int64_t t = g.range(-tmax, tmax);
  i128 q0 = (i128)t * x, p0 = -(i128)t * y;
  i128 sh = p0 >= 0 ? -(p0 / u) : ((-p0) / u + 1);
  i128 p = p0 + sh * u, q = q0 + sh * v;
  i128 extra = g.range(0, std::max<int64_t>(0, mag / std::max(u, v)));
  p += extra * u; q += extra * v;
  if (p <= 0 || q <= 0 || p > 4 * (i128)mag || q > 4 * (i128)mag) return false;
  int sx = (k == 0 || k == 3) ? 1 : -1, sy = (k == 0 || k == 1) ? 1 : -1;
  a = Point64(c.x - sx * u, c.y + sy * v);
  b = Point64(c.x + sx * (int64_t)p, c.y - sy * (int64_t)q);
  if (std::llabs(a.x) > B40 || std::llabs(a.y) > B40 || std::llabs(b.x) > B40 || std::llabs(b.y) > B40) return false;
  if (g.coin()) std::swap(a, b);
  return true;
}

// dense lattice polygon around a W x H rectangle at the origin (spacing 1): vertices on the side lines, on corners and
// collinear along the sides are frequent
static Path64 lattice_poly(Rng& g, int64_t W, int64_t H, int n, int mode) {
  Path64 p;
  int64_t mx = std::max<int64_t>(2, W / 2 + 1), my = std::max<int64_t>(2, H / 2 + 1);
  for (int i = 0; i < n; ++i) {
    int64_t x = g.range(-mx, W + mx), y = g.range(-my, H + my);
    if (mode == 1 || (mode == 2 && g.chance(50))) {  // snap to the side lines
      switch (g.next() % 6) { case 0: x = 0; break; case 1: x = W; break; case 2: y = 0; break; case 3: y = H; break; default: break; }
    }
    if (mode == 2 && i && g.chance(40)) { if (g.coin()) x = p[i - 1].x; else y = p[i - 1].y; }  // axis-parallel edges
    p.emplace_back(x, y);
  }
  return p;
}

int main(int argc, char** argv) {
  Rng g(seed_from_args(argc, argv));
  bool thorough = thorough_from_args(argc, argv);
  __sanitizer_set_death_callback(on_death);
  signal(SIGALRM, on_alarm);

  std::vector<std::pair<Rect64, Path64>> recent;  // inputs of the general class, for the several-paths calls
  auto run = [&](const std::string& label, const Rect64& r, const Path64& p) {
    if (do_tidy(label, r, p)) { recent.emplace_back(r, p); if (recent.size() > 8) recent.erase(recent.begin()); }
  };

  // ---- corpus: the split / rejoin cases of seeded/C08b-m2/demo.cpp, TestRectClip-like shapes, corner and side coincidences
  {
    run("corpus", Rect64(0, 0, 40, 20), Path64{{100,-80}, {-160,-80}, {-160,160}, {60,160}, {0,20}, {100,160}, {160,160}, {60,20}, {0,-20}, {100,20}});  // split then rejoin
    run("corpus", Rect64(32, -8, 48, 16), Path64{{80,64}, {-64,40}, {64,96}, {16,-96}, {72,56}, {-64,0}, {56,56}, {0,-88}, {24,40}});                // rejoin, general position
    Rect64 r(0, 0, 24, 24);
    run("corpus", r, rect_path(0, 0, 24, 24));
    run("corpus", r, rect_path(-8, -8, 32, 32));
    run("corpus", r, rect_path(-8, 8, 32, 16));
    run("corpus", r, rect_path(0, 8, 24, 16));
    run("corpus", r, rect_path(0, 0, 24, 30));
    run("corpus", r, Path64{{-8, 12}, {12, -8}, {32, 12}, {12, 32}});
    run("corpus", r, Path64{{-12, 12}, {12, -12}, {36, 12}, {12, 36}});
    run("corpus", r, Path64{{-8, -8}, {32, -8}, {32, 32}, {16, 32}, {16, 24}, {8, 24}, {8, 32}, {-8, 32}});           // notch touching the bottom side from outside
    run("corpus", r, Path64{{-8, -8}, {32, -8}, {32, 32}, {16, 32}, {16, 12}, {8, 12}, {8, 32}, {-8, 32}});           // notch entering through the bottom side: split
    run("corpus", r, Path64{{4, 0}, {20, 0}, {20, 24}, {12, 24}, {12, 0}, {8, 0}, {8, 24}, {4, 24}});                 // back and forth along the top side
    run("corpus", r, Path64{{0, 0}, {24, 0}, {24, 24}, {0, 24}, {0, 16}, {30, 16}, {30, 8}, {0, 8}});                 // leaves and re-enters through the right side
    run("corpus", r, Path64{{-5, 5}, {12, 5}, {12, 19}, {-5, 19}, {-5, 15}, {6, 15}, {6, 9}, {-5, 9}});               // C shape cut by the left side: split
    run("corpus", r, Path64{{12, 12}, {40, 12}, {40, 40}, {12, 40}});
    run("corpus", r, Path64{{5, 5}, {0, 5}, {3, 8}, {30, 9}, {0, 5}});                                               // spike tip first: CheckEdges stops after one removal
    run("corpus", r, Path64{{5, 5}, {0, 5}, {0, 9}, {30, 9}, {0, 5}});                                                 // covers the bottom-right corner
    run("corpus", Rect64(-B40, -B40, B40, B40), Path64{Point64(-B40, -B40), Point64(B40, (int64_t)0), Point64((int64_t)0, B40), Point64(-B40 - 0, B40)});
    do_exec("corpus", Rect64(0, 0, 40, 20), Paths64{Path64{{100,-80}, {-160,-80}, {-160,160}, {60,160}, {0,20}, {100,160}, {160,160}, {60,20}, {0,-20}, {100,20}},
                                                    rect_path(-10, 5, 50, 15), Path64{{5, 5}, {30, 30}}, rect_path(5, 5, 10, 10), rect_path(100, 100, 110, 110),
                                                    Path64{{5, 5}, {20, 5}, {20, -15}, {5, -15}}});
    // outer polygon and hole of opposite orientation crossing the same side (the inputs that expose seeded change C10-m1)
    do_exec("corpus", Rect64(0, 0, 100, 100), Paths64{Path64{{-50, 10}, {50, 10}, {50, 90}, {-50, 90}}, Path64{{-30, 70}, {30, 70}, {30, 30}, {-30, 30}}});
  }

  // ---- dense lattice polygons around a W x H rectangle, 3 <= W, H <= 24
  {
    int NL = thorough ? 60000 : 3000;
    for (int t = 0; t < NL; ++t) {
      int64_t W = g.range(3, 24), H = g.range(3, 24);
      int mode = (int)(g.next() % 3);
      int n = (int)g.range(3, mode == 0 ? 9 : 14);
      Path64 p = lattice_poly(g, W, H, n, mode);
      stat("gen.lattice.mode" + std::to_string(mode));
      run("lattice", Rect64(0, 0, W, H), p);
    }
  }
  // ---- the lattice of harness/C08.cpp: grid -2..5 (spacing 8) around the rectangle [0,3]^2 * 8
  {
    const int64_t SP = 8;
    Rect64 r(0, 0, 3 * SP, 3 * SP);
    std::vector<Point64> grid;
    for (int x = -2; x <= 5; ++x) for (int y = -2; y <= 5; ++y) grid.emplace_back(x * SP, y * SP);
    int NP = thorough ? 40000 : 2000;
    for (int t = 0; t < NP; ++t) {
      int n = (int)g.range(3, 10);
      Path64 p; for (int i = 0; i < n; ++i) p.push_back(g.pick(grid));
      run("lattice8", r, p);
    }
  }
  // ---- random scenes of harness/C08.cpp (4 rectangle classes x 11 polygon classes)
  int N = thorough ? 60000 : 3000;
  for (int t = 0; t < N; ++t) {
    int rkind = (int)(g.next() % 4);
    Rect64 r = gen_rect(g, rkind);
    std::string kind;
    Path64 p = gen_poly(g, r, kind);
    if (t % 12 == 0) {
      Point64 a, b;
      int64_t mag = std::max<int64_t>(16, std::min<int64_t>(B40 / 4, 4 * (r.right - r.left + r.bottom - r.top)));
      if (graze_corner(g, r, (int)(g.next() % 4), mag, rkind >= 2 ? ((int64_t)1 << (int)g.range(0, 30)) : 3, a, b)) {
        kind = "graze";
        p = Path64{a, b, g.coin() ? Point64(g.range(r.left, r.right), g.range(r.top, r.bottom)) : pt_around(g, r)};
        if (g.coin()) std::reverse(p.begin(), p.end());
      }
    }
    stat("gen.rect" + std::to_string(rkind));
    stat("gen.poly." + kind);
    run("rand." + kind, r, p);
    // several paths in one Execute call: the recent general-class inputs re-clipped against this rectangle together with this path
    if (t % 4 == 0 && !recent.empty()) {
      Paths64 ps;
      size_t k = 1 + g.next() % std::min<size_t>(4, recent.size());
      for (size_t i = recent.size() - k; i < recent.size(); ++i) ps.push_back(recent[i].second);
      ps.push_back(p);
      if (g.coin()) std::reverse(ps.begin(), ps.end());
      do_exec("multi", g.coin() ? r : recent.back().first, ps);
    }
  }
  // ---- self-intersecting polygons in general position on a coarse grid (rejoins in about 0.3 %)
  {
    int NR = thorough ? 60000 : 3000;
    for (int t = 0; t < NR; ++t) {
      int64_t l = g.range(-6, 6) * 8, tp = g.range(-6, 6) * 8;
      Rect64 r(l, tp, l + g.range(1, 6) * 8, tp + g.range(1, 6) * 8);
      int n = (int)g.range(5, 12);
      Path64 p; for (int i = 0; i < n; ++i) p.emplace_back(g.range(-12, 12) * 8, g.range(-12, 12) * 8);
      stat("gen.selfint");
      run("selfint", r, p);
    }
  }
  stat("evaluations.real_heap_invariants", stats()["tidy.inputs"] * 5);
  flush_stats();
  return 0;
}
