// C01 harness "horizontal edges in the sweep": correspondence of lean/ClipperVerif/Model/SweepHorz.lean (theorems Props/C01Horz.lean,
// driver Driver/SweepHorz.lean) with the real ClipperBase::DoHorizontal and the scanline-level loop `while (PopHorz(e)) DoHorizontal(*e)`.
//
// For every input (closed subject + clip paths), a random (clip type, fill rule) and a random PreserveCollinear:
//  (a) the REAL Clipper64::Execute runs with a sink on hook H1 that logs every event with the AEL (end points of every Active);
//  (b) a second Clipper64 object with the same input is driven STEP BY STEP through the statements of ClipperBase::ExecuteInternal (the
//      real private member functions, as harness/C01sweep.cpp and harness/C01region.cpp do; parts of them are copied here; nothing of /repo
//      is changed), INCLUDING the two `while (PopHorz(e)) DoHorizontal(*e);` loops, which are unrolled: before and after EVERY single
//      DoHorizontal call the AEL is read (per Active: identity, bot, top, curr_x, vertex_top, its LocalMax flag, path type, wind_dx,
//      wind_cnt, wind_cnt2, hot = outrec != nullptr || join_with != NoJoin), the popped edge and one full turn of its vertex ring in the
//      direction of its bound; during the call the hook events kIntersect / kRemovePair are recorded with the two Actives involved.
//      The two event logs and the two solutions must be identical (F record `replica` otherwise).
//  Records:
//   M HORZCALL pc ct fr hid n ACTIVE*n m VERTEX*m -> A k {id bot top curr_x vtop}*k E j {I|R pos a b}*j W k {wc wc2 hot}*k F 0
//        one per real DoHorizontal call (all inputs, all magnitudes): the Lean model, given the state before the call, must predict the AEL
//        after it (order, and bot / top / curr_x / vertex_top of every Active, i.e. what UpdateEdgeIntoAEL + TrimHorz did to the horizontal),
//        the sequence of intersect / remove events with the identities of the two edges, and - running the bookkeeping model Model/Ael
//        along the events it derived - the wind counts and hot flags of every Active after the call.
//   S HORZSPEC <the same request> A k {...}*k E j {...}*j -> ok sorted=1 crossings=<n> | ok notgp <why>     the same call judged at spec level: Lean
//        decides the hypotheses CallOK / CallGP of Props/C01Horz.lean on the state before the call; where they hold, the REAL AEL after the call
//        must be sorted by curr_x with the horizontal's successor at the far end of the run, and the REAL swaps must be exactly the edges
//        strictly between the two ends of the run, in walk order (doHorizontal_keeps_sorted, doHorizontal_events_are_crossings).
//   S SWEEPHORZHYP pc subj clip -> ok phases-ok ... | ok notgp ...   Lean decides, on the model sweep of the input (which the M record above ties to the real
//        one), the hypotheses of sweep_with_horizontals_keeps_sorted: every DoHorizontal call of the sweep meets CallOK (vacuous otherwise).
//   M HORZSEL top|ins ...  -> S j id*j      the order of the stack sel_ after DoTopOfScanbeam / InsertLocalMinimaIntoAEL (PushHorz order).
//   M SWEEPHORZ pc subj clip n STAGE*n -> ok stages=n     the WHOLE sweep replayed from the input paths alone (Model/SweepHorzReplay.lean: rings, LocalMax
//        flags and local minima from the model of AddPaths_, InsertLocalMinimaIntoAEL with horizontal bounds, both horizontal phases with the
//        order of sel_, DoIntersections, DoTopOfScanbeam with pending maxima and TrimHorz): the model must reproduce the real AEL (identity of an
//        Active = 2 * slot of its local minimum + (wind_dx > 0)) after InsertLocalMinimaIntoAEL, after EVERY DoHorizontal (with the popped edge and
//        the events), after DoIntersections and after DoTopOfScanbeam of every scanline, up to the first join of the sweep (joins are not modelled).
#define VERIF_PRIVATE_ACCESS
#include "unity.h"
#include "gp.h"
#include <set>
#ifndef CLIPPER2_VERIF
#error "C01horz.cpp needs the hooks: compile with -DCLIPPER2_VERIF"
#endif
using namespace vh;

static const ClipType CTS[] = {ClipType::Intersection, ClipType::Union, ClipType::Difference, ClipType::Xor};
static const FillRule FRS[] = {FillRule::EvenOdd, FillRule::NonZero, FillRule::Positive, FillRule::Negative};

// ------------------------------------------------------------------------------------------------ reading the engine
struct Ctx {
  std::vector<std::string> log;                 // replica check: one entry per hook event
  std::map<const Vertex*, int> vid;             // vertex identities (per Execute)
  // during one DoHorizontal call
  bool in_call = false;
  std::map<const Active*, int> aid;             // identities of the Actives of the AEL before the call
  std::string events; int nevents = 0;
  // whole-sweep record (SWEEPHORZ): global identities, stages up to the first join
  std::vector<std::pair<const Vertex*, size_t>> arrays;   // (base, size) of the vertex arrays, subject first
  std::string events_g;
  bool joined = false;
  std::string stages; int nstages = 0;
};
static Ctx& ctx() { static Ctx c; return c; }

static int vid_of(const Vertex* v) {
  auto& m = ctx().vid;
  auto it = m.find(v);
  if (it != m.end()) return it->second;
  int id = (int)m.size();
  m[v] = id;
  return id;
}
static bool is_max(const Vertex* v) { return (v->flags & VertexFlags::LocalMax) != VertexFlags::Empty; }
static bool is_hot(const Active* e) { return e->outrec != nullptr || e->join_with != JoinWith::NoJoin; }
static int index_of(const ClipperBase* c, const Active* a) {
  int i = 0;
  for (const Active* e = c->actives_; e; e = e->next_in_ael, ++i) if (e == a) return i;
  return -1;
}

// identity of a vertex = its slot in the arrays of AddPaths_ (subject array first), of an Active = 2 * slot of its local minimum + (wind_dx > 0)
static int slot_of(const Vertex* v) {
  size_t off = 0;
  for (auto& a : ctx().arrays) {
    if (v >= a.first && v < a.first + a.second) return (int)(off + (size_t)(v - a.first));
    off += a.second;
  }
  return -1;
}
static int gid(const Active* e) { return 2 * slot_of(e->local_min->vertex) + (e->wind_dx > 0 ? 1 : 0); }
static std::string gids(const ClipperBase* c) {
  std::string s; int n = 0;
  for (const Active* e = c->actives_; e; e = e->next_in_ael, ++n) s += " " + std::to_string(gid(e));
  return std::to_string(n) + s;
}
static void add_stage(const std::string& st) { Ctx& k = ctx(); if (k.joined) return; k.stages += " " + st; k.nstages++; }

static void sink(int ev, const ClipperBase* c, const Active* a) {
  Ctx& k = ctx();
  if (ev == verif::kJoin) k.joined = true;
  std::string s = std::to_string(ev) + ":";
  for (const Active* e = c->actives_; e; e = e->next_in_ael) s += " " + S(e->bot) + " " + S(e->top);
  k.log.push_back(s);
  if (!k.in_call) return;
  auto id = [&](const Active* e) { auto it = k.aid.find(e); return it == k.aid.end() ? -1 : it->second; };
  if (ev == verif::kIntersect) {
    // `a` stood left of its present left neighbour before the swap
    k.events += " I " + std::to_string(index_of(c, a) - 1) + " " + std::to_string(id(a)) + " " + std::to_string(id(a->prev_in_ael));
    k.events_g += " I " + std::to_string(index_of(c, a) - 1) + " " + std::to_string(gid(a)) + " " + std::to_string(gid(a->prev_in_ael));
    k.nevents++;
  } else if (ev == verif::kRemovePair) {
    k.events += " R " + std::to_string(index_of(c, a)) + " " + std::to_string(id(a)) + " " + std::to_string(id(a->next_in_ael));
    k.events_g += " R " + std::to_string(index_of(c, a)) + " " + std::to_string(gid(a)) + " " + std::to_string(gid(a->next_in_ael));
    k.nevents++;
  }
}

static std::string active_str(const Active* e, int id) {
  return " " + std::to_string(id) + " " + S(e->bot) + " " + S(e->top) + " " + S(e->curr_x) + " " + std::to_string(vid_of(e->vertex_top)) + " " +
         (is_max(e->vertex_top) ? "1" : "0") + " " + (e->local_min->polytype == PathType::Subject ? "0" : "1") + " " + std::to_string(e->wind_dx) + " " +
         std::to_string(e->wind_cnt) + " " + std::to_string(e->wind_cnt2) + " " + (is_hot(e) ? "1" : "0");
}

static long g_call_budget = 0, g_sel_budget = 0, g_sweep_budget = 0;

struct CallStats { long calls = 0, events = 0; };

// one real DoHorizontal call, with the record
static void do_horizontal(Clipper64& c, Active* horz, bool pc, ClipType ct, FillRule fr, const std::string& kind) {
  Ctx& k = ctx();
  k.aid.clear();
  std::string req = std::string("HORZCALL ") + (pc ? "1 " : "0 ") + std::to_string((int)ct) + " " + std::to_string((int)fr);
  int n = 0, hid = -1;
  std::string acts;
  bool any_open = false;
  for (const Active* e = c.actives_; e; e = e->next_in_ael, ++n) {
    k.aid[e] = n;
    if (e == horz) hid = n;
    if (e->local_min->is_open) any_open = true;
    acts += active_str(e, n);
  }
  // one full turn of the ring after vertex_top, in the direction of the bound
  std::string ring; int m = 0;
  {
    const Vertex* v0 = horz->vertex_top;
    const Vertex* v = horz->wind_dx > 0 ? v0->next : v0->prev;
    for (;;) {
      ring += " " + std::to_string(vid_of(v)) + " " + S(v->pt) + " " + (is_max(v) ? "1" : "0");
      ++m;
      if (v == v0 || m > 100000) break;
      v = horz->wind_dx > 0 ? v->next : v->prev;
    }
  }
  req += " " + std::to_string(hid) + " " + std::to_string(n) + acts + " " + std::to_string(m) + ring;
  // classification (statistics only)
  bool at_max_run = false;
  {
    const Vertex* r = horz->vertex_top;
    if (horz->wind_dx > 0) while (r->next->pt.y == r->pt.y && r->next != horz->vertex_top) r = r->next;
    else while (r->prev->pt.y == r->pt.y && r->prev != horz->vertex_top) r = r->prev;
    at_max_run = is_max(r);
  }
  bool at_min = horz->bot == horz->local_min->vertex->pt;
  bool l2r = horz->curr_x < horz->top.x, zero = horz->bot.x == horz->top.x;
  const Vertex* vt_before = horz->vertex_top;

  k.events.clear(); k.events_g.clear(); k.nevents = 0;
  int horz_gid = gid(horz);
  k.in_call = true;
  c.DoHorizontal(*horz);            // <<< the real call
  k.in_call = false;
  add_stage("H " + std::to_string(horz_gid) + " " + gids(&c) + " " + std::to_string(k.nevents) + k.events_g);

  std::string exp;
  int n2 = 0;
  std::string wf;
  bool horz_alive = false;
  for (const Active* e = c.actives_; e; e = e->next_in_ael, ++n2) {
    auto it = k.aid.find(e);
    int id = it == k.aid.end() ? -1 : it->second;
    if (e == horz) horz_alive = true;
    exp += " " + std::to_string(id) + " " + S(e->bot) + " " + S(e->top) + " " + S(e->curr_x) + " " + std::to_string(vid_of(e->vertex_top));
    wf += " " + std::to_string(e->wind_cnt) + " " + std::to_string(e->wind_cnt2) + " " + (is_hot(e) ? "1" : "0");
  }
  std::string real_after = "A " + std::to_string(n2) + exp + " E " + std::to_string(k.nevents) + k.events;
  exp = real_after + " W " + std::to_string(n2) + wf + " F 0";
  stat("calls");
  stat("calls.kind." + kind);
  stat(std::string("calls.") + (zero ? "zero_length" : l2r ? "left_to_right" : "right_to_left"));
  stat(std::string("calls.") + (at_max_run ? (horz_alive ? "towards_maximum_but_survived" : "ends_in_maximum") : "intermediate"));
  if (at_min) stat("calls.at_local_minimum");
  stat("calls.events." + std::to_string(std::min(k.nevents, 6)));
  stat("events", k.nevents);
  if (horz_alive) {
    // how many vertices vertex_top advanced (consecutive horizontals / TrimHorz)
    int adv = 0; const Vertex* v = vt_before;
    while (v != horz->vertex_top && adv < 100000) { v = horz->wind_dx > 0 ? v->next : v->prev; ++adv; }
    stat("calls.vertex_top_advanced." + std::to_string(std::min(adv, 5)));
  }
  if (any_open) { stat("calls.skipped_open_paths"); return; }
  if (g_call_budget <= 0) { stat("calls.over_budget"); return; }
  --g_call_budget;
  emitM("horz-call", req, exp);
  // the same call, judged at spec level: Lean decides the hypotheses of the theorems of Props/C01Horz.lean on the state before the call and,
  // where they hold, checks their conclusions on the REAL state after it (AEL sorted by curr_x, swapped edges = the edges strictly between)
  emitS("horz-spec", "HORZSPEC" + req.substr(8) + " " + real_after);
}

// the loop `while (PopHorz(e)) DoHorizontal(*e);`
static void horz_loop(Clipper64& c, bool pc, ClipType ct, FillRule fr, const std::string& kind) {
  Active* e;
  while (c.PopHorz(e)) do_horizontal(c, e, pc, ct, fr, kind);
}

static std::vector<const Active*> sel_stack(const Clipper64& c) {
  std::vector<const Active*> v;
  for (const Active* e = c.sel_; e; e = e->next_in_sel) { v.push_back(e); if (v.size() > 100000) break; }
  return v;
}

// ClipperBase::ExecuteInternal, statement by statement, on the real object
static bool step_sweep(Clipper64& c, ClipType ct, FillRule fr, bool pc, const std::string& kind) {
  c.cliptype_ = ct;
  c.fillrule_ = fr;
  c.using_polytree_ = false;
  c.Reset();
  int64_t y;
  if (ct == ClipType::NoClip || !c.PopScanline(y)) return true;
  while (c.succeeded_) {
    // --- InsertLocalMinimaIntoAEL(y) and the order of sel_ it leaves
    std::set<const Active*> before;
    for (const Active* e = c.actives_; e; e = e->next_in_ael) before.insert(e);
    auto lm0 = c.current_locmin_iter_;
    c.InsertLocalMinimaIntoAEL(y);
    add_stage("I " + S(y) + " " + gids(&c));
    {
      auto st = sel_stack(c);
      if (!st.empty() && g_sel_budget > 0) {
        --g_sel_budget;
        std::map<const Active*, int> id; int n = 0;
        for (const Active* e = c.actives_; e; e = e->next_in_ael) id[e] = n++;
        std::string req; int k = 0; bool ok = true;
        for (auto it = lm0; it != c.current_locmin_iter_; ++it) {
          const Active *l = nullptr, *r = nullptr;
          for (const Active* e = c.actives_; e; e = e->next_in_ael)
            if (!before.count(e) && e->local_min == it->get()) { if (e->is_left_bound) l = e; else r = e; }
          if (!l || !r) { ok = false; break; }     // open path end: one bound only
          req += " " + std::to_string(id[l]) + " " + (l->top.y == l->bot.y ? "1" : "0") + " " + std::to_string(id[r]) + " " + (r->top.y == r->bot.y ? "1" : "0");
          ++k;
        }
        if (ok) {
          std::string exp = "S " + std::to_string(st.size());
          for (auto e : st) exp += " " + std::to_string(id[e]);
          emitM("horz-sel.insert", "HORZSEL ins " + std::to_string(k) + req, exp);
          stat("sel.after_insert.size." + std::to_string(std::min<size_t>(st.size(), 5)));
        }
      }
    }
    horz_loop(c, pc, ct, fr, kind);
    if (c.horz_seg_list_.size() > 0) {
      c.ConvertHorzSegsToJoins();
      c.horz_seg_list_.clear();
    }
    c.bot_y_ = y;
    if (!c.PopScanline(y)) break;
    c.DoIntersections(y);
    add_stage("X " + S(y) + " " + gids(&c));
    c.DoTopOfScanbeam(y);
    add_stage("T " + S(y) + " " + gids(&c));
    {
      auto st = sel_stack(c);
      if (!st.empty() && g_sel_budget > 0) {
        --g_sel_budget;
        std::map<const Active*, int> id; int n = 0;
        std::string req;
        for (const Active* e = c.actives_; e; e = e->next_in_ael) { id[e] = n; req += " " + std::to_string(n) + " " + (e->top.y == e->bot.y ? "1" : "0"); ++n; }
        std::string exp = "S " + std::to_string(st.size());
        for (auto e : st) exp += " " + std::to_string(id[e]);
        emitM("horz-sel.top", "HORZSEL top " + std::to_string(n) + req, exp);
        stat("sel.after_top.size." + std::to_string(std::min<size_t>(st.size(), 5)));
      }
    }
    horz_loop(c, pc, ct, fr, kind);
  }
  if (c.succeeded_) c.ProcessHorzJoins();
  return c.succeeded_;
}

static void run_one(Rng& g, const Paths64& subj, const Paths64& clip, const std::string& kind) {
  ClipType ct = CTS[g.next() % 4]; FillRule fr = FRS[g.next() % 4];
  bool pc = g.coin();
  Ctx& k = ctx();
  std::string in = "kind=" + kind + " pc=" + (pc ? "1" : "0") + " ct=" + std::to_string((int)ct) + " fr=" + std::to_string((int)fr) + " subj=" + S(subj) + " clip=" + S(clip);
  fprintf(stderr, "VERIF-CURRENT: %s\n", in.c_str());
  // (a) the real Execute
  std::vector<std::string> log_real;
  Paths64 sol_real, open_real;
  bool ok_real;
  {
    Clipper64 c;
    c.PreserveCollinear(pc);
    c.AddSubject(subj); c.AddClip(clip);
    k.log.clear(); k.in_call = false;
    verif::ael_sink() = sink;
    ok_real = c.Execute(ct, fr, sol_real, open_real);
    verif::ael_sink() = nullptr;
    log_real.swap(k.log);
  }
  // (b) the same sweep driven stepwise
  Paths64 sol_step, open_step;
  bool ok_step;
  long calls0 = stats()["calls"];
  {
    Clipper64 c;
    c.PreserveCollinear(pc);
    c.AddSubject(subj); c.AddClip(clip);
    k.log.clear(); k.vid.clear(); k.in_call = false;
    k.arrays.clear(); k.joined = false; k.stages.clear(); k.nstages = 0;
    {
      size_t ts = 0, tc = 0;
      for (auto& p : subj) ts += p.size();
      for (auto& p : clip) tc += p.size();
      size_t i = 0;
      if (ts > 0 && i < c.vertex_lists_.size()) k.arrays.emplace_back(c.vertex_lists_[i++], ts);
      if (tc > 0 && i < c.vertex_lists_.size()) k.arrays.emplace_back(c.vertex_lists_[i++], tc);
    }
    verif::ael_sink() = sink;
    ok_step = step_sweep(c, ct, fr, pc, kind);
    verif::ael_sink() = nullptr;
    if (ok_step) c.BuildPaths64(sol_step, &open_step);
    c.CleanUp();
  }
  if (ok_real != ok_step || sol_real != sol_step || log_real != k.log) {
    size_t d = 0; while (d < log_real.size() && d < k.log.size() && log_real[d] == k.log[d]) ++d;
    emitF("replica", "the stepwise sweep differs from ExecuteInternal (events " + std::to_string(log_real.size()) + " vs " + std::to_string(k.log.size()) +
          ", first difference at event " + std::to_string(d) + ", solutions " + (sol_real == sol_step ? "equal" : "differ") + "): " + in);
    stat("replica.diverged");
    return;
  }
  if (!ok_real) emitF("execute-returned-false", in);
  stat("runs");
  stat("runs.kind." + kind);
  stat("evaluations.replica_equals_execute");
  stat("hook_events_compared", (long long)log_real.size());
  if (stats()["calls"] == calls0) stat("runs.without_horizontal");
  // the whole sweep (up to its first join) replayed from the paths alone
  if (g_sweep_budget > 0 && k.nstages > 0) {
    --g_sweep_budget;
    emitM("sweep-horz", std::string("SWEEPHORZ ") + (pc ? "1 " : "0 ") + S(subj) + " " + S(clip) + " " + std::to_string(k.nstages) + k.stages,
          "ok stages=" + std::to_string(k.nstages));
    if (!k.joined) emitS("sweep-horz-hyp", std::string("SWEEPHORZHYP ") + (pc ? "1 " : "0 ") + S(subj) + " " + S(clip));
    stat("sweep.stages_replayed", k.nstages);
    stat(k.joined ? "sweep.cut_at_first_join" : "sweep.complete");
    stat("sweep.kind." + kind);
  } else if (k.nstages > 0) stat("sweep.over_budget");
}

// ------------------------------------------------------------------------------------------------ generators
// rectilinear closed walk on the lattice {0..L}^2 (harness/C02.cpp `rect_walk`): alternating horizontal / vertical moves, extra vertices on
// the lines of existing edges (collinear vertices and 180-degree spikes)
static Path64 rect_walk(Rng& g, int n /* >= 4 */, int L, bool extras) {
  int extra = (extras && n > 4 && g.chance(50)) ? (int)g.range(0, std::min(3, n - 4)) : 0;
  if ((n - extra) % 2) ++extra;
  if (n - extra < 4) extra = n - 4;
  int m = (n - extra) / 2;
  std::vector<int> X(m), Y(m);
  for (;;) {
    for (int j = 0; j < m; ++j) { X[j] = (int)g.range(0, L); Y[j] = (int)g.range(0, L); }
    bool ok = true;
    for (int j = 0; j < m; ++j) if (X[j] == X[(j + 1) % m] || Y[j] == Y[(j + 1) % m]) ok = false;
    if (ok) break;
  }
  Path64 p;
  for (int j = 0; j < m; ++j) { p.emplace_back(X[j], Y[j]); p.emplace_back(X[(j + 1) % m], Y[j]); }
  for (int e = 0; e < extra; ++e) {
    size_t i = (size_t)g.range(0, (int64_t)p.size() - 1);
    Point64 a = p[i], b = p[(i + 1) % p.size()], c = a;
    for (int tries = 0; tries < 50; ++tries) {
      c = a;
      if (a.y == b.y) c.x = g.range(0, L); else c.y = g.range(0, L);
      if (!(c == a) && !(c == b)) break;
      c = a;
    }
    if (c == a) continue;
    p.insert(p.begin() + (long)i + 1, c);
  }
  if (g.coin()) std::reverse(p.begin(), p.end());
  if (g.coin()) std::rotate(p.begin(), p.begin() + g.range(0, (int64_t)p.size() - 1), p.end());
  return p;
}
static Path64 scaled(const Path64& p, int64_t k, int64_t ox, int64_t oy) {
  Path64 r;
  for (auto& q : p) r.emplace_back(q.x * k + ox, q.y * k + oy);
  return r;
}
// rectilinear staircase polygon in general position w.r.t. a second one: all x and all y coordinates of the input pairwise distinct
// multiples of 10 (+ jitter), so horizontal edges of different paths never share a scanline
static Path64 distinct_rectilinear(Rng& g, int corners /* even, >= 4 */, std::set<int64_t>& used_x, std::set<int64_t>& used_y, int64_t R) {
  auto fresh = [&](std::set<int64_t>& used) { int64_t v; int t = 0; do v = g.range(-R, R); while (used.count(v) && ++t < 1000); used.insert(v); return v; };
  int m = corners / 2;
  std::vector<int64_t> X(m), Y(m);
  for (int j = 0; j < m; ++j) { X[j] = fresh(used_x); Y[j] = fresh(used_y); }
  Path64 p;
  for (int j = 0; j < m; ++j) { p.emplace_back(X[j], Y[j]); p.emplace_back(X[(j + 1) % m], Y[j]); }
  if (g.coin()) std::reverse(p.begin(), p.end());
  return p;
}
// a general polygon in which some edges are made horizontal (flat tops, flat bottoms, shelves), otherwise scattered
static Path64 flat_poly(Rng& g, int n, int64_t r, int64_t cx, int64_t cy, int flats) {
  Path64 p;
  std::set<int64_t> used;
  for (int i = 0; i < n; ++i) {
    int64_t y; int tries = 0;
    do y = cy + g.range(-r, r); while (used.count(y) && ++tries < 50);
    used.insert(y);
    p.emplace_back(cx + g.range(-r, r), y);
  }
  for (int f = 0; f < flats; ++f) {
    size_t i = (size_t)g.range(0, n - 1);
    p[(i + 1) % n].y = p[i].y;
    if (p[(i + 1) % n].x == p[i].x) p[(i + 1) % n].x += 3;
  }
  return p;
}
// insert collinear vertices on horizontal edges (consecutive collinear horizontals: TrimHorz / the outer loop of DoHorizontal)
static Path64 split_horizontals(Rng& g, const Path64& p, int pct, bool spikes) {
  Path64 r;
  size_t n = p.size();
  for (size_t i = 0; i < n; ++i) {
    const Point64 &a = p[i], &b = p[(i + 1) % n];
    r.push_back(a);
    if (a.y == b.y && std::llabs(a.x - b.x) >= 2 && g.chance(pct)) {
      int parts = (int)g.range(1, 2);
      int64_t lo = std::min(a.x, b.x), hi = std::max(a.x, b.x);
      std::vector<int64_t> xs;
      for (int q = 0; q < parts; ++q) xs.push_back(g.range(lo + 1, hi - 1));
      std::sort(xs.begin(), xs.end());
      xs.erase(std::unique(xs.begin(), xs.end()), xs.end());
      if (a.x > b.x) std::reverse(xs.begin(), xs.end());
      if (spikes && g.chance(30)) { int64_t over = a.x < b.x ? b.x + g.range(1, 5) : b.x - g.range(1, 5); xs.push_back(over); }   // beyond b and back: a 180-degree spike
      for (int64_t x : xs) r.emplace_back(x, a.y);
    }
  }
  return r;
}

// a 180-degree horizontal spike that returns EXACTLY to the vertex it left: ..., v, (v.x + d, v.y), v, ...  After TrimHorz the Active is a
// horizontal of length zero (bot.x == top.x: the first branch of ResetHorzDirection)
static Path64 pin_spikes(Rng& g, const Path64& p, int count) {
  Path64 r = p;
  for (int k = 0; k < count; ++k) {
    size_t i = (size_t)g.range(0, (int64_t)r.size() - 1);
    Point64 v = r[i];
    int64_t d = g.range(1, 9) * (g.coin() ? 1 : -1);
    r.insert(r.begin() + (long)i + 1, {Point64(v.x + d, v.y), v});
  }
  return r;
}

int main(int argc, char** argv) {
  Rng g(seed_from_args(argc, argv));
  bool thorough = thorough_from_args(argc, argv);
  g_call_budget = thorough ? 800000 : 60000;
  g_sel_budget = thorough ? 150000 : 20000;
  g_sweep_budget = thorough ? 100000 : 7000;
  // fixed corpus
  run_one(g, {rect_path(0, 0, 100, 100)}, {rect_path(50, 37, 150, 141)}, "corpus.squares");
  run_one(g, {rect_path(0, 0, 100, 100)}, {rect_path(0, 0, 100, 100)}, "corpus.equal-squares");
  run_one(g, {Path64{Point64(0, 100), Point64(0, 70), Point64(30, 70), Point64(60, 70), Point64(60, 40), Point64(90, 40), Point64(120, 40), Point64(120, 100)}},
          {Path64{Point64(20, 110), Point64(45, 20), Point64(100, 90)}}, "corpus.staircase-vs-triangle");
  run_one(g, {Path64{Point64(0, 50), Point64(40, 50), Point64(80, 50), Point64(60, 0), Point64(10, 5)}}, {Path64{Point64(20, 60), Point64(30, -10), Point64(70, 70)}}, "corpus.flat-bottom-split");
  run_one(g, {Path64{Point64(0, 0), Point64(50, 0), Point64(100, 0), Point64(70, 60), Point64(20, 55)}}, {Path64{Point64(25, -10), Point64(60, 80), Point64(90, -5)}}, "corpus.flat-top-split");
  run_one(g, {Path64{Point64(0, 0), Point64(100, 0), Point64(40, 0), Point64(70, 60)}}, {}, "corpus.spike");
  run_one(g, {Path64{Point64(0, 100), Point64(0, 0), Point64(10, 0), Point64(0, 0), Point64(-50, 100)}}, {Path64{Point64(-20, 50), Point64(30, -10), Point64(40, 60)}}, "corpus.pin-spike-at-maximum");
  run_one(g, {Path64{Point64(0, 100), Point64(0, 50), Point64(10, 50), Point64(0, 50), Point64(-10, 0), Point64(-50, 100)}}, {Path64{Point64(-20, 60), Point64(30, -10), Point64(40, 70)}}, "corpus.pin-spike-intermediate");
  int N = thorough ? 60000 : 6000;
  for (int i = 0; i < N; ++i) {
    switch (i % 10) {
      case 0: {   // rectilinear walks on a small lattice (coincident edges, overlapping horizontals, spikes), as harness/C02.cpp
        Paths64 s, c;
        int ns = (int)g.range(1, 2), nc = (int)g.range(0, 2);
        int64_t sc = g.pick(std::vector<int64_t>{1, 7, 1000, (int64_t)1 << 30});
        for (int k = 0; k < ns + nc; ++k) (k < ns ? s : c).push_back(scaled(rect_walk(g, (int)g.range(4, 12), 6, true), sc, 0, 0));
        run_one(g, s, c, "rect.walk");
        break; }
      case 1: {   // rectangles on a small lattice (shared edge lines, coincident copies)
        Paths64 s, c;
        int ns = (int)g.range(1, 3), nc = (int)g.range(0, 3);
        for (int k = 0; k < ns + nc; ++k) {
          int64_t l = g.range(0, 5), r = g.range(l + 1, 6), t = g.range(0, 5), b = g.range(t + 1, 6);
          Path64 p = rect_path(l, t, r, b);
          if (g.coin()) std::reverse(p.begin(), p.end());
          (k < ns ? s : c).push_back(p);
        }
        run_one(g, s, c, "rect.rectangles");
        break; }
      case 2: case 3: {   // rectilinear polygons with pairwise distinct coordinates (general position for horizontals), some split into collinear runs
        Paths64 s, c;
        std::set<int64_t> ux, uy;
        int64_t R = g.pick(std::vector<int64_t>{12, 30, 200, 100000});
        int ns = (int)g.range(1, 2), nc = (int)g.range(0, 2);
        for (int k = 0; k < ns + nc; ++k) {
          Path64 p = distinct_rectilinear(g, 2 * (int)g.range(2, 5), ux, uy, R);
          if (g.chance(50)) p = split_horizontals(g, p, 60, false);
          (k < ns ? s : c).push_back(p);
        }
        run_one(g, s, c, "rect.distinct");
        break; }
      case 4: {   // staircases with collinear horizontal runs crossed by sloped edges (harness/gp.h)
        GpInput in = gen_stairs(g);
        run_one(g, in.subj, in.clip, "gp.stairs");
        break; }
      case 5: case 6: {   // general polygons with some horizontal edges: at local minima, maxima, intermediate; split runs; spikes
        Paths64 s, c;
        int64_t r = g.pick(std::vector<int64_t>{40, 300, 5000, 1000000, (int64_t)1 << 40});
        int ns = (int)g.range(1, 2), nc = (int)g.range(0, 2);
        for (int k = 0; k < ns + nc; ++k) {
          Path64 p = flat_poly(g, (int)g.range(3, 9), r, g.range(-r / 4, r / 4), g.range(-r / 4, r / 4), (int)g.range(1, 3));
          if (g.chance(50)) p = split_horizontals(g, p, 70, g.chance(30));
          if (g.chance(15)) p = pin_spikes(g, p, (int)g.range(1, 2));
          (k < ns ? s : c).push_back(p);
        }
        run_one(g, s, c, "mixed.flat");
        break; }
      case 8: {   // long rectilinear walks on a 12x12 lattice and stars with flattened edges: long AELs, many edges passed per call
        Paths64 s, c;
        if (g.coin()) {
          int64_t sc = g.pick(std::vector<int64_t>{1, 10, 1000});
          s.push_back(scaled(rect_walk(g, (int)g.range(17, 30), 12, true), sc, 0, 0));
          if (g.coin()) c.push_back(scaled(rect_walk(g, (int)g.range(8, 20), 12, true), sc, 0, 0));
          run_one(g, s, c, "rect.longwalk");
        } else {
          int64_t r = g.pick(std::vector<int64_t>{300, 5000, 1000000});
          Path64 a = star_poly(g, (int)g.range(7, 14), r / 4, r, 0, 0), b = star_poly(g, (int)g.range(5, 12), r / 4, r, g.range(-r / 3, r / 3), g.range(-r / 3, r / 3));
          for (int f = (int)g.range(1, 3); f > 0; --f) { size_t i2 = (size_t)g.range(0, (int64_t)a.size() - 1); a[(i2 + 1) % a.size()].y = a[i2].y; }
          if (g.coin()) { size_t i2 = (size_t)g.range(0, (int64_t)b.size() - 1); b[(i2 + 1) % b.size()].y = b[i2].y; }
          if (g.coin()) a = split_horizontals(g, a, 60, false);
          s.push_back(a); c.push_back(b);
          run_one(g, s, c, "mixed.stars");
        }
        break; }
      default: {  // several horizontals on one scanline: polygons whose flats share a few y values
        Paths64 s, c;
        int64_t r = g.pick(std::vector<int64_t>{30, 200, 3000});
        std::vector<int64_t> ys{g.range(-r, r), g.range(-r, r)};
        int ns = (int)g.range(1, 2), nc = (int)g.range(1, 2);
        for (int k = 0; k < ns + nc; ++k) {
          Path64 p = flat_poly(g, (int)g.range(4, 8), r, g.range(-r / 4, r / 4), g.range(-r / 4, r / 4), 0);
          size_t i = (size_t)g.range(0, (int64_t)p.size() - 1);
          int64_t yy = g.pick(ys);
          p[i].y = yy; p[(i + 1) % p.size()].y = yy;
          if (p[i].x == p[(i + 1) % p.size()].x) p[i].x += 5;
          (k < ns ? s : c).push_back(p);
        }
        run_one(g, s, c, "mixed.shared-scanline");
        break; }
    }
  }
  flush_stats();
  return 0;
}
