// Shared by the C06 and C07 harnesses: exact integer validity tests for generated inputs,
// rational parameters that are exactly representable as doubles, probe proposal.
#pragma once
#include "common.h"
#include <cmath>

namespace vo {
using namespace vh;
typedef __int128 i128;

// a rational with a power-of-two denominator: exactly a double, exactly a Lean `Rat`
struct Q {
  int64_t num; int64_t den;
  double d() const { return (double)num / (double)den; }
  std::string s() const { return S(num) + " " + S(den); }
};

inline i128 cross3(const Point64& a, const Point64& b, const Point64& c) {
  return (i128)(b.x - a.x) * (c.y - a.y) - (i128)(b.y - a.y) * (c.x - a.x);
}
inline int sgn(i128 v) { return v > 0 ? 1 : (v < 0 ? -1 : 0); }
inline bool on_seg(const Point64& p, const Point64& a, const Point64& b) {
  return cross3(a, b, p) == 0 && std::min(a.x, b.x) <= p.x && p.x <= std::max(a.x, b.x) &&
         std::min(a.y, b.y) <= p.y && p.y <= std::max(a.y, b.y);
}
// closed segments share a point?
inline bool segs_touch(const Point64& a, const Point64& b, const Point64& c, const Point64& d) {
  int o1 = sgn(cross3(a, b, c)), o2 = sgn(cross3(a, b, d)), o3 = sgn(cross3(c, d, a)), o4 = sgn(cross3(c, d, b));
  if (o1 * o2 < 0 && o3 * o4 < 0) return true;
  return on_seg(c, a, b) || on_seg(d, a, b) || on_seg(a, c, d) || on_seg(b, c, d);
}

// turning angle at b (a -> b -> c) stays at least ~10.1 degrees away from a full reversal and no zero-length edge:
// cos(turn) >= -0.9845, i.e. dot >= 0 or dot^2 <= 0.9845^2 |u|^2 |v|^2   (cos 170deg = -0.98481)
inline bool turn_ok(const Point64& a, const Point64& b, const Point64& c) {
  i128 ux = b.x - a.x, uy = b.y - a.y, vx = c.x - b.x, vy = c.y - b.y;
  i128 uu = ux * ux + uy * uy, vv = vx * vx + vy * vy;
  if (uu == 0 || vv == 0) return false;
  i128 dot = ux * vx + uy * vy;
  if (dot >= 0) return true;
  // compare dot^2 * 10^8 <= 96924025 * uu * vv in long double-free arithmetic: magnitudes up to (4e12)^2*1e8 = 1.6e33 < 1.7e38
  return dot * dot * (i128)100000000 <= (i128)96924025 * uu * vv;
}
inline bool closed_turns_ok(const Path64& p) {
  size_t n = p.size();
  if (n < 3) return false;
  for (size_t i = 0; i < n; ++i)
    if (!turn_ok(p[(i + n - 1) % n], p[i], p[(i + 1) % n])) return false;
  return true;
}
inline bool open_turns_ok(const Path64& p) {
  for (size_t i = 0; i + 1 < p.size(); ++i) if (p[i] == p[i + 1]) return false;
  for (size_t i = 1; i + 1 < p.size(); ++i)
    if (!turn_ok(p[i - 1], p[i], p[i + 1])) return false;
  return true;
}

// every pair of edges of the closed paths is disjoint except neighbours, which share exactly their common vertex
inline bool closed_set_simple(const Paths64& ps) {
  struct E { Point64 a, b; size_t path, idx, n; };
  std::vector<E> es;
  for (size_t k = 0; k < ps.size(); ++k) {
    size_t n = ps[k].size();
    if (n < 3) return false;
    for (size_t i = 0; i < n; ++i) es.push_back({ps[k][i], ps[k][(i + 1) % n], k, i, n});
  }
  for (size_t i = 0; i < es.size(); ++i)
    for (size_t j = i + 1; j < es.size(); ++j) {
      const E &e = es[i], &f = es[j];
      bool adjacent = e.path == f.path && ((e.idx + 1) % e.n == f.idx || (f.idx + 1) % f.n == e.idx);
      if (!adjacent) { if (segs_touch(e.a, e.b, f.a, f.b)) return false; }
      else {
        // neighbours: must not fold back onto each other (excluded by the angle test, repeated here exactly)
        const E &first = ((e.idx + 1) % e.n == f.idx) ? e : f, &second = ((e.idx + 1) % e.n == f.idx) ? f : e;
        if (cross3(first.a, first.b, second.b) == 0) {
          i128 dot = (i128)(first.b.x - first.a.x) * (second.b.x - second.a.x) + (i128)(first.b.y - first.a.y) * (second.b.y - second.a.y);
          if (dot <= 0) return false;
        }
      }
    }
  return true;
}

inline bool strictly_inside(const Point64& p, const Path64& poly) {
  return PointInPolygon(p, poly) == PointInPolygonResult::IsInside;
}

inline Rect64 bounds_of(const Paths64& ps) {
  Rect64 r(INT64_MAX, INT64_MAX, INT64_MIN, INT64_MIN);
  for (auto& p : ps) for (auto& q : p) {
    r.left = std::min(r.left, q.x); r.right = std::max(r.right, q.x);
    r.top = std::min(r.top, q.y); r.bottom = std::max(r.bottom, q.y);
  }
  return r;
}

inline int64_t log_uniform(Rng& g, int64_t lo, int64_t hi) {
  double a = std::log((double)lo), b = std::log((double)hi);
  int64_t v = (int64_t)std::llround(std::exp(a + g.unit() * (b - a)));
  return std::max(lo, std::min(hi, v));
}

inline std::string S(const std::vector<Point64>& pts, bool) {
  std::string s = std::to_string(pts.size());
  for (auto& q : pts) { s += ' '; s += vh::S(q); }
  return s;
}

// probe proposal: points at chosen distances from edges and vertices of `ps` (closed or open), plus uniform ones
struct ProbeGen {
  Rng& g;
  std::vector<Point64> out;
  explicit ProbeGen(Rng& g_) : g(g_) {}
  void add(double x, double y) { out.emplace_back((int64_t)std::llround(x), (int64_t)std::llround(y)); }
  void uniform(const Rect64& r, double margin, int n) {
    for (int i = 0; i < n; ++i)
      add((double)r.left - margin + g.unit() * ((double)(r.right - r.left) + 2 * margin),
          (double)r.top - margin + g.unit() * ((double)(r.bottom - r.top) + 2 * margin));
  }
  double pick_dist(const std::vector<double>& radii, double tol) {
    double r = radii[g.next() % radii.size()];
    switch (g.next() % 6) {
      case 0: return r - tol - 0.2 - 3 * g.unit();
      case 1: return r + tol + 0.2 + 3 * g.unit();
      case 2: return r * g.unit();
      case 3: return r - tol - 0.2 - 0.3 * r * g.unit();
      case 4: return r + tol + 0.2 + 0.3 * r * g.unit();
      default: return tol + 0.2 + 2 * g.unit();
    }
  }
  // along the normal of the segment a-b
  void near_seg(const Point64& a, const Point64& b, const std::vector<double>& radii, double tol) {
    double dx = (double)(b.x - a.x), dy = (double)(b.y - a.y), len = std::sqrt(dx * dx + dy * dy);
    if (len == 0) return;
    double t;
    switch (g.next() % 4) { case 0: t = g.unit() * 0.05; break; case 1: t = 1 - g.unit() * 0.05; break; default: t = g.unit(); }
    double d = pick_dist(radii, tol) * (g.coin() ? 1 : -1);
    add((double)a.x + t * dx + d * dy / len, (double)a.y + t * dy - d * dx / len);
  }
  void near_pt(const Point64& v, const std::vector<double>& radii, double tol) {
    double th = g.unit() * 6.283185307179586, d = pick_dist(radii, tol);
    add((double)v.x + d * std::cos(th), (double)v.y + d * std::sin(th));
  }
  // beyond the end v of the segment w -> v: `along` past the end, `lateral` sideways
  void near_end(const Point64& v, const Point64& w, const std::vector<double>& radii, double tol) {
    double dx = (double)(v.x - w.x), dy = (double)(v.y - w.y), len = std::sqrt(dx * dx + dy * dy);
    if (len == 0) return;
    double along, lateral;
    switch (g.next() % 4) {
      case 0: along = tol + 0.2 + 2 * g.unit(); break;
      case 1: along = -(tol + 0.2 + 2 * g.unit()); break;
      default: along = pick_dist(radii, tol);
    }
    lateral = (g.chance(50) ? pick_dist(radii, tol) : radii[0] * g.unit()) * (g.coin() ? 1 : -1);
    add((double)v.x + along * dx / len + lateral * dy / len, (double)v.y + along * dy / len - lateral * dx / len);
  }
};

}  // namespace vo
