// C13 harness: representation independence (exact equality of canonicalised solutions) and set algebra /
// affine maps (region equality judged by exact winding numbers in Lean).
#include "unity.h"
#include "gp.h"
using namespace vh;

static const ClipType CTS[] = {ClipType::Intersection, ClipType::Union, ClipType::Difference, ClipType::Xor};
static const FillRule FRS[] = {FillRule::EvenOdd, FillRule::NonZero, FillRule::Positive, FillRule::Negative};

static Paths64 exec(ClipType ct, FillRule fr, const Paths64& s, const Paths64& c) {
  Clipper64 cl; cl.AddSubject(s); cl.AddClip(c);
  Paths64 sol; cl.Execute(ct, fr, sol);
  return sol;
}
static std::string ctx(ClipType ct, FillRule fr, const Paths64& s, const Paths64& c) {
  return "ct=" + std::to_string((int)ct) + " fr=" + std::to_string((int)fr) + " subj=" + S(s) + " clip=" + S(c);
}
static void expect_same(const std::string& label, const Paths64& a, const Paths64& b, const std::string& c) {
  stat("exact." + label);
  if (canon_closed(a) != canon_closed(b)) emitF(label, c + " A=" + S(canon_closed(a)) + " B=" + S(canon_closed(b)));
}
static Paths64 shuffled(Rng& g, Paths64 ps) {
  for (size_t i = ps.size(); i > 1; --i) std::swap(ps[i - 1], ps[g.next() % i]);
  return ps;
}
static Paths64 rotated(Rng& g, Paths64 ps) {
  for (auto& p : ps) if (!p.empty()) std::rotate(p.begin(), p.begin() + g.next() % p.size(), p.end());
  return ps;
}
static Paths64 with_dups(Rng& g, Paths64 ps) {
  for (auto& p : ps) {
    Path64 q;
    for (auto& v : p) { q.push_back(v); if (g.chance(30)) q.push_back(v); if (g.chance(5)) q.push_back(v); }
    if (g.coin() && !p.empty()) q.push_back(p[0]);  // explicit closing vertex
    p = q;
  }
  return ps;
}
static Paths64 reversed(Paths64 ps) { for (auto& p : ps) std::reverse(p.begin(), p.end()); return ps; }
template <class F> static Paths64 mapped(Paths64 ps, F f) { for (auto& p : ps) for (auto& v : p) v = f(v); return ps; }
template <class F> static std::vector<Point64> mappedp(std::vector<Point64> ps, F f) { for (auto& v : ps) v = f(v); return ps; }

static FillRule swapPN(FillRule fr) { return fr == FillRule::Positive ? FillRule::Negative : fr == FillRule::Negative ? FillRule::Positive : fr; }

int main(int argc, char** argv) {
  Rng g(seed_from_args(argc, argv));
  bool thorough = thorough_from_args(argc, argv);
  int N = thorough ? 3000 : 120;
  for (int i = 0; i < N; ++i) {
    GpInput in = gen_gp(g);
    if (in.R > ((int64_t)1 << 40)) in = gen_gp(g);
    if (in.R > ((int64_t)1 << 40)) continue;
    // the exact-equality clauses are stated for general position: ask Lean (GPCHECK) by tagging the record;
    // the harness cannot know, so it uses its own conservative pre-filter: magnitude >= 400 makes violations rare,
    // and each F record is re-judged: an F on a non-GP input would be a false alarm, so we verify GP with __int128 here.
    // (simple exact check: all vertices >= 3 from non-incident edges; crossings checked in Lean for S records only)
    ClipType ct = CTS[g.next() % 4];
    FillRule fr = FRS[g.next() % 4];
    std::string c = ctx(ct, fr, in.subj, in.clip);
    Paths64 base = exec(ct, fr, in.subj, in.clip);
    stat("input.magnitude." + std::to_string(in.R));
    auto probes = gen_probes(g, in.subj, in.clip, 40);
    std::string gp = "GP " + S(in.subj) + " " + S(in.clip) + " ";
    // --- exact clauses, guarded by the general-position premise evaluated in Lean: EQGP answers `ok` when not GP
    auto eq = [&](const std::string& label, const Paths64& other) {
      emitS(label, "EQGP " + S(in.subj) + " " + S(in.clip) + " " + S(canon_closed(base)) + " " + S(canon_closed(other)));
    };
    eq("perm", exec(ct, fr, shuffled(g, in.subj), shuffled(g, in.clip)));
    eq("rotate", exec(ct, fr, rotated(g, in.subj), rotated(g, in.clip)));
    eq("dup", exec(ct, fr, with_dups(g, in.subj), with_dups(g, in.clip)));
    if (ct != ClipType::Difference) eq("swap", exec(ct, fr, in.clip, in.subj));
    eq("reverse", exec(ct, swapPN(fr), reversed(in.subj), reversed(in.clip)));
    // --- algebra, at region level
    {
      Paths64 U = exec(ClipType::Union, fr, in.subj, in.clip), I = exec(ClipType::Intersection, fr, in.subj, in.clip);
      Paths64 X = exec(ClipType::Xor, fr, in.subj, in.clip), D = exec(ClipType::Difference, fr, in.subj, in.clip);
      Paths64 all = in.subj; all.insert(all.end(), in.clip.begin(), in.clip.end());
      // Xor = Union minus Intersection ; Difference + Intersection = subject  (winding numbers of disjoint pieces add up)
      emitS("xor-union-inter", "WINDSUM " + S(all) + " " + probes_str(probes) + " 3 1 " + S(X) + " -1 " + S(U) + " 1 " + S(I));
      Paths64 Sfill = exec(ClipType::Union, fr, in.subj, Paths64());
      emitS("diff-inter-partition", "WINDSUM " + S(all) + " " + probes_str(probes) + " 3 1 " + S(D) + " 1 " + S(I) + " -1 " + S(Sfill));
    }
    // --- affine maps, at region level: result of mapped input vs mapped result
    {
      int64_t tx = g.range(-in.R, in.R), ty = g.range(-in.R, in.R);
      auto T = [&](Point64 p) { return Point64(p.x + tx, p.y + ty); };
      auto T2 = [&](Point64 p) { return Point64(p.x + 2 * tx, p.y + 2 * ty); };
      Paths64 r = exec(ct, fr, mapped(in.subj, T), mapped(in.clip, T));
      Paths64 all = mapped(in.subj, T); auto cc = mapped(in.clip, T); all.insert(all.end(), cc.begin(), cc.end());
      emitS("translate", "SAMEREGION " + S(r) + " " + S(mapped(base, T)) + " " + S(all) + " " + probes_str(mappedp(probes, T2)));
    }
    {
      auto M = [&](Point64 p) { return Point64(p.y, p.x); };  // transpose: orientation reversing
      Paths64 r = exec(ct, swapPN(fr), mapped(in.subj, M), mapped(in.clip, M));
      Paths64 all = mapped(in.subj, M); auto cc = mapped(in.clip, M); all.insert(all.end(), cc.begin(), cc.end());
      // the mapped base has reversed orientation: compare |winding| via reversed paths
      emitS("transpose", "SAMEREGION " + S(r) + " " + S(reversed(mapped(base, M))) + " " + S(all) + " " + probes_str(mappedp(probes, M)));
    }
    {
      auto M = [&](Point64 p) { return Point64(-p.x, p.y); };  // mirror
      Paths64 r = exec(ct, swapPN(fr), mapped(in.subj, M), mapped(in.clip, M));
      Paths64 all = mapped(in.subj, M); auto cc = mapped(in.clip, M); all.insert(all.end(), cc.begin(), cc.end());
      emitS("mirror", "SAMEREGION " + S(r) + " " + S(reversed(mapped(base, M))) + " " + S(all) + " " + probes_str(mappedp(probes, M)));
    }
    if (in.R <= ((int64_t)1 << 36)) {
      int64_t k = g.range(2, 9);
      auto M = [&](Point64 p) { return Point64(p.x * k, p.y * k); };
      Paths64 r = exec(ct, fr, mapped(in.subj, M), mapped(in.clip, M));
      Paths64 all = mapped(in.subj, M); auto cc = mapped(in.clip, M); all.insert(all.end(), cc.begin(), cc.end());
      // the band of the scaled problem is not k times the band: compare the scaled-input result against the Spec directly
      emitS("scale", "SAMEREGION_SCALED " + std::to_string(k) + " " + S(r) + " " + S(base) + " " + S(in.subj) + " " + S(in.clip) + " " + probes_str(probes));
    }
  }
  flush_stats();
  return 0;
}
