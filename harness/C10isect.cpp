// C10 (slice "BuildIntersectList produces exactly the inversion set"): correspondence of Model/BuildIntersectList.lean.
//
// Source 1 (synthetic states, the real private function called directly): a Clipper64 is given a hand-made active edge
//   list (Active objects with bot/top/dx chosen so that TopX(e, top_y) is a wanted value, linked through
//   prev_in_ael/next_in_ael, actives_ set, optional join_with == Left flags); the REAL ClipperBase::BuildIntersectList(top_y)
//   runs (with the real AdjustCurrXAndCopyToSEL, ExtractFromSEL, Insert1Before2InSEL, AddNewIntersectNode); the harness reads
//   the return value, intersect_nodes_ (edge identities, in the order appended), the SEL from sel_ along next_in_sel (with
//   curr_x), and emits
//     M  BUILDISECT n {id TopX joinedLeft}*n   ->  ret N k {e1 e2}*k S n {id curr_x}*n      (model must reproduce all of it)
//     S  ISECTSPEC  n {id curr_x}*n k {e1 e2}*k n {id}*n  -> ok                           (Lean spec judges the real result)
//   where for ISECTSPEC the nodes are in the order the real std::sort(.., IntersectListSort) leaves them.  A bounds-checked
//   replica of the ProcessIntersectList loop built from the real IntersectListSort / EdgesAdjacentInAEL / SwapPositionsInAEL
//   (IntersectEdges left out: it does not change the AEL order) is run on the real node list: F record if the scan would leave
//   the list or the AEL does not end in SEL order.
// Source 2 (states of real Execute runs, hook H1 only, nothing added to /repo): the kIntersect event of ProcessIntersectList
//   is delivered after the first swap but before curr_x is overwritten, so at the first event of a batch the sink still sees
//   the curr_x values and the SEL exactly as BuildIntersectList left them, the whole (sorted) intersect_nodes_, and the AEL
//   order up to that one swap, which it undoes.  Emitted: M BUILDISECTSET (node SET + final order) and S ISECTSPEC; at the
//   last event of the batch the real AEL order must equal the captured SEL order (F record otherwise).
#define VERIF_PRIVATE_ACCESS
#include "unity.h"
#include "common.h"
#include <memory>
#include <set>
#ifndef CLIPPER2_VERIF
#error "C10isect.cpp needs the hooks: compile with -DCLIPPER2_VERIF"
#endif
using namespace vh;

// ------------------------------------------------------------------------------------------------ source 1
struct EdgeSpec {
  int id;
  int64_t want;      // wanted curr_x (kinds with an exact TopX) or approximate (generic slope)
  int kind;          // 0 top.y == top_y, 1 vertical, 2 integer slope through (want, top_y), 3 generic slope, 4 bot.y == top_y
  bool joined_left;
};

static const char* KIND[] = {"top-at-top_y", "vertical", "int-slope", "generic-slope", "bot-at-top_y"};

static std::string ids_of(const std::vector<std::pair<int, int64_t>>& v, bool withx) {
  std::string s = std::to_string(v.size());
  for (auto& p : v) { s += ' ' + std::to_string(p.first); if (withx) s += ' ' + S(p.second); }
  return s;
}

// returns false if the case could not be run (never happens: kept for symmetry)
static void run_synthetic(Rng& g, const std::vector<EdgeSpec>& spec, const std::string& family) {
  const size_t n = spec.size();
  Clipper64 c;
  int64_t top_y = g.range(-50, 50);
  int64_t h = g.range(1, 20);
  c.bot_y_ = top_y + h;
  std::vector<std::unique_ptr<Active>> es;
  std::map<const Active*, int> id_of;
  std::vector<int64_t> topx(n);
  for (size_t i = 0; i < n; ++i) {
    auto e = std::make_unique<Active>();
    const EdgeSpec& sp = spec[i];
    int64_t w = sp.want;
    int64_t bx = (int64_t)i * 10 + g.range(0, 4);     // a plausible position at the bottom of the scanbeam
    switch (sp.kind) {
      case 0: e->bot = Point64(bx, c.bot_y_ + g.range(0, 3)); e->top = Point64(w, top_y); break;
      case 1: e->bot = Point64(w, c.bot_y_ + g.range(0, 3)); e->top = Point64(w, top_y - g.range(0, 3)); break;
      case 2: { int64_t s = g.range(-3, 3), ext = g.range(0, 5);
                e->bot = Point64(w - s * h, c.bot_y_); e->top = Point64(w + s * ext, top_y - ext); break; }
      case 3: e->bot = Point64(bx, c.bot_y_ + g.range(0, 7)); e->top = Point64(w + g.range(-2, 2), top_y - g.range(1, 7)); break;
      default: e->bot = Point64(w, top_y); e->top = Point64(w + g.range(-4, 4), top_y - g.range(1, 5)); break;
    }
    SetDx(*e);
    e->curr_x = e->bot.x;
    e->join_with = sp.joined_left ? JoinWith::Left : JoinWith::NoJoin;
    topx[i] = TopX(*e, top_y);            // the real TopX; the exact kinds must give `want`
    if (sp.kind != 3 && topx[i] != w) emitF("harness.topx", std::string(KIND[sp.kind]) + " edge: TopX gives " + S(topx[i]) + " wanted " + S(w));
    id_of[e.get()] = sp.id;
    stat(std::string("edge.kind.") + KIND[sp.kind]);
    if (sp.joined_left) stat("edge.joined_left");
    es.push_back(std::move(e));
  }
  for (size_t i = 0; i < n; ++i) {
    es[i]->prev_in_ael = i ? es[i - 1].get() : nullptr;
    es[i]->next_in_ael = i + 1 < n ? es[i + 1].get() : nullptr;
  }
  c.actives_ = n ? es[0].get() : nullptr;
  c.sel_ = nullptr;

  std::string req = "BUILDISECT " + std::to_string(n);
  for (size_t i = 0; i < n; ++i) req += ' ' + std::to_string(spec[i].id) + ' ' + S(topx[i]) + ' ' + (spec[i].joined_left ? "1" : "0");

  bool ret = c.BuildIntersectList(top_y);          // ---- the real function

  // read the result
  std::string desc = "family=" + family + " " + req;
  std::vector<std::pair<int, int>> nodes;
  for (auto& nd : c.intersect_nodes_) nodes.emplace_back(id_of.at(nd.edge1), id_of.at(nd.edge2));
  // the AEL must be untouched
  { size_t i = 0; const Active* prev = nullptr;
    for (const Active* e = c.actives_; e; prev = e, e = e->next_in_ael, ++i)
      if (i >= n || e != es[i].get() || e->prev_in_ael != prev) { emitF("isect.ael-changed", desc); break; }
    if (i != n) emitF("isect.ael-changed", desc); }
  std::string exp;
  std::vector<std::pair<int, int64_t>> sel;
  if (n < 2) {
    if (ret || !nodes.empty() || c.sel_ != nullptr) emitF("isect.early-return", desc);
    exp = "0 N 0 early";
    stat("synthetic.early_return");
  } else {
    bool broken = false;
    const Active* prev = nullptr;
    size_t steps = 0;
    for (const Active* e = c.sel_; e; prev = e, e = e->next_in_sel) {
      if (++steps > n || e->prev_in_sel != prev) { broken = true; break; }
      sel.emplace_back(id_of.at(e), e->curr_x);
    }
    if (broken || steps != n) emitF("isect.sel-links", "SEL is not a consistent doubly linked list of all edges: " + desc);
    if (c.sel_ && c.sel_->jump) emitF("isect.sel-links", "head of the final SEL still has a jump pointer: " + desc);
    exp = std::string(ret ? "1" : "0") + " N " + std::to_string(nodes.size());
    for (auto& p : nodes) exp += ' ' + std::to_string(p.first) + ' ' + std::to_string(p.second);
    exp += " S " + ids_of(sel, true);
  }
  emitM("buildisect." + family, req, exp);
  stat("synthetic.cases");
  stat("synthetic.n." + std::string(n < 2 ? "0-1" : n <= 4 ? "2-4" : n <= 8 ? "5-8" : n <= 16 ? "9-16" : n <= 32 ? "17-32" : "33+"));
  if ((n & (n - 1)) == 0 && n >= 2) stat("synthetic.n_power_of_two");
  stat("synthetic.nodes." + std::string(nodes.empty() ? "0" : nodes.size() <= 3 ? "1-3" : nodes.size() <= 20 ? "4-20" : nodes.size() <= 100 ? "21-100" : "101+"));
  { std::set<int64_t> xs; for (auto& p : sel) xs.insert(p.second); if (n >= 2 && xs.size() < n) stat("synthetic.with_ties"); }

  if (n >= 2) {
    // ---- spec-level judgement of the real result, nodes in the order of the real std::sort, and the bounds-checked
    // replica of the ProcessIntersectList loop on the real node list with the real helper functions
    std::vector<std::pair<int, int64_t>> ael_x;
    for (size_t i = 0; i < n; ++i) ael_x.emplace_back(spec[i].id, es[i]->curr_x);
    IntersectNodeList nl = c.intersect_nodes_;
    std::sort(nl.begin(), nl.end(), IntersectListSort);
    std::string sreq = "ISECTSPEC " + ids_of(ael_x, true) + " " + std::to_string(nl.size());
    for (auto& nd : nl) sreq += ' ' + std::to_string(id_of.at(nd.edge1)) + ' ' + std::to_string(id_of.at(nd.edge2));
    sreq += " " + ids_of(sel, false);
    emitS("isectspec." + family, sreq, "ok");
    bool past_end = false;
    for (size_t i = 0; i < nl.size() && !past_end; ++i) {
      if (!EdgesAdjacentInAEL(nl[i])) {
        size_t j = i + 1;
        while (j < nl.size() && !EdgesAdjacentInAEL(nl[j])) ++j;
        if (j == nl.size()) { past_end = true; break; }
        std::swap(nl[i], nl[j]);
        stat("replica.scan_swaps");
      }
      if (nl[i].edge1->next_in_ael != nl[i].edge2) { emitF("isect.replica", "edge1 is not immediately left of edge2 at its swap: " + desc); past_end = true; break; }
      c.SwapPositionsInAEL(*nl[i].edge1, *nl[i].edge2);
    }
    if (past_end) emitF("isect.scan-past-end", "the adjacent-node scan leaves intersect_nodes_: " + desc);
    else {
      std::vector<int> a;
      for (const Active* e = c.actives_; e; e = e->next_in_ael) a.push_back(id_of.at(e));
      bool same = a.size() == sel.size();
      for (size_t i = 0; same && i < a.size(); ++i) same = a[i] == sel[i].first;
      if (!same) emitF("isect.ael-not-sel-order", "after all swaps the AEL is not in SEL order: " + desc);
    }
    stat("replica.runs");
  }
  c.intersect_nodes_.clear();
  c.actives_ = nullptr;      // the edges are owned by `es`
  c.sel_ = nullptr;
}

static std::vector<EdgeSpec> make_spec(Rng& g, const std::vector<int64_t>& xs, int kind_mode, int join_pct, bool shuffle_ids) {
  size_t n = xs.size();
  std::vector<int> ids(n);
  for (size_t i = 0; i < n; ++i) ids[i] = (int)i;
  if (shuffle_ids) {
    std::set<int> used; for (size_t i = 0; i < n; ++i) { int v; do v = (int)g.range(0, 199); while (used.count(v)); used.insert(v); ids[i] = v; }
  }
  std::vector<EdgeSpec> sp;
  for (size_t i = 0; i < n; ++i) {
    int kind = kind_mode >= 0 ? kind_mode : (g.chance(4) ? 4 : (int)g.range(0, 3));
    sp.push_back({ids[i], xs[i], kind, i > 0 && g.chance(join_pct)});
  }
  return sp;
}

static void synth(Rng& g, const std::vector<int64_t>& xs, const std::string& family, int kind_mode = -1) {
  run_synthetic(g, make_spec(g, xs, kind_mode, g.chance(30) ? 15 : 0, g.chance(40)), family);
}

static void all_sequences(Rng& g, int len, int k, const std::string& family) {
  std::vector<int64_t> xs(len, 0);
  for (;;) {
    // exact kinds only: the sequence is what is being enumerated
    int km = (int)g.range(0, 2);
    run_synthetic(g, make_spec(g, xs, km, 0, false), family);
    int i = len - 1;
    while (i >= 0 && xs[i] == k - 1) { xs[i] = 0; --i; }
    if (i < 0) break;
    ++xs[i];
  }
}

// ------------------------------------------------------------------------------------------------ source 2
struct Cap {
  size_t seen = 0;
  std::vector<const Active*> sel;
  long batches = 0, emitted = 0, trivial_skipped = 0, max_n = 0, max_nodes = 0, ties = 0, order_checked = 0;
  std::string ctx;
  long budget = 0;
};
static Cap& cap() { static Cap c; return c; }

static void exec_sink(int ev, const ClipperBase* c, const Active* a) {
  if (ev != verif::kIntersect || c->intersect_nodes_.empty()) return;
  Cap& k = cap();
  const size_t total = c->intersect_nodes_.size();
  if (k.seen == 0) {
    k.batches++;
    // the AEL before the first swap: `a` (= edge1 of node 0) and its left neighbour (edge2) exchanged back
    const IntersectNode& n0 = c->intersect_nodes_[0];
    std::vector<const Active*> ael;
    for (const Active* e = c->actives_; e; e = e->next_in_ael) ael.push_back(e);
    bool ok = n0.edge1 == a && a->prev_in_ael == n0.edge2;
    for (size_t i = 0; ok && i + 1 < ael.size(); ++i) if (ael[i] == n0.edge2 && ael[i + 1] == n0.edge1) { std::swap(ael[i], ael[i + 1]); break; }
    if (!ok) emitF("exec.first-event", "first kIntersect of a batch is not node 0 right after its swap: " + k.ctx);
    std::map<const Active*, int> id;
    for (size_t i = 0; i < ael.size(); ++i) id[ael[i]] = (int)i;
    k.sel.clear();
    bool broken = false; const Active* prev = nullptr;
    for (const Active* e = c->sel_; e; prev = e, e = e->next_in_sel) {
      if (k.sel.size() > ael.size() || e->prev_in_sel != prev || !id.count(e)) { broken = true; break; }
      k.sel.push_back(e);
    }
    if (broken || k.sel.size() != ael.size()) emitF("exec.sel-links", "SEL is not a consistent list of all active edges: " + k.ctx);
    else if (ok) {
      bool trivial = total == 1;
      std::set<int64_t> xs; for (auto e : ael) xs.insert(e->curr_x);
      bool ties = xs.size() < ael.size();
      if (ties) k.ties++;
      k.max_n = std::max<long>(k.max_n, (long)ael.size());
      k.max_nodes = std::max<long>(k.max_nodes, (long)total);
      if ((trivial && !ties && k.trivial_skipped++ % 16 != 0) || k.emitted >= k.budget) { /* counted only */ }
      else {
        k.emitted++;
        std::string aelx = std::to_string(ael.size());
        for (auto e : ael) aelx += ' ' + std::to_string(id[e]) + ' ' + S(e->curr_x);
        std::vector<std::pair<int, int>> ns;
        for (auto& nd : c->intersect_nodes_) ns.emplace_back(id.at(nd.edge1), id.at(nd.edge2));
        std::string selx = std::to_string(k.sel.size()), sel_ids = selx;
        for (auto e : k.sel) { selx += ' ' + std::to_string(id[e]) + ' ' + S(e->curr_x); sel_ids += ' ' + std::to_string(id[e]); }
        std::string real_order = std::to_string(ns.size());
        for (auto& p : ns) real_order += ' ' + std::to_string(p.first) + ' ' + std::to_string(p.second);
        std::sort(ns.begin(), ns.end());
        std::string sorted = "1 N " + std::to_string(ns.size());
        for (auto& p : ns) sorted += ' ' + std::to_string(p.first) + ' ' + std::to_string(p.second);
        emitM("exec.buildisectset", "BUILDISECTSET " + aelx, sorted + " S " + selx);
        emitS("exec.isectspec", "ISECTSPEC " + aelx + " " + real_order + " " + sel_ids, "ok");
        stat(std::string("exec.n.") + (ael.size() <= 4 ? "2-4" : ael.size() <= 8 ? "5-8" : ael.size() <= 16 ? "9-16" : "17+"));
        stat(std::string("exec.nodes.") + (total == 1 ? "1" : total <= 3 ? "2-3" : total <= 10 ? "4-10" : "11+"));
        if (ties) stat("exec.emitted_with_ties");
      }
    }
  }
  k.seen++;
  if (k.seen == total) {
    // the theorem's conclusion on the real object: after the last swap the AEL is in SEL order
    if (!k.sel.empty()) {
      size_t i = 0; bool same = true;
      for (const Active* e = c->actives_; e; e = e->next_in_ael, ++i) if (i >= k.sel.size() || k.sel[i] != e) { same = false; break; }
      if (!same || i != k.sel.size()) emitF("exec.ael-not-sel-order", "after ProcessIntersectList the AEL is not in SEL order: " + k.ctx);
      k.order_checked++;
    }
    k.seen = 0; k.sel.clear();
  }
}

static void run_exec(Rng& g, const Paths64& s, const Paths64& cl, const std::string& family) {
  static const ClipType CTS[] = {ClipType::Intersection, ClipType::Union, ClipType::Difference, ClipType::Xor};
  static const FillRule FRS[] = {FillRule::EvenOdd, FillRule::NonZero, FillRule::Positive, FillRule::Negative};
  ClipType ct = CTS[g.range(0, 3)]; FillRule fr = FRS[g.range(0, 3)];
  Clipper64 c;
  c.AddSubject(s); c.AddClip(cl);
  Cap& k = cap();
  k.seen = 0; k.sel.clear();
  k.ctx = "family=" + family + " ct=" + std::to_string((int)ct) + " fr=" + std::to_string((int)fr) + " subj=" + S(s) + " clip=" + S(cl);
  verif::ael_sink() = exec_sink;
  Paths64 sol;
  c.Execute(ct, fr, sol);
  verif::ael_sink() = nullptr;
  if (k.seen != 0) emitF("exec.batch-incomplete", "a ProcessIntersectList batch delivered fewer events than nodes: " + k.ctx);
  stat("exec.runs");
  stat("exec.family." + family);
}

int main(int argc, char** argv) {
  Rng g(seed_from_args(argc, argv));
  bool thorough = thorough_from_args(argc, argv);

  // ---- source 1: fixed shapes
  synth(g, {}, "fixed");
  synth(g, {7}, "fixed");
  synth(g, {1, 2}, "fixed"); synth(g, {2, 1}, "fixed"); synth(g, {2, 2}, "fixed");
  synth(g, {5, 3, 5, 1, 3}, "fixed");
  synth(g, {3, 3, 1, 1, 2, 2, 3, 1}, "fixed");
  // every sequence over a small alphabet (ties everywhere): lengths 2..5 over {0,1,2}; thorough: up to 6 over {0..3}, 7 over {0,1,2}
  for (int len = 2; len <= 5; ++len) all_sequences(g, len, 3, "all-seq3");
  all_sequences(g, 4, 4, "all-seq4");
  if (thorough) { all_sequences(g, 5, 4, "all-seq4"); all_sequences(g, 6, 4, "all-seq4"); all_sequences(g, 6, 3, "all-seq3"); all_sequences(g, 7, 3, "all-seq3"); all_sequences(g, 5, 5, "all-seq5"); }

  int N = thorough ? 12000 : 450;
  for (int it = 0; it < N; ++it) {
    // lengths: uniform 0..40, with powers of two and their neighbours over-represented
    static const int special[] = {2, 3, 4, 5, 7, 8, 9, 15, 16, 17, 31, 32, 33, 40};
    int n = g.chance(35) ? special[g.range(0, 13)] : (int)g.range(0, 40);
    int64_t base = g.chance(10) ? ((int64_t)1 << 40) * (g.coin() ? 1 : -1) : g.chance(20) ? -20 : 0;
    int alpha = (int)std::vector<int>{1, 2, 3, 5, std::max(n, 1), 4 * std::max(n, 1), 1000}[g.range(0, 6)];
    std::vector<int64_t> xs(n);
    std::string fam;
    switch (g.range(0, 9)) {
      case 0: case 1: case 2: fam = "random"; for (auto& x : xs) x = g.range(0, alpha - 1); break;
      case 3: fam = "sorted"; for (auto& x : xs) x = g.range(0, alpha - 1); std::sort(xs.begin(), xs.end()); break;
      case 4: fam = "reversed"; for (auto& x : xs) x = g.range(0, alpha - 1); std::sort(xs.rbegin(), xs.rend()); break;
      case 5: fam = "all-equal"; for (auto& x : xs) x = 3; break;
      case 6: { fam = "two-interleaved-runs"; std::vector<int64_t> a, b;
                for (int i = 0; i < n; ++i) (i % 2 ? a : b).push_back(g.range(0, alpha - 1));
                std::sort(a.begin(), a.end()); std::sort(b.begin(), b.end());
                for (int i = 0, ia = 0, ib = 0; i < n; ++i) xs[i] = (i % 2 ? a[ia++] : b[ib++]); break; }
      case 7: { fam = "two-blocks"; for (auto& x : xs) x = g.range(0, alpha - 1);
                int m = n ? (int)g.range(0, n) : 0; std::sort(xs.begin(), xs.begin() + m); std::sort(xs.begin() + m, xs.end()); break; }
      case 8: { fam = "rotated-sorted"; for (auto& x : xs) x = g.range(0, alpha - 1); std::sort(xs.begin(), xs.end());
                if (n) std::rotate(xs.begin(), xs.begin() + g.range(0, n - 1), xs.end()); break; }
      default: { fam = "sawtooth"; int p = (int)g.range(1, 6); for (int i = 0; i < n; ++i) xs[i] = (g.coin() ? i % p : p - i % p); break; }
    }
    for (auto& x : xs) x += base;
    // far from the origin only the exact kinds without geometry far apart from each other (keeps AddNewIntersectNode's doubles tame)
    int km = base > 1000 || base < -1000 ? (int)g.range(0, 1) : -1;
    if (km >= 0) fam += ".2p40";
    synth(g, xs, fam, km);
  }

  // ---- source 2: real Execute runs
  cap().budget = thorough ? 80000 : 2500;
  int E = thorough ? 10000 : 350;
  for (int it = 0; it < E; ++it) {
    Paths64 s, cl;
    std::string fam;
    int64_t r = std::vector<int64_t>{6, 12, 30, 1000, 1000000}[g.range(0, 4)];
    switch (g.range(0, 3)) {
      case 0: fam = "random-polys"; for (int i = (int)g.range(1, 3); i > 0; --i) s.push_back(rand_poly(g, (int)g.range(3, 24), r));
              for (int i = (int)g.range(0, 2); i > 0; --i) cl.push_back(rand_poly(g, (int)g.range(3, 16), r)); break;
      case 1: fam = "stars"; for (int i = (int)g.range(1, 3); i > 0; --i) s.push_back(star_poly(g, (int)g.range(5, 30), r / 3 + 1, r, g.range(-r / 2, r / 2), g.range(-r / 2, r / 2)));
              cl.push_back(star_poly(g, (int)g.range(5, 30), r / 3 + 1, r)); break;
      case 2: { fam = "fans";   // many edges from one low vertex row to a permuted top row: long AELs with many inversions
                int m = (int)g.range(3, 12); int64_t hh = g.range(5, 40);
                for (int i = 0; i < m; ++i) { int64_t x0 = i * 6, x1 = g.range(0, m - 1) * 6 + g.range(0, 2);
                  s.push_back(Path64{Point64(x0, hh), Point64(x0 + 2, hh), Point64(x1 + 2, (int64_t)0), Point64(x1, (int64_t)0)}); }
                if (g.coin()) cl.push_back(rect_path(-3, -2, m * 6 + 5, hh + 2)); break; }
      default: fam = "one-big-random"; s.push_back(rand_poly(g, (int)g.range(20, 60), r)); break;
    }
    run_exec(g, s, cl, fam);
  }
  Cap& k = cap();
  stat("exec.batches", k.batches); stat("exec.batches_emitted", k.emitted); stat("exec.batches_with_ties", k.ties);
  // judged in-process (F record on failure): the real AEL order after every real ProcessIntersectList batch, and the replica loop
  stat("evaluations.exec_final_order", k.order_checked);
  stat("evaluations.replica_scan", stats()["replica.runs"]);
  stat("exec.max_ael_len", k.max_n); stat("exec.max_nodes", k.max_nodes); stat("exec.final_order_checked", k.order_checked);
  flush_stats();
  return 0;
}
