// Z variant of aelrings.h (USINGZ builds only): sink for hook H1 that records the events of the sweep with the (x, y, z) triples the engine has in
// hand, the bot/top of the two edges of every IntersectEdges call (what SetZ reads), and every OutPt ring with the z of every point.  Produces the
// item list of the driver command AELRINGSZ (lean/ClipperVerif/Driver/AelRingsZ.lean), which replays the events on Model/AelRingsZ.lean and must
// reproduce every ring of every closed output record triple for triple and in order at every snapshot, and the complete log of the callback's calls
// (arguments in the order passed, the point as shown, the z left in it).
//
// Items as in aelrings.h, every point with its z:
//   U i x y z | IP pos pt isOpen dxLeft x y z | I1 pos pt dx | R1 i | RP i x y z | J i x y z | SP i x y z
//   X i x y z  e1bot(x y z) e1top(x y z) e2bot(x y z) e2top(x y z)
//                                the pt of IntersectEdges(e1, e2, pt) found by the rules of aelrings.h, with the z that Point64 carries (node.pt of
//                                intersect_nodes_; right_bound->bot; Point64(curr_x, y) = z 0 in DoHorizontal; e.top in DoMaxima); e1 = the hook edge, e2 = the
//                                edge now to its left (the hook fires after SwapPositionsInAEL); bot/top are read from the Actives (IntersectEdges and
//                                SwapPositionsInAEL do not change them)
//   S k (9 fields)*k  m (stat n (x y z)*n)*m  ncalls
//                                ncalls = number of calls of the user's callback so far
// The request ends with the callback log (as recorded by the harness's callback up to the last snapshot): for every call the four end points in
// the order passed, the point as shown (z = what SetZ put there) and the z the callback left.
// A wrong rule for a point or its z cannot make a wrong model pass: every ring is compared with its z after every event.
// Needs unity.h included with VERIF_PRIVATE_ACCESS and -DUSINGZ.
#pragma once
#include "common.h"
#include <unordered_set>
#include <unordered_map>
#ifndef CLIPPER2_VERIF
#error "aelringsz.h needs the hooks: compile with -DCLIPPER2_VERIF"
#endif
#ifndef USINGZ
#error "aelringsz.h is for USINGZ builds"
#endif
namespace vh {
struct RingsZTrace {
  std::vector<std::string> items;
  std::vector<size_t> pending_sp;      // SP items waiting for the point of the enclosing IntersectEdges / DoMaxima
  std::unordered_set<const Clipper2Lib::Active*> known;
  std::unordered_map<const Clipper2Lib::Active*, Clipper2Lib::Active> shadow;   // copy of each announced edge as of the last hook
  std::vector<const Clipper2Lib::Active*> pending_joins;
  std::unordered_map<const Clipper2Lib::Active*, bool> needs_trim;   // the copy went through an update that made it horizontal, TrimHorz not yet applied
  std::unordered_set<const Clipper2Lib::Active*> flushed_now;
  const Clipper2Lib::Active* loop_rb = nullptr;
  const Clipper2Lib::Active* last_updated = nullptr;
  Clipper2Lib::Point64 last_x_pt = Clipper2Lib::Point64(0, 0);
  bool have_last_x = false;
  bool has_horz = false;           // a horizontal edge was seen (statistics only)
  bool has_horz_join = false;      // ConvertHorzSegsToJoins made a join (it duplicates OutPts): not modelled; the trace is cut at the last snapshot before it
  size_t last_snap_end = 0;        // number of items up to and including the last snapshot
  bool hh_cross = false;           // a horizontal edge crossed another horizontal edge: the point cannot be read off the state
  bool updates_since_ip = false;   // a U item was written since the last kInsertPair
  bool prev_x = false;             // the previous hook was kIntersect (or a kJoin following one)
  size_t nops_seen = 0;                // OutPts of closed records at the previous snapshot
  long last_done = 0, last_gone = 0, last_live = 0;   // closed records by state at the last snapshot
  std::string first_error;
  struct Call { Clipper2Lib::Point64 a, b, c, d, seen; int64_t ret; };
  std::vector<Call>* calls = nullptr;  // the harness's callback appends here
  size_t calls_at_last_snap = 0;
  std::vector<Clipper2Lib::Point64> vertex_pts;   // the points of U / IP / RP items (must be input vertices with the input z)
  std::vector<Clipper2Lib::Point64> x_pts;        // the points of X items, with the z IntersectEdges was handed
  std::vector<int> x_cls;                          // and where that z comes from (see the sink)
  std::vector<std::vector<Clipper2Lib::Point64>> last_rings;   // the rings at the last snapshot
  // totals over the process
  long n_update = 0, n_ip = 0, n_x = 0, n_rp = 0, n_join = 0, n_split = 0, n_snap = 0, n_deferred = 0, n_sp_patched = 0, n_sp_update = 0,
       n_x_node = 0, n_x_locmin = 0, n_x_maxima = 0, n_x_horz = 0, n_x_hh = 0, n_join_tie = 0, n_join_node = 0, n_multi_update = 0, n_ring_points = 0, n_ringsz_dumped = 0;
  void clear() {
    items.clear(); vertex_pts.clear(); x_pts.clear(); x_cls.clear(); last_rings.clear(); pending_sp.clear(); known.clear(); shadow.clear(); needs_trim.clear(); pending_joins.clear(); flushed_now.clear();
    loop_rb = nullptr; last_updated = nullptr; have_last_x = false; has_horz = false; has_horz_join = false; last_snap_end = 0; calls = nullptr; calls_at_last_snap = 0; hh_cross = false; prev_x = false; nops_seen = 0; first_error.clear();
    last_done = last_gone = last_live = 0;
  }
};
inline RingsZTrace& ringsz_trace() { static thread_local RingsZTrace t; return t; }

inline void ringsz_fail(const std::string& why) {
  RingsZTrace& t = ringsz_trace();
  if (t.first_error.empty()) t.first_error = why;
}
// position among the edges already announced to the model
inline int ringsz_index(const Clipper2Lib::ClipperBase* c, const Clipper2Lib::Active* a) {
  RingsZTrace& t = ringsz_trace();
  int i = 0;
  for (const Clipper2Lib::Active* e = c->actives_; e; e = e->next_in_ael) {
    if (e == a) return i;
    if (t.known.count(e)) ++i;
  }
  return -1;
}
inline int ringsz_rank(const Clipper2Lib::ClipperBase* c, const Clipper2Lib::OutRec* o) {
  int r = 0;
  for (size_t j = 0; j < o->idx && j < c->outrec_list_.size(); ++j) if (!c->outrec_list_[j]->is_open) ++r;
  return r;
}
inline std::string ringsz_pt(const Clipper2Lib::Point64& p) { return " " + std::to_string(p.x) + " " + std::to_string(p.y) + " " + std::to_string(p.z); }

// U items for every announced edge that went through UpdateEdgeIntoAEL since the last hook
// `swapped` (kIntersect only): the hook edge, which SwapPositionsInAEL has just moved one place to the right; the U items precede the X item,
// so their positions are those before the swap
inline void ringsz_flush_updates(const Clipper2Lib::ClipperBase* c, const Clipper2Lib::Active* swapped = nullptr) {
  using namespace Clipper2Lib;
  RingsZTrace& t = ringsz_trace();
  t.flushed_now.clear();
  const Active* latest = nullptr;
  for (const Active* e = c->actives_; e; e = e->next_in_ael) {
    if (e->top.y == e->bot.y) t.has_horz = true;
    if (!t.known.count(e)) continue;
    Active& sh = t.shadow[e];
    if (sh.vertex_top == e->vertex_top) continue;
    int idx = ringsz_index(c, e), steps = 0, nupd = 0;
    if (swapped && e == swapped) idx -= 1;
    else if (swapped && e == swapped->prev_in_ael) idx += 1;
    // replay UpdateEdgeIntoAEL on the copy.  TrimHorz may skip vertices of a horizontal run (those are never emitted); it runs *after* the
    // kSplit hook inside UpdateEdgeIntoAEL, so the real edge may be seen updated but not yet trimmed: the copy is trimmed lazily.
    bool& needs_trim = t.needs_trim[e];
    while (sh.vertex_top != e->vertex_top && steps < 100000) {
      ++steps;
      if (needs_trim) { TrimHorz(sh, c->preserve_collinear_); needs_trim = false; continue; }
      t.items.push_back(" U " + std::to_string(idx) + ringsz_pt(sh.top));
      t.vertex_pts.push_back(sh.top);
      t.n_update++; ++nupd;
      sh.bot = sh.top;
      sh.vertex_top = NextVertex(sh);
      sh.top = sh.vertex_top->pt;
      sh.curr_x = sh.bot.x;
      SetDx(sh);
      needs_trim = IsHorizontal(sh) && !IsOpen(sh);
    }
    if (nupd > 1) t.n_multi_update++;
    if (sh.vertex_top != e->vertex_top || !(sh.top == e->top) || !(sh.bot == e->bot)) ringsz_fail("replay of UpdateEdgeIntoAEL on the shadow edge did not reach the edge's state");
    sh = *e;
    if (nupd == 0) continue;   // only the delayed TrimHorz was seen
    t.flushed_now.insert(e);
    t.updates_since_ip = true;
    if (!latest || e->bot.y <= latest->bot.y) latest = e;   // latest scanline (smallest y), rightmost
  }
  if (latest) t.last_updated = latest;
}

inline void ringsz_snapshot(const Clipper2Lib::ClipperBase* c) {
  using namespace Clipper2Lib;
  RingsZTrace& t = ringsz_trace();
  t.n_snap++;
  int k = 0;
  for (const Active* e = c->actives_; e; e = e->next_in_ael) ++k;
  std::string s = " S " + std::to_string(k);
  for (const Active* e = c->actives_; e; e = e->next_in_ael) {
    bool hot = e->outrec != nullptr || e->join_with != JoinWith::NoJoin;
    bool open = e->local_min->is_open;
    int join = e->join_with == JoinWith::NoJoin ? 0 : (e->join_with == JoinWith::Left ? 1 : 2);
    int orec = (!open && e->outrec) ? ringsz_rank(c, e->outrec) : -1;
    bool front = (!open && e->outrec) ? (e == e->outrec->front_edge) : false;
    s += " " + std::to_string(e->local_min->polytype == PathType::Subject ? 0 : 1) + " " + std::to_string(open ? 1 : 0) +
         " " + std::to_string(e->wind_dx) + " " + std::to_string(e->wind_cnt) + " " + std::to_string(e->wind_cnt2) + " " + (hot ? "1" : "0") +
         " " + std::to_string(join) + " " + std::to_string(orec) + " " + (front ? "1" : "0");
  }
  int m = 0;
  for (const OutRec* o : c->outrec_list_) if (!o->is_open) ++m;
  s += " " + std::to_string(m);
  size_t nops = 0;
  t.last_done = t.last_gone = t.last_live = 0;
  t.last_rings.clear();
  for (const OutRec* o : c->outrec_list_) {
    if (o->is_open) continue;
    t.n_ringsz_dumped++;
    if (!o->pts) { s += " 0 0"; t.last_gone++; continue; }
    if (o->front_edge) t.last_live++; else t.last_done++;
    int n = 0;
    std::string pts;
    const OutPt* op = o->pts;
    t.last_rings.emplace_back();
    do {
      if (op->next->prev != op || op->prev->next != op) { ringsz_fail("ring of record " + std::to_string(o->idx) + " is not a consistent doubly linked list"); break; }
      pts += ringsz_pt(op->pt);
      t.last_rings.back().push_back(op->pt);
      ++n;
      op = op->prev;
    } while (op != o->pts && n < 1000000);
    nops += n;
    t.n_ring_points += n;
    s += std::string(o->front_edge ? " 1 " : " 2 ") + std::to_string(n) + pts;
  }
  if (nops < t.nops_seen) ringsz_fail("the number of OutPts of closed records decreased during the sweep");
  t.nops_seen = nops;
  t.calls_at_last_snap = t.calls ? t.calls->size() : 0;
  s += " " + std::to_string(t.calls_at_last_snap);
  t.items.push_back(s);
  t.last_snap_end = t.items.size();
}

inline void ringsz_patch_sp(const Clipper2Lib::Point64& p) {
  RingsZTrace& t = ringsz_trace();
  for (size_t i : t.pending_sp) { t.items[i] += ringsz_pt(p); t.n_sp_patched++; }
  t.pending_sp.clear();
}

// Is this kIntersect one of the loop of InsertLocalMinimaIntoAEL that moves the new right bound (pt = right_bound->bot)?  The hook edge must be
// the right bound of the last kInsertPair with no other hook and no UpdateEdgeIntoAEL since; that still leaves DoMaxima / DoHorizontal reaching
// the same edge first.  DoTopOfScanbeam has then set curr_x = top.x (decisive unless the edge is vertical) and bot_y_ is the bottom of the
// scanbeam above the local minimum (= bot.y; during InsertLocalMinimaIntoAEL it still is the previous, larger, bottom - or its initial 0).
inline bool ringsz_in_locmin_loop(const Clipper2Lib::ClipperBase* c, const Clipper2Lib::Active* a, const Clipper2Lib::Active* other) {
  using namespace Clipper2Lib;
  RingsZTrace& t = ringsz_trace();
  if (a != t.loop_rb || t.updates_since_ip) return false;
  if (IsHorizontal(*a)) return !(other && other->curr_x > a->bot.x);   // DoHorizontal(right bound) moving right crosses edges beyond bot.x
  bool at_top = a->curr_x == a->top.x, at_bot = a->curr_x == a->bot.x;
  if (at_top && !at_bot) return false;
  if (at_top && at_bot && c->bot_y_ == a->bot.y) {
    if (a->bot.y != 0) return false;
    // vertical edge starting at y == 0, possibly on the first scanline (bot_y_ still 0): let the other edge's curr_x decide
    if (other && !IsHorizontal(*other) && other->curr_x == TopX(*other, a->top.y) && other->curr_x != TopX(*other, a->bot.y)) return false;
  }
  return true;
}

inline void ringsz_join_item(const Clipper2Lib::ClipperBase* c, const Clipper2Lib::Active* a, bool deferred) {
  using namespace Clipper2Lib;
  RingsZTrace& t = ringsz_trace();
  const Active* b = a->next_in_ael;
  Point64 p = a->bot;
  if (t.prev_x && t.have_last_x && t.flushed_now.empty() && !deferred) { p = t.last_x_pt; t.n_join_node++; }
  else if (b && b->bot.y < a->bot.y) p = b->bot;
  else if (b && b->bot.y == a->bot.y && !(b->bot == a->bot)) {
    t.n_join_tie++;
    if (deferred || b == t.last_updated) p = b->bot;      // CheckJoinLeft(left_bound) / CheckJoinLeft(e) in UpdateEdgeIntoAEL(e)
    else p = a->bot;                                       // CheckJoinRight(right_bound) / CheckJoinRight(e)
  }
  t.items.push_back(" J " + std::to_string(ringsz_index(c, a)) + ringsz_pt(p));
}

inline void ringsz_sink_fn(int ev, const Clipper2Lib::ClipperBase* c, const Clipper2Lib::Active* a) {
  using namespace Clipper2Lib;
  RingsZTrace& t = ringsz_trace();
  auto ptype = [](const Active* e) { return std::to_string(e->local_min->polytype == PathType::Subject ? 0 : 1); };
  if (t.has_horz_join) return;
  if (!c->horz_join_list_.empty()) {
    // ConvertHorzSegsToJoins has made a join since the last hook (it inserts duplicated OutPts): keep the trace up to the last snapshot
    t.has_horz_join = true;
    t.items.resize(t.last_snap_end);
    t.pending_sp.clear(); t.pending_joins.clear();
    return;
  }
  ringsz_flush_updates(c, ev == verif::kIntersect ? a : nullptr);
  if (ev != verif::kJoin && ev != verif::kSnapshot) t.prev_x = (ev == verif::kIntersect);
  switch (ev) {
    case verif::kInsertPair: {
      t.n_ip++;
      t.items.push_back(" IP " + std::to_string(ringsz_index(c, a)) + " " + ptype(a) + " " + std::to_string(a->local_min->is_open ? 1 : 0) + " " +
                        std::to_string(a->wind_dx) + ringsz_pt(a->bot));
      t.vertex_pts.push_back(a->bot);
      t.known.insert(a); t.shadow[a] = *a;
      if (a->next_in_ael) { t.known.insert(a->next_in_ael); t.shadow[a->next_in_ael] = *a->next_in_ael; }
      if (a->top.y == a->bot.y || (a->next_in_ael && a->next_in_ael->top.y == a->next_in_ael->bot.y)) t.has_horz = true;
      for (const Active* j : t.pending_joins) { ringsz_join_item(c, j, true); t.n_deferred++; }
      t.pending_joins.clear();
      t.loop_rb = a->next_in_ael; t.updates_since_ip = false;
      ringsz_snapshot(c); break; }
    case verif::kInsertOne:
      t.items.push_back(" I1 " + std::to_string(ringsz_index(c, a)) + " " + ptype(a) + " " + std::to_string(a->wind_dx));
      t.known.insert(a); t.shadow[a] = *a;
      if (a->top.y == a->bot.y) t.has_horz = true;
      t.loop_rb = nullptr;
      ringsz_snapshot(c); break;
    case verif::kIntersect: {
      t.n_x++;
      Point64 p = a->top;
      const Active* other = a->prev_in_ael;   // after SwapPositionsInAEL the hook edge is the right one of the two
      if (!c->intersect_nodes_.empty()) {
        bool found = false;
        for (const IntersectNode& nd : c->intersect_nodes_)
          if (nd.edge1 == a && nd.edge2 == other) { p = nd.pt; found = true; break; }
        if (!found) ringsz_fail("kIntersect inside ProcessIntersectList without a matching node");
        t.n_x_node++;
        t.loop_rb = nullptr;
      } else if (ringsz_in_locmin_loop(c, a, other)) { p = a->bot; t.n_x_locmin++; }
      else {
        t.loop_rb = nullptr;
        bool ha = IsHorizontal(*a), ho = other && IsHorizontal(*other);
        if (ha && ho) {
          // two horizontals: the one DoHorizontal is processing has been popped from sel_, the one it crosses is still waiting there
          auto in_sel = [&](const Active* x) { int n = 0; for (const Active* q = c->sel_; q && n < 100000; q = q->next_in_sel, ++n) if (q == x) return true; return false; };
          bool sa = in_sel(a), so = in_sel(other);
          if (so && !sa) p = Point64(other->curr_x, a->bot.y);          // left to right: horz = hook edge
          else if (sa && !so) p = Point64(a->curr_x, other->bot.y);     // right to left: horz = the other one
          else t.hh_cross = true;
          t.n_x_horz++; t.n_x_hh++;
        }
        else if (ha) { p = Point64(other->curr_x, a->bot.y); t.n_x_horz++; }        // DoHorizontal left to right: horz is the hook edge
        else if (ho) { p = Point64(a->curr_x, other->bot.y); t.n_x_horz++; }        // DoHorizontal right to left; or DoMaxima across a horizontal (same point)
        else t.n_x_maxima++;                                                        // DoMaxima: e.top
      }
      t.last_x_pt = p; t.have_last_x = true;
      ringsz_patch_sp(p);
      t.items.push_back(" X " + std::to_string(ringsz_index(c, a) - 1) + ringsz_pt(p) + ringsz_pt(a->bot) + ringsz_pt(a->top) +
                        (other ? ringsz_pt(other->bot) + ringsz_pt(other->top) : std::string(" 0 0 0 0 0 0")));
      t.x_pts.push_back(p);
      {
        // where the z handed to IntersectEdges comes from: 0 = a computed point (Point64(x, y) / default constructed); 1 = the point IS an end point of one of
        // the two edges and has its z (e.top, right_bound->bot, or GetSegmentIntersectPt's `ip = ln1a` / `ip = ln1b`); 2 = the z of an end point of one of the
        // two edges at another location (GetSegmentIntersectPt copied the whole end point, AddNewIntersectNode then moved x, y into the scanbeam); 3 = none of these
        auto at = [&](const Point64& q) { return p == q && p.z == q.z; };
        auto zof = [&](const Point64& q) { return p.z == q.z; };
        int cls = 3;
        if (p.z == 0) cls = 0;
        else if (at(a->bot) || at(a->top) || (other && (at(other->bot) || at(other->top)))) cls = 1;
        else if (zof(a->bot) || zof(a->top) || (other && (zof(other->bot) || zof(other->top)))) cls = 2;
        t.x_cls.push_back(cls);
      }
      if (!other) ringsz_fail("kIntersect without a left neighbour");
      ringsz_snapshot(c); break; }
    case verif::kRemovePair:
      t.n_rp++;
      ringsz_patch_sp(a->top);
      t.items.push_back(" RP " + std::to_string(ringsz_index(c, a)) + ringsz_pt(a->top));
      t.vertex_pts.push_back(a->top);
      t.known.erase(a); t.shadow.erase(a);
      if (a->next_in_ael) { t.known.erase(a->next_in_ael); t.shadow.erase(a->next_in_ael); }
      t.loop_rb = nullptr;
      break;
    case verif::kRemoveOne:
      t.items.push_back(" R1 " + std::to_string(ringsz_index(c, a)));
      t.known.erase(a); t.shadow.erase(a);
      t.loop_rb = nullptr;
      break;
    case verif::kSnapshot:
      ringsz_snapshot(c); break;
    case verif::kJoin:
      t.n_join++;
      if (!t.known.count(a) || !a->next_in_ael || !t.known.count(a->next_in_ael)) { t.pending_joins.push_back(a); break; }
      ringsz_join_item(c, a, false);
      t.loop_rb = nullptr;
      ringsz_snapshot(c); break;
    case verif::kSplit:
      t.n_split++;
      if (t.flushed_now.count(a)) { t.items.push_back(" SP " + std::to_string(ringsz_index(c, a)) + ringsz_pt(a->bot)); t.n_sp_update++; }
      else { t.items.push_back(" SP " + std::to_string(ringsz_index(c, a))); t.pending_sp.push_back(t.items.size() - 1); }
      break;
  }
}
struct RingsZTraceScope {
  RingsZTraceScope() { ringsz_trace().clear(); Clipper2Lib::verif::ael_sink() = ringsz_sink_fn; }
  ~RingsZTraceScope() { Clipper2Lib::verif::ael_sink() = nullptr; }
  bool usable() const { const RingsZTrace& t = ringsz_trace(); return !t.hh_cross && t.pending_sp.empty() && t.pending_joins.empty(); }
  std::string request(int ct, int fr, bool hascb, int64_t default_z) const {
    const RingsZTrace& t = ringsz_trace();
    std::string s = "AELRINGSZ " + std::to_string(ct) + " " + std::to_string(fr) + (hascb ? " 1 " : " 0 ") + std::to_string(default_z) + " " + std::to_string(t.items.size());
    for (const std::string& it : t.items) s += it;
    size_t n = t.calls ? std::min(t.calls_at_last_snap, t.calls->size()) : 0;
    s += " " + std::to_string(n);
    for (size_t i = 0; i < n; ++i) {
      const RingsZTrace::Call& k = (*t.calls)[i];
      s += ringsz_pt(k.a) + ringsz_pt(k.b) + ringsz_pt(k.c) + ringsz_pt(k.d) + ringsz_pt(k.seen) + " " + std::to_string(k.ret);
    }
    return s;
  }
};
}  // namespace vh
