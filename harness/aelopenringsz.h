// Z variant of aelopenrings.h (USINGZ builds only): sink for hook H1 for the Z layer of the open-path assembly model (property C15): everything aelopenrings.h
// records, with the z of every point - the (x, y, z) the engine has in hand at every event, bot/top of the two edges of every IntersectEdges call, every closed
// OutPt ring and every open output record triple by triple - plus the number of callback calls at every snapshot and the callback log.  Produces the item list of
// the driver command AELOPENRINGSZ (lean/ClipperVerif/Driver/AelOpenRingsZ.lean), which replays the events on Model/AelOpenRingsZ.lean.
//
// Items as in aelopenrings.h, every point with its z; additionally
//   X i x y z  e1bot e1top e2bot e2top            (each x y z; e1 = the hook edge = the left one before the swap, e2 = its left neighbour after the swap)
//   XL i x y z  e1bot e1top e2bot e2top  e3
//   S ...  ncalls                                 (number of calls of the user's callback so far, at the end of the snapshot)
//   F rev dApi np (n (x y z)*n)*np                the real solution_open with z; dApi = 1: through ClipperD (BuildPathD, which also drops 3-OutPt open records with two
//                                                 points less than 2 apart: recorded finding kf.d-api.ClipperD.open-3pt), in engine coordinates
// The request ends with the callback log up to the last snapshot (= the end of the sweep): for every call the four end points in the order passed, the point as shown, and the z the callback left.
// Needs unity.h included with VERIF_PRIVATE_ACCESS and -DUSINGZ.
#pragma once
#include "common.h"
#include <unordered_set>
#include <unordered_map>
#ifndef CLIPPER2_VERIF
#error "aelopenringsz.h needs the hooks: compile with -DCLIPPER2_VERIF"
#endif
#ifndef USINGZ
#error "aelopenringsz.h is for USINGZ builds"
#endif
namespace vh {
struct ORingsZTrace {
  std::vector<std::string> items;
  std::vector<size_t> pending_sp;      // SP items waiting for the point of the enclosing IntersectEdges / DoMaxima
  std::unordered_set<const Clipper2Lib::Active*> known;
  std::unordered_map<const Clipper2Lib::Active*, Clipper2Lib::Active> shadow;   // copy of each announced edge as of the last hook
  std::vector<const Clipper2Lib::Active*> pending_joins;
  std::unordered_map<const Clipper2Lib::Active*, bool> needs_trim;   // the copy went through an update that made it horizontal, TrimHorz not yet applied
  std::unordered_set<const Clipper2Lib::Active*> flushed_now;
  const Clipper2Lib::Active* loop_rb = nullptr;
  const Clipper2Lib::Active* last_updated = nullptr;
  Clipper2Lib::Point64 last_x_pt = Clipper2Lib::Point64(0, 0);
  bool have_last_x = false;
  bool has_horz = false;           // a horizontal edge was seen (statistics only)
  bool has_horz_join = false;      // ConvertHorzSegsToJoins made a join (it duplicates OutPts of closed rings): closed rings are not compared from here on
  size_t last_snap_end = 0;        // number of items up to and including the last snapshot
  bool hh_cross = false;           // a horizontal edge crossed another horizontal edge: the point cannot be read off the state
  bool updates_since_ip = false;   // a U item was written since the last kInsertPair
  bool prev_x = false;             // the previous hook was kIntersect (or a kJoin following one)
  size_t nops_seen = 0;                // OutPts of closed records at the previous snapshot
  size_t open_ops_seen = 0;            // OutPts of open records at the previous snapshot
  long last_open_recs = 0, last_open_gone = 0, last_open_held = 0, last_open_finished = 0, last_open_single = 0;   // open records at the last snapshot
  long last_done = 0, last_gone = 0, last_live = 0;   // closed records by state at the last snapshot
  std::string first_error;
  struct Call { Clipper2Lib::Point64 a, b, c, d, seen; int64_t ret; };
  std::vector<Call>* calls = nullptr;  // the harness's callback appends here
  size_t calls_at_last_snap = 0;       // calls made later (CleanCollinear -> FixSelfIntersects -> DoSplitOp calls the callback directly) are not part of the model
  std::vector<Clipper2Lib::Point64> vertex_pts;   // the points of U / IP / I1 / RP / R1 items (must be input vertices with the input z)
  std::vector<Clipper2Lib::Point64> x_pts;        // the points of X / XL items, with the z IntersectEdges was handed
  // totals over the process
  long n_update = 0, n_ip = 0, n_x = 0, n_rp = 0, n_join = 0, n_split = 0, n_snap = 0, n_deferred = 0, n_sp_patched = 0, n_sp_update = 0,
       n_x_node = 0, n_x_locmin = 0, n_x_maxima = 0, n_x_horz = 0, n_x_hh = 0, n_join_tie = 0, n_join_node = 0, n_multi_update = 0, n_ring_points = 0, n_oringsz_dumped = 0,
       n_i1 = 0, n_r1 = 0, n_xl = 0, n_xl_e3 = 0, n_x_open_closed = 0, n_x_open_open = 0, n_rp_open = 0, n_open_rings_dumped = 0, n_open_ring_points = 0, n_update_open = 0;
  void clear() {
    items.clear(); vertex_pts.clear(); x_pts.clear(); calls = nullptr; calls_at_last_snap = 0; pending_sp.clear(); known.clear(); shadow.clear(); needs_trim.clear(); pending_joins.clear(); flushed_now.clear();
    loop_rb = nullptr; last_updated = nullptr; have_last_x = false; has_horz = false; has_horz_join = false; last_snap_end = 0; hh_cross = false; prev_x = false; nops_seen = 0; open_ops_seen = 0; first_error.clear();
    last_done = last_gone = last_live = 0; last_open_recs = last_open_gone = last_open_held = last_open_finished = last_open_single = 0;
  }
};
inline ORingsZTrace& oringsz_trace() { static thread_local ORingsZTrace t; return t; }

inline void oringsz_fail(const std::string& why) {
  ORingsZTrace& t = oringsz_trace();
  if (t.first_error.empty()) t.first_error = why;
}
// position among the edges already announced to the model
inline int oringsz_index(const Clipper2Lib::ClipperBase* c, const Clipper2Lib::Active* a) {
  ORingsZTrace& t = oringsz_trace();
  int i = 0;
  for (const Clipper2Lib::Active* e = c->actives_; e; e = e->next_in_ael) {
    if (e == a) return i;
    if (t.known.count(e)) ++i;
  }
  return -1;
}
inline int oringsz_rank(const Clipper2Lib::ClipperBase* c, const Clipper2Lib::OutRec* o) {
  int r = 0;
  for (size_t j = 0; j < o->idx && j < c->outrec_list_.size(); ++j) if (!c->outrec_list_[j]->is_open) ++r;
  return r;
}
// rank of an open output record among the open ones
inline int oringsz_orank(const Clipper2Lib::ClipperBase* c, const Clipper2Lib::OutRec* o) {
  int r = 0;
  for (size_t j = 0; j < o->idx && j < c->outrec_list_.size(); ++j) if (c->outrec_list_[j]->is_open) ++r;
  return r;
}
inline std::string oringsz_pt(const Clipper2Lib::Point64& p) { return " " + std::to_string(p.x) + " " + std::to_string(p.y) + " " + std::to_string(p.z); }

// U items for every announced edge that went through UpdateEdgeIntoAEL since the last hook
// `swapped` (kIntersect only): the hook edge, which SwapPositionsInAEL has just moved one place to the right; the U items precede the X item,
// so their positions are those before the swap
inline void oringsz_flush_updates(const Clipper2Lib::ClipperBase* c, const Clipper2Lib::Active* swapped = nullptr) {
  using namespace Clipper2Lib;
  ORingsZTrace& t = oringsz_trace();
  t.flushed_now.clear();
  const Active* latest = nullptr;
  for (const Active* e = c->actives_; e; e = e->next_in_ael) {
    if (e->top.y == e->bot.y) t.has_horz = true;
    if (!t.known.count(e)) continue;
    Active& sh = t.shadow[e];
    if (sh.vertex_top == e->vertex_top) continue;
    int idx = oringsz_index(c, e), steps = 0, nupd = 0;
    if (swapped && e == swapped) idx -= 1;
    else if (swapped && e == swapped->prev_in_ael) idx += 1;
    // replay UpdateEdgeIntoAEL on the copy.  TrimHorz may skip vertices of a horizontal run (those are never emitted); it runs *after* the
    // kSplit hook inside UpdateEdgeIntoAEL, so the real edge may be seen updated but not yet trimmed: the copy is trimmed lazily.
    bool& needs_trim = t.needs_trim[e];
    while (sh.vertex_top != e->vertex_top && steps < 100000) {
      ++steps;
      if (needs_trim) { TrimHorz(sh, c->preserve_collinear_); needs_trim = false; continue; }
      t.items.push_back(" U " + std::to_string(idx) + oringsz_pt(sh.top));
      t.vertex_pts.push_back(sh.top);
      t.n_update++; ++nupd;
      if (IsOpen(sh)) t.n_update_open++;
      sh.bot = sh.top;
      sh.vertex_top = NextVertex(sh);
      sh.top = sh.vertex_top->pt;
      sh.curr_x = sh.bot.x;
      SetDx(sh);
      needs_trim = IsHorizontal(sh) && !IsOpen(sh);
    }
    if (nupd > 1) t.n_multi_update++;
    if (sh.vertex_top != e->vertex_top || !(sh.top == e->top) || !(sh.bot == e->bot)) oringsz_fail("replay of UpdateEdgeIntoAEL on the shadow edge did not reach the edge's state");
    sh = *e;
    if (nupd == 0) continue;   // only the delayed TrimHorz was seen
    t.flushed_now.insert(e);
    t.updates_since_ip = true;
    if (!latest || e->bot.y <= latest->bot.y) latest = e;   // latest scanline (smallest y), rightmost
  }
  if (latest) t.last_updated = latest;
}

inline void oringsz_snapshot(const Clipper2Lib::ClipperBase* c) {
  using namespace Clipper2Lib;
  ORingsZTrace& t = oringsz_trace();
  t.n_snap++;
  int k = 0;
  for (const Active* e = c->actives_; e; e = e->next_in_ael) ++k;
  std::string s = " S " + std::to_string(k);
  for (const Active* e = c->actives_; e; e = e->next_in_ael) {
    bool hot = e->outrec != nullptr || e->join_with != JoinWith::NoJoin;
    bool open = e->local_min->is_open;
    int join = e->join_with == JoinWith::NoJoin ? 0 : (e->join_with == JoinWith::Left ? 1 : 2);
    int orec = (!open && e->outrec) ? oringsz_rank(c, e->outrec) : -1;
    bool front = (!open && e->outrec) ? (e == e->outrec->front_edge) : false;
    s += " " + std::to_string(e->local_min->polytype == PathType::Subject ? 0 : 1) + " " + std::to_string(open ? 1 : 0) +
         " " + std::to_string(e->wind_dx) + " " + std::to_string(e->wind_cnt) + " " + std::to_string(e->wind_cnt2) + " " + (hot ? "1" : "0") +
         " " + std::to_string(join) + " " + std::to_string(orec) + " " + (front ? "1" : "0");
  }
  int m = 0;
  for (const OutRec* o : c->outrec_list_) if (!o->is_open) ++m;
  s += std::string(t.has_horz_join ? " 0 " : " 1 ") + std::to_string(m);
  size_t nops = 0;
  t.last_done = t.last_gone = t.last_live = 0;
  for (const OutRec* o : c->outrec_list_) {
    if (o->is_open) continue;
    t.n_oringsz_dumped++;
    if (!o->pts) { s += " 0 0"; t.last_gone++; continue; }
    if (o->front_edge) t.last_live++; else t.last_done++;
    int n = 0;
    std::string pts;
    const OutPt* op = o->pts;
    do {
      if (op->next->prev != op || op->prev->next != op) { oringsz_fail("ring of record " + std::to_string(o->idx) + " is not a consistent doubly linked list"); break; }
      pts += oringsz_pt(op->pt);
      ++n;
      op = op->prev;
    } while (op != o->pts && n < 1000000);
    nops += n;
    t.n_ring_points += n;
    s += std::string(o->front_edge ? " 1 " : " 2 ") + std::to_string(n) + pts;
  }
  if (nops < t.nops_seen) oringsz_fail("the number of OutPts of closed records decreased during the sweep");
  t.nops_seen = nops;
  // open part: the record of every edge, then every open record
  for (const Active* e = c->actives_; e; e = e->next_in_ael) {
    bool open = e->local_min->is_open;
    if (open && e->outrec) {
      const OutRec* o = e->outrec;
      if (!o->is_open) oringsz_fail("open edge owns a closed outrec");
      if (e != o->front_edge && e != o->back_edge) oringsz_fail("open edge is neither front nor back edge of its outrec");
      if ((o->front_edge && o->front_edge->outrec != o) || (o->back_edge && o->back_edge->outrec != o)) oringsz_fail("front_edge / back_edge of an open outrec do not point back");
      if (!o->pts) oringsz_fail("open edge owns an outrec without points");
      s += " " + std::to_string(oringsz_orank(c, o)) + (e == o->front_edge ? " 1" : " 0");
    } else s += " -1 0";
  }
  int mo = 0;
  for (const OutRec* o : c->outrec_list_) if (o->is_open) ++mo;
  s += " " + std::to_string(mo);
  size_t oops = 0;
  t.last_open_recs = mo; t.last_open_gone = t.last_open_held = t.last_open_finished = t.last_open_single = 0;
  for (const OutRec* o : c->outrec_list_) {
    if (!o->is_open) continue;
    t.n_open_rings_dumped++;
    if (!o->pts) { s += " 0 0 0 0"; t.last_open_gone++; if (o->front_edge || o->back_edge) oringsz_fail("emptied open record still has an edge"); continue; }
    if (o->front_edge || o->back_edge) t.last_open_held++; else t.last_open_finished++;
    int n = 0;
    std::string pts;
    const OutPt* op = o->pts;
    do {
      if (op->next->prev != op || op->prev->next != op) { oringsz_fail("list of open record " + std::to_string(o->idx) + " is not a consistent doubly linked list"); break; }
      pts += oringsz_pt(op->pt);
      ++n;
      op = op->prev;
    } while (op != o->pts && n < 1000000);
    oops += n;
    t.n_open_ring_points += n;
    if (n == 1 && !o->front_edge && !o->back_edge) t.last_open_single++;
    s += std::string(" 1 ") + (o->front_edge ? "1 " : "0 ") + (o->back_edge ? "1 " : "0 ") + std::to_string(n) + pts;
  }
  if (oops < t.open_ops_seen) oringsz_fail("the number of OutPts of open records decreased during the sweep");
  t.open_ops_seen = oops;
  t.calls_at_last_snap = t.calls ? t.calls->size() : 0;
  s += " " + std::to_string(t.calls_at_last_snap);
  t.items.push_back(s);
  t.last_snap_end = t.items.size();
}

inline void oringsz_patch_sp(const Clipper2Lib::Point64& p) {
  ORingsZTrace& t = oringsz_trace();
  for (size_t i : t.pending_sp) { t.items[i] += oringsz_pt(p); t.n_sp_patched++; }
  t.pending_sp.clear();
}

// Is this kIntersect one of the loop of InsertLocalMinimaIntoAEL that moves the new right bound (pt = right_bound->bot)?  The hook edge must be
// the right bound of the last kInsertPair with no other hook and no UpdateEdgeIntoAEL since; that still leaves DoMaxima / DoHorizontal reaching
// the same edge first.  DoTopOfScanbeam has then set curr_x = top.x (decisive unless the edge is vertical) and bot_y_ is the bottom of the
// scanbeam above the local minimum (= bot.y; during InsertLocalMinimaIntoAEL it still is the previous, larger, bottom - or its initial 0).
inline bool oringsz_in_locmin_loop(const Clipper2Lib::ClipperBase* c, const Clipper2Lib::Active* a, const Clipper2Lib::Active* other) {
  using namespace Clipper2Lib;
  ORingsZTrace& t = oringsz_trace();
  if (a != t.loop_rb || t.updates_since_ip) return false;
  if (IsHorizontal(*a)) return !(other && other->curr_x > a->bot.x);   // DoHorizontal(right bound) moving right crosses edges beyond bot.x
  bool at_top = a->curr_x == a->top.x, at_bot = a->curr_x == a->bot.x;
  if (at_top && !at_bot) return false;
  if (at_top && at_bot && c->bot_y_ == a->bot.y) {
    if (a->bot.y != 0) return false;
    // vertical edge starting at y == 0, possibly on the first scanline (bot_y_ still 0): let the other edge's curr_x decide
    if (other && !IsHorizontal(*other) && other->curr_x == TopX(*other, a->top.y) && other->curr_x != TopX(*other, a->bot.y)) return false;
  }
  return true;
}

inline void oringsz_join_item(const Clipper2Lib::ClipperBase* c, const Clipper2Lib::Active* a, bool deferred) {
  using namespace Clipper2Lib;
  ORingsZTrace& t = oringsz_trace();
  const Active* b = a->next_in_ael;
  Point64 p = a->bot;
  if (t.prev_x && t.have_last_x && t.flushed_now.empty() && !deferred) { p = t.last_x_pt; t.n_join_node++; }
  else if (b && b->bot.y < a->bot.y) p = b->bot;
  else if (b && b->bot.y == a->bot.y && !(b->bot == a->bot)) {
    t.n_join_tie++;
    if (deferred || b == t.last_updated) p = b->bot;      // CheckJoinLeft(left_bound) / CheckJoinLeft(e) in UpdateEdgeIntoAEL(e)
    else p = a->bot;                                       // CheckJoinRight(right_bound) / CheckJoinRight(e)
  }
  t.items.push_back(" J " + std::to_string(oringsz_index(c, a)) + oringsz_pt(p));
}

inline void oringsz_sink_fn(int ev, const Clipper2Lib::ClipperBase* c, const Clipper2Lib::Active* a) {
  using namespace Clipper2Lib;
  ORingsZTrace& t = oringsz_trace();
  auto ptype = [](const Active* e) { return std::to_string(e->local_min->polytype == PathType::Subject ? 0 : 1); };
  // ConvertHorzSegsToJoins has made a join since the last hook (it inserts duplicated OutPts into closed rings): closed rings are not compared any more
  if (!c->horz_join_list_.empty()) t.has_horz_join = true;
  oringsz_flush_updates(c, ev == verif::kIntersect ? a : nullptr);
  if (ev != verif::kJoin && ev != verif::kSnapshot) t.prev_x = (ev == verif::kIntersect);
  switch (ev) {
    case verif::kInsertPair: {
      t.n_ip++;
      t.items.push_back(" IP " + std::to_string(oringsz_index(c, a)) + " " + ptype(a) + " " + std::to_string(a->local_min->is_open ? 1 : 0) + " " +
                        std::to_string(a->wind_dx) + oringsz_pt(a->bot));
      t.vertex_pts.push_back(a->bot);
      t.known.insert(a); t.shadow[a] = *a;
      if (a->next_in_ael) { t.known.insert(a->next_in_ael); t.shadow[a->next_in_ael] = *a->next_in_ael; }
      if (a->top.y == a->bot.y || (a->next_in_ael && a->next_in_ael->top.y == a->next_in_ael->bot.y)) t.has_horz = true;
      for (const Active* j : t.pending_joins) { oringsz_join_item(c, j, true); t.n_deferred++; }
      t.pending_joins.clear();
      t.loop_rb = a->next_in_ael; t.updates_since_ip = false;
      oringsz_snapshot(c); break; }
    case verif::kInsertOne:
      t.n_i1++;
      t.items.push_back(" I1 " + std::to_string(oringsz_index(c, a)) + " " + ptype(a) + " " + std::to_string(a->wind_dx) + oringsz_pt(a->bot));
      t.vertex_pts.push_back(a->bot);
      t.known.insert(a); t.shadow[a] = *a;
      if (a->top.y == a->bot.y) t.has_horz = true;
      t.loop_rb = nullptr;
      oringsz_snapshot(c); break;
    case verif::kIntersect: {
      t.n_x++;
      Point64 p = a->top;
      const Active* other = a->prev_in_ael;   // after SwapPositionsInAEL the hook edge is the right one of the two
      if (!c->intersect_nodes_.empty()) {
        bool found = false;
        for (const IntersectNode& nd : c->intersect_nodes_)
          if (nd.edge1 == a && nd.edge2 == other) { p = nd.pt; found = true; break; }
        if (!found) oringsz_fail("kIntersect inside ProcessIntersectList without a matching node");
        t.n_x_node++;
        t.loop_rb = nullptr;
      } else if (oringsz_in_locmin_loop(c, a, other)) { p = a->bot; t.n_x_locmin++; }
      else {
        t.loop_rb = nullptr;
        bool ha = IsHorizontal(*a), ho = other && IsHorizontal(*other);
        if (ha && ho) {
          // two horizontals: the one DoHorizontal is processing has been popped from sel_, the one it crosses is still waiting there
          auto in_sel = [&](const Active* x) { int n = 0; for (const Active* q = c->sel_; q && n < 100000; q = q->next_in_sel, ++n) if (q == x) return true; return false; };
          bool sa = in_sel(a), so = in_sel(other);
          if (so && !sa) p = Point64(other->curr_x, a->bot.y);          // left to right: horz = hook edge
          else if (sa && !so) p = Point64(a->curr_x, other->bot.y);     // right to left: horz = the other one
          else t.hh_cross = true;
          t.n_x_horz++; t.n_x_hh++;
        }
        else if (ha) { p = Point64(other->curr_x, a->bot.y); t.n_x_horz++; }        // DoHorizontal left to right: horz is the hook edge
        else if (ho) { p = Point64(a->curr_x, other->bot.y); t.n_x_horz++; }        // DoHorizontal right to left; or DoMaxima across a horizontal (same point)
        else t.n_x_maxima++;                                                        // DoMaxima: e.top
      }
      t.last_x_pt = p; t.have_last_x = true;
      oringsz_patch_sp(p);
      {
        bool ao = IsOpen(*a), oo = other && IsOpen(*other);
        std::string ends = oringsz_pt(a->bot) + oringsz_pt(a->top) + (other ? oringsz_pt(other->bot) + oringsz_pt(other->top) : std::string(" 0 0 0 0 0 0"));
        if (!other) oringsz_fail("kIntersect without a left neighbour");
        t.x_pts.push_back(p);
        const Active* eo = (other && ao != oo) ? (ao ? a : other) : nullptr;
        if (other && ao && oo) t.n_x_open_open++;
        if (eo) t.n_x_open_closed++;
        if (eo && p == eo->local_min->vertex->pt && !IsOpenEnd(*eo->local_min->vertex)) {
          // FindEdgeWithMatchingLocMin(edge_o), re-computed on the AEL as it was before SwapPositionsInAEL (the hook edge was the left one of the two)
          std::vector<const Active*> v;
          for (const Active* e = c->actives_; e; e = e->next_in_ael) v.push_back(e);
          int ia = -1, io = -1;
          for (size_t j = 0; j < v.size(); ++j) if (v[j] == a) ia = (int)j;
          if (ia >= 1) std::swap(v[ia - 1], v[ia]);
          for (size_t j = 0; j < v.size(); ++j) if (v[j] == eo) io = (int)j;
          const Active* e3 = nullptr;
          for (int j = io + 1; j < (int)v.size(); ++j) {
            if (v[j]->local_min == eo->local_min) { e3 = v[j]; break; }
            if (!IsHorizontal(*v[j]) && eo->bot != v[j]->bot) break;
          }
          if (!e3) for (int j = io - 1; j >= 0; --j) {
            if (v[j]->local_min == eo->local_min) { e3 = v[j]; break; }
            if (!IsHorizontal(*v[j]) && eo->bot != v[j]->bot) break;
          }
          t.n_xl++; if (e3) t.n_xl_e3++;
          if (e3 && !t.known.count(e3)) oringsz_fail("FindEdgeWithMatchingLocMin returned an edge the trace has not announced");
          t.items.push_back(" XL " + std::to_string(oringsz_index(c, a) - 1) + oringsz_pt(p) + ends + " " + std::to_string(e3 ? oringsz_index(c, e3) : -1));
        } else
          t.items.push_back(" X " + std::to_string(oringsz_index(c, a) - 1) + oringsz_pt(p) + ends);
      }
      oringsz_snapshot(c); break; }
    case verif::kRemovePair:
      t.n_rp++;
      if (a->local_min->is_open) {
        t.n_rp_open++;
        if (IsOpenEnd(*a) || (a->next_in_ael && IsOpenEnd(*a->next_in_ael))) oringsz_fail("open removePair at an open end vertex (IsOpenEnd quirk of JoinOutrecPaths not modelled)");
      }
      oringsz_patch_sp(a->top);
      t.items.push_back(" RP " + std::to_string(oringsz_index(c, a)) + oringsz_pt(a->top));
      t.vertex_pts.push_back(a->top);
      t.known.erase(a); t.shadow.erase(a);
      if (a->next_in_ael) { t.known.erase(a->next_in_ael); t.shadow.erase(a->next_in_ael); }
      t.loop_rb = nullptr;
      break;
    case verif::kRemoveOne:
      t.n_r1++;
      if (!IsOpenEnd(*a)) oringsz_fail("kRemoveOne for an edge whose vertex_top is not an open end");
      t.items.push_back(" R1 " + std::to_string(oringsz_index(c, a)) + oringsz_pt(a->top));
      t.vertex_pts.push_back(a->top);
      t.known.erase(a); t.shadow.erase(a);
      t.loop_rb = nullptr;
      break;
    case verif::kSnapshot:
      oringsz_snapshot(c); break;
    case verif::kJoin:
      t.n_join++;
      if (!t.known.count(a) || !a->next_in_ael || !t.known.count(a->next_in_ael)) { t.pending_joins.push_back(a); break; }
      oringsz_join_item(c, a, false);
      t.loop_rb = nullptr;
      oringsz_snapshot(c); break;
    case verif::kSplit:
      t.n_split++;
      if (t.flushed_now.count(a)) { t.items.push_back(" SP " + std::to_string(oringsz_index(c, a)) + oringsz_pt(a->bot)); t.n_sp_update++; }
      else { t.items.push_back(" SP " + std::to_string(oringsz_index(c, a))); t.pending_sp.push_back(t.items.size() - 1); }
      break;
  }
}
struct ORingsZTraceScope {
  ORingsZTraceScope() { oringsz_trace().clear(); Clipper2Lib::verif::ael_sink() = oringsz_sink_fn; }
  ~ORingsZTraceScope() { Clipper2Lib::verif::ael_sink() = nullptr; }
  bool usable() const { const ORingsZTrace& t = oringsz_trace(); return !t.hh_cross && t.pending_sp.empty() && t.pending_joins.empty(); }
  std::string final_item;   // " F rev np (n (x y z)*n)*np": ReverseSolution and the real open solution with z, set by the harness after Execute
  void set_final(bool reverse_solution, bool d_api, const Clipper2Lib::Paths64& solution_open) {
    final_item = " F " + std::string(reverse_solution ? "1 " : "0 ") + (d_api ? "1 " : "0 ") + std::to_string(solution_open.size());
    for (const auto& p : solution_open) { final_item += " " + std::to_string(p.size()); for (const auto& v : p) final_item += oringsz_pt(v); }
  }
  std::string request(int ct, int fr, bool hascb, int64_t default_z) const {
    const ORingsZTrace& t = oringsz_trace();
    std::string s = "AELOPENRINGSZ " + std::to_string(ct) + " " + std::to_string(fr) + (hascb ? " 1 " : " 0 ") + std::to_string(default_z) + " " + std::to_string(t.items.size() + 1);
    for (const std::string& it : t.items) s += it;
    s += final_item;
    size_t n = t.calls ? std::min(t.calls_at_last_snap, t.calls->size()) : 0;
    s += " " + std::to_string(n);
    for (size_t i = 0; i < n; ++i) {
      const ORingsZTrace::Call& k = (*t.calls)[i];
      s += oringsz_pt(k.a) + oringsz_pt(k.b) + oringsz_pt(k.c) + oringsz_pt(k.d) + oringsz_pt(k.seen) + " " + std::to_string(k.ret);
    }
    return s;
  }
};
}  // namespace vh
