// C03 harness: closed solution paths are well formed.
//  spec level : real Clipper64 outputs for all clip types x fill rules x PreserveCollinear x ReverseSolution are judged by the
//               exact-integer Lean Spec (`WELLFORMED`): structural part for every input, geometric part for inputs that are
//               in general position (margin verified here with exact __int128 arithmetic) or rectilinear.
//  model level: the real `IsValidClosedPath`, `IsVerySmallTriangle`, `BuildPath64`, `CleanCollinear` on synthetic OutPt rings
//               and on the rings the real sweep produced, against Model/CleanUp.lean.
#include <algorithm>
#include <cmath>
#include <cstdint>
#include <cstdlib>
#include <functional>
#include <iostream>
#include <memory>
#include <numeric>
#include <optional>
#include <queue>
#include <stdexcept>
#include <string>
#include <type_traits>
#include <vector>
#include <map>
#include <sstream>
#include <cstring>
#include <cstdio>
#include <xmmintrin.h>
#include <emmintrin.h>
// the engine's clean-up functions are private members / file-local helpers: read access only, no source change
#define private public
#define protected public
#include "clipper2/clipper.h"
#include "clipper.engine.cpp"
#undef private
#undef protected
#include "common.h"
#include "gp_gen.h"
using namespace vh;

static bool thorough = false;

// identify the input when a sanitizer aborts the run (./check looks for VERIF-CURRENT in stderr)
#include <sanitizer/common_interface_defs.h>
#include <unistd.h>
static std::string g_current;
static void on_death() { fprintf(stderr, "\nVERIF-CURRENT: %s\n", g_current.c_str()); fflush(stderr); }
// UBSan reports end in abort() (unless the environment says otherwise) so that the input can be named before exiting
extern "C" const char* __ubsan_default_options() { return "abort_on_error=1"; }
#include <csignal>
static void on_abort(int) { on_death(); _exit(98); }

// ------------------------------------------------------------------------------------------- spec level
static void run_config(const Input& in, int ct, int fr, bool pc, bool rev) {
  g_current = "Clipper64 ct=" + std::to_string(ct) + " fr=" + std::to_string(fr) + " pc=" + (pc ? "1" : "0") + " rev=" + (rev ? "1" : "0") + " subj " + S(in.subj) + " clip " + S(in.clip);
  Clipper64 c;
  c.PreserveCollinear(pc);
  c.ReverseSolution(rev);
  c.AddSubject(in.subj);
  c.AddClip(in.clip);
  Paths64 sol;
  bool ok = c.Execute((ClipType)ct, (FillRule)fr, sol);
  if (!ok) { emitF("wf.execute_failed", in.gen + " " + S(in.subj) + " | " + S(in.clip)); return; }
  Paths64 sol2;
  if (in.cls != 0) {
    // feed the solution back through Union; the solution's outer paths have winding +1 (-1 with ReverseSolution),
    // holes cancel it, so NonZero selects exactly the solution region
    Clipper64 c2;
    c2.PreserveCollinear(pc);
    c2.ReverseSolution(rev);
    c2.AddSubject(sol);
    c2.Execute(ClipType::Union, FillRule::NonZero, sol2);
  }
  std::string req = "WELLFORMED " + std::to_string(ct) + " " + std::to_string(fr) + " " + (pc ? "1" : "0") + " " + (rev ? "1" : "0") +
                    " " + std::to_string(in.cls) + " " + S(in.subj) + " " + S(in.clip) + " " + S(sol) + " " + S(sol2);
  std::string lab = in.cls == 0 ? "wf.struct" : in.cls == 1 ? "wf.gp" : in.cls == 4 ? in.gen : "wf.rect";
  if (in.cls == 1 || in.cls == 2) lab += solution_touches(sol) ? ".touching" : ".touchfree";
  emitS(lab, req);
  stat(std::string("sol.paths.") + (sol.empty() ? "0" : sol.size() == 1 ? "1" : sol.size() < 4 ? "2-3" : "4+"));
}
static void run_input(Rng& g, const Input& in, bool all64) {
  stat("input." + in.gen);
  for (int ct = 1; ct <= 4; ++ct)
    for (int fr = 0; fr <= 3; ++fr) {
      if (all64) { for (int pc = 0; pc < 2; ++pc) for (int rev = 0; rev < 2; ++rev) run_config(in, ct, fr, pc, rev); }
      else run_config(in, ct, fr, g.coin(), g.coin());
    }
}

// ------------------------------------------------------------------------------------------- model level
static OutPt* make_ring(const Path64& pts, OutRec* orc) {
  OutPt *first = nullptr, *prev = nullptr;
  for (auto& p : pts) {
    OutPt* op = new OutPt(p, orc);
    if (!first) first = op; else { prev->next = op; op->prev = prev; }
    prev = op;
  }
  if (first) { prev->next = first; first->prev = prev; }
  return first;
}
static Path64 ring_pts(OutPt* op) {
  Path64 r;
  if (!op) return r;
  OutPt* o = op;
  do { r.push_back(o->pt); o = o->next; } while (o != op);
  return r;
}
static void free_ring(OutPt* op) {
  if (!op) return;
  op->prev->next = nullptr;
  while (op) { OutPt* t = op; op = op->next; delete t; }
}
static std::string ring_or_disposed(OutPt* op) { return op ? S(ring_pts(op)) : std::string("disposed"); }

static void model_records_for_ring(const Path64& ring, const std::string& src) {
  // IsValidClosedPath / IsVerySmallTriangle / BuildPath64 on a private copy of the ring
  OutPt* op = make_ring(ring, nullptr);
  emitM("valid." + src, "VALIDCLOSED " + S(ring), IsValidClosedPath(op) ? "1" : "0");
  if (ring.size() == 3 || ring.size() == 1)
    emitM("smalltri." + src, "SMALLTRI " + S(ring), IsVerySmallTriangle(*op) ? "1" : "0");
  for (int rev = 0; rev < 2; ++rev)
    for (int open = 0; open < 2; ++open) {
      Path64 path;
      bool r = BuildPath64(op, rev, open, path);
      emitM("buildpath." + src, "BUILDPATH " + std::to_string(rev) + " " + std::to_string(open) + " " + S(ring), r ? S(path) : std::string("none"));
      if (r && !open) {
        stat(path.size() < 3 ? "buildpath.closed.short_result" : "buildpath.closed.ok");
        if (path.size() >= 2 && path.front() == path.back()) stat("buildpath.closed.wraparound_duplicate");
      }
    }
  free_ring(op);
  // CleanCollinear on the ring as the point list of a fresh closed outrec
  for (int pc = 0; pc < 2; ++pc) {
    Clipper64 c;
    c.PreserveCollinear(pc);
    c.using_polytree_ = false;
    OutRec* orc = c.NewOutRec();
    orc->pts = make_ring(ring, orc);
    size_t before = c.outrec_list_.size();
    if (orc->pts) c.CleanCollinear(orc);
    std::string after = ring_or_disposed(orc->pts);
    if (c.outrec_list_.size() != before) stat("cleancol.fix_split_off_outrec");
    // the real FixSelfIntersects answer is supplied to the model as the value of its parameter `fix`
    emitM("cleancol." + src, "CLEANCOL " + std::to_string(pc) + " " + S(ring) + " " + after, after);
    stat(orc->pts ? "cleancol.kept" : "cleancol.disposed");
    c.CleanUp();
  }
}

static Path64 synthetic_ring(Rng& g) {
  int n = (int)g.range(1, 10);
  int L = (int)g.pick(std::vector<int>{1, 2, 3, 6, 1000});
  Path64 r;
  for (int i = 0; i < n; ++i) {
    Point64 p(g.range(-L, L), g.range(-L, L));
    int k = (int)g.range(0, 9);
    if (k == 0 && !r.empty()) p = r.back();                                        // duplicate
    else if (k == 1 && r.size() >= 2) p = r[r.size() - 2];                           // spike
    else if (k == 2 && r.size() >= 2) {                                              // collinear continuation
      Point64 a = r[r.size() - 2], b = r.back();
      int64_t m = g.range(-2, 3);
      p = Point64(b.x + m * (b.x - a.x), b.y + m * (b.y - a.y));
    } else if (k == 3 && !r.empty()) p = r.front();                                  // wrap-around duplicate
    else if (k == 4 && !r.empty()) p = Point64(r.back().x + g.range(-1, 1), r.back().y + g.range(-1, 1));  // really close
    r.push_back(p);
  }
  return r;
}

static void engine_rings(const Input& in, int ct, int fr, bool pc, bool rev) {
  Clipper64 c;
  c.PreserveCollinear(pc);
  c.ReverseSolution(rev);
  c.AddSubject(in.subj);
  c.AddClip(in.clip);
  if (c.ExecuteInternal((ClipType)ct, (FillRule)fr, false)) {
    for (size_t i = 0; i < c.outrec_list_.size(); ++i) {
      OutRec* orc = c.outrec_list_[i];
      if (!orc->pts || orc->is_open) continue;
      Path64 before = ring_pts(orc->pts);
      c.CleanCollinear(orc);
      std::string after = ring_or_disposed(orc->pts);
      emitM("cleancol.engine", "CLEANCOL " + std::string(pc ? "1" : "0") + " " + S(before) + " " + after, after);
      if (orc->pts) {
        Path64 a = ring_pts(orc->pts), path;
        bool r = BuildPath64(orc->pts, rev, false, path);
        emitM("buildpath.engine", "BUILDPATH " + std::string(rev ? "1" : "0") + " 0 " + S(a), r ? S(path) : std::string("none"));
      }
      stat(before.size() == (orc->pts ? ring_pts(orc->pts).size() : 0) ? "engine.ring.unchanged_length" : "engine.ring.shortened");
    }
  }
  c.CleanUp();
}

int main(int argc, char** argv) {
  Rng g(seed_from_args(argc, argv));
  thorough = thorough_from_args(argc, argv);
  __sanitizer_set_death_callback(on_death);
  signal(SIGABRT, on_abort);
  int n_gp = thorough ? 1500 : 150, n_rect = thorough ? 1500 : 150, n_deg = thorough ? 3000 : 300, n_ring = thorough ? 20000 : 3000;
  Input in;
  // corpus: hand-picked boundary cases first
  {
    Input k; k.gen = "corpus"; k.cls = 2;
    k.subj = {rect_path(0, 0, 10, 10)}; k.clip = {rect_path(5, 5, 15, 15)};
    run_input(g, k, true);
    k.subj = {Path64{{0, 0}, {10, 10}, {10, 0}, {0, 10}}}; k.clip = {}; k.cls = 1;   // bow-tie
    run_input(g, k, true);
    k.subj = {}; k.clip = {}; k.cls = 0;
    run_input(g, k, true);
  }
  // known findings (genuine violations of the Union round-trip clause for rectilinear inputs; see the slice report).
  // The class "input whose solution paths touch (a solution vertex on another solution edge/vertex)" is therefore judged on
  // area only for the Union round trip in the generic stream; the three witnesses below force the full comparison.
  {
    Input k; k.cls = 4;
    k.gen = "kf.union_idempotence.vertex_touch";   // Intersection/EvenOdd: two polygons touching at (5,1); Union returns one self-touching path
    k.subj = {rect_path(1, 0, 7, 3)}; k.clip = {rect_path(5, -3, 6, 4), rect_path(3, -2, 6, 1), rect_path(1, 0, 7, 3)};
    run_config(k, 1, 0, false, false);
    k.gen = "kf.union_idempotence.shared_edge";    // Union/NonZero returns two rectangles sharing the edge x=-3, 0<=y<=3; Union again merges them
    k.subj = {Path64{{-3, 0}, {-3, 6}, {-6, 6}, {-6, 0}}};
    k.clip = {Path64{{-9, 0}, {-9, 9}, {-3, 9}, {-3, 3}, {3, 3}, {3, 0}}, Path64{{-3, 0}, {-3, 6}, {-6, 6}, {-6, 0}}};
    run_config(k, 2, 1, false, false);
    // general position (margins verified below): the triangle crosses the horizontal edge y=-576 twice; the pieces touch at
    // (-967,-576) and (-1023,-576); Union regroups 4 paths into 3
    k.gen = "kf.union_idempotence.gp_vertex_touch";
    k.subj = {Path64{{0, 0}, {-354, -576}, {-1495, -576}, {-197, -965}}, Path64{{-1064, -952}, {-961, 2}, {-846, -107}}};
    k.clip = {};
    if (!general_position(k.subj, k.clip, 3)) emitF("kf.not_general_position", "witness lost its margin");
    run_config(k, 2, 0, true, true);
  }
  // known finding: signed overflow in TopX (called from DoHorizontal with a y outside the edge's range) for nearly
  // horizontal long edges at coordinates around 2^41; executed in a child process because UBSan stops the process
  {
    auto mk = [](std::initializer_list<int64_t> v) { Path64 p; for (auto it = v.begin(); it != v.end(); it += 2) p.emplace_back(*it, *(it + 1)); return p; };
    Paths64 subj = {mk({1099511627775, -2199023255553, 1099508482047, -2199026401281, 1099513724927, -2199021158401}),
                    mk({-2199023255551, -1099511627775, 2199023255553, -2199023255553, 2199023255553, -2199023255553, 2199023255553, 1099511627777,
                        2199023255553, 1099511627777, 1099511627777, 2199023255552, 1099511627777, 2199023255552, -2199023255552, 2199023255551,
                        -2199023255552, 2199023255551, 1, 3298534883327, -3298534883328, 2199023255552}),
                    mk({3298534883327, 3298534883329, 2199023255551, 1, -1099511627775, -1099511627777, -3298534883328, 2199023255553,
                        0, 2199023255553, -3298534883328, 2199023255553, 3298534883329, 2199023255552, -3298534883328, 2199023255553,
                        -2199023255552, 2199023255553, -2199023255552, 2199023255553, 1099511627776, -1099511627775})};
    Paths64 clip = {mk({-1099511627775, -1099511627776, -1099511627777, 1, -1099511627777, 1, 3298534883329, -2199023255552}),
                    mk({2199023255553, 0, 3298534883327, -1})};
    bool died = dies_in_child([&]() {
      Clipper64 c; c.PreserveCollinear(true); c.AddSubject(subj); c.AddClip(clip);
      Paths64 sol; c.Execute(ClipType::Intersection, FillRule::EvenOdd, sol);
    });
    stat(died ? "kf.topx.child_died" : "kf.topx.child_survived");
    if (died) emitF("kf.ub.topx_overflow", "Clipper64::Execute(Intersection, EvenOdd, Paths64): signed integer overflow in TopX (clipper.engine.cpp) for subj " + S(subj) + " clip " + S(clip));
  }
  for (int i = 0; i < n_gp; ++i) {
    if (!gen_general_position(g, in)) { stat("gen.gp.gave_up"); continue; }
    run_input(g, in, i % 4 == 0);
    if (i % 3 == 0) engine_rings(in, (int)g.range(1, 4), (int)g.range(0, 3), g.coin(), g.coin());
  }
  for (int i = 0; i < n_rect; ++i) {
    int64_t step = g.pick(std::vector<int64_t>{1, 1, 2, 3, 1000, (int64_t)1 << 20, (int64_t)1 << 40, (int64_t)1 << 48});
    gen_rectilinear(g, in, step);
    run_input(g, in, i % 4 == 0);
    if (i % 3 == 0) engine_rings(in, (int)g.range(1, 4), (int)g.range(0, 3), g.coin(), g.coin());
  }
  for (int i = 0; i < n_deg / 8; ++i) {
    gen_nested(g, in, (int)g.range(1, 8), g.coin());
    run_input(g, in, false);
    gen_touching_holes(g, in);
    run_input(g, in, false);
  }
  for (int i = 0; i < n_deg; ++i) {
    gen_degenerate(g, in);
    run_input(g, in, i % 4 == 0);
    if (i % 3 == 0 && in.gen != "degen.mag5" && in.gen != "degen.mag4" && in.gen != "degen.mag3")
      engine_rings(in, (int)g.range(1, 4), (int)g.range(0, 3), g.coin(), g.coin());
  }
  for (int i = 0; i < n_ring; ++i) model_records_for_ring(synthetic_ring(g), "synthetic");
  flush_stats();
  return 0;
}
