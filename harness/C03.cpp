// C03 harness: closed solution paths are well formed.
//  spec level : real Clipper64 outputs for all clip types x fill rules x PreserveCollinear x ReverseSolution are judged by the
//               exact-integer Lean Spec (`WELLFORMED`): structural part for every input, geometric part for inputs that are
//               in general position (margin verified here with exact __int128 arithmetic) or rectilinear.
//  model level: the real `IsValidClosedPath`, `IsVerySmallTriangle`, `BuildPath64`, `CleanCollinear` on synthetic OutPt rings
//               and on the rings the real sweep produced, against Model/CleanUp.lean;
//               the real `SegmentsIntersect`, `DoSplitOp`, `FixSelfIntersects`, `CleanCollinear` (now with the modelled
//               FixSelfIntersects: no answer supplied) and the closed branch of `BuildPaths64` over a growing outrec_list_
//               against Model/SplitOp.lean: produced rings compared point for point, split-off outrecs included.
#include <algorithm>
#include <cmath>
#include <cstdint>
#include <cstdlib>
#include <functional>
#include <iostream>
#include <memory>
#include <numeric>
#include <optional>
#include <queue>
#include <stdexcept>
#include <string>
#include <type_traits>
#include <vector>
#include <map>
#include <sstream>
#include <cstring>
#include <cstdio>
#include <xmmintrin.h>
#include <emmintrin.h>
// the engine's clean-up functions are private members / file-local helpers: read access only, no source change
#define private public
#define protected public
#include "clipper2/clipper.h"
#include "clipper.engine.cpp"
#undef private
#undef protected
#include "common.h"
#include "gp_gen.h"
using namespace vh;

static bool thorough = false;
// which GetSegmentIntersectPt the library was compiled with (the model has both)
#if CLIPPER2_HI_PRECISION
static const char* HI = "1";
static const bool hi_build = true;
#else
static const char* HI = "0";
static const bool hi_build = false;
#endif

// identify the input when a sanitizer aborts the run (./check looks for VERIF-CURRENT in stderr)
#include <sanitizer/common_interface_defs.h>
#include <unistd.h>
static std::string g_current;
static void on_death() { fprintf(stderr, "\nVERIF-CURRENT: %s\n", g_current.c_str()); fflush(stderr); }
// UBSan reports end in abort() (unless the environment says otherwise) so that the input can be named before exiting
extern "C" const char* __ubsan_default_options() { return "abort_on_error=1"; }
#include <csignal>
static void on_abort(int) { on_death(); _exit(98); }
// FixSelfIntersects has no iteration bound: a run that does not come back is reported with its input
static void on_alarm(int) {
  printf("F\tfsi.hang\tno return within 60 s: %s\n", g_current.c_str());
  fflush(stdout);
  on_death();
  _exit(96);
}

// ------------------------------------------------------------------------------------------- spec level
static void run_config(const Input& in, int ct, int fr, bool pc, bool rev) {
  g_current = "Clipper64 ct=" + std::to_string(ct) + " fr=" + std::to_string(fr) + " pc=" + (pc ? "1" : "0") + " rev=" + (rev ? "1" : "0") + " subj " + S(in.subj) + " clip " + S(in.clip);
  Clipper64 c;
  c.PreserveCollinear(pc);
  c.ReverseSolution(rev);
  c.AddSubject(in.subj);
  c.AddClip(in.clip);
  Paths64 sol;
  bool ok = c.Execute((ClipType)ct, (FillRule)fr, sol);
  if (!ok) { emitF("wf.execute_failed", in.gen + " " + S(in.subj) + " | " + S(in.clip)); return; }
  Paths64 sol2;
  if (in.cls != 0) {
    // feed the solution back through Union; the solution's outer paths have winding +1 (-1 with ReverseSolution),
    // holes cancel it, so NonZero selects exactly the solution region
    Clipper64 c2;
    c2.PreserveCollinear(pc);
    c2.ReverseSolution(rev);
    c2.AddSubject(sol);
    c2.Execute(ClipType::Union, FillRule::NonZero, sol2);
  }
  std::string req = "WELLFORMED " + std::to_string(ct) + " " + std::to_string(fr) + " " + (pc ? "1" : "0") + " " + (rev ? "1" : "0") +
                    " " + std::to_string(in.cls) + " " + S(in.subj) + " " + S(in.clip) + " " + S(sol) + " " + S(sol2);
  std::string lab = in.cls == 0 ? "wf.struct" : in.cls == 1 ? "wf.gp" : in.cls == 4 ? in.gen : "wf.rect";
  if (in.cls == 1 || in.cls == 2) lab += solution_touches(sol) ? ".touching" : ".touchfree";
  emitS(lab, req);
  stat(std::string("sol.paths.") + (sol.empty() ? "0" : sol.size() == 1 ? "1" : sol.size() < 4 ? "2-3" : "4+"));
}
static void run_input(Rng& g, const Input& in, bool all64) {
  stat("input." + in.gen);
  for (int ct = 1; ct <= 4; ++ct)
    for (int fr = 0; fr <= 3; ++fr) {
      if (all64) { for (int pc = 0; pc < 2; ++pc) for (int rev = 0; rev < 2; ++rev) run_config(in, ct, fr, pc, rev); }
      else run_config(in, ct, fr, g.coin(), g.coin());
    }
}

// ------------------------------------------------------------------------------------------- model level
static OutPt* make_ring(const Path64& pts, OutRec* orc) {
  OutPt *first = nullptr, *prev = nullptr;
  for (auto& p : pts) {
    OutPt* op = new OutPt(p, orc);
    if (!first) first = op; else { prev->next = op; op->prev = prev; }
    prev = op;
  }
  if (first) { prev->next = first; first->prev = prev; }
  return first;
}
static Path64 ring_pts(OutPt* op) {
  Path64 r;
  if (!op) return r;
  OutPt* o = op;
  do { r.push_back(o->pt); o = o->next; } while (o != op);
  return r;
}
static void free_ring(OutPt* op) {
  if (!op) return;
  op->prev->next = nullptr;
  while (op) { OutPt* t = op; op = op->next; delete t; }
}
static std::string ring_or_disposed(OutPt* op) { return op ? S(ring_pts(op)) : std::string("disposed"); }

static void model_records_for_ring(const Path64& ring, const std::string& src) {
  // IsValidClosedPath / IsVerySmallTriangle / BuildPath64 on a private copy of the ring
  OutPt* op = make_ring(ring, nullptr);
  emitM("valid." + src, "VALIDCLOSED " + S(ring), IsValidClosedPath(op) ? "1" : "0");
  if (ring.size() == 3 || ring.size() == 1)
    emitM("smalltri." + src, "SMALLTRI " + S(ring), IsVerySmallTriangle(*op) ? "1" : "0");
  for (int rev = 0; rev < 2; ++rev)
    for (int open = 0; open < 2; ++open) {
      Path64 path;
      bool r = BuildPath64(op, rev, open, path);
      emitM("buildpath." + src, "BUILDPATH " + std::to_string(rev) + " " + std::to_string(open) + " " + S(ring), r ? S(path) : std::string("none"));
      if (r && !open) {
        stat(path.size() < 3 ? "buildpath.closed.short_result" : "buildpath.closed.ok");
        if (path.size() >= 2 && path.front() == path.back()) stat("buildpath.closed.wraparound_duplicate");
      }
    }
  free_ring(op);
  // CleanCollinear on the ring as the point list of a fresh closed outrec
  for (int pc = 0; pc < 2; ++pc) {
    Clipper64 c;
    c.PreserveCollinear(pc);
    c.using_polytree_ = false;
    OutRec* orc = c.NewOutRec();
    orc->pts = make_ring(ring, orc);
    size_t before = c.outrec_list_.size();
    if (orc->pts) c.CleanCollinear(orc);
    std::string after = ring_or_disposed(orc->pts);
    if (c.outrec_list_.size() != before) stat("cleancol.fix_split_off_outrec");
    // the real FixSelfIntersects answer is supplied to the model as the value of its parameter `fix`
    emitM("cleancol." + src, "CLEANCOL " + std::to_string(pc) + " " + S(ring) + " " + after, after);
    stat(orc->pts ? "cleancol.kept" : "cleancol.disposed");
    c.CleanUp();
  }
}


// ------------------------------------------------------------------------------------------- FixSelfIntersects / DoSplitOp
static bool has_equal_neighbours(const Path64& r) {
  for (size_t i = 0; i < r.size(); ++i) if (r[i] == r[(i + 1) % r.size()]) return true;
  return false;
}
static std::string split_rings(Clipper64& c, size_t before) {
  Paths64 sp;
  for (size_t i = before; i < c.outrec_list_.size(); ++i) sp.push_back(ring_pts(c.outrec_list_[i]->pts));
  return S(sp);
}
// FixSelfIntersects(outrec) on a fresh closed outrec whose ring is `ring` (seen from outrec->pts)
static void fsi_record(const Path64& ring, const std::string& src) {
  if (ring.empty()) return;
  std::string res[2];
  for (int poly = 0; poly < 2; ++poly) {
    Clipper64 c;
    c.using_polytree_ = poly;
    OutRec* orc = c.NewOutRec();
    orc->pts = make_ring(ring, orc);
    size_t before = c.outrec_list_.size();
    g_current = "FixSelfIntersects on the ring " + S(ring);
    alarm(60);
    c.FixSelfIntersects(orc);
    alarm(0);
    res[poly] = ring_or_disposed(orc->pts) + " " + split_rings(c, before);
    if (poly == 0) {
      Path64 a = ring_pts(orc->pts);
      size_t nsplit = c.outrec_list_.size() - before;
      stat(!orc->pts ? "fsi.disposed" : a == ring ? "fsi.unchanged" : a.size() > ring.size() ? "fsi.grew(DuplicateOp)" : a.size() < ring.size() ? "fsi.shrunk" : "fsi.changed_same_length");
      if (nsplit) stat(nsplit == 1 ? "fsi.split_off.1" : "fsi.split_off.2+");
      if (!has_equal_neighbours(ring)) {
        bool bad = orc->pts && has_equal_neighbours(a);
        for (size_t i = before; i < c.outrec_list_.size(); ++i) bad = bad || has_equal_neighbours(ring_pts(c.outrec_list_[i]->pts));
        stat("fsi.input_without_equal_neighbours");
        if (bad) emitF("fsi.creates_equal_neighbours", "FixSelfIntersects on " + S(ring) + " gives " + res[0]);
      }
    }
    c.CleanUp();
  }
  if (res[0] != res[1]) emitF("fsi.polytree_mode_changes_rings", "FixSelfIntersects on " + S(ring) + ": " + res[0] + " vs " + res[1]);
  emitM("fixsi." + src, std::string("FIXSI ") + HI + " " + S(ring), res[0]);
}
// DoSplitOp(outrec, splitOp) for the ring seen from splitOp (>= 4 nodes: prevOp, splitOp, splitOp->next, nextNextOp distinct)
static void dosplit_record(const Path64& ring, const std::string& src) {
  if (ring.size() < 4) return;
  Clipper64 c;
  c.using_polytree_ = false;
  OutRec* orc = c.NewOutRec();
  OutPt* splitOp = make_ring(ring, orc);
  orc->pts = splitOp;
  size_t before = c.outrec_list_.size();
  Point64 pv = splitOp->prev->pt, nn = splitOp->next->next->pt, ip;
  GetSegmentIntersectPt(pv, splitOp->pt, splitOp->next->pt, nn, ip);
  stat(ip == pv ? "dosplit.ip_is_prevOp" : ip == nn ? "dosplit.ip_is_nextNextOp" : "dosplit.ip_inserted");
  g_current = "DoSplitOp on the ring " + S(ring);
  c.DoSplitOp(orc, splitOp);
  emitM("dosplit." + src, std::string("DOSPLIT ") + HI + " " + S(ring), ring_or_disposed(orc->pts) + " " + split_rings(c, before));
  stat(!orc->pts ? "dosplit.disposed" : c.outrec_list_.size() != before ? "dosplit.new_outrec" : "dosplit.triangle_deleted");
  c.CleanUp();
}
static void segsint_record(Point64 a, Point64 b, Point64 c, Point64 d, const std::string& src) {
  bool r = SegmentsIntersect(a, b, c, d);
  emitM("segsint." + src, "SEGSINT " + S(a) + " " + S(b) + " " + S(c) + " " + S(d), r ? "1" : "0");
  stat(r ? "segsint.true" : "segsint.false");
}
// CleanCollinear including FixSelfIntersects, no answer supplied to the model
static void cleancolx_record(const Path64& ring, const std::string& src) {
  if (ring.empty()) return;
  for (int pc = 0; pc < 2; ++pc) {
    Clipper64 c;
    c.PreserveCollinear(pc);
    c.using_polytree_ = false;
    OutRec* orc = c.NewOutRec();
    orc->pts = make_ring(ring, orc);
    size_t before = c.outrec_list_.size();
    g_current = "CleanCollinear on the ring " + S(ring);
    alarm(60);
    c.CleanCollinear(orc);
    alarm(0);
    emitM("cleancolx." + src, std::string("CLEANCOLX ") + HI + " " + std::to_string(pc) + " " + S(ring), ring_or_disposed(orc->pts) + " " + split_rings(c, before));
    c.CleanUp();
  }
}
static Point64 lat(Rng& g, int64_t L) { return Point64(g.range(-L, L), g.range(-L, L)); }
// rings built to self-intersect: bow-ties, a long edge crossed by a thin spike (the DuplicateOp branch), crossings next to an
// end point (ip == prevOp->pt / nextNextOp->pt after truncation), self-touching rings, random lattice rings
static Path64 crossing_ring(Rng& g, std::string& kind, int64_t& L) {
  L = g.pick(std::vector<int64_t>{2, 3, 5, 8, 20, 1000, (int64_t)1 << 20, (int64_t)1 << 30, (int64_t)1 << 45, (int64_t)1 << 58});
  int k = (int)g.range(0, 6);
  Path64 r;
  auto pad = [&](int n) { for (int i = 0; i < n; ++i) r.push_back(lat(g, L)); };
  switch (k) {
    case 0: {  // bow-tie plus 0-3 further points
      kind = "bowtie";
      Point64 a = lat(g, L), b = lat(g, L);
      r = {a, Point64(b.x, b.y), Point64(b.x, a.y), Point64(a.x, b.y)};
      pad((int)g.range(0, 3));
      break;
    }
    case 1: {  // long edge crossed twice by a thin spike
      kind = "spike_across_edge";
      int64_t w = g.range(4, 12) * (L < 4 ? 1 : L / 4 + 1), h = g.range(1, 3) * (L < 4 ? 1 : L / 4 + 1);
      int64_t x = g.range(1, w - 2);
      r = {Point64((int64_t)0, (int64_t)0), Point64(w, (int64_t)0), Point64(x - g.range(0, 1), h * 3), Point64(x, -g.range(1, 2)), Point64(x + g.range(1, 2), h * 3)};
      pad((int)g.range(0, 4));
      break;
    }
    case 2: {  // crossing very close to the first end point of an edge
      kind = "crossing_near_endpoint";
      int64_t m = g.range(5, 40);
      r = {Point64(0, 0), Point64(m, (int64_t)1), Point64(0, -1), Point64(1, 1)};
      if (g.coin()) for (auto& p : r) p = Point64(m - p.x, p.y);
      if (g.coin()) for (auto& p : r) std::swap(p.x, p.y);
      pad((int)g.range(1, 4));
      break;
    }
    case 3: {  // self-touching: a vertex on another edge, or a repeated vertex
      kind = "self_touching";
      Point64 a = lat(g, L), b = lat(g, L);
      Point64 mid((a.x + b.x) / 2, (a.y + b.y) / 2);
      r = {a, b, lat(g, L), mid, lat(g, L)};
      if (g.coin()) r.push_back(a);
      pad((int)g.range(0, 2));
      break;
    }
    default: {
      kind = "random";
      pad((int)g.range(4, 12));
    }
  }
  // rotate so that the crossing is not always at the start
  std::rotate(r.begin(), r.begin() + g.range(0, (int64_t)r.size() - 1), r.end());
  return r;
}

static Path64 synthetic_ring(Rng& g) {
  int n = (int)g.range(1, 10);
  int L = (int)g.pick(std::vector<int>{1, 2, 3, 6, 1000});
  Path64 r;
  for (int i = 0; i < n; ++i) {
    Point64 p(g.range(-L, L), g.range(-L, L));
    int k = (int)g.range(0, 9);
    if (k == 0 && !r.empty()) p = r.back();                                        // duplicate
    else if (k == 1 && r.size() >= 2) p = r[r.size() - 2];                           // spike
    else if (k == 2 && r.size() >= 2) {                                              // collinear continuation
      Point64 a = r[r.size() - 2], b = r.back();
      int64_t m = g.range(-2, 3);
      p = Point64(b.x + m * (b.x - a.x), b.y + m * (b.y - a.y));
    } else if (k == 3 && !r.empty()) p = r.front();                                  // wrap-around duplicate
    else if (k == 4 && !r.empty()) p = Point64(r.back().x + g.range(-1, 1), r.back().y + g.range(-1, 1));  // really close
    r.push_back(p);
  }
  return r;
}

static void engine_rings(const Input& in, int ct, int fr, bool pc, bool rev) {
  Clipper64 c;
  c.PreserveCollinear(pc);
  c.ReverseSolution(rev);
  c.AddSubject(in.subj);
  c.AddClip(in.clip);
  if (c.ExecuteInternal((ClipType)ct, (FillRule)fr, false)) {
    // the rings the sweep leaves in outrec_list_ (inputs are closed paths only: no open outrecs)
    Paths64 rings0, built;
    bool any_open = false;
    for (OutRec* orc : c.outrec_list_) { rings0.push_back(ring_pts(orc->pts)); any_open = any_open || orc->is_open; }
    size_t n0 = c.outrec_list_.size();
    // the body of BuildPaths64's loop; outrec_list_.size() is re-read because CleanCollinear may append outrecs
    for (size_t i = 0; i < c.outrec_list_.size(); ++i) {
      OutRec* orc = c.outrec_list_[i];
      if (!orc->pts || orc->is_open) continue;
      Path64 before = ring_pts(orc->pts);
      size_t nb = c.outrec_list_.size();
      g_current = "CleanCollinear on the sweep-produced ring " + S(before);
      alarm(60);
      c.CleanCollinear(orc);
      alarm(0);
      std::string after = ring_or_disposed(orc->pts);
      emitM("cleancol.engine", "CLEANCOL " + std::string(pc ? "1" : "0") + " " + S(before) + " " + after, after);
      emitM("cleancolx.engine", std::string("CLEANCOLX ") + HI + " " + std::string(pc ? "1" : "0") + " " + S(before), after + " " + split_rings(c, nb));
      if (c.outrec_list_.size() != nb) stat("engine.fix_split_off_outrec");
      if (orc->pts) {
        Path64 a = ring_pts(orc->pts), path;
        bool r = BuildPath64(orc->pts, rev, false, path);
        emitM("buildpath.engine", "BUILDPATH " + std::string(rev ? "1" : "0") + " 0 " + S(a), r ? S(path) : std::string("none"));
        if (r) built.push_back(path);
      }
      stat(before.size() == (orc->pts ? ring_pts(orc->pts).size() : 0) ? "engine.ring.unchanged_length" : "engine.ring.shortened");
    }
    if (!any_open) {
      emitM("buildpaths.engine", std::string("BUILDPATHS ") + HI + " " + std::string(pc ? "1" : "0") + " " + std::string(rev ? "1" : "0") + " " + S(rings0), S(built));
      stat(c.outrec_list_.size() != n0 ? "buildpaths.outrec_list_grew" : "buildpaths.outrec_list_static");
    }
  }
  c.CleanUp();
}

// ------------------------------------------------------------------------------------------- TrimHorz (model level)
// The real (file-static) TrimHorz on a hand-built vertex ring: a horizontal edge whose vertex_top is ring[0], followed in the
// direction of the bound by the other vertices of the ring.  The model (Model/TrimHorz.lean) must predict the new top and how far
// vertex_top advanced.  Rows are kept short (values from a tiny alphabet) so that long horizontal runs, reversals, spikes and
// maxima inside / at the end / beyond the run all occur.
static void trimhorz_records(Rng& g, int n_cases) {
  for (int it = 0; it < n_cases; ++it) {
    int n = (int)g.range(2, 9);                       // ring size (vertex_top + n-1 others)
    std::vector<Vertex> ring((size_t)n);
    int64_t ytop = g.range(0, 2);
    int row_len = (int)g.range(0, n - 1);             // how many of the following vertices stay on the row
    for (int i = 0; i < n; ++i) {
      ring[(size_t)i].pt = Point64(g.range(0, 6), (i <= row_len) ? ytop : ytop + g.range(1, 3));
      if (i > row_len && g.chance(25)) ring[(size_t)i].pt.y = ytop;   // the row may be re-entered later
      ring[(size_t)i].flags = VertexFlags::Empty;
    }
    // at most a few local maxima, anywhere (in a real ring the flat top holds exactly one)
    for (int k = (int)g.range(0, 2); k > 0; --k) ring[(size_t)g.range(0, n - 1)].flags = VertexFlags::LocalMax;
    if (g.chance(50) && row_len >= 1) ring[(size_t)row_len].flags = VertexFlags::LocalMax;        // the run ends on the maximum
    bool fwd = g.coin();
    for (int i = 0; i < n; ++i) {
      Vertex* a = &ring[(size_t)i]; Vertex* b = &ring[(size_t)((i + 1) % n)];
      if (fwd) { a->next = b; b->prev = a; } else { a->prev = b; b->next = a; }
    }
    Active e;
    e.wind_dx = fwd ? 1 : -1;
    e.vertex_top = &ring[0];
    e.top = ring[0].pt;
    e.bot = Point64(g.range(0, 6), ytop);
    if (e.bot.x == e.top.x) e.bot.x += 1;
    SetDx(e);
    bool pc = g.coin();
    std::string req = "TRIMHORZ " + std::string(pc ? "1 " : "0 ") + S(e.bot.x) + " " + S(e.top.x) + " " + S(e.top.y) + " " + std::to_string(n);
    for (int i = 1; i <= n; ++i) { const Vertex& v = ring[(size_t)(i % n)]; req += " " + S(v.pt.x) + " " + S(v.pt.y) + " " + (IsMaxima(v) ? "1" : "0"); }
    g_current = req;
    // a ring whose every vertex is on the row and that holds no maximum would make the real loop spin for ever
    bool endless = true;
    for (int i = 0; i < n; ++i) if (ring[(size_t)i].pt.y != ytop || IsMaxima(ring[(size_t)i])) endless = false;
    if (endless && !pc) { stat("trimhorz.skipped_endless_ring"); continue; }
    if (endless && pc) { stat("trimhorz.skipped_endless_ring"); continue; }
    TrimHorz(e, pc);
    int adv = 0; for (int i = 0; i < n; ++i) if (e.vertex_top == &ring[(size_t)i]) adv = i;
    // (advancing by a full turn is indistinguishable from 0 by position; the model reports ranOff in that case and the
    //  generator excludes it: a maximum or an off-row vertex always stops the loop within one turn)
    emitM("trimhorz", req, S(e.top.x) + " " + S(e.top.y) + " " + std::to_string(adv) + " 0");
    stat(std::string("trimhorz.") + (pc ? "pc_on" : "pc_off") + (adv == 0 ? ".untouched" : adv == 1 ? ".one" : ".several"));
    if (adv > 0 && IsMaxima(*e.vertex_top)) stat("trimhorz.stopped_on_maximum");
  }
}

int main(int argc, char** argv) {
  Rng g(seed_from_args(argc, argv));
  thorough = thorough_from_args(argc, argv);
  __sanitizer_set_death_callback(on_death);
  signal(SIGABRT, on_abort);
  signal(SIGALRM, on_alarm);
  int n_gp = thorough ? 1500 : 150, n_rect = thorough ? 1500 : 150, n_deg = thorough ? 3000 : 300, n_ring = thorough ? 20000 : 3000;
  Input in;
  // the HI_PRECISION build repeats only the sections that reach GetSegmentIntersectPt through DoSplitOp at model level
  if (!hi_build) {
  trimhorz_records(g, thorough ? 60000 : 6000);
  // corpus: hand-picked boundary cases first
  {
    Input k; k.gen = "corpus"; k.cls = 2;
    k.subj = {rect_path(0, 0, 10, 10)}; k.clip = {rect_path(5, 5, 15, 15)};
    run_input(g, k, true);
    k.subj = {Path64{{0, 0}, {10, 10}, {10, 0}, {0, 10}}}; k.clip = {}; k.cls = 1;   // bow-tie
    run_input(g, k, true);
    k.subj = {}; k.clip = {}; k.cls = 0;
    run_input(g, k, true);
  }
  // known findings (genuine violations of the Union round-trip clause for rectilinear inputs; see the slice report).
  // The class "input whose solution paths touch (a solution vertex on another solution edge/vertex)" is therefore judged on
  // area only for the Union round trip in the generic stream; the three witnesses below force the full comparison.
  {
    Input k; k.cls = 4;
    k.gen = "kf.union_idempotence.vertex_touch";   // Intersection/EvenOdd: two polygons touching at (5,1); Union returns one self-touching path
    k.subj = {rect_path(1, 0, 7, 3)}; k.clip = {rect_path(5, -3, 6, 4), rect_path(3, -2, 6, 1), rect_path(1, 0, 7, 3)};
    run_config(k, 1, 0, false, false);
    k.gen = "kf.union_idempotence.shared_edge";    // Union/NonZero returns two rectangles sharing the edge x=-3, 0<=y<=3; Union again merges them
    k.subj = {Path64{{-3, 0}, {-3, 6}, {-6, 6}, {-6, 0}}};
    k.clip = {Path64{{-9, 0}, {-9, 9}, {-3, 9}, {-3, 3}, {3, 3}, {3, 0}}, Path64{{-3, 0}, {-3, 6}, {-6, 6}, {-6, 0}}};
    run_config(k, 2, 1, false, false);
    // general position (margins verified below): the triangle crosses the horizontal edge y=-576 twice; the pieces touch at
    // (-967,-576) and (-1023,-576); Union regroups 4 paths into 3
    k.gen = "kf.union_idempotence.gp_vertex_touch";
    k.subj = {Path64{{0, 0}, {-354, -576}, {-1495, -576}, {-197, -965}}, Path64{{-1064, -952}, {-961, 2}, {-846, -107}}};
    k.clip = {};
    if (!general_position(k.subj, k.clip, 3)) emitF("kf.not_general_position", "witness lost its margin");
    run_config(k, 2, 0, true, true);
  }
  // known findings (genuine violations of the geometric part of C03 on degenerate rectilinear input: paths with zero-width
  // sections / 180-degree spikes and coincident edges; found by the flat-spike families at the thorough budget, seed 3)
  {
    auto mk = [](std::initializer_list<int64_t> v) { Path64 p; for (auto it = v.begin(); it != v.end(); it += 2) p.emplace_back(*it, *(it + 1)); return p; };
    Input k; k.cls = 4;
    k.gen = "kf.rect_spikes.crossing_edges";      // Xor/EvenOdd: solution edges (15,-18)-(-6,-18) and (12,-21)-(12,-15) properly cross
    k.subj = {mk({12, -18, 9, -18, -15, -18, -15, 18, 9, 18, 9, -18, 12, -18, 12, 21, -18, 21, -18, -21, 12, -21}),
              mk({6, -6, 6, -15, -21, -15, -21, 0, -3, 0, -3, 9, -6, 9, -6, -18, 15, -18, 15, 24, 9, 24, 9, -6}),
              mk({-9, 21, 3, 21, 3, -9, -9, -9})};
    k.clip = {mk({-15, -18, 21, -18, 21, 12, -15, 12, -15, -15, -12, -15, -12, 9, 18, 9, 18, -15, -12, -15, -15, -15}),
              mk({21, -9, 21, -6, -21, -6, -21, -15, -24, -15, -24, 12, -18, 12, -18, -9}),
              mk({-15, -24, -15, -21, -15, 3, 21, 3, 21, -21, -15, -21, -15, -24, 24, -24, 24, 6, -18, 6, -18, -24})};
    run_config(k, 4, 0, false, false);
    k.gen = "kf.rect_spikes.lobes_of_opposite_orientation";   // Xor/NonZero: one solution path made of two lobes of opposite orientation touching at (4,2)
    k.subj = {mk({0, 2, 5, 2, 5, 0, 3, 0, 3, 2}), mk({4, 3, 5, 3, 5, 2, 4, 2})};
    k.clip = {mk({2, 2, 5, 2, 5, 4, 2, 4}), mk({1, 2, 5, 2, 5, 1, 1, 1})};
    run_config(k, 4, 1, false, false);
  }
  // known finding: signed overflow in TopX (called from DoHorizontal with a y outside the edge's range) for nearly
  // horizontal long edges at coordinates around 2^41; executed in a child process because UBSan stops the process
  {
    auto mk = [](std::initializer_list<int64_t> v) { Path64 p; for (auto it = v.begin(); it != v.end(); it += 2) p.emplace_back(*it, *(it + 1)); return p; };
    Paths64 subj = {mk({1099511627775, -2199023255553, 1099508482047, -2199026401281, 1099513724927, -2199021158401}),
                    mk({-2199023255551, -1099511627775, 2199023255553, -2199023255553, 2199023255553, -2199023255553, 2199023255553, 1099511627777,
                        2199023255553, 1099511627777, 1099511627777, 2199023255552, 1099511627777, 2199023255552, -2199023255552, 2199023255551,
                        -2199023255552, 2199023255551, 1, 3298534883327, -3298534883328, 2199023255552}),
                    mk({3298534883327, 3298534883329, 2199023255551, 1, -1099511627775, -1099511627777, -3298534883328, 2199023255553,
                        0, 2199023255553, -3298534883328, 2199023255553, 3298534883329, 2199023255552, -3298534883328, 2199023255553,
                        -2199023255552, 2199023255553, -2199023255552, 2199023255553, 1099511627776, -1099511627775})};
    Paths64 clip = {mk({-1099511627775, -1099511627776, -1099511627777, 1, -1099511627777, 1, 3298534883329, -2199023255552}),
                    mk({2199023255553, 0, 3298534883327, -1})};
    bool died = dies_in_child([&]() {
      Clipper64 c; c.PreserveCollinear(true); c.AddSubject(subj); c.AddClip(clip);
      Paths64 sol; c.Execute(ClipType::Intersection, FillRule::EvenOdd, sol);
    });
    stat(died ? "kf.topx.child_died" : "kf.topx.child_survived");
    if (died) emitF("kf.ub.topx_overflow", "Clipper64::Execute(Intersection, EvenOdd, Paths64): signed integer overflow in TopX (clipper.engine.cpp) for subj " + S(subj) + " clip " + S(clip));
  }
  for (int i = 0; i < n_gp; ++i) {
    if (!gen_general_position(g, in)) { stat("gen.gp.gave_up"); continue; }
    run_input(g, in, i % 4 == 0);
    if (i % 3 == 0) engine_rings(in, (int)g.range(1, 4), (int)g.range(0, 3), g.coin(), g.coin());
  }
  for (int i = 0; i < n_rect; ++i) {
    int64_t step = g.pick(std::vector<int64_t>{1, 1, 2, 3, 1000, (int64_t)1 << 20, (int64_t)1 << 40, (int64_t)1 << 48});
    gen_rectilinear(g, in, step);
    run_input(g, in, i % 4 == 0);
    if (i % 3 == 0) engine_rings(in, (int)g.range(1, 4), (int)g.range(0, 3), g.coin(), g.coin());
  }
  // rectilinear families aimed at the horizontal-edge machinery (DoHorizontal / TrimHorz / horizontal joins):
  //  * staircases: 3-5 simple staircase polygons on a small lattice (long runs of alternating horizontal and vertical edges whose
  //    output rings keep horizontal stretches from earlier scanlines);
  //  * flat spikes: the polygons of gen_rectilinear with horizontal 180-degree spikes attached at corners (a horizontal run that
  //    overshoots a corner and comes back), so that spikes end on flat local maxima / minima.
  for (int i = 0; i < n_rect; ++i) {
    in = Input();
    int64_t step = g.pick(std::vector<int64_t>{1, 1, 2, 1000, (int64_t)1 << 40});
    if (i % 2 == 0) {
      int L = (int)g.range(5, 9);
      auto stair = [&]() {
        // monotone staircase from (x0,y0) up-right in `k` steps, closed by the L-shaped return along the bottom and the right side
        Path64 p; int k = (int)g.range(1, 4);
        int64_t x = g.range(0, L - 2), y = g.range(0, L - 2);
        int64_t x0 = x, y0 = y;
        p.emplace_back(x, y);
        for (int j = 0; j < k; ++j) { y += g.range(1, 2); p.emplace_back(x, y); x += g.range(1, 2); p.emplace_back(x, y); }
        p.emplace_back(x, y0);
        (void)x0;
        rect_transform(g, p);
        return p;
      };
      int ns = (int)g.range(2, 4), nc = (int)g.range(1, 2);
      for (int j = 0; j < ns; ++j) in.subj.push_back(stair());
      for (int j = 0; j < nc; ++j) in.clip.push_back(stair());
      in.gen = "rect.stairs";
    } else {
      gen_rectilinear(g, in, 1);
      auto spike = [&](Path64& p) {
        if (p.size() < 4) return;
        for (int rep = (int)g.range(1, 2); rep > 0; --rep) {
          size_t n = p.size(), i0 = g.next() % n;
          for (size_t d = 0; d < n; ++d) {
            size_t i = (i0 + d) % n;
            const Point64 a = p[(i + n - 1) % n], b = p[i], c = p[(i + 1) % n];
            if (a.y == b.y && a.x != b.x && b.x == c.x && b.y != c.y) {          // horizontal run arriving at a corner: overshoot, then come back
              int64_t sg = b.x > a.x ? 1 : -1;
              p.insert(p.begin() + (long)i, Point64(b.x + sg * g.range(1, 3), b.y));
              break;
            }
            if (a.x == b.x && a.y != b.y && b.y == c.y && b.x != c.x) {          // horizontal run leaving a corner: first go the other way
              int64_t sg = c.x > b.x ? -1 : 1;
              p.insert(p.begin() + (long)i + 1, Point64(b.x + sg * g.range(1, 3), b.y));
              break;
            }
          }
        }
      };
      for (auto& p : in.subj) if (g.chance(70)) spike(p);
      for (auto& p : in.clip) if (g.chance(50)) spike(p);
      in.gen = "rect.flat-spikes";
    }
    scale_paths(in.subj, step); scale_paths(in.clip, step);
    in.cls = (is_rectilinear(in.subj) && is_rectilinear(in.clip)) ? 2 : 0;
    if (in.cls != 2) stat("gen.rect.NOT_RECTILINEAR");
    run_input(g, in, i % 4 == 0);
  }
  //  * spike on an extreme row with company: a rectangle whose top or bottom edge overshoots a corner and comes back (the spike
  //    ends exactly on the corner, i.e. on the vertex that closes the flat extreme), together with 1-3 rectangles that have an
  //    edge on the same row overlapping the spike - the configuration in which an unmerged spike is swept as two opposite
  //    horizontals next to other hot horizontals (found through the TrimHorz model tie, see DESIGN 12, C03b-m2)
  for (int i = 0; i < 2 * n_rect; ++i) {
    in = Input();
    int64_t step = g.pick(std::vector<int64_t>{1, 1, 3, 1000});
    int64_t x0 = g.range(0, 3), x1 = x0 + g.range(1, 4), y0 = g.range(0, 3), y1 = y0 + g.range(1, 3);
    bool top = g.coin();                       // which horizontal edge carries the spike
    int64_t yr = top ? y0 : y1;                // its row
    int64_t ov = g.range(1, 3);                // overshoot
    Path64 p;
    // corners in order (x0,y0) (x1,y0) (x1,y1) (x0,y1); the spike is attached at the END of the chosen horizontal edge
    if (top) p = Path64{Point64(x0, y0), Point64(x1 + ov, y0), Point64(x1, y0), Point64(x1, y1), Point64(x0, y1)};
    else p = Path64{Point64(x0, y0), Point64(x1, y0), Point64(x1, y1), Point64(x0 - ov, y1), Point64(x0, y1)};
    if (g.coin()) {                            // or at its START
      if (top) p = Path64{Point64(x0, y0), Point64(x0 - ov, y0), Point64(x1, y0), Point64(x1, y1), Point64(x0, y1)};
      else p = Path64{Point64(x0, y0), Point64(x1, y0), Point64(x1, y1), Point64(x1 + ov, y1), Point64(x0, y1)};
    }
    std::rotate(p.begin(), p.begin() + (long)g.range(0, 4), p.end());
    if (g.coin()) std::reverse(p.begin(), p.end());
    in.subj.push_back(p);
    for (int k = (int)g.range(1, 3); k > 0; --k) {
      int64_t l = g.range(-2, 5), r = l + g.range(1, 4), h = g.range(1, 2);
      Path64 q = g.coin() ? rect_path(l, yr, r, yr + h) : rect_path(l, yr - h, r, yr);
      if (g.coin()) std::reverse(q.begin(), q.end());
      (g.chance(60) ? in.subj : in.clip).push_back(q);
    }
    if (g.coin()) for (auto* ps : {&in.subj, &in.clip}) for (auto& q : *ps) for (auto& v : q) std::swap(v.x, v.y), std::swap(v.x, v.y);
    scale_paths(in.subj, step); scale_paths(in.clip, step);
    in.cls = 2; in.gen = "rect.spike-on-extreme-row";
    run_input(g, in, i % 3 == 0);
  }
  //  * rectangles hung on one row (gen_row_rects): overlapping, opposed horizontal stretches of the solution on one scanline with
  //    intermediate vertices where another stretch begins (horizontal joins)
  for (int i = 0; i < 3 * n_rect; ++i) {
    gen_row_rects(g, in);
    int64_t step = g.pick(std::vector<int64_t>{1, 1, 2, 1000});
    scale_paths(in.subj, step); scale_paths(in.clip, step);
    run_input(g, in, i % 2 == 0);
  }
  for (int i = 0; i < n_deg / 8; ++i) {
    gen_nested(g, in, (int)g.range(1, 8), g.coin());
    run_input(g, in, false);
    gen_touching_holes(g, in);
    run_input(g, in, false);
  }
  for (int i = 0; i < n_deg; ++i) {
    gen_degenerate(g, in);
    run_input(g, in, i % 4 == 0);
    if (i % 3 == 0 && in.gen != "degen.mag5" && in.gen != "degen.mag4" && in.gen != "degen.mag3")
      engine_rings(in, (int)g.range(1, 4), (int)g.range(0, 3), g.coin(), g.coin());
  }
  for (int i = 0; i < n_ring; ++i) model_records_for_ring(synthetic_ring(g), "synthetic");
  }  // !hi_build
  // dense self-intersecting random polygons on small lattices: rounded intersection points give the sweep's outrecs the
  // micro self-intersections FixSelfIntersects exists for (model level only: CLEANCOL/CLEANCOLX/BUILDPATH/BUILDPATHS records)
  for (int i = 0; i < (thorough ? 6000 : 600); ++i) {
    Input d; d.gen = "dense"; d.cls = 0;
    int64_t L = g.pick(std::vector<int64_t>{4, 6, 10, 20, 50});
    int np = (int)g.range(1, 2);
    for (int k = 0; k < np; ++k) d.subj.push_back(rand_poly(g, (int)g.range(5, 24), L));
    if (g.coin()) d.clip.push_back(rand_poly(g, (int)g.range(3, 16), L));
    stat("input.dense");
    engine_rings(d, (int)g.range(1, 4), (int)g.range(0, 3), g.coin(), g.coin());
  }
  // FixSelfIntersects / DoSplitOp / SegmentsIntersect
  {
    // corpus: the witnesses used in Props/C03Split.lean
    Path64 w1 = {{0, 0}, {10, 10}, {10, 0}, {0, 10}, {-5, 5}};                 // one crossing at (5,5): triangle split off
    Path64 w2 = {{0, 0}, {10, 1}, {0, -1}, {1, 1}, {-9, 9}};                    // crossing truncated to prevOp->pt: guard fires
    Path64 w3 = {{0, -5}, {0, 0}, {10, 0}, {4, 5}, {5, -1}, {6, 5}};            // DuplicateOp branch at the first node
    Path64 w4 = {{0, 0}, {10, 10}, {10, 0}, {0, 10}};                           // bow-tie of area 0: disposed
    for (auto& w : {w1, w2, w3, w4}) {
      for (size_t k = 0; k < w.size(); ++k) {
        Path64 r = w; std::rotate(r.begin(), r.begin() + k, r.end());
        fsi_record(r, "corpus"); dosplit_record(r, "corpus"); cleancolx_record(r, "corpus");
      }
    }
    segsint_record({0, 0}, {10, 10}, {10, 0}, {0, 10}, "corpus");
    segsint_record({0, 0}, {10, 10}, {5, 5}, {0, 10}, "corpus");
  }
  int n_fsi = thorough ? 30000 : 4000;
  for (int i = 0; i < n_fsi; ++i) {
    std::string kind;
    int64_t L = 0;
    Path64 r = crossing_ring(g, kind, L);
    stat("fsi.gen." + kind);
    fsi_record(r, kind);
    if (i % 2 == 0) cleancolx_record(r, kind);
    if (i % 3 == 0) {
      // DoSplitOp where FixSelfIntersects would call it, and on arbitrary rings (parallel segments leave ip = (0,0))
      for (size_t k = 0; k < r.size(); ++k) {
        Path64 q = r; std::rotate(q.begin(), q.begin() + k, q.end());
        if (q.size() >= 4 && SegmentsIntersect(q.back(), q[0], q[1], q[2])) { dosplit_record(q, kind + ".crossing"); break; }
      }
      // (HI_PRECISION: nearbyint(hit) of nearly parallel far-apart segments need not fit int64_t - undefined in the C++)
      if (!hi_build || L <= 1000) dosplit_record(r, kind + ".any");
    }
    if (r.size() >= 4) segsint_record(r[0], r[1], r[2], r[3], kind);
  }
  // synthetic rings of the CleanCollinear section through the whole of CleanCollinear as well
  for (int i = 0; i < n_ring / 4; ++i) cleancolx_record(synthetic_ring(g), "synthetic");
  flush_stats();
  return 0;
}
