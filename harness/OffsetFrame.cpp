// Model-level correspondence for the offset frame model (ClipperVerif/Model/OffsetFrame.lean), shared by C06 and C07.
// Private members of ClipperOffset are read (and OffsetPoint / BuildNormals / the Group constructor are called)
// through `#define private public` around this file's own #include of the unchanged sources.
#include <cstdint>
#include <cstdio>
#include <cstring>
#include <cstdlib>
#include <string>
#include <vector>
#include <map>
#include <sstream>
#include <algorithm>
#include <functional>
#include <optional>
#include <queue>
#include <memory>
#include <numeric>
#include <cmath>
#include <iostream>
#include <climits>
#include <limits>
#include <stdexcept>
#include <type_traits>
#include <cstddef>
#include <list>
#include <set>
#include <iomanip>
#include <fstream>
#define private public
#include "offset_common.h"
#include "clipper.engine.cpp"
#include "clipper.offset.cpp"
#include "clipper.rectclip.cpp"
#undef private
using namespace vh;
using namespace vo;

// exact value of a double as a reduced fraction "num den" (den a power of two)
static std::string pow2_dec(int e) {
  std::vector<int> d{1};
  for (int i = 0; i < e; ++i) {
    int carry = 0;
    for (auto& x : d) { int v = x * 2 + carry; x = v % 10; carry = v / 10; }
    if (carry) d.push_back(carry);
  }
  std::string s; for (auto it = d.rbegin(); it != d.rend(); ++it) s += (char)('0' + *it);
  return s;
}
static std::string exact_rat(double v) {
  if (v == 0) return "0 1";
  int e; double m = std::frexp(v, &e);
  int64_t mant = (int64_t)std::ldexp(m, 53); e -= 53;
  while (mant % 2 == 0) { mant /= 2; ++e; }
  if (e >= 0) { if (e > 60) abort(); __int128 n = (__int128)mant * ((__int128)1 << e); return std::to_string((long long)n) + " 1"; }
  return std::to_string((long long)mant) + " " + pow2_dec(-e);
}
static std::string bits_of(const PathD& p) {
  std::string s = std::to_string(p.size());
  for (auto& q : p) { s += ' '; s += hexd(q.x); s += ' '; s += hexd(q.y); }
  return s;
}

static Path64 rnd_path(Rng& g, int n, int64_t r) {
  Path64 p;
  for (int i = 0; i < n; ++i) p.emplace_back(g.range(-r, r), g.range(-r, r));
  return p;
}
static Path64 with_dups(Rng& g, Path64 p, bool close) {
  Path64 r;
  for (auto& q : p) { r.push_back(q); while (g.chance(20)) r.push_back(q); }
  if (close && !p.empty()) { r.push_back(p.front()); if (g.coin()) r.push_back(p.front()); }
  return r;
}

// ---------------------------------------------------------------- Group constructor
static void group_cases(Rng& g, int N) {
  for (int i = 0; i < N; ++i) {
    int et = (int)(g.next() % 5), jt = (int)(g.next() % 4);
    int k = (int)g.range(1, 4);
    int64_t r = g.chance(30) ? 3 : 1000;   // small range: ties in y and x among the lowest points
    Paths64 ps;
    for (int j = 0; j < k; ++j) {
      int n = (int)g.range(0, 7);
      Path64 p = rnd_path(g, n, r);
      if (g.chance(40)) p = with_dups(g, p, g.chance(50));
      ps.push_back(p);
    }
    if (g.chance(5)) ps = Paths64{Path64()};
    ClipperOffset::Group grp(ps, (JoinType)jt, (EndType)et);
    long long low = grp.lowest_path_idx.has_value() ? (long long)grp.lowest_path_idx.value() : -1;
    emitM("frame.group", "GROUP " + std::to_string(et) + " " + std::to_string(jt) + " " + S(ps),
          std::to_string(low) + " " + (grp.is_reversed ? "1" : "0") + " " + S(grp.paths_in));
    stat(grp.is_reversed ? "group.reversed" : "group.not_reversed");
  }
  // the extreme the scan starts from: a point (INT64_MAX, INT64_MIN) never replaces the initial botPt
  {
    Paths64 ps{{{INT64_MAX, INT64_MIN}}};
    ClipperOffset::Group grp(ps, JoinType::Miter, EndType::Polygon);
    long long low = grp.lowest_path_idx.has_value() ? (long long)grp.lowest_path_idx.value() : -1;
    emitM("frame.group", "GROUP 0 3 " + S(ps), std::to_string(low) + " " + (grp.is_reversed ? "1" : "0") + " " + S(grp.paths_in));
  }
}

// ---------------------------------------------------------------- BuildNormals
static void normals_cases(Rng& g, int N) {
  for (int i = 0; i < N; ++i) {
    int n = (int)g.range(0, 8);
    int64_t r = g.chance(20) ? ((int64_t)1 << 40) : (g.chance(50) ? 1000000 : 50);
    Path64 p = rnd_path(g, n, r);
    if (g.chance(10) && n >= 2) p[1] = p[0];
    ClipperOffset co;
    co.BuildNormals(p);
    emitM("frame.buildnormals", "BUILDNORMALS " + S(p), bits_of(co.norms));
  }
}

// ---------------------------------------------------------------- index traces and normal reversal through a delta callback
struct Trace {
  std::vector<int64_t> calls;            // size j k
  std::vector<PathD> norms_at;           // copy of norms at every call
};
static void trace_cases(Rng& g, int N) {
  for (int i = 0; i < N; ++i) {
    int et = (int)(g.next() % 5), jt = (int)(g.next() % 4);
    int k = (int)g.range(1, 4);
    Paths64 ps;
    std::vector<int64_t> lens;
    for (int j = 0; j < k; ++j) {
      int n = g.chance(25) ? (int)g.range(1, 2) : (int)g.range(3, 7);
      if (g.chance(10)) n = 0;  // an empty path is skipped whatever the end type
      // distinct consecutive points so that StripDuplicates leaves the length alone
      Path64 p;
      for (int t = 0; t < n; ++t) p.emplace_back(1000 * j + 37 * t + g.range(0, 9), (t % 2 ? 50 : -50) + 11 * t + g.range(0, 9));
      ps.push_back(p); lens.push_back(n);
    }
    Trace tr;
    ClipperOffset co(2.0, 0.25);
    co.AddPaths(ps, (JoinType)jt, (EndType)et);
    Paths64 sol;
    co.Execute([&](const Path64& path, const PathD& norms, size_t j, size_t kk) {
      tr.calls.push_back((int64_t)path.size()); tr.calls.push_back((int64_t)j); tr.calls.push_back((int64_t)kk);
      tr.norms_at.push_back(norms);
      return 10.0; }, sol);
    std::string req = "GROUPTRACE " + std::to_string(et) + " " + std::to_string(jt) + " " + std::to_string(lens.size());
    for (auto n : lens) req += " " + std::to_string(n);
    std::string exp = std::to_string(tr.calls.size());
    for (auto v : tr.calls) exp += " " + std::to_string(v);
    emitM("frame.grouptrace", req, exp);
    stat("trace.end." + std::to_string(et));
    // normal reversal blocks, single-path groups only (the call positions are then known)
    if (k == 1 && lens[0] >= 2) {
      size_t n = (size_t)lens[0];
      bool open_like = et >= 2 || (et == 1 && n == 2);
      if (open_like && tr.norms_at.size() >= n) {
        // call 0 is the start cap (original normals); the end cap is call number n-1 (1 + (n-2) forward joins)
        const PathD& before = tr.norms_at[0];
        const PathD& after = tr.norms_at[n - 1];
        emitM("frame.revnorms", "REVNORMS " + std::to_string(n - 1) + " " + bits_of(before), bits_of(after));
      } else if (et == 1 && tr.norms_at.size() == 2 * n) {
        emitM("frame.joinednorms", "JOINEDNORMS " + bits_of(tr.norms_at[0]), bits_of(tr.norms_at[n]));
      }
    }
  }
}

// ---------------------------------------------------------------- OffsetPoint branch
static void branch_cases(Rng& g, int N) {
  for (int i = 0; i < N; ++i) {
    int jt = (int)(g.next() % 4);
    double ml = (double)g.range(2, 10) / 2.0;
    Path64 p;
    int64_t r = g.chance(50) ? 100 : 100000;
    Point64 a(g.range(-r, r), g.range(-r, r)), b(g.range(-r, r), g.range(-r, r)), c;
    switch (g.next() % 5) {
      case 0: c = Point64(b.x + (b.x - a.x) + g.range(-2, 2), b.y + (b.y - a.y) + g.range(-2, 2)); break;          // almost straight
      case 1: c = Point64(a.x + g.range(-3, 3), a.y + g.range(-3, 3)); break;                                     // almost a reversal
      case 2: c = Point64(b.x - (b.y - a.y), b.y + (b.x - a.x)); break;                                           // right angle
      default: c = Point64(g.range(-r, r), g.range(-r, r));
    }
    if (g.chance(3)) b = a;
    p = {a, b, c};
    if (b == c) continue;
    ClipperOffset co(ml, 0.25);
    co.join_type_ = (JoinType)jt;
    co.temp_lim_ = (ml <= 1) ? 2.0 : 2.0 / (ml * ml);
    // |group_delta_| >= 1: below that a round join can collapse onto path[j] after rounding and the classification
    // of the branch from path_out (3 points, middle one == path[j] => concave) would be ambiguous
    double gd = (double)g.range(8, 400) / 8.0 * (g.coin() ? 1 : -1);
    if (g.chance(3)) gd = 1e-13 * (g.coin() ? 1 : -1);
    co.group_delta_ = gd;
    co.steps_per_rad_ = 10; co.step_sin_ = std::sin(0.1) * (gd < 0 ? -1 : 1); co.step_cos_ = std::cos(0.1);
    co.BuildNormals(p);
    ClipperOffset::Group grp(Paths64{p}, (JoinType)jt, EndType::Polygon);
    size_t j = 1, k = 0;
    double sin_a = CrossProduct(co.norms[j], co.norms[k]);
    double cos_a = DotProduct(co.norms[j], co.norms[k]);
    if (sin_a > 1.0) sin_a = 1.0; else if (sin_a < -1.0) sin_a = -1.0;
    co.path_out.clear();
    co.OffsetPoint(grp, p, j, k);
    const Path64& out = co.path_out;
    std::string br;
    if (out.empty()) br = "skip";
    else if (std::fabs(gd) <= 1e-12) br = (out.size() == 1 && out[0] == p[j]) ? "copy" : "?";
    else if (out.size() == 3 && out[1] == p[j]) br = "concave";
    else if (out.size() == 1) br = "miter";
    else if (jt == 2) br = "round";
    else if (out.size() == 2) br = jt == 1 ? "bevel" : "square";
    else br = "?";
    emitM("frame.branch", "BRANCH " + std::to_string(jt) + " " + exact_rat(co.temp_lim_) + " " + exact_rat(gd) + " " + exact_rat(sin_a) + " " +
          exact_rat(cos_a) + " " + (p[j] == p[k] ? "1" : "0"), br);
    stat("branch." + br);
  }
}

// ---------------------------------------------------------------- members after Execute
static void state_cases(Rng& g, int N) {
  for (int i = 0; i < N; ++i) {
    double ml = (double)g.range(2, 10) / 2.0;
    int64_t e8 = g.range(-400, 400);
    if (g.chance(10)) e8 = g.range(-3, 3);
    double delta = (double)e8 / 8.0;
    int ng = (int)g.range(1, 3);
    ClipperOffset co(ml, 0.25);
    std::string req = "FRAMESTATE " + exact_rat(ml) + " 1 4 " + exact_rat(delta) + " " + std::to_string(ng);
    for (int q = 0; q < ng; ++q) {
      int et = (int)(g.next() % 5), jt = (int)(g.next() % 4);
      int k = (int)g.range(1, 3);
      Paths64 ps;
      for (int j = 0; j < k; ++j) {
        int n = g.chance(30) ? (int)g.range(1, 2) : (int)g.range(3, 6);
        if (g.chance(et == 0 ? 25 : 10)) n = 0;
        Path64 p;
        for (int t = 0; t < n; ++t) p.emplace_back(1000 * j + 5000 * q + 37 * t + g.range(0, 9), (t % 2 ? 50 : -50) + 11 * t + g.range(0, 9));
        if (g.coin()) std::reverse(p.begin(), p.end());
        ps.push_back(p);
      }
      if (et == 0 && g.chance(15)) ps = Paths64{Path64()};   // a Polygon group without any point
      co.AddPaths(ps, (JoinType)jt, (EndType)et);
      req += " " + std::to_string(et) + " " + std::to_string(jt) + " " + S(ps);
    }
    Paths64 sol;
    co.Execute(delta, sol);
    std::string exp;
    if (std::fabs(delta) < 0.5) {
      bool fresh = co.delta_ == 0.0 && co.group_delta_ == 0.0 && co.join_type_ == JoinType::Bevel && co.end_type_ == EndType::Polygon;
      exp = fresh ? "untouched" : "touched";
    } else
      exp = exact_rat(co.delta_) + " " + exact_rat(co.group_delta_) + " " + std::to_string((int)co.join_type_) + " " + std::to_string((int)co.end_type_);
    emitM("frame.state", req, exp);
    if (co.delta_ != delta && std::fabs(delta) >= 0.5) stat("state.delta_member_differs_from_argument");
  }
}

int main(int argc, char** argv) {
  Rng g(seed_from_args(argc, argv));
  bool thorough = thorough_from_args(argc, argv);
  int N = thorough ? 20000 : 1500;
  group_cases(g, N);
  normals_cases(g, N);
  trace_cases(g, N);
  branch_cases(g, 2 * N);
  state_cases(g, N);
  flush_stats();
  return 0;
}
