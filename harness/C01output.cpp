// C01 harness "the output rings run along the input edges": correspondence of the exact-point decoration
// lean/ClipperVerif/Model/SweepPoints.lean (theorems Props/C01Output.lean, driver Driver/SweepPoints.lean, command SWEEPRINGS).
//
// The engine's rings carry ROUNDED crossing points, so a bit-exact tie of the model's exact rings is impossible; this is a spec-level (S)
// record instead.  For every input (closed subject + clip paths) and random (clip type, fill rule) pairs a Clipper64 object is driven STEP BY
// STEP through the statements of ClipperBase::ExecuteInternal (copied from harness/C01region.cpp / C01sweep.cpp: the real private member
// functions, nothing of /repo is changed; a plain Execute on a second object must give the same hook-H1 event log and the same solution -
// F record `replica` otherwise).  At the END OF THE SWEEP, before BuildPaths64 (i.e. before CleanCollinear / FixSelfIntersects / BuildPath64),
// every closed output record is dumped as harness/aelrings.h does: state (0 = pts == nullptr, 1 = front_edge set, 2 = finished) and the
// points from outrec->pts following ->prev.
// Records:
//   S SWEEPRINGS ct fr subj clip m (stat n (x y)*n)*m -> ok ...   inputs in scope by this harness's own exact test (the definitions of
//        Model/SweepOrder.lean `Built.Hyp` and Model/SweepEvents.lean `HypR`, __int128 arithmetic, |coordinates| <= 2^24).  The Lean side
//        derives the event data from the paths ALONE, decorates the derived events with the EXACT rational points (scaled by the least common
//        denominator of all crossing points), runs the ring model, and compares: same number of records in the same states, every finished
//        real ring = the exact ring up to duplicate suppression with every real vertex within ONE UNIT (Chebyshev, exact rational
//        arithmetic) of the exact vertex; when the structures differ (rounding made crossing points coincide or exchanged two of them) only
//        the distance bound is judged (`ok structure-differs`, counted separately); and the winding number of the exact rings at probe
//        points on the mid-height scanline of every scanbeam is 0 / +1 and nonzero exactly where inR ct fr (wind subj p) (wind clip p).
//        `ok notgp` = Lean finds the hypotheses violated (vacuous; counted).
#define VERIF_PRIVATE_ACCESS
#include "unity.h"
#include "gp.h"
#include <set>
#ifndef CLIPPER2_VERIF
#error "C01output.cpp needs the hooks: compile with -DCLIPPER2_VERIF"
#endif
using namespace vh;
typedef __int128 i128;

static const ClipType CTS[] = {ClipType::Intersection, ClipType::Union, ClipType::Difference, ClipType::Xor};
static const FillRule FRS[] = {FillRule::EvenOdd, FillRule::NonZero, FillRule::Positive, FillRule::Negative};
static const int64_t BOUND = (int64_t)1 << 24;

// ------------------------------------------------------------------------------------------------ edges of the input, as the Lean `build` + `labOf`
struct SEdge { int id; Point64 bot, top; int ptype; int dx; };
struct Key4 { int64_t a, b, c, d; bool operator<(const Key4& o) const { return std::tie(a, b, c, d) < std::tie(o.a, o.b, o.c, o.d); } };
static Key4 key_of(const Point64& bot, const Point64& top) { return {bot.x, bot.y, top.x, top.y}; }

struct Built {
  std::vector<SEdge> edges;
  std::map<int, int> next;                     // edge id -> successor id
  std::vector<std::pair<int, int>> mins;       // (left bound id, right bound id)
  std::vector<int64_t> ys;                     // descending, unique
  std::map<Key4, int> by_geom;
  std::map<int, size_t> index_of_id;
  bool ambiguous = false;
  const SEdge& E(int id) const { return edges[index_of_id.at(id)]; }
};

static i128 exD(const SEdge& e) { return (i128)e.bot.y - e.top.y; }
static i128 exN(const SEdge& e, int64_t y) { return (i128)e.bot.x * ((i128)e.bot.y - e.top.y) + ((i128)e.top.x - e.bot.x) * ((i128)e.bot.y - y); }
static i128 runx(const SEdge& e) { return (i128)e.top.x - e.bot.x; }
static bool slt(const SEdge& a, const SEdge& b) { return runx(a) * exD(b) < runx(b) * exD(a); }
static bool xltBy1(int64_t y, const SEdge& a, const SEdge& b) { return (exN(a, y) + exD(a)) * exD(b) < exN(b, y) * exD(a); }
static bool far(int64_t y, const SEdge& a, const SEdge& b) { return xltBy1(y, a, b) || xltBy1(y, b, a); }
static bool up(const SEdge& e) { return e.top.y < e.bot.y; }

static Built build(const Paths64& ps, size_t n_subj) {
  Built b;
  int off = 0;
  std::set<int64_t> ys;
  for (size_t pi = 0; pi < ps.size(); ++pi) {
    const Path64& p = ps[pi];
    int n = (int)p.size();
    if (n >= 3) {
      std::vector<SEdge> es;
      for (int i = 0; i < n; ++i) {
        const Point64 &a = p[i], &c = p[(i + 1) % n];
        SEdge e; e.id = off + i;
        e.ptype = pi < n_subj ? 0 : 1;
        e.dx = a.y > c.y ? 1 : -1;               // +1: the path runs from bot to top
        if (a.y > c.y) { e.bot = a; e.top = c; } else { e.bot = c; e.top = a; }
        es.push_back(e);
        ys.insert(a.y);
      }
      for (int i = 0; i < n; ++i) {
        const SEdge &e = es[i], &f = es[(i + 1) % n];
        const Point64& v = p[(i + 1) % n];
        if (e.top == v && f.bot == v) { if (!b.next.count(e.id)) b.next[e.id] = f.id; }
        else if (e.bot == v && f.top == v) { if (!b.next.count(f.id)) b.next[f.id] = e.id; }
        if (e.bot == v && f.bot == v) { if (slt(e, f)) b.mins.emplace_back(e.id, f.id); else b.mins.emplace_back(f.id, e.id); }
      }
      for (auto& e : es) b.edges.push_back(e);
    }
    off += n;
  }
  for (size_t i = 0; i < b.edges.size(); ++i) {
    b.index_of_id[b.edges[i].id] = i;
    Key4 k = key_of(b.edges[i].bot, b.edges[i].top);
    if (b.by_geom.count(k)) b.ambiguous = true; else b.by_geom[k] = b.edges[i].id;
  }
  b.ys.assign(ys.rbegin(), ys.rend());
  return b;
}

// the same decision as Lean's `outOfScope` (Driver/SweepEvents.lean): Built.Hyp (copied from C01sweep.cpp) and Built.HypR
static bool in_scope(const Built& b, const Paths64& ps, std::string& why) {
  for (auto& p : ps) for (auto& q : p) if (std::llabs(q.x) > BOUND || std::llabs(q.y) > BOUND) { why = "magnitude"; return false; }
  if (b.edges.empty()) { why = "empty"; return false; }
  for (auto& e : b.edges) if (!up(e)) { why = "horizontal-edge"; return false; }
  if (b.ambiguous) { why = "coincident-edges"; return false; }
  std::set<int> min_bounds;
  for (auto& m : b.mins) {
    if (min_bounds.count(m.first) || min_bounds.count(m.second) || m.first == m.second) { why = "localmin-structure"; return false; }
    min_bounds.insert(m.first); min_bounds.insert(m.second);
    if (!slt(b.E(m.first), b.E(m.second))) { why = "localmin-structure"; return false; }
  }
  for (auto& kv : b.next) {
    const SEdge &e = b.E(kv.first), &s = b.E(kv.second);
    if (!(s.bot == e.top) || min_bounds.count(s.id)) { why = "bound-continuation"; return false; }
  }
  for (size_t k = 0; k + 1 < b.ys.size(); ++k) {
    int64_t y0 = b.ys[k], y1 = b.ys[k + 1];
    for (auto& m : b.mins) {
      const SEdge &l = b.E(m.first), &r = b.E(m.second);
      if (l.bot.y != y0) continue;
      for (auto& e : b.edges) {
        if (!(e.top.y < y0 && y0 <= e.bot.y) || e.id == l.id || e.id == r.id) continue;
        if (!far(y0, e, l) || !far(y0, e, r)) { why = "gp-localmin"; return false; }
      }
    }
    for (size_t i = 0; i < b.edges.size(); ++i) for (size_t j = 0; j < b.edges.size(); ++j) {
      if (i == j) continue;
      const SEdge &a = b.edges[i], &c = b.edges[j];
      if (!(a.top.y <= y1 && y1 < a.bot.y) || !(c.top.y <= y1 && y1 < c.bot.y)) continue;
      if (far(y1, a, c)) continue;
      if (a.top == c.top && a.top.y == y1 && !b.next.count(a.id) && !b.next.count(c.id)) continue;
      why = "gp-top"; return false;
    }
  }
  // HypR
  std::set<int> successors;
  for (auto& kv : b.next) {
    successors.insert(kv.second);
    const SEdge &e = b.E(kv.first), &s = b.E(kv.second);
    if (e.ptype != s.ptype || e.dx != s.dx) { why = "hypR-bound-labels"; return false; }
  }
  for (auto& e : b.edges) if (!min_bounds.count(e.id) && !successors.count(e.id)) { why = "hypR-edge-without-start"; return false; }
  for (auto& m : b.mins) {
    const SEdge &l = b.E(m.first), &r = b.E(m.second);
    if (l.ptype != r.ptype || l.dx != -r.dx) { why = "hypR-localmin-labels"; return false; }
  }
  for (auto& a : b.edges) {
    if (b.next.count(a.id)) continue;            // a ends in a local maximum: exactly one partner ends there, not continued, opposite direction
    int others = 0; bool ok = true;
    for (auto& c : b.edges) {
      if (c.id == a.id || !(c.top == a.top)) continue;
      ++others;
      if (b.next.count(c.id) || c.ptype != a.ptype || c.dx != -a.dx) ok = false;
    }
    if (others != 1 || !ok) { why = "hypR-localmax-not-a-pair"; return false; }
  }
  return true;
}

// ------------------------------------------------------------------------------------------------ reading the AEL
struct Ctx {
  const Built* b = nullptr;
  std::vector<std::string> log;      // one entry per hook event: kind + AEL identities
  long unknown = 0, joined = 0;
};
static Ctx& ctx() { static Ctx c; return c; }

static int id_of(const Active* e) {
  auto it = ctx().b->by_geom.find(key_of(e->bot, e->top));
  return it == ctx().b->by_geom.end() ? -1 : it->second;
}
struct AelRead { std::vector<int> ids; std::vector<int> hot; };
static AelRead read_ael(const ClipperBase* c) {
  AelRead r;
  for (const Active* e = c->actives_; e; e = e->next_in_ael) {
    int id = id_of(e);
    if (id < 0) ctx().unknown++;
    if (e->join_with != JoinWith::NoJoin) ctx().joined++;
    r.ids.push_back(id);
    r.hot.push_back((e->outrec != nullptr || e->join_with != JoinWith::NoJoin) ? 1 : 0);
  }
  return r;
}
static void log_sink(int ev, const ClipperBase* c, const Active*) {
  std::string s = std::to_string(ev) + ":";
  for (const Active* e = c->actives_; e; e = e->next_in_ael) s += " " + std::to_string(id_of(e));
  ctx().log.push_back(s);
}
static std::string flags_str(const char* tag, const std::vector<int>& v) {
  std::string s = std::string(tag) + " " + std::to_string(v.size());
  for (int x : v) s += x ? " 1" : " 0";
  return s;
}

struct Beam { int64_t y0, y1; AelRead ins, isect, top; };

// ClipperBase::ExecuteInternal, statement by statement, on the real object (as in C01sweep.cpp)
static bool step_sweep(Clipper64& c, ClipType ct, FillRule fr, std::vector<Beam>& beams) {
  c.cliptype_ = ct;
  c.fillrule_ = fr;
  c.using_polytree_ = false;
  c.Reset();
  int64_t y;
  if (ct == ClipType::NoClip || !c.PopScanline(y)) return true;
  while (c.succeeded_) {
    c.InsertLocalMinimaIntoAEL(y);
    Active* e;
    while (c.PopHorz(e)) c.DoHorizontal(*e);
    if (c.horz_seg_list_.size() > 0) {
      c.ConvertHorzSegsToJoins();
      c.horz_seg_list_.clear();
    }
    c.bot_y_ = y;
    Beam bm;
    bm.y0 = y;
    bm.ins = read_ael(&c);
    if (!c.PopScanline(y)) break;
    bm.y1 = y;
    c.DoIntersections(y);
    bm.isect = read_ael(&c);
    c.DoTopOfScanbeam(y);
    bm.top = read_ael(&c);
    beams.push_back(bm);
    while (c.PopHorz(e)) c.DoHorizontal(*e);
  }
  if (c.succeeded_) c.ProcessHorzJoins();
  return c.succeeded_;
}


static long g_ring_budget = 0;

// every closed output record at the end of the sweep, as harness/aelrings.h dumps them
static std::string dump_records(const ClipperBase& c, long& npts, long& ndone, long& ngone, long& nlive, bool& bad) {
  std::string s;
  int m = 0;
  for (const OutRec* o : c.outrec_list_) if (!o->is_open) ++m;
  s += std::to_string(m);
  for (const OutRec* o : c.outrec_list_) {
    if (o->is_open) continue;
    if (!o->pts) { s += " 0 0"; ++ngone; continue; }
    if (o->front_edge) ++nlive; else ++ndone;
    int n = 0;
    std::string pts;
    const OutPt* op = o->pts;
    do {
      if (op->next->prev != op || op->prev->next != op) { bad = true; break; }
      pts += " " + S(op->pt);
      ++n;
      op = op->prev;
    } while (op != o->pts && n < 1000000);
    npts += n;
    s += std::string(o->front_edge ? " 1 " : " 2 ") + std::to_string(n) + pts;
  }
  return s;
}

static void run_one(Rng& g, const Paths64& subj, const Paths64& clip, const std::string& kind) {
  Paths64 all = subj; all.insert(all.end(), clip.begin(), clip.end());
  Built b = build(all, subj.size());
  Ctx& k = ctx();
  k.b = &b;
  std::string why;
  bool scope = in_scope(b, all, why);
  stat(std::string("scope.") + (scope ? "in" : "out." + why));
  stat("inputs");
  stat("inputs.kind." + kind);
  int nconf = scope ? 2 : 1;
  for (int rep = 0; rep < nconf; ++rep) {
    ClipType ct = CTS[g.next() % 4]; FillRule fr = FRS[g.next() % 4];
    std::string in = "kind=" + kind + " ct=" + std::to_string((int)ct) + " fr=" + std::to_string((int)fr) + " subj=" + S(subj) + " clip=" + S(clip);
    fprintf(stderr, "VERIF-CURRENT: %s\n", in.c_str());
    // (a) the real Execute
    std::vector<std::string> log_real;
    Paths64 sol_real, open_real;
    bool ok_real;
    {
      Clipper64 c;
      c.AddSubject(subj); c.AddClip(clip);
      k.log.clear();
      verif::ael_sink() = log_sink;
      ok_real = c.Execute(ct, fr, sol_real, open_real);
      verif::ael_sink() = nullptr;
      log_real.swap(k.log);
    }
    // (b) the same sweep driven stepwise; the records are read before BuildPaths64
    std::vector<Beam> beams;
    Paths64 sol_step, open_step;
    bool ok_step;
    std::string records;
    long npts = 0, ndone = 0, ngone = 0, nlive = 0;
    bool bad = false;
    {
      Clipper64 c;
      c.AddSubject(subj); c.AddClip(clip);
      k.log.clear();
      k.unknown = k.joined = 0;
      verif::ael_sink() = log_sink;
      ok_step = step_sweep(c, ct, fr, beams);
      verif::ael_sink() = nullptr;
      records = dump_records(c, npts, ndone, ngone, nlive, bad);
      if (ok_step) c.BuildPaths64(sol_step, &open_step);
      c.CleanUp();
    }
    if (ok_real != ok_step || sol_real != sol_step || log_real != k.log) {
      emitF("replica", "the stepwise sweep differs from ExecuteInternal (events " + std::to_string(log_real.size()) + " vs " + std::to_string(k.log.size()) +
            ", solutions " + (sol_real == sol_step ? "equal" : "differ") + "): " + in);
      stat("replica.diverged");
      return;
    }
    if (!ok_real) emitF("execute-returned-false", in);
    if (bad) { emitF("ring-not-a-doubly-linked-list", in); continue; }
    stat("runs");
    stat("evaluations.replica_equals_execute");
    if (!scope) continue;
    if (k.unknown) { emitF("unknown-edge", "an Active of an in-scope input does not carry an input edge: " + in); continue; }
    if (nlive) { emitF("live-record-at-the-end-of-the-sweep", in); continue; }
    if (k.joined) stat("scope.in.runs_with_joined_edges");
    if (g_ring_budget <= 0) { stat("rings.over_budget"); continue; }
    --g_ring_budget;
    std::string cfg = std::to_string((int)ct) + " " + std::to_string((int)fr) + " " + S(subj) + " " + S(clip);
    emitS("sweep-rings", "SWEEPRINGS " + cfg + " " + records, "ok");
    stat("rings.records_sent");
    stat("rings.real_rings_finished", ndone);
    stat("rings.real_records_joined_away", ngone);
    stat("rings.real_vertices", npts);
    stat("rings.beams", (long long)beams.size());
    stat("rings.ct." + std::to_string((int)ct));
    stat("rings.fr." + std::to_string((int)fr));
    stat(std::string("rings.edges.") + (b.edges.size() <= 6 ? "3-6" : b.edges.size() <= 12 ? "7-12" : b.edges.size() <= 24 ? "13-24" : "25+"));
    stat(std::string("rings.finished.") + (ndone == 0 ? "0" : ndone == 1 ? "1" : ndone <= 3 ? "2-3" : "4+"));
  }
}

// ------------------------------------------------------------------------------------------------ generators (as C01sweep.cpp)
static Path64 scatter_poly(Rng& g, int n, int64_t r, int64_t cx, int64_t cy) {
  Path64 p;
  std::set<int64_t> used;
  for (int i = 0; i < n; ++i) {
    int64_t y;
    int tries = 0;
    do y = cy + g.range(-r, r); while (used.count(y) && ++tries < 50);
    used.insert(y);
    p.emplace_back(cx + g.range(-r, r), y);
  }
  return p;
}
static Path64 tri(Rng& g, int64_t r, int64_t cx, int64_t cy) { return scatter_poly(g, 3, r, cx, cy); }

int main(int argc, char** argv) {
  Rng g(seed_from_args(argc, argv));
  bool thorough = thorough_from_args(argc, argv);
  g_ring_budget = thorough ? 40000 : 2500;
  // fixed corpus: the two crossing triangles of Props/C01Output.lean (Union gives the 12-gon, Intersection the hexagon of the examples), a pentagram
  // (winding number 2), two diamonds, nested triangles (holes), short paths, squares (horizontal edges: out of scope)
  for (int rep = 0; rep < 4; ++rep)
    run_one(g, {Path64{Point64(0, 40), Point64(30, 3), Point64(-30, 11)}}, {Path64{Point64(-10, 33), Point64(-31, 0), Point64(34, 20)}}, "corpus.triangles");
  run_one(g, {Path64{Point64(0, 1000), Point64(588, -809), Point64(-951, 309), Point64(951, 311), Point64(-588, -807)}}, {Path64{Point64(-400, -390), Point64(410, -397), Point64(417, 400), Point64(-405, 393)}}, "corpus.pentagram");
  run_one(g, {Path64{Point64(0, 100), Point64(97, 3), Point64(2, -100), Point64(-101, -2)}}, {Path64{Point64(40, 131), Point64(150, 22), Point64(43, -77), Point64(-64, 27)}}, "corpus.diamonds");
  run_one(g, {Path64{Point64(0, 200), Point64(170, -95), Point64(-180, -101)}, Path64{Point64(3, 90), Point64(-70, -41), Point64(75, -47)}}, {Path64{Point64(1, 140), Point64(120, -70), Point64(-125, -66)}}, "corpus.nested");
  run_one(g, {Path64{Point64(0, 40), Point64(30, 3), Point64(-30, 11)}, Path64{Point64(5, 17), Point64(9, 25)}, Path64{Point64(1, 19)}}, {Path64{Point64(-10, 33), Point64(-31, 0), Point64(34, 20)}}, "corpus.short-paths");
  run_one(g, {Path64{Point64(0, 40), Point64(30, 3), Point64(-30, 11)}}, {}, "corpus.no-clip-paths");
  run_one(g, {rect_path(0, 0, 100, 100)}, {rect_path(50, 37, 150, 141)}, "corpus.squares(horizontal)");
  int N = thorough ? 24000 : 1500;
  for (int i = 0; i < N; ++i) {
    switch (i % 6) {
      case 0: case 1: {   // general position generator of C01, all families and magnitudes (beyond 2^24 and with horizontal edges: out of scope, counted)
        GpInput in = gen_gp(g);
        run_one(g, in.subj, in.clip, in.kind == "nearparallel" || in.kind == "stairs" || in.kind == "stale-x-coincidence" ? "gp." + in.kind : "gp.plain");
        break; }
      case 2: {   // triangles: many scanbeams with crossings, few edges
        int64_t r = g.pick(std::vector<int64_t>{30, 100, 1000, 100000, BOUND / 2});
        Paths64 s, c;
        for (int k = (int)g.range(1, 3); k > 0; --k) s.push_back(tri(g, r, g.range(-r / 3, r / 3), g.range(-r / 3, r / 3)));
        for (int k = (int)g.range(1, 2); k > 0; --k) c.push_back(tri(g, r, g.range(-r / 3, r / 3), g.range(-r / 3, r / 3)));
        run_one(g, s, c, "triangles");
        break; }
      case 3: {   // scattered self-intersecting polygons, no horizontal edges (winding numbers beyond 1, edges crossed several times in one scanbeam)
        int64_t r = g.pick(std::vector<int64_t>{60, 300, 5000, 1000000, BOUND / 2});
        Paths64 s, c;
        s.push_back(scatter_poly(g, (int)g.range(4, 10), r, 0, 0));
        if (g.chance(70)) c.push_back(scatter_poly(g, (int)g.range(3, 8), r, g.range(-r / 4, r / 4), g.range(-r / 4, r / 4)));
        run_one(g, s, c, "scatter");
        break; }
      case 4: {   // stars (long AELs)
        int64_t r = g.pick(std::vector<int64_t>{200, 3000, 1000000});
        Paths64 s, c;
        s.push_back(star_poly(g, (int)g.range(5, 12), r / 4, r, 0, 0));
        c.push_back(star_poly(g, (int)g.range(5, 12), r / 4, r, g.range(-r / 3, r / 3), g.range(-r / 3, r / 3)));
        run_one(g, s, c, "stars");
        break; }
      default: {  // tiny coordinates: mostly out of scope (counted); in scope, rounding moves crossing points by a large fraction of an edge
        int64_t r = g.pick(std::vector<int64_t>{6, 12, 25});
        Paths64 s, c;
        s.push_back(scatter_poly(g, (int)g.range(3, 7), r, 0, 0));
        c.push_back(scatter_poly(g, (int)g.range(3, 6), r, 0, 0));
        run_one(g, s, c, "tiny");
        break; }
    }
  }
  flush_stats();
  return 0;
}
