// C18 harness: integer predicates (both code paths), PointInPolygon, Area, GetSegmentIntersectPt.
#include "common.h"
// second copy of clipper.core.h with the compiler-specific branches switched off (portable 64x64 code)
#undef CLIPPER_CORE_H
#define Clipper2Lib Clipper2LibPortable
#include VERIF_PORTABLE_CORE
#undef Clipper2Lib
using namespace vh;
namespace PT = Clipper2LibPortable;

static std::string U(uint64_t v) { return std::to_string(v); }

static const int64_t I64MAX = INT64_MAX, I64MIN = INT64_MIN;

// boundary lattice of the property statement
static std::vector<int64_t> lattice() {
  std::vector<int64_t> v = {0, 1, -1, 2, -2, 3, -3, (int64_t)1 << 31, -((int64_t)1 << 31), ((int64_t)1 << 31) - 1,
    ((int64_t)1 << 31) + 1, (int64_t)1 << 32, -((int64_t)1 << 32), ((int64_t)1 << 32) - 1, (int64_t)1 << 61, -((int64_t)1 << 61),
    ((int64_t)1 << 61) - 1, ((int64_t)1 << 62) - 1, -(((int64_t)1 << 62) - 1)};
  return v;
}
static int64_t rnd_coord(Rng& g) {
  switch (g.next() % 6) {
    case 0: return g.range(-20, 20);
    case 1: return g.range(-100000, 100000);
    case 2: return g.range(-((int64_t)1 << 40), (int64_t)1 << 40);
    case 3: return g.range(-((int64_t)1 << 61), (int64_t)1 << 61);
    case 4: { auto l = lattice(); return l[g.next() % l.size()]; }
    default: { auto l = lattice(); return l[g.next() % l.size()] + g.range(-2, 2); }
  }
}

static void do_mul(uint64_t a, uint64_t b) {
  auto r = Clipper2Lib::Multiply(a, b);
  auto rp = PT::Multiply(a, b);
  emitM("mul.model", "MUL " + U(a) + " " + U(b), U(r.lo) + " " + U(r.hi));
  emitM("mul.model.portable", "MULP " + U(a) + " " + U(b), U(rp.lo) + " " + U(rp.hi));
  emitS("mul.spec", "SPEC_MUL " + U(a) + " " + U(b) + " " + U(r.lo) + " " + U(r.hi));
}
static bool abs_ok(int64_t v) { return v != I64MIN; }
static void do_pae(int64_t a, int64_t b, int64_t c, int64_t d) {
  std::string args = S(a) + " " + S(b) + " " + S(c) + " " + S(d);
  bool r = Clipper2Lib::ProductsAreEqual(a, b, c, d);
  emitM("pae.model", "PAE " + args, r ? "1" : "0");
  emitS("pae.spec", "SPEC_PAE " + args + " " + (r ? "1" : "0"));
  if (abs_ok(a) && abs_ok(b) && abs_ok(c) && abs_ok(d)) {
    bool rp = PT::ProductsAreEqual(a, b, c, d);
    emitM("pae.model.portable", "PAEP " + args, rp ? "1" : "0");
    emitS("pae.spec.portable", "SPEC_PAE " + args + " " + (rp ? "1" : "0"));
  }
}
static bool sub_ok(int64_t a, int64_t b, int64_t& out) { return !__builtin_sub_overflow(a, b, &out); }
static void do_cps(Point64 p1, Point64 p2, Point64 p3) {
  int64_t a, b, c, d;
  if (!sub_ok(p2.x, p1.x, a) || !sub_ok(p3.y, p2.y, b) || !sub_ok(p2.y, p1.y, c) || !sub_ok(p3.x, p2.x, d)) { stat("cps.skipped_overflowing_difference"); return; }
  std::string args = S(p1) + " " + S(p2) + " " + S(p3);
  int r = Clipper2Lib::CrossProductSign(p1, p2, p3);
  emitM("cps.model", "CPS " + args, std::to_string(r));
  emitS("cps.spec", "SPEC_CPS " + args + " " + std::to_string(r));
  bool col = Clipper2Lib::IsCollinear(p1, p2, p3);
  emitM("col.model", "COL " + args, col ? "1" : "0");
  emitS("col.spec", "SPEC_COL " + args + " " + (col ? "1" : "0"));
  if (abs_ok(a) && abs_ok(b) && abs_ok(c) && abs_ok(d)) {
    PT::Point64 q1(p1.x, p1.y), q2(p2.x, p2.y), q3(p3.x, p3.y);
    int rp = PT::CrossProductSign(q1, q2, q3);
    emitM("cps.model.portable", "CPSP " + args, std::to_string(rp));
    emitS("cps.spec.portable", "SPEC_CPS " + args + " " + std::to_string(rp));
    bool colp = PT::IsCollinear(q1, q2, q3);
    emitM("col.model.portable", "COLP " + args, colp ? "1" : "0");
    emitS("col.spec.portable", "SPEC_COL " + args + " " + (colp ? "1" : "0"));
  }
  if (r == 0) stat("cps.zero"); else stat("cps.nonzero");
}

#include "C18_geom.inc"

int main(int argc, char** argv) {
  Rng g(seed_from_args(argc, argv));
  bool thorough = thorough_from_args(argc, argv);
  int N = thorough ? 40000 : 1500;
  // Multiply: extremes exhaustively, then random
  std::vector<uint64_t> ux = {0, 1, 2, 0xFFFFFFFFull, 0x100000000ull, 0x100000001ull, 0x7FFFFFFFFFFFFFFFull, 0x8000000000000000ull,
                              0xFFFFFFFFFFFFFFFFull, 0xFFFFFFFF00000000ull, 0x00000000FFFFFFFFull, 0xFFFFFFFEFFFFFFFFull};
  for (auto a : ux) for (auto b : ux) do_mul(a, b);
  for (int i = 0; i < N; ++i) {
    uint64_t a = g.next(), b = g.next();
    if (g.chance(30)) a >>= (g.next() % 64);
    if (g.chance(30)) b >>= (g.next() % 64);
    do_mul(a, b);
  }
  // ProductsAreEqual: lattice^4 restricted (thorough: full), equal-product constructions, random
  auto lat = lattice();
  lat.push_back(I64MAX); lat.push_back(I64MIN); lat.push_back(I64MIN + 1);
  size_t L = thorough ? lat.size() : 9;
  for (size_t i = 0; i < L; ++i) for (size_t j = 0; j < L; ++j) for (size_t k = 0; k < L; ++k) for (size_t l = 0; l < L; ++l)
    if (thorough || ((i + j + k + l) % 3 == 0)) do_pae(lat[i], lat[j], lat[k], lat[l]);
  for (int i = 0; i < N; ++i) {
    int64_t a = rnd_coord(g), b = rnd_coord(g), c = rnd_coord(g), d = rnd_coord(g);
    if (g.chance(40)) {  // force a*b == c*d : (p*q)*(r*s) = (p*r)*(q*s)
      int64_t p = g.range(-60000, 60000), q = g.range(-30000, 30000), r = g.range(-60000, 60000), s = g.range(-30000, 30000);
      a = p * q; b = r * s; c = p * r; d = q * s;
      if (g.chance(30)) c = -c;
      if (g.chance(10)) { a *= 1048576; d *= 1048576; }
    }
    do_pae(a, b, c, d);
  }
  // CrossProductSign / IsCollinear
  for (size_t i = 0; i < lat.size(); ++i) for (size_t j = 0; j < lat.size(); ++j)
    do_cps(Point64(lat[i], lat[j]), Point64(lat[(i * 7 + 3) % lat.size()], lat[(j * 5 + 1) % lat.size()]), Point64(lat[(i + j) % lat.size()], lat[(i * j) % lat.size()]));
  for (int i = 0; i < N; ++i) {
    Point64 p1(rnd_coord(g), rnd_coord(g)), p2(rnd_coord(g), rnd_coord(g)), p3(rnd_coord(g), rnd_coord(g));
    if (g.chance(40)) {  // collinear or off by one
      int64_t k1 = g.range(-1000, 1000), k2 = g.range(-1000, 1000);
      int64_t dx = g.range(-((int64_t)1 << 50), (int64_t)1 << 50), dy = g.range(-((int64_t)1 << 50), (int64_t)1 << 50);
      p1 = Point64(g.range(-1000000, 1000000), g.range(-1000000, 1000000));
      p2 = Point64(p1.x + k1 * dx, p1.y + k1 * dy);
      p3 = Point64(p2.x + k2 * dx, p2.y + k2 * dy);
      if (g.chance(50)) p3.x += g.range(-1, 1);
    }
    do_cps(p1, p2, p3);
  }
  geom_cases(g, thorough);
  flush_stats();
  return 0;
}
