// C01 / C03 harness for output ring assembly: every event of every Execute is replayed on the Lean model `Model/AelRings.lean`
// (driver command AELRINGS), which must reproduce, at every snapshot, the engine's AEL field by field (as AELSIDES does) *and* the OutPt ring
// of every closed output record - live, finished or emptied by a join - point for point and in order.
// Inputs: general position (gp.h, including staircases with horizontal edges), small-lattice inputs with and without horizontal edges
// (coincident vertices, collinear overlapping edges: joins and splits), rectilinear inputs (gp_gen.h), a sheared dense grid, and a corpus;
// all 4 clip types x 4 fill rules, paths and polytree execution, closed paths, in 15% of the random cases an additional open subject path.
// Horizontal joins (ConvertHorzSegsToJoins / ProcessHorzJoins) are not modelled: a trace is cut at the last snapshot before the first such
// join (counted under traces.cut_at_horizontal_join).  Independently of Lean the sink checks the list structure of every ring (F records).
#define VERIF_PRIVATE_ACCESS
#include "unity.h"
#include "gp.h"
#include "gp_gen.h"
#include "aelrings.h"
using namespace vh;

static const ClipType CTS[] = {ClipType::Intersection, ClipType::Union, ClipType::Difference, ClipType::Xor};
static const FillRule FRS[] = {FillRule::EvenOdd, FillRule::NonZero, FillRule::Positive, FillRule::Negative};

static bool has_horizontal(const Paths64& ps, bool closed) {
  for (const Path64& p : ps) {
    size_t n = p.size();
    for (size_t i = 0; i + (closed ? 0 : 1) < n; ++i) if (p[i].y == p[(i + 1) % n].y) return true;
  }
  return false;
}

static long long g_events = 0;

static void run_one(Rng& g, const Paths64& s, const Paths64& cl, const Paths64& op, ClipType ct, FillRule fr, const std::string& kind, bool allow_tree) {
  Clipper64 c;
  c.PreserveCollinear(g.coin());
  c.ReverseSolution(g.coin());
  c.AddSubject(s); c.AddClip(cl);
  if (!op.empty()) c.AddOpenSubject(op);
  Paths64 sol, solo;
  bool ok;
  RingsTraceScope trace;
  if (allow_tree && g.chance(25)) { PolyTree64 t; ok = c.Execute(ct, fr, t, solo); stat("exec.tree"); }
  else { ok = c.Execute(ct, fr, sol, solo); stat("exec.paths"); }
  std::string in = "kind=" + kind + " ct=" + std::to_string((int)ct) + " fr=" + std::to_string((int)fr) + " subj=" + S(s) + " clip=" + S(cl) + " open=" + S(op);
  RingsTrace& t = rings_trace();
  if (!ok) emitF("execute-returned-false", in);
  if (t.has_horz) stat("traces.with_horizontal_edge");
  if (t.has_horz_join) stat("traces.cut_at_horizontal_join." + kind);
  if (t.hh_cross) { stat("skipped.horizontal_crosses_horizontal_undetermined." + kind); return; }
  if (!t.first_error.empty()) emitF("rings-check", t.first_error + " " + in);
  if (!trace.usable()) { emitF("trace-incomplete", "pending split/join items at the end of the sweep " + in); return; }
  emitM("ael-rings." + kind, trace.request((int)ct, (int)fr), "ok");
  stat("trace.items", (long long)t.items.size());
  stat("engine.rings_finished", t.last_done);
  stat("engine.records_emptied_by_join", t.last_gone);
  stat("engine.outpts_created", (long long)t.nops_seen);
  if (t.last_live && !t.has_horz_join) emitF("live-ring-after-sweep", in);
  if (t.last_done > 0) stat("traces.with_finished_ring");
  g_events += (long long)t.items.size();
  stat(std::string("ct.") + std::to_string((int)ct));
  stat(std::string("fr.") + std::to_string((int)fr));
  stat("kind." + kind);
  if (!op.empty()) stat("with_open_paths");
}
static void run_all16(Rng& g, const Paths64& s, const Paths64& cl, const Paths64& op, const std::string& kind, bool allow_tree) {
  for (ClipType ct : CTS) for (FillRule fr : FRS) run_one(g, s, cl, op, ct, fr, kind, allow_tree);
}
static void run_some(Rng& g, const Paths64& s, const Paths64& cl, const Paths64& op, const std::string& kind, int reps) {
  for (int r = 0; r < reps; ++r) run_one(g, s, cl, op, CTS[g.next() % 4], FRS[g.next() % 4], kind, false);
}

int main(int argc, char** argv) {
  Rng g(seed_from_args(argc, argv));
  bool thorough = thorough_from_args(argc, argv);
  {
    Paths64 none;
    // two overlapping triangles; diamond in diamond + bar; pentagram and diamond; two parallelograms sharing a slanted edge (join/split);
    // touching corners; coincident triangles; bow-tie
    run_all16(g, {Path64{Point64(0, 0), Point64(100, 10), Point64(40, 90)}}, {Path64{Point64(50, -20), Point64(130, 60), Point64(20, 50)}}, none, "corpus.triangles", true);
    run_all16(g, {Path64{Point64(0, -100), Point64(100, 1), Point64(2, 100), Point64(-100, -3)}, Path64{Point64(0, -50), Point64(-50, 2), Point64(1, 50), Point64(50, -1)}},
              {Path64{Point64(-130, -20), Point64(130, -10), Point64(125, 15), Point64(-128, 22)}}, none, "corpus.nested", true);
    run_all16(g, {Path64{Point64(0, 1000), Point64(588, -809), Point64(-951, 309), Point64(951, 311), Point64(-588, -807)}},
              {Path64{Point64(0, -400), Point64(410, 3), Point64(-2, 400), Point64(-400, -5)}}, none, "corpus.pentagram", true);
    run_all16(g, {Path64{Point64(0, 0), Point64(10, 2), Point64(14, 12), Point64(4, 10)}, Path64{Point64(10, 2), Point64(20, 4), Point64(24, 14), Point64(14, 12)}},
              {Path64{Point64(5, 5), Point64(17, 7), Point64(19, 17), Point64(7, 15)}}, none, "corpus.shared-edge", false);
    run_all16(g, {Path64{Point64(0, 0), Point64(10, 1), Point64(11, 11), Point64(1, 10)}, Path64{Point64(11, 11), Point64(21, 12), Point64(22, 22), Point64(12, 21)}},
              {Path64{Point64(1, 10), Point64(11, 11), Point64(12, 21), Point64(2, 20)}}, none, "corpus.touching-corners", false);
    run_all16(g, {Path64{Point64(0, 0), Point64(10, 3), Point64(4, 12)}, Path64{Point64(0, 0), Point64(10, 3), Point64(4, 12)}}, {Path64{Point64(0, 0), Point64(10, 3), Point64(4, 12)}}, none, "corpus.coincident", false);
    run_all16(g, {Path64{Point64(0, 0), Point64(20, 21), Point64(21, 1), Point64(1, 20)}}, {Path64{Point64(5, -3), Point64(16, 8), Point64(4, 25)}}, none, "corpus.bowtie", true);
    run_all16(g, {Path64{Point64(0, 0), Point64(30, 2), Point64(31, 32), Point64(1, 30)}}, {Path64{Point64(10, 10), Point64(20, 11), Point64(21, 21), Point64(11, 20)}},
              {Path64{Point64(-5, 15), Point64(35, 16)}, Path64{Point64(15, -5), Point64(16, 35), Point64(25, 5)}}, "corpus.open", false);
  }
  {
    Paths64 none;
    // with horizontal edges: overlapping rectangles, nested, a staircase, a rectangle against a triangle
    run_all16(g, {rect_path(0, 0, 100, 100)}, {rect_path(50, 37, 150, 141)}, none, "corpus.squares", true);
    run_all16(g, {rect_path(0, 0, 100, 100), Path64{Point64(20, 20), Point64(20, 80), Point64(80, 83), Point64(77, 20)}}, {rect_path(-30, 40, 130, 61)}, none, "corpus.nested-squares", true);
    run_all16(g, {Path64{Point64(0, 0), Point64(0, 30), Point64(10, 30), Point64(20, 30), Point64(20, 20), Point64(35, 20), Point64(35, 10), Point64(50, 10), Point64(50, 0)}},
              {Path64{Point64(5, -5), Point64(45, 3), Point64(25, 40)}}, none, "corpus.stairs", true);
    run_all16(g, {rect_path(0, 0, 10, 10), rect_path(10, 0, 20, 10)}, {rect_path(5, 5, 15, 15)}, none, "corpus.rect-shared-edge", false);
    run_all16(g, {rect_path(0, 0, 10, 10), rect_path(10, 10, 20, 20)}, {rect_path(0, 10, 10, 20)}, none, "corpus.rect-touching-corners", false);
  }
  int N = thorough ? 800 : 100;
  for (int i = 0; i < N; ++i) {
    Paths64 op;
    auto mkopen = [&](int64_t R, int pct) {
      if (!g.chance(pct)) return;
      int no = (int)g.range(1, 2);
      for (int k = 0; k < no; ++k) { Path64 p; int n = (int)g.range(2, 5); for (int j = 0; j < n; ++j) p.emplace_back(g.range(-R, R), g.range(-R, R)); op.push_back(p); }
    };
    switch (i % 6) {
      case 0: case 1: {  // general position, all 16 ct x fr
        GpInput in = gen_gp(g);
        if (in.R < ((int64_t)1 << 50)) mkopen(in.R, 15);
        run_all16(g, in.subj, in.clip, op, "gp", true);
        stat("input.magnitude." + std::to_string(in.R));
        break; }
      case 2: {  // small random lattices: coincident vertices, collinear overlaps (joins, splits, touching rings)
        int range = (i % 3 == 0) ? 8 : (i % 3 == 1 ? 40 : 1000);
        auto mk = [&](int n) {
          Path64 p;
          for (int tries = 0; tries < 50; ++tries) {
            p.clear();
            for (int k = 0; k < n; ++k) p.emplace_back(g.range(0, range), g.range(0, range));
            if (!has_horizontal({p}, true)) break;
          }
          return p; };
        Paths64 s, cl; int ns = (int)g.range(1, 3), nc = (int)g.range(1, 3);
        for (int k = 0; k < ns; ++k) s.push_back(mk((int)g.range(3, 7)));
        for (int k = 0; k < nc; ++k) cl.push_back(mk((int)g.range(3, 7)));
        mkopen(range, 15);
        run_some(g, s, cl, op, "lattice", 4);
        break; }
      case 3: {  // rectilinear with shared edges and touching corners (horizontal edges, joins and splits)
        Input in; gen_rectilinear(g, in, g.coin() ? 1 : 10);
        run_some(g, in.subj, in.clip, op, "rect", 4);
        break; }
      case 4: {  // small lattice, horizontal edges allowed
        int range = (i % 3 == 0) ? 8 : 40;
        auto mk = [&](int n) { Path64 p; for (int k = 0; k < n; ++k) p.emplace_back(g.range(0, range), g.range(0, range)); return p; };
        Paths64 s, cl; int ns = (int)g.range(1, 3), nc = (int)g.range(1, 3);
        for (int k = 0; k < ns; ++k) s.push_back(mk((int)g.range(3, 7)));
        for (int k = 0; k < nc; ++k) cl.push_back(mk((int)g.range(3, 7)));
        run_some(g, s, cl, op, "lattice-h", 4);
        break; }
      default: {  // dense tiny grid with many paths, sheared so that no edge is horizontal: x' = x, y' = 3*y + (x mod 3) keeps collinear overlaps on shared lines
        int range = (int)g.range(3, 9);
        auto mk = [&](int n) {
          Path64 p;
          for (int tries = 0; tries < 50; ++tries) {
            p.clear();
            for (int k = 0; k < n; ++k) { int64_t x = g.range(0, range), y = g.range(0, range); p.emplace_back(x, 3 * y + x); }
            if (!has_horizontal({p}, true)) break;
          }
          return p; };
        Paths64 s, cl; int ns = (int)g.range(2, 5), nc = (int)g.range(0, 3);
        for (int k = 0; k < ns; ++k) s.push_back(mk((int)g.range(3, 8)));
        for (int k = 0; k < nc; ++k) cl.push_back(mk((int)g.range(3, 8)));
        run_some(g, s, cl, op, "dense", 4);
        break; }
    }
  }
  RingsTrace& t = rings_trace();
  stat("events.update", t.n_update);
  stat("events.update_several_vertices_without_hook", t.n_multi_update);
  stat("events.insert_pair", t.n_ip);
  stat("events.intersect", t.n_x);
  stat("events.intersect.point_from_intersect_node", t.n_x_node);
  stat("events.intersect.point_from_local_minimum", t.n_x_locmin);
  stat("events.intersect.point_from_maximum", t.n_x_maxima);
  stat("events.intersect.point_from_horizontal", t.n_x_horz);
  stat("events.intersect.horizontal_crosses_horizontal", t.n_x_hh);
  stat("events.remove_pair", t.n_rp);
  stat("events.join", t.n_join);
  stat("events.join.deferred_past_insert", t.n_deferred);
  stat("events.join.point_from_intersect_node", t.n_join_node);
  stat("events.join.point_tie_resolved_by_context", t.n_join_tie);
  stat("events.split", t.n_split);
  stat("events.split.point_from_update", t.n_sp_update);
  stat("events.split.point_from_next_event", t.n_sp_patched);
  stat("trace.snapshots", t.n_snap);
  stat("trace.rings_dumped", t.n_rings_dumped);
  stat("trace.ring_points_dumped", t.n_ring_points);
  flush_stats();
  return 0;
}
