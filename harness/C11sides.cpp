// C11 (success clause) harness: the side bookkeeping of the sweep (front/back edges of output records), replayed on the Lean model
// `Model/AelSides.lean` by the driver command AELSIDES.  The only way Execute returns false is AddLocalMaxPoly meeting two closed
// front edges or two closed back edges; the model proves this unreachable, this harness ties the model to the real engine:
// every event of every Execute is replayed, after every event the model's invariant is checked, and at every snapshot the
// model's (wind counts, hot, join_with, outrec rank, IsFront) must equal the engine's, edge by edge.
// Independently the sink checks pointer consistency and alternation on the real data structure (F records).
#define VERIF_PRIVATE_ACCESS
#include "unity.h"
#include "gp.h"
#include "gp_gen.h"
#include "aelsides.h"
using namespace vh;

static const ClipType CTS[] = {ClipType::Intersection, ClipType::Union, ClipType::Difference, ClipType::Xor};
static const FillRule FRS[] = {FillRule::EvenOdd, FillRule::NonZero, FillRule::Positive, FillRule::Negative};

static void run_one(Rng& g, const Paths64& s, const Paths64& cl, const Paths64& op, ClipType ct, FillRule fr, const std::string& kind, bool allow_tree) {
  Clipper64 c;
  bool pc = g.coin();
  c.PreserveCollinear(pc);
  c.ReverseSolution(g.coin());
  c.AddSubject(s); c.AddClip(cl);
  if (!op.empty()) c.AddOpenSubject(op);
  Paths64 sol, solo;
  bool ok;
  SidesTraceScope trace;
  if (allow_tree && g.chance(25)) { PolyTree64 t; ok = c.Execute(ct, fr, t, solo); stat("exec.tree"); }
  else { ok = c.Execute(ct, fr, sol, solo); stat("exec.paths"); }
  std::string in = "kind=" + kind + " ct=" + std::to_string((int)ct) + " fr=" + std::to_string((int)fr) + " subj=" + S(s) + " clip=" + S(cl) + " open=" + S(op);
  emitM("ael-sides." + kind, trace.request((int)ct, (int)fr), "ok");
  stat("trace.items", sides_trace().nitems);
  if (!ok) emitF("execute-returned-false", in);
  if (!sides_trace().first_error.empty()) emitF("sides-check", sides_trace().first_error + " " + in);
  stat(std::string("ct.") + std::to_string((int)ct));
  stat(std::string("fr.") + std::to_string((int)fr));
  stat("kind." + kind);
  if (!op.empty()) stat("with_open_paths");
}
static void run_all16(Rng& g, const Paths64& s, const Paths64& cl, const Paths64& op, const std::string& kind, bool allow_tree) {
  for (ClipType ct : CTS) for (FillRule fr : FRS) run_one(g, s, cl, op, ct, fr, kind, allow_tree);
}

int main(int argc, char** argv) {
  Rng g(seed_from_args(argc, argv));
  bool thorough = thorough_from_args(argc, argv);
  // corpus: two overlapping squares; nested opposite squares + bar; pentagram; two squares sharing an edge (join/split);
  // touching corners; coincident squares
  {
    Paths64 none;
    run_all16(g, {rect_path(0, 0, 100, 100)}, {rect_path(50, 37, 150, 141)}, none, "corpus.squares", true);
    run_all16(g, {rect_path(0, 0, 100, 100), Path64{Point64(20, 20), Point64(20, 80), Point64(80, 83), Point64(77, 20)}}, {rect_path(-30, 40, 130, 61)}, none, "corpus.nested", true);
    run_all16(g, {Path64{Point64(0, 1000), Point64(588, -809), Point64(-951, 309), Point64(951, 311), Point64(-588, -807)}}, {rect_path(-400, -390, 410, 400)}, none, "corpus.pentagram", true);
    run_all16(g, {rect_path(0, 0, 10, 10), rect_path(10, 0, 20, 10)}, {rect_path(5, 5, 15, 15)}, none, "corpus.shared-edge", false);
    run_all16(g, {rect_path(0, 0, 10, 10), rect_path(10, 10, 20, 20)}, {rect_path(0, 10, 10, 20)}, none, "corpus.touching-corners", false);
    run_all16(g, {rect_path(0, 0, 10, 10), rect_path(0, 0, 10, 10)}, {rect_path(0, 0, 10, 10)}, none, "corpus.coincident", false);
    run_all16(g, {rect_path(0, 0, 30, 30)}, {rect_path(10, 10, 20, 20)}, {Path64{Point64(-5, 15), Point64(35, 16)}, Path64{Point64(15, -5), Point64(15, 35), Point64(25, 5)}}, "corpus.open", false);
  }
  int N = thorough ? 9000 : 600;
  for (int i = 0; i < N; ++i) {
    Paths64 op;
    auto mkopen = [&](int64_t R, int pct) {
      if (!g.chance(pct)) return;
      int no = (int)g.range(1, 3);
      for (int k = 0; k < no; ++k) { Path64 p; int n = (int)g.range(2, 6); for (int j = 0; j < n; ++j) p.emplace_back(g.range(-R, R), g.range(-R, R)); op.push_back(p); }
    };
    auto rnd_ct = [&]() { return CTS[g.next() % 4]; };
    auto rnd_fr = [&]() { return FRS[g.next() % 4]; };
    switch (i % 6) {
      case 0: {  // general position, all 16 ct x fr
        GpInput in = gen_gp(g);
        if (in.R < ((int64_t)1 << 50)) mkopen(in.R, 20);
        run_all16(g, in.subj, in.clip, op, "gp", true);
        stat("input.magnitude." + std::to_string(in.R));
        break; }
      case 1: {  // small random lattices: coincident vertices, collinear overlaps, horizontals
        int range = (i % 3 == 0) ? 8 : (i % 3 == 1 ? 40 : 1000);
        auto mk = [&](int n) { Path64 p; for (int k = 0; k < n; ++k) p.emplace_back(g.range(0, range), g.range(0, range)); return p; };
        Paths64 s, cl; int ns = (int)g.range(1, 3), nc = (int)g.range(1, 3);
        for (int k = 0; k < ns; ++k) s.push_back(mk((int)g.range(3, 8)));
        for (int k = 0; k < nc; ++k) cl.push_back(mk((int)g.range(3, 8)));
        mkopen(range, 25);
        for (int r = 0; r < 4; ++r) run_one(g, s, cl, op, rnd_ct(), rnd_fr(), "lattice", false);
        break; }
      case 2: {  // rectilinear with shared edges and touching corners (joins and splits)
        Input in; gen_rectilinear(g, in, g.coin() ? 1 : 10);
        mkopen(12, 20);
        for (int r = 0; r < 4; ++r) run_one(g, in.subj, in.clip, op, rnd_ct(), rnd_fr(), "rect", false);
        break; }
      case 3: {  // nested rings / touching holes
        Input in;
        if (g.coin()) gen_nested(g, in, (int)g.range(1, 5), g.coin()); else gen_touching_holes(g, in);
        for (int r = 0; r < 4; ++r) run_one(g, in.subj, in.clip, op, rnd_ct(), rnd_fr(), "nested-touching", false);
        break; }
      case 4: {  // degenerate: empty, 1-2 points, duplicates, spikes, collinear runs, extreme magnitudes
        Input in; gen_degenerate(g, in);
        for (int r = 0; r < 4; ++r) run_one(g, in.subj, in.clip, op, rnd_ct(), rnd_fr(), "degenerate", false);
        break; }
      default: {  // dense tiny grid with many paths: many coincident edges, joins, splits, horizontals
        int range = (int)g.range(3, 12);
        auto mk = [&](int n) { Path64 p; for (int k = 0; k < n; ++k) p.emplace_back(g.range(0, range), g.range(0, range)); return p; };
        Paths64 s, cl; int ns = (int)g.range(2, 6), nc = (int)g.range(0, 4);
        for (int k = 0; k < ns; ++k) s.push_back(mk((int)g.range(3, 10)));
        for (int k = 0; k < nc; ++k) cl.push_back(mk((int)g.range(3, 10)));
        mkopen(range, 25);
        for (int r = 0; r < 4; ++r) run_one(g, s, cl, op, rnd_ct(), rnd_fr(), "dense", false);
        break; }
    }
  }
  SidesTrace& t = sides_trace();
  stat("trace.edge_observations", t.nedges);
  stat("trace.hot_closed_edge_observations", t.nhot_closed);
  stat("trace.joined_edge_observations", t.njoined);
  stat("trace.snapshots", t.nsnap);
  stat("trace.join_events", t.njoin_ev);
  stat("trace.split_events", t.nsplit_ev);
  stat("trace.join_events_deferred_past_insert", t.ndeferred);
  flush_stats();
  return 0;
}
